(* C08 — logger registry (linearizability of NewLogger) and byteslicepool (no carry-over). *)
From Kit Require Import C08.Model C08.Spec C08.Proofs.
From Coq Require Import Lia Arith.

(* ---------------------------------------------------------------------------------------- *)
(* registry *)

Lemma seq_registry_snoc names o : forall m n acc t,
  seq_registry names (o ++ [t]) m n acc =
  let '(m', n', acc') := seq_registry names o m n acc in
  match lookup (names t) m' with
  | Some l => (m', n', acc' ++ [(t, l)])
  | None => ((names t, n') :: m', S n', acc' ++ [(t, n')])
  end.
Proof.
  induction o as [|x o IH]; intros m n acc t; cbn [app seq_registry].
  - destruct (lookup (names t) m); reflexivity.
  - destruct (lookup (names x) m); apply IH.
Qed.

Definition crit (p : rpc) : Prop :=
  match p with RLocked | RMiss | RHave _ => True | _ => False end.

Definition pre_body (p : rpc) : Prop := p = RLocked \/ p = RMiss.

Record RInv (names : nat -> name) (s : rstate) : Prop := mkRInv {
  ri_excl : forall t t', crit (r_pc s t) -> crit (r_pc s t') -> t = t';
  ri_free : r_lock s = false -> forall t, ~ crit (r_pc s t);
  ri_miss : forall t, r_pc s t = RMiss -> lookup (names t) (r_map s) = None;
  ri_lin : exists applied res,
      seq_registry names applied [] 0 [] = (r_map s, r_next s, res) /\
      (forall t l, r_pc s t = RHave l \/ r_pc s t = RDone l -> In (t, l) res) /\
      ((r_order s = applied /\ forall t, ~ pre_body (r_pc s t)) \/
       exists t, r_order s = applied ++ [t] /\ pre_body (r_pc s t))
}.

Lemma RInv_init names : RInv names rinit.
Proof.
  constructor; cbn.
  - intros t t' H. destruct H.
  - intros _ t H. exact H.
  - discriminate.
  - exists [], []. split; [reflexivity|]. split.
    + intros t l [H|H]; discriminate.
    + left. split; [reflexivity|]. intros t [H|H]; discriminate.
Qed.

Ltac upd_cases t0 t :=
  destruct (Nat.eq_dec t0 t) as [->|?]; [rewrite ?upd_same in * | rewrite ?upd_other in * by assumption].

Lemma RInv_step names s e s' : RInv names s -> rstep names s e = Some s' -> RInv names s'.
Proof.
  intros [Hex Hfree Hmiss (applied & res & Hseq & Hres & Hord)] Hst.
  destruct e as [t|t|t|t]; cbn [rstep] in Hst.
  - (* RAcq *)
    destruct (r_pc s t) eqn:Ept; try discriminate.
    destruct (r_lock s) eqn:El; [discriminate|]. inversion Hst; subst; clear Hst.
    pose proof (Hfree eq_refl) as Hnc.
    constructor; cbn [r_lock r_map r_next r_pc r_order].
    + intros a b Ha Hb. upd_cases a t; upd_cases b t; try reflexivity; exfalso.
      * eapply Hnc; exact Hb.
      * eapply Hnc; exact Ha.
      * eapply Hnc; exact Ha.
    + discriminate.
    + intros a Ha. upd_cases a t; [discriminate | apply Hmiss; exact Ha].
    + exists applied, res. split; [exact Hseq|]. split.
      * intros a l Ha. upd_cases a t; [destruct Ha; discriminate | apply Hres; exact Ha].
      * right. exists t. rewrite upd_same. split; [|left; reflexivity].
        destruct Hord as [[Ho _]|[t0 [_ Hp]]]; [rewrite Ho; reflexivity|].
        exfalso. apply (Hnc t0). destruct Hp as [Hp|Hp]; rewrite Hp; exact I.
  - (* RLook *)
    destruct (r_pc s t) eqn:Ept; try discriminate.
    assert (Hct : crit (r_pc s t)) by (rewrite Ept; exact I).
    assert (Hord' : r_order s = applied ++ [t]).
    { destruct Hord as [[_ Hn]|[t0 [Ho Hp]]].
      - exfalso. apply (Hn t). left. exact Ept.
      - assert (t0 = t); [|subst; exact Ho].
        apply Hex; [|exact Hct]. destruct Hp as [Hp|Hp]; rewrite Hp; exact I. }
    assert (Hlock : r_lock s = true).
    { destruct (r_lock s) eqn:El; [reflexivity|]. exfalso. eapply Hfree; [reflexivity | exact Hct]. }
    destruct (lookup (names t) (r_map s)) as [l|] eqn:El; inversion Hst; subst; clear Hst.
    + constructor; cbn [r_lock r_map r_next r_pc r_order].
      * intros a b Ha Hb. upd_cases a t; upd_cases b t; try reflexivity.
        -- symmetry. apply Hex; assumption.
        -- apply Hex; assumption.
        -- apply Hex; assumption.
      * rewrite Hlock. discriminate.
      * intros a Ha. upd_cases a t; [discriminate | apply Hmiss; exact Ha].
      * exists (applied ++ [t]), (res ++ [(t, l)]). split.
        -- rewrite seq_registry_snoc, Hseq. rewrite El. reflexivity.
        -- split.
           ++ intros a l0 Ha. upd_cases a t.
              ** apply in_or_app. right. left. destruct Ha as [Ha|Ha]; inversion Ha; reflexivity.
              ** apply in_or_app. left. apply Hres. exact Ha.
           ++ left. split; [exact Hord'|]. intros a Ha. upd_cases a t.
              ** destruct Ha; discriminate.
              ** apply n. apply Hex; [|exact Hct]. destruct Ha as [Ha|Ha]; rewrite Ha; exact I.
    + constructor; cbn [r_lock r_map r_next r_pc r_order].
      * intros a b Ha Hb. upd_cases a t; upd_cases b t; try reflexivity.
        -- symmetry. apply Hex; assumption.
        -- apply Hex; assumption.
        -- apply Hex; assumption.
      * rewrite Hlock. discriminate.
      * intros a Ha. upd_cases a t; [exact El | apply Hmiss; exact Ha].
      * exists applied, res. split; [exact Hseq|]. split.
        -- intros a l0 Ha. upd_cases a t; [destruct Ha; discriminate | apply Hres; exact Ha].
        -- right. exists t. rewrite upd_same. split; [exact Hord' | right; reflexivity].
  - (* RIns *)
    destruct (r_pc s t) eqn:Ept; try discriminate.
    inversion Hst; subst; clear Hst.
    assert (Hct : crit (r_pc s t)) by (rewrite Ept; exact I).
    assert (Hord' : r_order s = applied ++ [t]).
    { destruct Hord as [[_ Hn]|[t0 [Ho Hp]]].
      - exfalso. apply (Hn t). right. exact Ept.
      - assert (t0 = t); [|subst; exact Ho].
        apply Hex; [|exact Hct]. destruct Hp as [Hp|Hp]; rewrite Hp; exact I. }
    assert (Hlock : r_lock s = true).
    { destruct (r_lock s) eqn:El; [reflexivity|]. exfalso. eapply Hfree; [reflexivity | exact Hct]. }
    pose proof (Hmiss t Ept) as El.
    constructor; cbn [r_lock r_map r_next r_pc r_order].
    + intros a b Ha Hb. upd_cases a t; upd_cases b t; try reflexivity.
      * symmetry. apply Hex; assumption.
      * apply Hex; assumption.
      * apply Hex; assumption.
    + rewrite Hlock. discriminate.
    + intros a Ha. upd_cases a t; [discriminate|].
      exfalso. apply n. apply Hex; [rewrite Ha; exact I | exact Hct].
    + exists (applied ++ [t]), (res ++ [(t, r_next s)]). split.
      * rewrite seq_registry_snoc, Hseq. rewrite El. reflexivity.
      * split.
        -- intros a l0 Ha. upd_cases a t.
           ++ apply in_or_app. right. left. destruct Ha as [Ha|Ha]; inversion Ha; reflexivity.
           ++ apply in_or_app. left. apply Hres. exact Ha.
        -- left. split; [exact Hord'|]. intros a Ha. upd_cases a t.
           ++ destruct Ha; discriminate.
           ++ apply n. apply Hex; [|exact Hct]. destruct Ha as [Ha|Ha]; rewrite Ha; exact I.
  - (* RRel *)
    destruct (r_pc s t) eqn:Ept; try discriminate.
    inversion Hst; subst; clear Hst.
    assert (Hct : crit (r_pc s t)) by (rewrite Ept; exact I).
    assert (Hnone : forall a, a <> t -> ~ crit (r_pc s a)).
    { intros a Hne Ha. apply Hne. apply Hex; assumption. }
    constructor; cbn [r_lock r_map r_next r_pc r_order].
    + intros a b Ha Hb. upd_cases a t; [destruct Ha|]. exfalso. eapply Hnone; eassumption.
    + intros _ a Ha. upd_cases a t; [destruct Ha|]. eapply Hnone; eassumption.
    + intros a Ha. upd_cases a t; [discriminate | apply Hmiss; exact Ha].
    + exists applied, res. split; [exact Hseq|]. split.
      * intros a l0 Ha. upd_cases a t.
        -- apply Hres. left. destruct Ha as [Ha|Ha]; inversion Ha; subst; exact Ept.
        -- apply Hres. exact Ha.
      * left. split.
        -- destruct Hord as [[Ho _]|[t0 [_ Hp]]]; [exact Ho|]. exfalso.
           assert (t0 = t) by (apply Hex; [destruct Hp as [Hp|Hp]; rewrite Hp; exact I | exact Hct]).
           subst. destruct Hp as [Hp|Hp]; congruence.
        -- intros a Ha. upd_cases a t; [destruct Ha; discriminate|].
           eapply Hnone; [eassumption|]. destruct Ha as [Ha|Ha]; rewrite Ha; exact I.
Qed.

Lemma RInv_run names es : forall s s', RInv names s -> rrun names s es = Some s' -> RInv names s'.
Proof.
  induction es as [|e es IH]; intros s s' I H; cbn [rrun] in H.
  - inversion H; subst. exact I.
  - destruct (rstep names s e) as [s1|] eqn:E; [|discriminate].
    eapply IH; [eapply RInv_step; eassumption | exact H].
Qed.

Theorem registry_linearizable names es s :
  rrun names rinit es = Some s ->
  exists applied res,
    seq_registry names applied [] 0 [] = (r_map s, r_next s, res) /\
    (forall t l, r_pc s t = RHave l \/ r_pc s t = RDone l -> In (t, l) res) /\
    (r_order s = applied \/ exists t, r_order s = applied ++ [t] /\
                                      (r_pc s t = RLocked \/ r_pc s t = RMiss)).
Proof.
  intro H. destruct (RInv_run names es _ _ (RInv_init names) H) as [_ _ _ (applied & res & H1 & H2 & H3)].
  exists applied, res. split; [exact H1|]. split; [exact H2|].
  destruct H3 as [[Ho _]|[t [Ho Hp]]]; [left; exact Ho | right; exists t; split; assumption].
Qed.

(* the sequential registry: functional and injective *)
Definition SI (names : nat -> name) (m : list (name * logger)) (nx : logger) (acc : list (nat * logger)) : Prop :=
  (forall n l, lookup n m = Some l -> l < nx) /\
  (forall n n' l, lookup n m = Some l -> lookup n' m = Some l -> n = n') /\
  (forall t l, In (t, l) acc -> lookup (names t) m = Some l).

Lemma SI_run names order : forall m nx acc m' nx' res,
  SI names m nx acc -> seq_registry names order m nx acc = (m', nx', res) -> SI names m' nx' res.
Proof.
  induction order as [|t order IH]; intros m nx acc m' nx' res HSI H; cbn [seq_registry] in H.
  - inversion H; subst. exact HSI.
  - destruct HSI as (Hb & Hinj & Hacc).
    destruct (lookup (names t) m) as [l|] eqn:El.
    + eapply IH; [|exact H]. split; [exact Hb|]. split; [exact Hinj|].
      intros t0 l0 Hin. apply in_app_or in Hin. destruct Hin as [Hin|[Hin|[]]].
      * apply Hacc. exact Hin.
      * inversion Hin; subst. exact El.
    + eapply IH; [|exact H]. split; [|split].
      * intros n l. cbn [lookup]. destruct (names t =? n)%Z.
        -- intro E. inversion E. lia.
        -- intro E. apply Hb in E. lia.
      * intros n n' l. cbn [lookup].
        destruct (Z.eqb_spec (names t) n), (Z.eqb_spec (names t) n'); intros E1 E2.
        -- congruence.
        -- inversion E1; subst. apply Hb in E2. lia.
        -- inversion E2; subst. apply Hb in E1. lia.
        -- eapply Hinj; eassumption.
      * intros t0 l0 Hin. apply in_app_or in Hin. cbn [lookup]. destruct Hin as [Hin|[Hin|[]]].
        -- pose proof (Hacc _ _ Hin) as E.
           destruct (Z.eqb_spec (names t) (names t0)) as [Heq|]; [|exact E].
           rewrite <- Heq in E. congruence.
        -- inversion Hin; subst. rewrite Z.eqb_refl. reflexivity.
Qed.

Theorem seq_registry_consistent names order m nx res t1 l1 t2 l2 :
  seq_registry names order [] 0 [] = (m, nx, res) ->
  In (t1, l1) res -> In (t2, l2) res -> (names t1 = names t2 <-> l1 = l2).
Proof.
  intros H H1 H2.
  assert (HSI : SI names [] 0 []).
  { split; [|split]; cbn; intros; try discriminate; contradiction. }
  destruct (SI_run names order _ _ _ _ _ _ HSI H) as (_ & Hinj & Hacc).
  apply Hacc in H1, H2. split.
  - intro E. rewrite E in H1. congruence.
  - intro E. subst. eapply Hinj; eassumption.
Qed.

(* no orphans: the logger a caller was given is the one registered under its name, so whatever
   is applied to the registered loggers reaches it *)
Theorem registry_no_orphan names es s t l :
  rrun names rinit es = Some s ->
  r_pc s t = RHave l \/ r_pc s t = RDone l -> lookup (names t) (r_map s) = Some l.
Proof.
  intros H Hp. destruct (registry_linearizable names es s H) as (applied & res & Hseq & Hres & _).
  assert (HSI : SI names [] 0 []).
  { split; [|split]; cbn; intros; try discriminate; contradiction. }
  destruct (SI_run names applied _ _ _ _ _ _ HSI Hseq) as (_ & _ & Hacc).
  apply Hacc. apply Hres. exact Hp.
Qed.

(* the read-locked fast path without a second look-up under the write lock: two overlapping
   first look-ups of one name get different loggers and the first one is orphaned *)
Theorem registry_fastpath_refuted :
  exists names es s,
    frun names finit es = Some s /\ names 0 = names 1 /\
    f_pc s 0 = FDone 0 /\ f_pc s 1 = FDone 1 /\ lookup (names 0) (f_map s) = Some 1.
Proof.
  exists (fun _ => 5%Z), [FPeek 0; FPeek 1; FAcq 0; FStore 0; FAcq 1; FStore 1].
  eexists. split; [vm_compute; reflexivity|]. repeat split; vm_compute; reflexivity.
Qed.

(* ---------------------------------------------------------------------------------------- *)
(* byteslicepool *)

Lemma map_wr_seq h data : forall n, map (wr h n data) (seq n (length data)) = data.
Proof.
  intro n. apply nth_ext with (d := 0%N) (d' := 0%N).
  - rewrite map_length, seq_length. reflexivity.
  - rewrite map_length, seq_length. intros i Hi.
    rewrite nth_indep with (d' := wr h n data 0) by (rewrite map_length, seq_length; exact Hi).
    rewrite map_nth. rewrite seq_nth by exact Hi. unfold wr.
    assert (E1 : (n <=? n + i) = true) by (apply Nat.leb_le; lia).
    assert (E2 : (n + i <? n + length data) = true) by (apply Nat.ltb_lt; lia).
    rewrite E1, E2. cbn [andb]. f_equal. lia.
Qed.

Lemma rd_wr_append h n data : rd (wr h n data) 0 (n + length data) = rd h 0 n ++ data.
Proof.
  unfold rd. rewrite seq_app, map_app. cbn [Nat.add]. f_equal.
  - apply map_ext_in. intros j Hj. apply in_seq in Hj. unfold wr.
    assert (E : (n <=? j) = false) by (apply Nat.leb_gt; lia). rewrite E. reflexivity.
  - apply map_wr_seq.
Qed.

Record BInv (s : bstate) : Prop := mkBInv {
  bi_lt : forall t sl, b_held s t = Some sl -> sl_buf sl < b_next s;
  bi_uniq : forall t t' sl sl', b_held s t = Some sl -> b_held s t' = Some sl' ->
                                sl_buf sl = sl_buf sl' -> t = t';
  bi_pool_lt : forall sl, In sl (b_pool s) -> sl_buf sl < b_next s;
  bi_sep : forall t sl sl', b_held s t = Some sl -> In sl' (b_pool s) -> sl_buf sl' <> sl_buf sl
}.

(* everything beyond the length of a slice (held or pooled) is zero *)
Record Clean (s : bstate) : Prop := mkClean {
  cl_held : forall t sl j, b_held s t = Some sl -> sl_len sl <= j -> b_heap s (sl_buf sl) j = 0%N;
  cl_pool : forall sl j, In sl (b_pool s) -> sl_len sl <= j -> b_heap s (sl_buf sl) j = 0%N
}.

Lemma rd_split h a b : rd h 0 (a + b) = rd h 0 a ++ rd h a b.
Proof. unfold rd. rewrite seq_app, map_app. reflexivity. Qed.

Lemma rd_zero h k : forall a, (forall j, a <= j -> h j = 0%N) -> rd h a k = repeat 0%N k.
Proof.
  unfold rd. induction k as [|k IH]; intros a H; cbn [seq map repeat]; [reflexivity|].
  rewrite (H a) by lia. f_equal. apply IH. intros j Hj. apply H. lia.
Qed.

Lemma rd_grow h len n :
  len <= n -> (forall j, len <= j -> h j = 0%N) ->
  rd h 0 n = firstn n (rd h 0 len) ++ repeat 0%N (n - length (rd h 0 len)).
Proof.
  intros Hle Hz. rewrite rd_length.
  rewrite firstn_all2 by (rewrite rd_length; exact Hle).
  replace n with (len + (n - len)) at 1 by lia. rewrite rd_split. f_equal.
  apply rd_zero. exact Hz.
Qed.

Lemma wr_beyond h off data j : off + length data <= j -> wr h off data j = h j.
Proof.
  intro H. unfold wr. assert (E : (j <? off + length data) = false) by (apply Nat.ltb_ge; lia).
  rewrite E, andb_false_r. reflexivity.
Qed.

Definition vis_after (e : bevent) (t : nat) (old : list N) : list N :=
  match e with
  | BGet t' _ _ => if t' =? t then [] else old
  | BAppend t' d => if t' =? t then old ++ d else old
  | BResize t' n | BResizeKeep t' _ n => if t' =? t then firstn n old ++ repeat 0%N (n - length old) else old
  | BPut t' => if t' =? t then [] else old
  end.

Lemma appended_step t e es acc : appended t (e :: es) acc = appended t es (vis_after e t acc).
Proof. destruct e; reflexivity. Qed.

Lemma clear_upto_ge v sl : sl_len sl <= clear_upto v sl.
Proof. destruct v; cbn; lia. Qed.

Lemma bstep_ok v mincap s e s' :
  BInv s -> Clean s -> grows s e -> bstep v mincap s e = Some s' ->
  BInv s' /\ forall t, visible s' t = vis_after e t (visible s t).
Proof.
  intros [Hlt Huq Hplt Hsep] [Hch Hcp] Hgr Hst.
  destruct e as [t0 capacity c|t0 data|t0 n|t0 t1 n|t0]; [| | |destruct Hgr|]; cbn [bstep] in Hst.
  - (* BGet *)
    destruct (b_held s t0) eqn:Eh; [discriminate|].
    destruct (match c with Some b => find (has_buf b) (b_pool s) | None => None end) as [sl|] eqn:Ef;
      inversion Hst; subst; clear Hst.
    + assert (Hin : In sl (b_pool s)).
      { destruct c as [b|]; [|discriminate]. apply find_some in Ef. apply Ef. }
      split.
      * constructor; cbn [b_heap b_pool b_next b_held].
        -- intros t sl0. upd_cases t t0.
           ++ intro E. inversion E; subst. cbn. apply Hplt. exact Hin.
           ++ apply Hlt.
        -- intros t t' sl1 sl2. upd_cases t t0; upd_cases t' t0; try reflexivity.
           ++ intros E1 E2 E3. inversion E1; subst. cbn in E3. exfalso.
              eapply Hsep; [exact E2 | exact Hin | exact E3].
           ++ intros E1 E2 E3. inversion E2; subst. cbn in E3. exfalso.
              eapply Hsep; [exact E1 | exact Hin | symmetry; exact E3].
           ++ apply Huq.
        -- intros sl0 H0. apply filter_In in H0. apply Hplt. apply H0.
        -- intros t sl1 sl2. upd_cases t t0.
           ++ intros E H0. inversion E; subst. cbn. apply filter_In in H0. destruct H0 as [_ H0].
              unfold has_buf in H0. apply negb_true_iff, Nat.eqb_neq in H0. exact H0.
           ++ intros E H0. apply filter_In in H0. eapply Hsep; [exact E | apply H0].
      * intro t. unfold visible. cbn [b_heap b_held vis_after].
        destruct (Nat.eq_dec t0 t) as [->|Hne].
        -- rewrite upd_same, Nat.eqb_refl. reflexivity.
        -- rewrite upd_other by congruence. apply Nat.eqb_neq in Hne. rewrite Hne.
           destruct (b_held s t) as [sl1|] eqn:E1; [|reflexivity].
           rewrite upd_other; [reflexivity|]. intro E. eapply Hsep; [exact E1 | exact Hin | symmetry; exact E].
    + split.
      * constructor; cbn [b_heap b_pool b_next b_held].
        -- intros t sl0. upd_cases t t0.
           ++ intro E. inversion E; subst. cbn. lia.
           ++ intro E. apply Hlt in E. lia.
        -- intros t t' sl1 sl2. upd_cases t t0; upd_cases t' t0; try reflexivity.
           ++ intros E1 E2 E3. inversion E1; subst. cbn in E3. apply Hlt in E2. lia.
           ++ intros E1 E2 E3. inversion E2; subst. cbn in E3. apply Hlt in E1. lia.
           ++ apply Huq.
        -- intros sl0 H0. apply Hplt in H0. lia.
        -- intros t sl1 sl2. upd_cases t t0.
           ++ intros E H0. inversion E; subst. cbn. apply Hplt in H0. lia.
           ++ apply Hsep.
      * intro t. unfold visible. cbn [b_heap b_held vis_after].
        destruct (Nat.eq_dec t0 t) as [->|Hne].
        -- rewrite upd_same, Nat.eqb_refl. reflexivity.
        -- rewrite upd_other by congruence. apply Nat.eqb_neq in Hne. rewrite Hne.
           destruct (b_held s t) as [sl1|] eqn:E1; [|reflexivity].
           rewrite upd_other; [reflexivity|]. apply Hlt in E1. lia.
  - (* BAppend *)
    destruct (b_held s t0) as [sl|] eqn:Eh; [|discriminate].
    destruct (sl_len sl + length data <=? sl_cap sl); inversion Hst; subst; clear Hst.
    + split.
      * constructor; cbn [b_heap b_pool b_next b_held].
        -- intros t sl0. upd_cases t t0.
           ++ intro E. inversion E; subst. cbn. eapply Hlt; exact Eh.
           ++ apply Hlt.
        -- intros t t' sl1 sl2. upd_cases t t0; upd_cases t' t0; try reflexivity.
           ++ intros E1 E2 E3. inversion E1; subst. cbn in E3. eapply Huq; eassumption.
           ++ intros E1 E2 E3. inversion E2; subst. cbn in E3. eapply Huq; eassumption.
           ++ apply Huq.
        -- exact Hplt.
        -- intros t sl1 sl2. upd_cases t t0.
           ++ intros E H0. inversion E; subst. cbn. eapply Hsep; eassumption.
           ++ apply Hsep.
      * intro t. unfold visible. cbn [b_heap b_held vis_after].
        destruct (Nat.eq_dec t0 t) as [->|Hne].
        -- rewrite upd_same, Nat.eqb_refl, Eh. cbn [sl_buf sl_len]. rewrite upd_same.
           apply rd_wr_append.
        -- rewrite upd_other by congruence. pose proof Hne as Hne'. apply Nat.eqb_neq in Hne. rewrite Hne.
           destruct (b_held s t) as [sl1|] eqn:E1; [|reflexivity].
           rewrite upd_other; [reflexivity|]. intro E. apply Hne'. symmetry.
           eapply Huq; [exact E1 | exact Eh | exact E].
    + split.
      * constructor; cbn [b_heap b_pool b_next b_held].
        -- intros t sl0. upd_cases t t0.
           ++ intro E. inversion E; subst. cbn. lia.
           ++ intro E. apply Hlt in E. lia.
        -- intros t t' sl1 sl2. upd_cases t t0; upd_cases t' t0; try reflexivity.
           ++ intros E1 E2 E3. inversion E1; subst. cbn in E3. apply Hlt in E2. lia.
           ++ intros E1 E2 E3. inversion E2; subst. cbn in E3. apply Hlt in E1. lia.
           ++ apply Huq.
        -- intros sl0 H0. apply Hplt in H0. lia.
        -- intros t sl1 sl2. upd_cases t t0.
           ++ intros E H0. inversion E; subst. cbn. apply Hplt in H0. lia.
           ++ apply Hsep.
      * intro t. unfold visible. cbn [b_heap b_held vis_after].
        destruct (Nat.eq_dec t0 t) as [->|Hne].
        -- rewrite upd_same, Nat.eqb_refl, Eh. cbn [sl_buf sl_len]. rewrite upd_same.
           pose proof (rd_wr_append (fun _ => 0%N) 0 (rd (b_heap s (sl_buf sl)) 0 (sl_len sl) ++ data)) as E.
           cbn [Nat.add] in E. rewrite app_length, rd_length in E. rewrite E. reflexivity.
        -- rewrite upd_other by congruence. apply Nat.eqb_neq in Hne. rewrite Hne.
           destruct (b_held s t) as [sl1|] eqn:E1; [|reflexivity].
           rewrite upd_other; [reflexivity|]. apply Hlt in E1. lia.
  - (* BResize *)
    destruct (b_held s t0) as [sl|] eqn:Eh; [|discriminate].
    cbn [grows] in Hgr. rewrite Eh in Hgr.
    destruct (n <? sl_cap sl); inversion Hst; subst; clear Hst.
    + split.
      * constructor; cbn [b_heap b_pool b_next b_held].
        -- intros t sl0. upd_cases t t0.
           ++ intro E. inversion E; subst. cbn. eapply Hlt; exact Eh.
           ++ apply Hlt.
        -- intros t t' sl1 sl2. upd_cases t t0; upd_cases t' t0; try reflexivity.
           ++ intros E1 E2 E3. inversion E1; subst. cbn in E3. eapply Huq; eassumption.
           ++ intros E1 E2 E3. inversion E2; subst. cbn in E3. eapply Huq; eassumption.
           ++ apply Huq.
        -- exact Hplt.
        -- intros t sl1 sl2. upd_cases t t0.
           ++ intros E H0. inversion E; subst. cbn. eapply Hsep; eassumption.
           ++ apply Hsep.
      * intro t. unfold visible. cbn [b_heap b_held vis_after].
        destruct (Nat.eq_dec t0 t) as [->|Hne].
        -- rewrite upd_same, Nat.eqb_refl, Eh. cbn [sl_buf sl_len].
           apply rd_grow; [exact Hgr|]. intros j Hj. eapply Hch; eassumption.
        -- rewrite upd_other by congruence. apply Nat.eqb_neq in Hne. rewrite Hne. reflexivity.
    + split.
      * constructor; cbn [b_heap b_pool b_next b_held].
        -- intros t sl0. upd_cases t t0.
           ++ intro E. inversion E; subst. cbn. lia.
           ++ intro E. apply Hlt in E. lia.
        -- intros t t' sl1 sl2. upd_cases t t0; upd_cases t' t0; try reflexivity.
           ++ intros E1 E2 E3. inversion E1; subst. cbn in E3. apply Hlt in E2. lia.
           ++ intros E1 E2 E3. inversion E2; subst. cbn in E3. apply Hlt in E1. lia.
           ++ apply Huq.
        -- intros sl0 H0. apply Hplt in H0. lia.
        -- intros t sl1 sl2. upd_cases t t0.
           ++ intros E H0. inversion E; subst. cbn. apply Hplt in H0. lia.
           ++ apply Hsep.
      * intro t. unfold visible. cbn [b_heap b_held vis_after].
        destruct (Nat.eq_dec t0 t) as [->|Hne].
        -- rewrite upd_same, Nat.eqb_refl, Eh. cbn [sl_buf sl_len]. rewrite upd_same.
           set (old := rd (b_heap s (sl_buf sl)) 0 (sl_len sl)).
           assert (Hlo : length old = sl_len sl) by apply rd_length.
           rewrite firstn_all2 by lia.
           replace n with (length old + (n - length old)) at 1 by lia.
           rewrite rd_split. f_equal.
           ++ pose proof (rd_wr_append (fun _ => 0%N) 0 old) as E. cbn [Nat.add] in E. exact E.
           ++ apply rd_zero. intros j Hj. rewrite wr_beyond by (cbn; lia). reflexivity.
        -- rewrite upd_other by congruence. apply Nat.eqb_neq in Hne. rewrite Hne.
           destruct (b_held s t) as [sl1|] eqn:E1; [|reflexivity].
           rewrite upd_other; [reflexivity|]. apply Hlt in E1. lia.
  - (* BPut *)
    destruct (b_held s t0) as [sl|] eqn:Eh; [|discriminate].
    inversion Hst; subst; clear Hst. split.
    + constructor; cbn [b_heap b_pool b_next b_held].
      * intros t sl0. upd_cases t t0; [discriminate | apply Hlt].
      * intros t t' sl1 sl2. upd_cases t t0; upd_cases t' t0; try discriminate. apply Huq.
      * intros sl0 [H0|H0]; [subst; eapply Hlt; exact Eh | apply Hplt; exact H0].
      * intros t sl1 sl2. upd_cases t t0; [discriminate|].
        intros E [H0|H0].
        -- subst. intro E3. apply n. eapply Huq; [exact E | exact Eh | symmetry; exact E3].
        -- eapply Hsep; eassumption.
    + intro t. unfold visible. cbn [b_heap b_held vis_after].
      destruct (Nat.eq_dec t0 t) as [->|Hne].
      * rewrite upd_same, Nat.eqb_refl. reflexivity.
      * rewrite upd_other by congruence. apply Nat.eqb_neq in Hne. rewrite Hne. reflexivity.
Qed.

(* cleanliness is preserved as long as nobody shrinks *)
Lemma bstep_clean v mincap s e s' :
  BInv s -> Clean s -> grows s e -> bstep v mincap s e = Some s' -> Clean s'.
Proof.
  intros [Hlt Huq Hplt Hsep] [Hch Hcp] Hgr Hst.
  destruct e as [t0 capacity c|t0 data|t0 n|t0 t1 n|t0]; [| | |destruct Hgr|]; cbn [bstep] in Hst.
  - destruct (b_held s t0) eqn:Eh; [discriminate|].
    destruct (match c with Some b => find (has_buf b) (b_pool s) | None => None end) as [sl|] eqn:Ef;
      inversion Hst; subst; clear Hst.
    + assert (Hin : In sl (b_pool s)).
      { destruct c as [b|]; [|discriminate]. apply find_some in Ef. apply Ef. }
      constructor; cbn [b_heap b_pool b_held].
      * intros t sl1 j. upd_cases t t0.
        -- intros E Hj. inversion E; subst. cbn [sl_buf]. rewrite upd_same. unfold zero_prefix.
           destruct (j <? clear_upto v sl) eqn:Ej; [reflexivity|]. apply Nat.ltb_ge in Ej.
           apply Hcp; [assumption|]. pose proof (clear_upto_ge v sl). lia.
        -- intros E Hj. rewrite upd_other; [eapply Hch; eassumption|].
           intro E3. eapply Hsep; [exact E | exact Hin | symmetry; exact E3].
      * intros sl1 j H0 Hj. apply filter_In in H0. destruct H0 as [H0 H1].
        unfold has_buf in H1. apply negb_true_iff, Nat.eqb_neq in H1.
        rewrite upd_other by exact H1. apply Hcp; assumption.
    + constructor; cbn [b_heap b_pool b_held].
      * intros t sl1 j. upd_cases t t0.
        -- intros E Hj. inversion E; subst. cbn [sl_buf]. rewrite upd_same. reflexivity.
        -- intros E Hj. rewrite upd_other; [eapply Hch; eassumption|]. apply Hlt in E. lia.
      * intros sl1 j H0 Hj. rewrite upd_other; [apply Hcp; assumption|]. apply Hplt in H0. lia.
  - destruct (b_held s t0) as [sl|] eqn:Eh; [|discriminate].
    destruct (sl_len sl + length data <=? sl_cap sl); inversion Hst; subst; clear Hst.
    + constructor; cbn [b_heap b_pool b_held].
      * intros t sl1 j. upd_cases t t0.
        -- intros E Hj. inversion E; subst. cbn [sl_buf sl_len] in *. rewrite upd_same.
           rewrite wr_beyond by exact Hj. eapply Hch; [exact Eh | lia].
        -- intros E Hj. rewrite upd_other; [eapply Hch; eassumption|].
           intro E3. apply n. eapply Huq; [exact E | exact Eh | exact E3].
      * intros sl1 j H0 Hj. rewrite upd_other; [apply Hcp; assumption|].
        eapply Hsep; eassumption.
    + constructor; cbn [b_heap b_pool b_held].
      * intros t sl1 j. upd_cases t t0.
        -- intros E Hj. inversion E; subst. cbn [sl_buf sl_len] in *. rewrite upd_same.
           rewrite wr_beyond; [reflexivity|]. rewrite app_length, rd_length. cbn. exact Hj.
        -- intros E Hj. rewrite upd_other; [eapply Hch; eassumption|]. apply Hlt in E. lia.
      * intros sl1 j H0 Hj. rewrite upd_other; [apply Hcp; assumption|]. apply Hplt in H0. lia.
  - destruct (b_held s t0) as [sl|] eqn:Eh; [|discriminate].
    cbn [grows] in Hgr. rewrite Eh in Hgr.
    destruct (n <? sl_cap sl); inversion Hst; subst; clear Hst.
    + constructor; cbn [b_heap b_pool b_held].
      * intros t sl1 j. upd_cases t t0.
        -- intros E Hj. inversion E; subst. cbn [sl_buf sl_len] in *. eapply Hch; [exact Eh | lia].
        -- intros E Hj. eapply Hch; eassumption.
      * exact Hcp.
    + constructor; cbn [b_heap b_pool b_held].
      * intros t sl1 j. upd_cases t t0.
        -- intros E Hj. inversion E; subst. cbn [sl_buf sl_len] in *. rewrite upd_same.
           rewrite wr_beyond; [reflexivity|]. rewrite rd_length. cbn. lia.
        -- intros E Hj. rewrite upd_other; [eapply Hch; eassumption|]. apply Hlt in E. lia.
      * intros sl1 j H0 Hj. rewrite upd_other; [apply Hcp; assumption|]. apply Hplt in H0. lia.
  - destruct (b_held s t0) as [sl|] eqn:Eh; [|discriminate].
    inversion Hst; subst; clear Hst.
    constructor; cbn [b_heap b_pool b_held].
    + intros t sl1 j. upd_cases t t0; [discriminate|]. intros E Hj. eapply Hch; eassumption.
    + intros sl1 j [H0|H0] Hj; [subst; eapply Hch; eassumption | apply Hcp; assumption].
Qed.

Lemma brun_gen v mincap es : forall s s' (acc : nat -> list N),
  BInv s -> Clean s -> (forall t, visible s t = acc t) -> brun v mincap s es = Some s' ->
  grows_only v mincap s es ->
  forall t, visible s' t = appended t es (acc t).
Proof.
  induction es as [|e es IH]; intros s s' acc I C Hv H G t; cbn [brun] in H.
  - inversion H; subst. cbn. apply Hv.
  - cbn [grows_only] in G. destruct G as [G1 G2].
    destruct (bstep v mincap s e) as [s1|] eqn:E; [|discriminate].
    destruct (bstep_ok v mincap s e s1 I C G1 E) as [I1 Hv1].
    pose proof (bstep_clean v mincap s e s1 I C G1 E) as C1.
    rewrite appended_step.
    apply (IH s1 s' (fun t => vis_after e t (acc t)) I1 C1); [|exact H|exact G2].
    intro t1. rewrite Hv1, Hv. reflexivity.
Qed.

Lemma BInv_init h0 : BInv (binit h0).
Proof. constructor; cbn; intros; try discriminate; contradiction. Qed.

Theorem byteslicepool_exact v mincap : exact_when_growing v mincap.
Proof.
  intros h0 es s t H G.
  apply (brun_gen v mincap es (binit h0) s (fun _ => [])); [apply BInv_init| | |exact H|exact G].
  - constructor; cbn; intros; try discriminate; contradiction.
  - intro t1. reflexivity.
Qed.

(* ---- the fixed Get (clears the whole capacity): only zeroes or own bytes, whatever callers do *)

Record OwnZ (W : nat -> list N) (s : bstate) : Prop := mkOwnZ {
  oz_cap : forall t sl, b_held s t = Some sl -> sl_len sl <= sl_cap sl;
  oz_own : forall t sl j, b_held s t = Some sl -> j < sl_cap sl ->
                          b_heap s (sl_buf sl) j = 0%N \/ In (b_heap s (sl_buf sl) j) (W t)
}.

Lemma wr_zero_cases l j :
  wr (fun _ => 0%N) 0 l j = 0%N \/ In (wr (fun _ => 0%N) 0 l j) l.
Proof.
  unfold wr. destruct ((0 <=? j) && (j <? 0 + length l)) eqn:E; [right | left; reflexivity].
  apply andb_true_iff in E. destruct E as [_ E]. apply Nat.ltb_lt in E. apply nth_In. lia.
Qed.

Lemma in_rd h len x : In x (rd h 0 len) -> exists j, j < len /\ x = h j.
Proof.
  unfold rd. intro H. apply in_map_iff in H. destruct H as [j [E Hj]]. apply in_seq in Hj.
  exists j. split; [lia | symmetry; exact E].
Qed.

Lemma bstep_ownz mincap W s e s' :
  BInv s -> OwnZ W s -> bstep Fixed mincap s e = Some s' ->
  OwnZ (w_after e W) s'.
Proof.
  intros [Hlt Huq Hplt Hsep] [Hcap Hown] Hst.
  assert (Hold : forall sl x, b_held s = b_held s -> forall t, b_held s t = Some sl ->
                 In x (rd (b_heap s (sl_buf sl)) 0 (sl_len sl)) -> x = 0%N \/ In x (W t)).
  { intros sl x _ t E Hin. apply in_rd in Hin. destruct Hin as [j [Hj ->]].
    eapply Hown; [exact E|]. pose proof (Hcap _ _ E). lia. }
  destruct e as [t0 capacity c|t0 data|t0 n|t0 t1 n|t0]; cbn [bstep] in Hst.
  - destruct (b_held s t0) eqn:Eh; [discriminate|].
    destruct (match c with Some b => find (has_buf b) (b_pool s) | None => None end) as [sl|] eqn:Ef;
      inversion Hst; subst; clear Hst.
    + assert (Hin : In sl (b_pool s)).
      { destruct c as [b|]; [|discriminate]. apply find_some in Ef. apply Ef. }
      constructor; cbn [b_heap b_pool b_held w_after].
      * intros t sl1. upd_cases t t0.
        -- intro E. inversion E; subst. cbn. lia.
        -- apply Hcap.
      * intros t sl1 j. upd_cases t t0.
        -- intros E Hj. inversion E; subst. cbn [sl_buf sl_cap] in *. rewrite upd_same.
           left. unfold zero_prefix, clear_upto.
           assert (E1 : (j <? Nat.max (sl_len sl) (sl_cap sl)) = true) by (apply Nat.ltb_lt; lia).
           rewrite E1. reflexivity.
        -- intros E Hj. rewrite ?(upd_other W t0 t) by assumption.
           rewrite upd_other; [eapply Hown; eassumption|].
           intro E3. eapply Hsep; [exact E | exact Hin | symmetry; exact E3].
    + constructor; cbn [b_heap b_pool b_held w_after].
      * intros t sl1. upd_cases t t0.
        -- intro E. inversion E; subst. cbn. lia.
        -- apply Hcap.
      * intros t sl1 j. upd_cases t t0.
        -- intros E Hj. inversion E; subst. cbn [sl_buf]. rewrite upd_same. left. reflexivity.
        -- intros E Hj. rewrite ?(upd_other W t0 t) by assumption.
           rewrite upd_other; [eapply Hown; eassumption|]. apply Hlt in E. lia.
  - destruct (b_held s t0) as [sl|] eqn:Eh; [|discriminate].
    destruct (sl_len sl + length data <=? sl_cap sl) eqn:Efit; inversion Hst; subst; clear Hst.
    + apply Nat.leb_le in Efit.
      constructor; cbn [b_heap b_pool b_held w_after].
      * intros t sl1. upd_cases t t0.
        -- intro E. inversion E; subst. cbn. exact Efit.
        -- apply Hcap.
      * intros t sl1 j. upd_cases t t0.
        -- intros E Hj. inversion E; subst. cbn [sl_buf sl_cap] in *. rewrite ?upd_same.
           unfold wr. destruct ((sl_len sl <=? j) && (j <? sl_len sl + length data)) eqn:Ec.
           ++ right. apply in_or_app. right. apply andb_true_iff in Ec. destruct Ec as [E1 E2].
              apply Nat.leb_le in E1. apply Nat.ltb_lt in E2. apply nth_In. lia.
           ++ destruct (Hown _ _ j Eh Hj) as [H0|H0]; [left; exact H0 | right; apply in_or_app; left; exact H0].
        -- intros E Hj. rewrite ?(upd_other W t0 t) by assumption.
           rewrite upd_other; [eapply Hown; eassumption|].
           intro E3. apply n. eapply Huq; [exact E | exact Eh | exact E3].
    + constructor; cbn [b_heap b_pool b_held w_after].
      * intros t sl1. upd_cases t t0.
        -- intro E. inversion E; subst. cbn. lia.
        -- apply Hcap.
      * intros t sl1 j. upd_cases t t0.
        -- intros E Hj. inversion E; subst. cbn [sl_buf]. rewrite ?upd_same.
           destruct (wr_zero_cases (rd (b_heap s (sl_buf sl)) 0 (sl_len sl) ++ data) j) as [H0|H0];
             [left; exact H0|].
           apply in_app_or in H0. destruct H0 as [H0|H0].
           ++ destruct (Hold sl _ eq_refl t0 Eh H0) as [H1|H1];
                [left; exact H1 | right; apply in_or_app; left; exact H1].
           ++ right. apply in_or_app. right. exact H0.
        -- intros E Hj. rewrite ?(upd_other W t0 t) by assumption.
           rewrite upd_other; [eapply Hown; eassumption|]. apply Hlt in E. lia.
  - destruct (b_held s t0) as [sl|] eqn:Eh; [|discriminate].
    destruct (n <? sl_cap sl) eqn:Efit; inversion Hst; subst; clear Hst.
    + apply Nat.ltb_lt in Efit.
      constructor; cbn [b_heap b_pool b_held w_after].
      * intros t sl1. upd_cases t t0.
        -- intro E. inversion E; subst. cbn. lia.
        -- apply Hcap.
      * intros t sl1 j. upd_cases t t0.
        -- intros E Hj. inversion E; subst. cbn [sl_buf sl_cap] in *. eapply Hown; eassumption.
        -- intros E Hj. eapply Hown; eassumption.
    + constructor; cbn [b_heap b_pool b_held w_after].
      * intros t sl1. upd_cases t t0.
        -- intro E. inversion E; subst. cbn. lia.
        -- apply Hcap.
      * intros t sl1 j. upd_cases t t0.
        -- intros E Hj. inversion E; subst. cbn [sl_buf]. rewrite upd_same.
           destruct (wr_zero_cases (rd (b_heap s (sl_buf sl)) 0 (sl_len sl)) j) as [H0|H0];
             [left; exact H0|].
           exact (Hold sl _ eq_refl t0 Eh H0).
        -- intros E Hj. rewrite ?(upd_other W t0 t) by assumption. rewrite upd_other; [eapply Hown; eassumption|]. apply Hlt in E. lia.
  - destruct (b_held s t0) as [sl|] eqn:Eh; [|discriminate].
    destruct (b_held s t1) eqn:Eh1; [discriminate|].
    destruct (t0 =? t1) eqn:E01; [discriminate|]. apply Nat.eqb_neq in E01.
    destruct (n <? sl_cap sl) eqn:Efit; inversion Hst; subst; clear Hst.
    + apply Nat.ltb_lt in Efit.
      constructor; cbn [b_heap b_pool b_held w_after].
      * intros t sl1. upd_cases t t0.
        -- intro E. inversion E; subst. cbn. lia.
        -- apply Hcap.
      * intros t sl1 j E Hj.
        assert (Hgoal : b_heap s (sl_buf sl1) j = 0%N \/ In (b_heap s (sl_buf sl1) j) (W t)).
        { upd_cases t t0.
          - inversion E; subst. cbn [sl_buf sl_cap] in *. eapply Hown; eassumption.
          - eapply Hown; eassumption. }
        destruct (Nat.eq_dec t t1) as [->|N1]; [|rewrite upd_other by exact N1; exact Hgoal].
        exfalso. rewrite upd_other in E by congruence. congruence.
    + constructor; cbn [b_heap b_pool b_held w_after].
      * intros t sl1. destruct (Nat.eq_dec t t1) as [->|N1].
        -- rewrite upd_same. intro E. inversion E; subst. eapply Hcap; exact Eh.
        -- rewrite upd_other by exact N1. upd_cases t t0.
           ++ intro E. inversion E; subst. cbn. lia.
           ++ apply Hcap.
      * intros t sl1 j. destruct (Nat.eq_dec t t1) as [->|N1].
        -- rewrite !upd_same. intros E Hj. inversion E; subst.
           rewrite upd_other; [eapply Hown; eassumption|]. pose proof (Hlt _ _ Eh). lia.
        -- rewrite !(upd_other _ t1) by exact N1. upd_cases t t0.
           ++ intros E Hj. inversion E; subst. cbn [sl_buf]. rewrite upd_same.
              destruct (wr_zero_cases (rd (b_heap s (sl_buf sl)) 0 (sl_len sl)) j) as [H0|H0];
                [left; exact H0|].
              exact (Hold sl _ eq_refl t0 Eh H0).
           ++ intros E Hj. rewrite upd_other; [eapply Hown; eassumption|]. apply Hlt in E. lia.
  - destruct (b_held s t0) as [sl|] eqn:Eh; [|discriminate].
    inversion Hst; subst; clear Hst.
    constructor; cbn [b_heap b_pool b_held w_after].
    + intros t sl1. upd_cases t t0; [discriminate | apply Hcap].
    + intros t sl1 j. upd_cases t t0; [discriminate|].
      intros E Hj. rewrite ?(upd_other W t0 t) by assumption. eapply Hown; eassumption.
Qed.

(* ownership alone is preserved by every step (no cleanliness / growth needed) *)
Lemma bstep_binv mincap s e s' : BInv s -> bstep Fixed mincap s e = Some s' -> BInv s'.
Proof.
  intros [Hlt Huq Hplt Hsep] Hst.
  destruct e as [t0 capacity c|t0 data|t0 n|t0 t1 n|t0]; cbn [bstep] in Hst.
  - destruct (b_held s t0) eqn:Eh; [discriminate|].
    destruct (match c with Some b => find (has_buf b) (b_pool s) | None => None end) as [sl|] eqn:Ef;
      inversion Hst; subst; clear Hst.
    + assert (Hin : In sl (b_pool s)).
      { destruct c as [b|]; [|discriminate]. apply find_some in Ef. apply Ef. }
      constructor; cbn [b_heap b_pool b_next b_held].
      * intros t sl0. upd_cases t t0; [|apply Hlt].
        intro E. inversion E; subst. cbn. apply Hplt. exact Hin.
      * intros t t' sl1 sl2. upd_cases t t0; upd_cases t' t0; try reflexivity.
        -- intros E1 E2 E3. inversion E1; subst. cbn in E3. exfalso.
           eapply Hsep; [exact E2 | exact Hin | exact E3].
        -- intros E1 E2 E3. inversion E2; subst. cbn in E3. exfalso.
           eapply Hsep; [exact E1 | exact Hin | symmetry; exact E3].
        -- apply Huq.
      * intros sl0 H0. apply filter_In in H0. apply Hplt. apply H0.
      * intros t sl1 sl2. upd_cases t t0.
        -- intros E H0. inversion E; subst. cbn. apply filter_In in H0. destruct H0 as [_ H0].
           unfold has_buf in H0. apply negb_true_iff, Nat.eqb_neq in H0. exact H0.
        -- intros E H0. apply filter_In in H0. eapply Hsep; [exact E | apply H0].
    + constructor; cbn [b_heap b_pool b_next b_held].
      * intros t sl0. upd_cases t t0.
        -- intro E. inversion E; subst. cbn. lia.
        -- intro E. apply Hlt in E. lia.
      * intros t t' sl1 sl2. upd_cases t t0; upd_cases t' t0; try reflexivity.
        -- intros E1 E2 E3. inversion E1; subst. cbn in E3. apply Hlt in E2. lia.
        -- intros E1 E2 E3. inversion E2; subst. cbn in E3. apply Hlt in E1. lia.
        -- apply Huq.
      * intros sl0 H0. apply Hplt in H0. lia.
      * intros t sl1 sl2. upd_cases t t0.
        -- intros E H0. inversion E; subst. cbn. apply Hplt in H0. lia.
        -- apply Hsep.
  - destruct (b_held s t0) as [sl|] eqn:Eh; [|discriminate].
    destruct (sl_len sl + length data <=? sl_cap sl); inversion Hst; subst; clear Hst.
    + constructor; cbn [b_heap b_pool b_next b_held].
      * intros t sl0. upd_cases t t0; [|apply Hlt].
        intro E. inversion E; subst. cbn. eapply Hlt; exact Eh.
      * intros t t' sl1 sl2. upd_cases t t0; upd_cases t' t0; try reflexivity.
        -- intros E1 E2 E3. inversion E1; subst. cbn in E3. eapply Huq; eassumption.
        -- intros E1 E2 E3. inversion E2; subst. cbn in E3. eapply Huq; eassumption.
        -- apply Huq.
      * exact Hplt.
      * intros t sl1 sl2. upd_cases t t0; [|apply Hsep].
        intros E H0. inversion E; subst. cbn. eapply Hsep; eassumption.
    + constructor; cbn [b_heap b_pool b_next b_held].
      * intros t sl0. upd_cases t t0.
        -- intro E. inversion E; subst. cbn. lia.
        -- intro E. apply Hlt in E. lia.
      * intros t t' sl1 sl2. upd_cases t t0; upd_cases t' t0; try reflexivity.
        -- intros E1 E2 E3. inversion E1; subst. cbn in E3. apply Hlt in E2. lia.
        -- intros E1 E2 E3. inversion E2; subst. cbn in E3. apply Hlt in E1. lia.
        -- apply Huq.
      * intros sl0 H0. apply Hplt in H0. lia.
      * intros t sl1 sl2. upd_cases t t0; [|apply Hsep].
        intros E H0. inversion E; subst. cbn. apply Hplt in H0. lia.
  - destruct (b_held s t0) as [sl|] eqn:Eh; [|discriminate].
    destruct (n <? sl_cap sl); inversion Hst; subst; clear Hst.
    + constructor; cbn [b_heap b_pool b_next b_held].
      * intros t sl0. upd_cases t t0; [|apply Hlt].
        intro E. inversion E; subst. cbn. eapply Hlt; exact Eh.
      * intros t t' sl1 sl2. upd_cases t t0; upd_cases t' t0; try reflexivity.
        -- intros E1 E2 E3. inversion E1; subst. cbn in E3. eapply Huq; eassumption.
        -- intros E1 E2 E3. inversion E2; subst. cbn in E3. eapply Huq; eassumption.
        -- apply Huq.
      * exact Hplt.
      * intros t sl1 sl2. upd_cases t t0; [|apply Hsep].
        intros E H0. inversion E; subst. cbn. eapply Hsep; eassumption.
    + constructor; cbn [b_heap b_pool b_next b_held].
      * intros t sl0. upd_cases t t0.
        -- intro E. inversion E; subst. cbn. lia.
        -- intro E. apply Hlt in E. lia.
      * intros t t' sl1 sl2. upd_cases t t0; upd_cases t' t0; try reflexivity.
        -- intros E1 E2 E3. inversion E1; subst. cbn in E3. apply Hlt in E2. lia.
        -- intros E1 E2 E3. inversion E2; subst. cbn in E3. apply Hlt in E1. lia.
        -- apply Huq.
      * intros sl0 H0. apply Hplt in H0. lia.
      * intros t sl1 sl2. upd_cases t t0; [|apply Hsep].
        intros E H0. inversion E; subst. cbn. apply Hplt in H0. lia.
  - destruct (b_held s t0) as [sl|] eqn:Eh; [|discriminate].
    destruct (b_held s t1) eqn:Eh1; [discriminate|].
    destruct (t0 =? t1) eqn:E01; [discriminate|]. apply Nat.eqb_neq in E01.
    destruct (n <? sl_cap sl); inversion Hst; subst; clear Hst.
    + constructor; cbn [b_heap b_pool b_next b_held].
      * intros t sl0. upd_cases t t0; [|apply Hlt].
        intro E. inversion E; subst. cbn. eapply Hlt; exact Eh.
      * intros t t' sl1 sl2. upd_cases t t0; upd_cases t' t0; try reflexivity.
        -- intros E1 E2 E3. inversion E1; subst. cbn in E3. eapply Huq; eassumption.
        -- intros E1 E2 E3. inversion E2; subst. cbn in E3. eapply Huq; eassumption.
        -- apply Huq.
      * exact Hplt.
      * intros t sl1 sl2. upd_cases t t0; [|apply Hsep].
        intros E H0. inversion E; subst. cbn. eapply Hsep; eassumption.
    + assert (Hheld : forall t slx, upd (upd (b_held s) t0 (Some (mkSl (b_next s) n (Nat.max n (2 * sl_cap sl))))) t1 (Some sl) t = Some slx ->
                (t = t1 /\ slx = sl) \/ (t = t0 /\ t <> t1 /\ sl_buf slx = b_next s) \/ (t <> t0 /\ t <> t1 /\ b_held s t = Some slx)).
      { intros t slx. destruct (Nat.eq_dec t t1) as [->|N1].
        - rewrite upd_same. intro E. inversion E. left. split; reflexivity.
        - rewrite upd_other by exact N1. destruct (Nat.eq_dec t t0) as [->|N0].
          + rewrite upd_same. intro E. inversion E. right. left. repeat split; assumption.
          + rewrite upd_other by exact N0. intro E. right. right. repeat split; assumption. }
      constructor; cbn [b_heap b_pool b_next b_held].
      * intros t slx E. destruct (Hheld t slx E) as [[-> ->]|[[-> [_ Eb]]|[_ [_ E']]]].
        -- pose proof (Hlt _ _ Eh). lia.
        -- lia.
        -- apply Hlt in E'. lia.
      * intros t t' sl1 sl2 E1 E2 E3.
        destruct (Hheld t sl1 E1) as [[-> ->]|[[-> [N1 Eb1]]|[N0 [N1 E1']]]];
          destruct (Hheld t' sl2 E2) as [[-> ->]|[[-> [N1' Eb2]]|[N0' [N1' E2']]]]; try reflexivity.
        -- pose proof (Hlt _ _ Eh). lia.
        -- exfalso. apply N0'. eapply Huq; [exact E2' | exact Eh | symmetry; exact E3].
        -- pose proof (Hlt _ _ Eh). lia.
        -- apply Hlt in E2'. lia.
        -- exfalso. apply N0. eapply Huq; [exact E1' | exact Eh | exact E3].
        -- apply Hlt in E1'. lia.
        -- eapply Huq; eassumption.
      * intros sl0 H0. apply Hplt in H0. lia.
      * intros t slx sl2 E H0. destruct (Hheld t slx E) as [[-> ->]|[[-> [_ Eb]]|[_ [_ E']]]].
        -- eapply Hsep; eassumption.
        -- apply Hplt in H0. lia.
        -- eapply Hsep; eassumption.
  - destruct (b_held s t0) as [sl|] eqn:Eh; [|discriminate].
    inversion Hst; subst; clear Hst.
    constructor; cbn [b_heap b_pool b_next b_held].
    + intros t sl0. upd_cases t t0; [discriminate | apply Hlt].
    + intros t t' sl1 sl2. upd_cases t t0; upd_cases t' t0; try discriminate. apply Huq.
    + intros sl0 [H0|H0]; [subst; eapply Hlt; exact Eh | apply Hplt; exact H0].
    + intros t sl1 sl2. upd_cases t t0; [discriminate|].
      intros E [H0|H0].
      * subst. intro E3. apply n. eapply Huq; [exact E | exact Eh | symmetry; exact E3].
      * eapply Hsep; eassumption.
Qed.

Lemma brun_ownz mincap es : forall s s' (W : nat -> list N),
  BInv s -> OwnZ W s -> brun Fixed mincap s es = Some s' -> OwnZ (written es W) s'.
Proof.
  induction es as [|e es IH]; intros s s' W I O H; cbn [brun written] in *.
  - inversion H; subst. exact O.
  - destruct (bstep Fixed mincap s e) as [s1|] eqn:E; [|discriminate].
    pose proof (bstep_binv mincap s e s1 I E) as I1.
    pose proof (bstep_ownz mincap W s e s1 I O E) as O1.
    exact (IH s1 s' _ I1 O1 H).
Qed.

Theorem byteslicepool_no_carry mincap : no_carry mincap.
Proof.
  intros h0 es s t x H Hin.
  assert (O0 : OwnZ (fun _ => []) (binit h0)) by (constructor; cbn; intros; discriminate).
  destruct (brun_ownz mincap es _ _ _ (BInv_init h0) O0 H) as [Hc Ho].
  unfold visible in Hin. destruct (b_held s t) as [sl|] eqn:Eh; [|contradiction].
  apply in_rd in Hin. destruct Hin as [j [Hj ->]].
  apply (Ho t sl j Eh). pose proof (Hc t sl Eh). lia.
Qed.

(* the code before the fix: a caller that shrinks its slice with Resize and then Puts it leaves
   its bytes behind the length Get cleared up to, and the next caller's Resize shows them *)
Theorem byteslicepool_shrink_put_refuted :
  exists mincap es s, brun Original mincap (binit (fun _ _ => 0%N)) es = Some s /\
                      visible s 1 = [0; 7; 7]%N /\ written es (fun _ => []) 1 = [].
Proof.
  exists 4, [BGet 0 8 None; BAppend 0 [7; 7; 7]%N; BResize 0 1; BPut 0; BGet 1 0 (Some 0); BResize 1 3].
  eexists. split; [vm_compute; reflexivity|]. split; vm_compute; reflexivity.
Qed.

Example shrink_put_fixed :
  match brun Fixed 4 (binit (fun _ _ => 0%N))
             [BGet 0 8 None; BAppend 0 [7; 7; 7]%N; BResize 0 1; BPut 0; BGet 1 0 (Some 0); BResize 1 3] with
  | Some s => visible s 1
  | None => []
  end = [0; 0; 0]%N.
Proof. vm_compute. reflexivity. Qed.

(* a Put in the middle of a function that also has the deferred Put (an error path releasing the
   buffer twice): after that operation two later operations hold the SAME buffer at once *)
Theorem double_put_refuted :
  exists (progs : opid -> list instr) es s b,
    run (init_state progs) es = Some s /\
    cur (ops s 1) = Some b /\ cur (ops s 2) = Some b.
Proof.
  exists (fun i => match i with
                   | 0 => [IGet; IWrite 0 [1]%N; IProcess 1 1 (fun x => x); IPutKeep; IPut]
                   | _ => [IGet; IWrite 0 [2]%N; IPut]
                   end),
         [(0, None); (0, None); (0, None); (0, None); (0, None); (1, Some 0); (2, Some 0)].
  eexists. exists 0. split; [vm_compute; reflexivity|]. split; vm_compute; reflexivity.
Qed.

(* non-vacuity: three callers, two of them asking for the same name, interleaved lock by lock;
   a stale slice put back and handed to another caller *)
Example registry_run :
  match rrun (fun t => if t =? 2 then 7%Z else 5%Z) rinit
             [RAcq 0; RLook 0; RIns 0; RRel 0; RAcq 2; RAcq 1; RLook 2; RIns 2; RRel 2;
              RAcq 1; RLook 1; RRel 1] with
  | Some s => Some (r_pc s 0, r_pc s 1, r_pc s 2, r_order s)
  | None => None
  end = None.
Proof. vm_compute. reflexivity. Qed.   (* RAcq 1 while caller 2 holds the lock is not enabled *)

Example registry_run_ok :
  match rrun (fun t => if t =? 2 then 7%Z else 5%Z) rinit
             [RAcq 0; RLook 0; RIns 0; RRel 0; RAcq 2; RLook 2; RIns 2; RRel 2;
              RAcq 1; RLook 1; RRel 1] with
  | Some s => Some (r_pc s 0, r_pc s 1, r_pc s 2, r_order s)
  | None => None
  end = Some (RDone 0, RDone 0, RDone 1, [0; 2; 1]).
Proof. vm_compute. reflexivity. Qed.

Example pool_run :
  match brun Fixed 4 (binit (fun _ _ => 7%N))
             [BGet 0 2 None; BAppend 0 [1; 2]%N; BPut 0; BGet 1 0 (Some 0); BAppend 1 [9]%N;
              BResize 1 3] with
  | Some s => Some (visible s 1, b_held s 1)
  | None => None
  end = Some ([9; 0; 0]%N, Some (mkSl 0 3 4)).
Proof. vm_compute. reflexivity. Qed.

Example pool_run_grows :
  grows_only Fixed 4 (binit (fun _ _ => 7%N))
             [BGet 0 2 None; BAppend 0 [1; 2]%N; BPut 0; BGet 1 0 (Some 0); BAppend 1 [9]%N; BResize 1 3].
Proof. cbn. repeat split; lia. Qed.

(* ---------------------------------------------------------------------------------------- *)
(* scratch objects: one hasher per call isolates the callers; a shared one does not *)

Lemma hrun_gen hid (Hinj : forall a b, hid a = hid b -> a = b) es :
  forall h res acc, (forall t, h (hid t) = acc t) ->
  snd (hrun hid (h, res) es) = res ++ hexpect es acc.
Proof.
  induction es as [|[t op] es IH]; intros h res acc Hacc; cbn [hrun fold_left hexpect].
  - cbn. symmetry. apply app_nil_r.
  - unfold hrun in IH. cbn [hstep fst snd]. destruct op as [|d|]; cbn [fst snd].
    + apply IH. intro t'. destruct (Nat.eq_dec t' t) as [->|Hne].
      * rewrite !upd_same. reflexivity.
      * rewrite (upd_other acc) by exact Hne. rewrite upd_other; [apply Hacc|].
        intro E. apply Hne. apply Hinj. exact E.
    + apply IH. intro t'. destruct (Nat.eq_dec t' t) as [->|Hne].
      * rewrite !upd_same. rewrite Hacc. reflexivity.
      * rewrite (upd_other acc) by exact Hne. rewrite upd_other; [apply Hacc|].
        intro E. apply Hne. apply Hinj. exact E.
    + rewrite (IH h (res ++ [(t, h (hid t))]) acc Hacc). rewrite <- app_assoc. cbn [app].
      rewrite Hacc. reflexivity.
Qed.

Theorem scratch_per_call_isolated hid :
  (forall a b, hid a = hid b -> a = b) ->
  forall es h0, snd (hrun hid (h0, []) es) = hexpect es (fun t => h0 (hid t)).
Proof. intros Hinj es h0. apply (hrun_gen hid Hinj es h0 [] (fun t => h0 (hid t))). reflexivity. Qed.

Theorem shared_scratch_refuted :
  exists es, snd (hrun (fun _ => 0) (fun _ => [], []) es) <> hexpect es (fun _ => []).
Proof.
  exists [(0, HReset); (0, HWrite [1]%N); (1, HReset); (1, HWrite [2]%N); (0, HSum); (1, HSum)].
  vm_compute. discriminate.
Qed.

(* the defer idiom on the current tree: caller 0 grows past the capacity, keeps its original slice
   (second name 5) and puts it back; callers 1 and 2 then take slices at once *)
Example keep_idiom :
  match brun Fixed 8 (binit (fun _ _ => 0%N))
             [BGet 0 8 None; BAppend 0 [7; 7]%N; BResizeKeep 0 5 20; BPut 5; BGet 1 0 (Some 0);
              BGet 2 0 (Some 0); BAppend 1 [1]%N; BAppend 2 [2]%N] with
  | Some s => Some (visible s 0, visible s 1, visible s 2,
                    option_map sl_buf (b_held s 1), option_map sl_buf (b_held s 2))
  | None => None
  end = Some ([7; 7; 0; 0; 0; 0; 0; 0; 0; 0; 0; 0; 0; 0; 0; 0; 0; 0; 0; 0]%N, [1]%N, [2]%N, Some 0, Some 2).
Proof. vm_compute. reflexivity. Qed.

(* a cache whose key and value are written separately: caller 2 asks for key 1 and gets 2 *)
Theorem split_cache_refuted :
  exists keys ts s, crun keys (mkC None None (fun _ => CStart)) ts = Some s /\
                    keys 2 = 1%Z /\ c_pc s 2 = CRet 2%Z.
Proof.
  exists (fun t => if t =? 1 then 2%Z else 1%Z), [0; 0; 1; 1; 1; 0; 2; 2]. eexists.
  split; [vm_compute; reflexivity|]. split; vm_compute; reflexivity.
Qed.

(* a memo keyed by the label: the second key under the same label is answered with the first one's
   material; with distinct labels (or no memo) every call gets its own *)
Theorem label_memo_refuted :
  exists calls, mrun [] calls <> map snd calls.
Proof. exists [(7, 1); (7, 2)]%Z. vm_compute. discriminate. Qed.

Lemma mrun_distinct_labels calls : forall memo,
  NoDup (map fst calls) -> (forall c p, In c calls -> In p memo -> fst p <> fst c) ->
  mrun memo calls = map snd calls.
Proof.
  induction calls as [|c rest IH]; intros memo Hnd Hfresh; cbn [mrun map]; [reflexivity|].
  unfold mcall. destruct (find (fun p : Z * Z => (fst p =? fst c)%Z) memo) as [p|] eqn:Ef.
  - exfalso. apply find_some in Ef. destruct Ef as [Hin E]. apply Z.eqb_eq in E.
    eapply Hfresh; [left; reflexivity | exact Hin | exact E].
  - f_equal. inversion Hnd as [|x l Hx Hl]; subst. apply IH; [exact Hl|].
    intros c' p Hc' [Hp|Hp].
    + subst p. intro E. apply Hx. rewrite E. apply in_map. exact Hc'.
    + apply Hfresh; [right; exact Hc' | exact Hp].
Qed.
