(* C20 — Add with the write lock explicit (ModelLock.v): every schedule of the lock-aware model
   is a schedule of the atomic model of Model.v with each Add placed where it took the lock, so
   every theorem about all atomic schedules holds of all lock-aware ones; while an Add is in
   flight (the caller's ctx.Done() is running under the lock) nothing that needs the lock is
   enabled and - unless the watcher was already past its last RUnlock - the watcher, the pool's
   context and Size do not move.  No axioms. *)
From Kit Require Import C20.Model C20.ModelLock C20.Spec C20.Check C20.Proofs C20.Proofs_script C20.Proofs_main.

(* ===================================================================================== *)
(* one step                                                                                *)

Lemma land_frame s f :
  ctx_done (land s f) = ctx_done s /\ pc (land s f) = pc s /\ panicked (land s f) = panicked s /\
  ended (land s f) = ended s /\ closed (land s f) = closed s /\
  cancel_called (land s f) = cancel_called s.
Proof. unfold land. destruct (f_append f); repeat split. Qed.

(* the events that stay enabled during a flight commute with the flight's append *)
Lemma flight_commute s f e s' :
  needs_lock s e = false -> step s e = Some s' -> step (land s f) e = Some (land s' f).
Proof.
  intros Hn H. unfold step in *.
  destruct (land_frame s f) as (_ & Hpc & Hpan & _).
  rewrite Hpan. destruct (panicked s); [discriminate H|].
  destruct e as [m| | |m|]; cbn [needs_lock] in Hn; try discriminate Hn.
  - (* MemberDone *)
    injection H as <-. unfold land. destruct (f_append f); reflexivity.
  - (* WStep: only out of the exit window *)
    rewrite Hpc. destruct (pc s) as [i|i ch| |] eqn:Hp; try discriminate Hn; [|discriminate H].
    injection H as <-. unfold land. destruct (f_append f); reflexivity.
Qed.

Lemma lstep_sim ls le ls' :
  lstep ls le = Some ls' -> run (ahead ls) (flat le) = Some (ahead ls').
Proof.
  destruct ls as [s [f|]]; unfold lstep, ahead; cbn [fst snd].
  - (* an Add is in flight *)
    destruct (panicked s) eqn:Hpan; [discriminate|].
    destruct le as [m| |e]; [discriminate | |].
    + intro H. injection H as <-. reflexivity.
    + destruct (needs_lock s e) eqn:Hn; [discriminate|].
      destruct (step s e) as [s1|] eqn:Hs; [|discriminate].
      intro H. injection H as <-. cbn [flat run fst snd].
      rewrite (flight_commute s f e s1 Hn Hs). reflexivity.
  - destruct (panicked s) eqn:Hpan; [discriminate|].
    destruct le as [m| |e]; [| discriminate |].
    + (* LAddBegin = the atomic Add *)
      destruct (write_lock_free s) eqn:Hl; cbn [negb]; [|discriminate].
      intro H. injection H as <-. cbn [flat run fst snd].
      unfold step, land. cbn [f_append f_live f_ctx]. rewrite Hpan, Hl. cbn [negb].
      destruct (ctx_done s || closed s); reflexivity.
    + destruct e as [m| | |m|];
        try (destruct (step s _) as [s1|] eqn:Hs; [|discriminate];
             intro H; injection H as <-; cbn [flat run fst snd]; rewrite Hs; reflexivity).
      discriminate.
Qed.

(* ===================================================================================== *)
(* REFINEMENT: every lock-aware schedule is an atomic schedule                             *)

Theorem lrun_refines les : forall ls ls',
  lrun ls les = Some ls' -> run (ahead ls) (flat_map flat les) = Some (ahead ls').
Proof.
  induction les as [|le les IH]; intros ls ls' H; cbn [lrun flat_map] in *.
  - injection H as <-. reflexivity.
  - destruct (lstep ls le) as [ls1|] eqn:E; [|discriminate H].
    rewrite run_app, (lstep_sim ls le ls1 E). apply IH. exact H.
Qed.

Corollary lrun_refines_init pre ctxs les ls :
  lrun (new_pool pre ctxs, None) les = Some ls ->
  run (new_pool pre ctxs) (flat_map flat les) = Some (ahead ls).
Proof. apply (lrun_refines les (new_pool pre ctxs, None)). Qed.

(* what the atomic theorems then say of every lock-aware schedule *)
Theorem locked_never_early pre ctxs les ls :
  lrun (new_pool pre ctxs, None) les = Some ls ->
  ctx_done (fst ls) = true ->
  cancel_called (fst ls) = true \/ all_done (fst ls) (members (ahead ls)).
Proof.
  intros H Hd. pose proof (lrun_refines_init pre ctxs les ls H) as R.
  assert (F : ctx_done (ahead ls) = ctx_done (fst ls) /\ cancel_called (ahead ls) = cancel_called (fst ls) /\
              ended (ahead ls) = ended (fst ls)).
  { unfold ahead. destruct (snd ls) as [f|]; [|repeat split].
    destruct (land_frame (fst ls) f) as (A & _ & _ & B & _ & C). repeat split; assumption. }
  destruct F as (Fd & Fc & Fe).
  destruct (main_never_early pre ctxs _ _ R) as [X|X]; [rewrite Fd; exact Hd | left; rewrite <- Fc; exact X |].
  right. intros m Hm. specialize (X m Hm). unfold is_ended in *. rewrite <- Fe. exact X.
Qed.

Theorem locked_size_zero_after_cancel pre ctxs les s :
  lrun (new_pool pre ctxs, None) les = Some (s, None) ->
  cancel_called s = true -> size s = 0%Z.
Proof.
  intros H Hc. pose proof (lrun_refines_init pre ctxs les _ H) as R. cbn [ahead fst snd] in R.
  destruct (main_size pre ctxs _ _ R) as (_ & _ & _ & Z). apply (Z Hc []). reflexivity.
Qed.

Theorem locked_watcher_ends_with_pool pre ctxs les ls :
  lrun (new_pool pre ctxs, None) les = Some ls ->
  (ctx_done (fst ls) = true <-> watcher_gone (fst ls) = true).
Proof.
  intros H. pose proof (lrun_refines_init pre ctxs les ls H) as R.
  destruct (main_watcher_exits pre ctxs _ _ R) as [X _].
  assert (F : ctx_done (ahead ls) = ctx_done (fst ls) /\ pc (ahead ls) = pc (fst ls)).
  { unfold ahead. destruct (snd ls) as [f|]; [|split; reflexivity].
    destruct (land_frame (fst ls) f) as (A & B & _). split; assumption. }
  destruct F as [Fd Fp]. unfold watcher_gone in *. rewrite Fd, Fp in X. exact X.
Qed.

(* ===================================================================================== *)
(* IN FLIGHT: what the caller's ctx.Done() can and cannot see happen                       *)

(* nothing that needs the lock is enabled *)
Theorem flight_blocks s f :
  lstep (s, Some f) (LEv Cancel) = None /\ lstep (s, Some f) (LEv Size) = None /\
  (forall m, lstep (s, Some f) (LEv (AddCtx m)) = None) /\
  (forall m, lstep (s, Some f) (LAddBegin m) = None).
Proof. unfold lstep. destruct (panicked s); repeat split. Qed.

Lemma flight_step_frozen s f e ls' :
  lstep (s, Some f) (LEv e) = Some ls' -> pc s <> W_exiting ->
  exists s', ls' = (s', Some f) /\ pc s' = pc s /\ ctx_done s' = ctx_done s /\ pool s' = pool s.
Proof.
  unfold lstep. destruct (panicked s) eqn:Hpan; [discriminate|].
  destruct (needs_lock s e) eqn:Hn; [discriminate|].
  destruct (step s e) as [s1|] eqn:Hs; [|discriminate].
  intros H Hp. injection H as <-. exists s1. split; [reflexivity|].
  unfold step in Hs. rewrite Hpan in Hs.
  destruct e as [m| | |m|]; cbn [needs_lock] in Hn; try discriminate Hn.
  - injection Hs as <-. repeat split.
  - destruct (pc s) as [i|i ch| |] eqn:Hpc; try discriminate Hn; [exfalso; apply Hp; reflexivity | discriminate Hs].
Qed.

(* Unless the watcher is already in its exit window, a whole flight leaves the watcher, the
   pool's context and the slice where they were, whatever ends meanwhile. *)
Theorem flight_freezes_pool les : forall s f ls',
  lrun (s, Some f) les = Some ls' -> forallb is_lev les = true -> pc s <> W_exiting ->
  exists s', ls' = (s', Some f) /\ pc s' = pc s /\ ctx_done s' = ctx_done s /\ size s' = size s.
Proof.
  induction les as [|le les IH]; intros s f ls' H Hall Hp; cbn [lrun forallb] in *.
  - injection H as <-. exists s. repeat split.
  - apply andb_true_iff in Hall. destruct Hall as [Hle Hall].
    destruct le as [m| |e]; try discriminate Hle.
    destruct (lstep (s, Some f) (LEv e)) as [ls1|] eqn:E; [|discriminate H].
    destruct (flight_step_frozen s f e ls1 E Hp) as (s1 & -> & Hpc & Hd & Hpool).
    destruct (IH s1 f ls' H Hall) as (s' & -> & Hpc' & Hd' & Hsz').
    { rewrite Hpc. exact Hp. }
    exists s'. split; [reflexivity|]. rewrite Hpc', Hd', Hsz', Hpc, Hd.
    repeat split. unfold size, tracked. rewrite Hpool. reflexivity.
Qed.

(* The exit window is the one exception, and it is real: the watcher's cancel() needs no lock. *)
Example flight_exit_window :
  exists ls, lrun (new_pool [] [0%Z], None)
                  [LEv WStep; LEv (MemberDone 0%Z); LEv WStep; LEv WStep; LAddBegin 1%Z; LEv WStep] = Some ls /\
             snd ls <> None /\ ctx_done (fst ls) = true /\ f_append (match snd ls with Some f => f | None => mkflight 0%Z false false end) = true.
Proof. eexists. split; [vm_compute; reflexivity|]. cbn. repeat split. discriminate. Qed.

(* non-vacuity of the freeze: Add in flight on a pool waiting for member 0, member 0 ends inside *)
Example flight_freeze_instance :
  exists s, lrun (new_pool [] [0%Z], None) [LEv WStep; LAddBegin 1%Z; LEv (MemberDone 0%Z)] =
            Some (s, Some (mkflight 1%Z true true)) /\
            ctx_done s = false /\ lstep (s, Some (mkflight 1%Z true true)) (LEv WStep) = None.
Proof. eexists. split; [vm_compute; reflexivity|]. split; reflexivity. Qed.

(* ===================================================================================== *)
(* THE NESTED CASES: what Check.v computes with the lock-aware model for the Done() callback  *)
(* of an Add issued in a settled state is, for EVERY prefix, offered context and nested       *)
(* operations: ctx.Done() is called iff the pool has not ended, and nothing completes inside. *)

Lemma lquiesce_frozen fuel : forall s f,
  pc s <> W_exiting ->
  exists s', lquiesce fuel (s, Some f) = (s', Some f) /\ pc s' = pc s /\ ctx_done s' = ctx_done s.
Proof.
  induction fuel as [|k IH]; intros s f Hp; cbn [lquiesce]; [exists s; repeat split|].
  destruct (lstep (s, Some f) (LEv WStep)) as [l|] eqn:E; [|exists s; repeat split].
  destruct (flight_step_frozen s f WStep l E Hp) as (s1 & -> & Hpc & Hd & _).
  destruct (IH s1 f) as (s' & H & Hpc' & Hd'); [rewrite Hpc; exact Hp|].
  exists s'. rewrite H, Hpc', Hd', Hpc, Hd. repeat split.
Qed.

Lemma flight_fold_false nops : forall x, snd (fold_left flight_op nops (x, false)) = false.
Proof.
  induction nops as [|op nops IH]; intro x; cbn [fold_left]; [reflexivity|].
  assert (Hop : flight_op (x, false) op =
                match lstep x (LEv (ev_of op)) with Some l => (lsettle l, false) | None => (x, false) end)
    by reflexivity.
  rewrite Hop. destruct (lstep x (LEv (ev_of op))); apply IH.
Qed.

Lemma flight_fold nops : forall s f ran,
  pc s <> W_exiting ->
  ctx_done (fst (fst (fold_left flight_op nops ((s, Some f), ran)))) = ctx_done s /\
  (snd (fold_left flight_op nops ((s, Some f), ran)) = true -> forallb is_end nops = true).
Proof.
  induction nops as [|op nops IH]; intros s f ran Hp; cbn [fold_left forallb]; [split; reflexivity|].
  assert (Hop : flight_op (s, Some f, ran) op =
                match lstep (s, Some f) (LEv (ev_of op)) with
                | Some l => (lsettle l, ran)
                | None => ((s, Some f), false)
                end) by reflexivity.
  rewrite Hop. clear Hop.
  destruct (lstep (s, Some f) (LEv (ev_of op))) as [l|] eqn:E.
  - destruct (flight_step_frozen s f _ l E Hp) as (s1 & -> & Hpc & Hd & _).
    destruct (lquiesce_frozen (Model.measure s1) s1 f) as (s2 & H2 & Hpc2 & Hd2); [rewrite Hpc; exact Hp|].
    unfold lsettle. cbn [fst]. rewrite H2.
    destruct (IH s2 f ran) as [A B]; [rewrite Hpc2, Hpc; exact Hp|].
    split; [exact (eq_trans A (eq_trans Hd2 Hd))|].
    intro X. rewrite (B X), andb_true_r.
    (* an operation enabled in flight is the end of a context *)
    destruct op as [x|x| |]; [reflexivity| | |]; exfalso; unfold lstep in E;
      destruct (panicked s); try discriminate E; cbn [ev_of needs_lock] in E; discriminate E.
  - split.
    + destruct (IH s f false Hp) as [A _]. exact A.
    + intro X. rewrite flight_fold_false in X. discriminate X.
Qed.

Lemma quiescent_not_exiting s : Inv s -> quiescent s -> pc s <> W_exiting.
Proof.
  intros I Q Hp. unfold quiescent, step in Q. rewrite (inv_panic s I), Hp in Q. discriminate Q.
Qed.

Theorem nested_flight_spec pre ctxs ops1 m nops :
  nested_flight pre ctxs ops1 m nops = (nested_called pre ctxs ops1, false, false).
Proof.
  unfold nested_flight, nested_called.
  pose proof (script_end_sim ops1 _ _ (sim_init pre ctxs)) as S1.
  set (s1 := script_end (settle (new_pool pre ctxs)) ops1) in *.
  destruct S1 as [[I _ _ _ _ _ _] Q].
  pose proof (quiescent_lock_free s1 I Q) as Hl.
  pose proof (quiescent_not_exiting s1 I Q) as Hp.
  unfold lstep. rewrite (inv_panic s1 I), Hl. cbn [negb f_append].
  destruct (ctx_done s1 || closed s1) eqn:Hdc; cbn [negb]; [reflexivity|].
  apply orb_false_iff in Hdc. destruct Hdc as [Hd _].
  destruct (flight_fold nops s1 (mkflight m true (some_member_live s1)) true Hp) as [A B].
  rewrite A, Hd.
  destruct (forallb is_end nops) eqn:Fe; [reflexivity|].
  destruct (snd (fold_left flight_op nops _)) eqn:X; [|reflexivity].
  discriminate (B eq_refl).
Qed.

(* non-vacuity: a pool waiting for its member, Cancel() tried inside the callback *)
Example nested_flight_instance :
  nested_flight [] [0%Z] [] 1%Z [SCancel] = (true, false, false) /\
  nested_flight [] [0%Z] [SCancel] 1%Z [SSize] = (false, false, false) /\
  nested_flight [] [0%Z; 1%Z] [] 2%Z [SEnd 1%Z; SEnd 0%Z] = (true, false, false).
Proof. vm_compute. repeat split. Qed.
