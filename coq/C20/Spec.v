(* C20 — what the property demands of context.Pool, written from the property text and the doc
   comments ("the callee context is only cancelled when all callers in the pool are done",
   "Added contexts are ignored if the pool is already cancelled", "Cancel cancels the pool.
   Removes all contexts from the pool", "Size returns the number of contexts in the pool"),
   NOT from the code.  Contexts are ids ([Z]). *)
From Kit Require Export Lib.Base.

Definition memz (m : Z) (l : list Z) : bool := existsb (Z.eqb m) l.

(* ===================================================================================== *)
(* 1. State predicates, over a VIEW of a pool at one instant of an execution.              *)

Record view := mkview {
  v_ended : list Z;        (* contexts that have ended so far *)
  v_members : list Z;      (* the members in the property's sense (see [members_after_add]) *)
  v_cancelled : bool;      (* Cancel has been called *)
  v_done : bool;           (* the pool's context is done *)
  v_size : Z;              (* what Size() would return *)
  v_watcher_gone : bool    (* the pool's goroutine has returned *)
}.

Definition all_ended (ended l : list Z) : Prop := forall m, In m l -> memz m ended = true.

Definition some_live (ended l : list Z) : bool := existsb (fun m => negb (memz m ended)) l.

(* Membership: "a member - one passed at creation, or added while the pool was still live and
   some member was still live".  At creation the members are the contexts passed; an Add of [m]
   at a moment with view [v] gives: *)
Definition members_after_add (v : view) (m : Z) : list Z :=
  if negb (v_done v) && negb (v_cancelled v) && some_live (v_ended v) (v_members v)
  then v_members v ++ [m] else v_members v.

(* "never [cancelled] while a member has not ended" (unless Cancel was called) *)
Definition never_early (v : view) : Prop :=
  v_done v = true -> v_cancelled v = true \/ all_ended (v_ended v) (v_members v).

(* "Size reports the members being tracked (zero after Cancel)" *)
Definition size_zero_after_cancel (v : view) : Prop := v_cancelled v = true -> v_size v = 0%Z.

(* "the pool's watcher goroutine ends with it" *)
Definition watcher_ends_with_pool (v : view) : Prop := v_done v = true <-> v_watcher_gone v = true.

(* ===================================================================================== *)
(* 2. Sequential scripts: the pool is driven by one caller that lets the pool settle after  *)
(*    every step, then looks at Done() and Size().  Under that discipline the property       *)
(*    determines the done/not-done observation after every step.                             *)

Inductive sop :=
| SEnd (m : Z)     (* context m ends (it need not be a member) *)
| SAdd (m : Z)     (* pool.Add(context m) *)
| SCancel          (* pool.Cancel() *)
| SSize.           (* pool.Size() - a look.  The harness also prints as SSize what the caller
                      does with its OWN data and the pool must not notice: overwriting the slice
                      it spread into NewPool(s...), building a second pool from that slice. *)

Record ref := mkref {
  r_ended : list Z;
  r_members : list Z;      (* members in the property's sense *)
  r_cancelled : bool;
  r_offered : nat          (* contexts offered so far while the pool was live, creation included *)
}.

(* done exactly when Cancel was called or every member has ended *)
Definition ref_done (r : ref) : bool :=
  r_cancelled r || negb (some_live (r_ended r) (r_members r)).

Definition ref_new (pre ctxs : list Z) : ref := mkref pre ctxs false (length ctxs).

Definition ref_step (r : ref) (op : sop) : ref :=
  match op with
  | SEnd m => mkref (m :: r_ended r) (r_members r) (r_cancelled r) (r_offered r)
  | SAdd m =>
      if ref_done r then r                                   (* offered after the pool ended *)
      else mkref (r_ended r) (r_members r ++ [m]) (r_cancelled r) (S (r_offered r))
  | SCancel => mkref (r_ended r) (r_members r) true (r_offered r)
  | SSize => r
  end.

Definition live_members (r : ref) : list Z :=
  filter (fun m => negb (memz m (r_ended r))) (r_members r).

Definition is_add (op : sop) : bool := match op with SAdd _ => true | _ => false end.

(* One observation [(done, size)] taken after the pool settled.  [prev] = (the reference state,
   the operation, the Size observed) of the step before, when there is one. *)
Definition obs_spec (prev : option (ref * sop * Z)) (r : ref) (o : bool * Z) : Prop :=
  (* done: never early, and cancelled once every member has ended / Cancel was called *)
  fst o = ref_done r /\
  (* Size: zero after Cancel; otherwise it counts at least the live members and at most the
     contexts ever offered while the pool was live *)
  (if r_cancelled r then snd o = 0%Z
   else (Z.of_nat (length (live_members r)) <= snd o <= Z.of_nat (r_offered r))%Z) /\
  (* a context offered after the pool ended is ignored *)
  match prev with
  | Some (rb, op, szb) => is_add op = true -> ref_done rb = true -> snd o = szb
  | None => True
  end.

Fixpoint script_spec_from (r : ref) (szb : Z) (ops : list sop) (obs : list (bool * Z)) : Prop :=
  match ops, obs with
  | [], [] => True
  | op :: ops', o :: obs' =>
      obs_spec (Some (r, op, szb)) (ref_step r op) o /\
      script_spec_from (ref_step r op) (snd o) ops' obs'
  | _, _ => False
  end.

(* [o0] after creation, [obs] after each operation, [fin] = the pool is done after every
   context has been ended, [leak] = "the pool's watcher goroutine ends with it" was seen to fail:
   at some look that found the pool's context done - after creation, after any operation (a
   Cancel while members are still live or never end at all, the end of the last member, ...) or
   after every context had been ended - the pool's goroutine was still there when the liveness
   deadline expired. *)
Definition script_spec (pre ctxs : list Z) (ops : list sop) (o0 : bool * Z)
           (obs : list (bool * Z)) (fin leak : bool) : Prop :=
  obs_spec None (ref_new pre ctxs) o0 /\
  script_spec_from (ref_new pre ctxs) (snd o0) ops obs /\
  fin = true /\ leak = false.

(* boolean versions *)
Definition obs_oracle (prev : option (ref * sop * Z)) (r : ref) (o : bool * Z) : bool :=
  Bool.eqb (fst o) (ref_done r) &&
  (if r_cancelled r then (snd o =? 0)%Z
   else (Z.of_nat (length (live_members r)) <=? snd o)%Z && (snd o <=? Z.of_nat (r_offered r))%Z) &&
  match prev with
  | Some (rb, op, szb) => if is_add op && ref_done rb then (snd o =? szb)%Z else true
  | None => true
  end.

Fixpoint script_oracle_from (r : ref) (szb : Z) (ops : list sop) (obs : list (bool * Z)) : bool :=
  match ops, obs with
  | [], [] => true
  | op :: ops', o :: obs' =>
      obs_oracle (Some (r, op, szb)) (ref_step r op) o &&
      script_oracle_from (ref_step r op) (snd o) ops' obs'
  | _, _ => false
  end.

Definition script_oracle (pre ctxs : list Z) (ops : list sop) (o0 : bool * Z)
           (obs : list (bool * Z)) (fin leak : bool) : bool :=
  obs_oracle None (ref_new pre ctxs) o0 &&
  script_oracle_from (ref_new pre ctxs) (snd o0) ops obs &&
  fin && negb leak.

(* ===================================================================================== *)
(* 3. Races: [k] live members are ended by one thread while other threads each Add one      *)
(*    fresh, live context.  [confirmed_j] = the harness KNOWS that adder j's Add returned    *)
(*    while some member was still live (so its context is a member).  [mid] = the pool was   *)
(*    seen done after all threads finished and before any added context ended; [fin] = done  *)
(*    after the added contexts ended too.                                                    *)
Definition race_spec (confirmed : list bool) (mid fin leak : bool) : Prop :=
  (In true confirmed -> mid = false) /\ fin = true /\ leak = false.

Definition race_oracle (confirmed : list bool) (mid fin leak : bool) : bool :=
  (if existsb (fun b => b) confirmed then negb mid else true) && fin && negb leak.

(* ===================================================================================== *)
(* 4. Partially observed scripts.  Some steps of a script are not looked at, or only one of *)
(*    Done() / Size() is: an observation is a pair of options.  The Size the property PINS   *)
(*    is threaded through the script: after a Size has been observed, a Size() call and an   *)
(*    Add offered to an ended pool ("ignored") leave it unchanged; any other operation       *)
(*    unpins it.                                                                             *)

Record pobs := mkpobs { p_done : option bool; p_size : option Z }.

Definition pfull (o : bool * Z) : pobs := mkpobs (Some (fst o)) (Some (snd o)).
Definition pnone : pobs := mkpobs None None.

Definition pin_step (r : ref) (pin : option Z) (op : sop) : option Z :=
  match op with
  | SSize => pin
  | SAdd _ => if ref_done r then pin else None      (* offered after the pool ended: ignored *)
  | _ => None
  end.

Definition size_ok (r : ref) (z : Z) : Prop :=
  if r_cancelled r then z = 0%Z
  else (Z.of_nat (length (live_members r)) <= z <= Z.of_nat (r_offered r))%Z.

Definition pobs_spec (pin : option Z) (r : ref) (o : pobs) : Prop :=
  (forall d, p_done o = Some d -> d = ref_done r) /\
  (forall z, p_size o = Some z -> size_ok r z /\ (forall e, pin = Some e -> z = e)).

Definition pin_next (pin : option Z) (o : pobs) : option Z :=
  match p_size o with Some z => Some z | None => pin end.

Fixpoint pscript_spec_from (r : ref) (pin : option Z) (ops : list sop) (obs : list pobs) : Prop :=
  match ops, obs with
  | [], [] => True
  | op :: ops', o :: obs' =>
      pobs_spec (pin_step r pin op) (ref_step r op) o /\
      pscript_spec_from (ref_step r op) (pin_next (pin_step r pin op) o) ops' obs'
  | _, _ => False
  end.

Definition pscript_spec (pre ctxs : list Z) (ops : list sop) (o0 : bool * Z)
           (obs : list pobs) (fin leak : bool) : Prop :=
  pobs_spec None (ref_new pre ctxs) (pfull o0) /\
  pscript_spec_from (ref_new pre ctxs) (Some (snd o0)) ops obs /\
  fin = true /\ leak = false.

Definition size_okb (r : ref) (z : Z) : bool :=
  if r_cancelled r then (z =? 0)%Z
  else (Z.of_nat (length (live_members r)) <=? z)%Z && (z <=? Z.of_nat (r_offered r))%Z.

Definition pobs_oracle (pin : option Z) (r : ref) (o : pobs) : bool :=
  match p_done o with Some d => Bool.eqb d (ref_done r) | None => true end &&
  match p_size o with
  | Some z => size_okb r z && match pin with Some e => (z =? e)%Z | None => true end
  | None => true
  end.

Fixpoint pscript_oracle_from (r : ref) (pin : option Z) (ops : list sop) (obs : list pobs) : bool :=
  match ops, obs with
  | [], [] => true
  | op :: ops', o :: obs' =>
      pobs_oracle (pin_step r pin op) (ref_step r op) o &&
      pscript_oracle_from (ref_step r op) (pin_next (pin_step r pin op) o) ops' obs'
  | _, _ => false
  end.

Definition pscript_oracle (pre ctxs : list Z) (ops : list sop) (o0 : bool * Z)
           (obs : list pobs) (fin leak : bool) : bool :=
  pobs_oracle None (ref_new pre ctxs) (pfull o0) &&
  pscript_oracle_from (ref_new pre ctxs) (Some (snd o0)) ops obs &&
  fin && negb leak.

(* ===================================================================================== *)
(* 5. An operation nested in Add.  After the settled script [ops1] the caller offers         *)
(*    context [m]; the context's Done() method - which Add calls when it does not ignore     *)
(*    the offer - is a callback of the caller, and INSIDE it the caller performs [nops]:     *)
(*    it starts Cancel() or Size() on another goroutine, or ends members itself, and waits   *)
(*    a bounded time.  Observed:                                                             *)
(*      called   Done() was called (otherwise [nops] were performed after Add returned);     *)
(*      ndone    the pool's context was seen done ndone the callback, hence before Add      *)
(*               returned;                                                                   *)
(*      nret     the nested Cancel()/Size() returned at all;                                 *)
(*      nres     what the nested Size() returned;                                            *)
(*      oA       (Done() closed?, Size()) after Add and the nested call both returned and    *)
(*               the pool settled; then the settled script [ops2] with its observations.     *)
(*    When Done() was called, the nested operation and Add OVERLAP: each may take effect     *)
(*    before the other, and the property must hold for one of the two orders; when it was    *)
(*    not called, the nested operation came strictly after Add.  Whatever the order: after   *)
(*    the nested Cancel() returned Size is zero and later Adds are ignored; a pool seen done *)
(*    ndone the callback ignores the offered context or had it as an ended member.          *)

Definition nested_obs (ndone : bool) (nres : option Z) : pobs :=
  mkpobs (if ndone then Some true else None) nres.

Definition unobserved (ops : list sop) : list pobs := map (fun _ => pnone) ops.

(* Add takes effect first.  The two trailing Size steps carry the observation made of the
   nested operation and the observation after both calls returned. *)
Definition lin_add_first (ops1 : list sop) (m : Z) (nops ops2 : list sop) : list sop :=
  ops1 ++ SAdd m :: nops ++ SSize :: SSize :: ops2.

Definition lin_add_first_obs (obs1 : list (bool * Z)) (nops : list sop) (ndone : bool)
           (nres : option Z) (oA : bool * Z) (obs2 : list (bool * Z)) : list pobs :=
  map pfull obs1 ++ pnone :: unobserved nops ++ nested_obs ndone nres :: pfull oA :: map pfull obs2.

(* the nested operation takes effect first *)
Definition lin_add_last (ops1 : list sop) (m : Z) (nops ops2 : list sop) : list sop :=
  ops1 ++ nops ++ SSize :: SAdd m :: ops2.

Definition lin_add_last_obs (obs1 : list (bool * Z)) (nops : list sop) (ndone : bool)
           (nres : option Z) (oA : bool * Z) (obs2 : list (bool * Z)) : list pobs :=
  map pfull obs1 ++ unobserved nops ++ nested_obs ndone nres :: pfull oA :: map pfull obs2.

Definition nested_spec (pre ctxs : list Z) (ops1 : list sop) (o0 : bool * Z)
           (obs1 : list (bool * Z)) (m : Z) (nops : list sop) (called ndone nret : bool)
           (nres : option Z) (oA : bool * Z) (ops2 : list sop) (obs2 : list (bool * Z))
           (fin leak : bool) : Prop :=
  nret = true /\
  (pscript_spec pre ctxs (lin_add_first ops1 m nops ops2) o0
                (lin_add_first_obs obs1 nops ndone nres oA obs2) fin leak \/
   (called = true /\
    pscript_spec pre ctxs (lin_add_last ops1 m nops ops2) o0
                 (lin_add_last_obs obs1 nops ndone nres oA obs2) fin leak)).

Definition nested_oracle (pre ctxs : list Z) (ops1 : list sop) (o0 : bool * Z)
           (obs1 : list (bool * Z)) (m : Z) (nops : list sop) (called ndone nret : bool)
           (nres : option Z) (oA : bool * Z) (ops2 : list sop) (obs2 : list (bool * Z))
           (fin leak : bool) : bool :=
  nret &&
  (pscript_oracle pre ctxs (lin_add_first ops1 m nops ops2) o0
                  (lin_add_first_obs obs1 nops ndone nres oA obs2) fin leak ||
   (called &&
    pscript_oracle pre ctxs (lin_add_last ops1 m nops ops2) o0
                   (lin_add_last_obs obs1 nops ndone nres oA obs2) fin leak)).
