(* C20 — pool.go with Add NOT atomic: the write lock as part of the state.  Definitions only.

   Add(ctx)  73-83   Lock(); select { <-p.Done(): | <-p.closed: | default: append(ctx.Done()) }; Unlock()

   [ctx.Done()] is a method of the CALLER's context: arbitrary code of the caller runs there, while
   Add holds the write lock.  Here Add is two events:
     [LAddBegin m]  Lock() succeeded; the select has been evaluated (neither channel ready = the
                    offer is accepted and ctx.Done() is about to be called; otherwise Add is about
                    to return) - the Add is IN FLIGHT and holds the write lock;
     [LAddEnd]      ctx.Done() returned; the append; Unlock().
   While an Add is in flight every event that needs the lock is disabled: Cancel and another Add
   (Lock), Size (RLock), and the watcher's step out of its select (it re-takes the read lock:
   [W_wait] -> [W_check]).  The ends of contexts (environment) and the watcher's deferred cancel()
   after its last RUnlock ([W_exiting] -> [W_done]) need no lock and stay enabled.
   The ghost flag "some member is live" is taken when the offer is made (LAddBegin): membership
   in the property's sense speaks about the moment a context is offered. *)
From Kit Require Export C20.Model.

Record flight := mkflight {
  f_ctx : id;          (* the context offered *)
  f_append : bool;     (* the select took its default branch: ctx.Done() is called, then append *)
  f_live : bool        (* ghost: some member was live when the offer was made *)
}.

Definition lstate := (state * option flight)%type.

Inductive levent :=
| LAddBegin (m : id)
| LAddEnd
| LEv (e : event).      (* an event of Model.v other than AddCtx *)

(* the append of the Add in flight *)
Definition land (s : state) (f : flight) : state :=
  if f_append f
  then mk (ended s) (Some (tracked s ++ [f_ctx f])) (closed s) (ctx_done s) (pc s) (panicked s)
          (if f_live f then members s ++ [f_ctx f] else members s)
          (if f_live f then late s else late s ++ [f_ctx f])
          (cancel_called s)
  else s.

(* does [e] have to take p.lock in state [s]? *)
Definition needs_lock (s : state) (e : event) : bool :=
  match e with
  | AddCtx _ | Cancel | Size => true
  | MemberDone _ => false
  | WStep => match pc s with
             | W_wait _ _ => true        (* select, then RLock() *)
             | W_check _ => true         (* holds the read lock: excluded while a writer holds the lock *)
             | W_exiting | W_done => false
             end
  end.

Definition lstep (ls : lstate) (le : levent) : option lstate :=
  let '(s, fl) := ls in
  if panicked s then None else
  match fl, le with
  | None, LAddBegin m =>
      if negb (write_lock_free s) then None
      else Some (s, Some (mkflight m (negb (ctx_done s || closed s)) (some_member_live s)))
  | None, LEv (AddCtx _) => None
  | None, LEv e => match step s e with Some s' => Some (s', None) | None => None end
  | None, LAddEnd => None
  | Some f, LAddEnd => Some (land s f, None)
  | Some f, LEv e =>
      if needs_lock s e then None
      else match step s e with Some s' => Some (s', Some f) | None => None end
  | Some _, LAddBegin _ => None
  end.

Fixpoint lrun (ls : lstate) (les : list levent) : option lstate :=
  match les with
  | [] => Some ls
  | le :: les' => match lstep ls le with Some ls' => lrun ls' les' | None => None end
  end.

(* the state of the atomic model that corresponds: the Add in flight has already happened *)
Definition ahead (ls : lstate) : state :=
  match snd ls with Some f => land (fst ls) f | None => fst ls end.

(* the atomic schedule that corresponds: Add takes effect where it took the lock *)
Definition flat (le : levent) : list event :=
  match le with LAddBegin m => [AddCtx m] | LAddEnd => [] | LEv e => [e] end.

Definition is_lev (le : levent) : bool := match le with LEv _ => true | _ => false end.

(* let the watcher run as far as it can (it cannot, while an Add is in flight, unless it is in
   its exit window) *)
Fixpoint lquiesce (fuel : nat) (ls : lstate) : lstate :=
  match fuel with
  | O => ls
  | S f => match lstep ls (LEv WStep) with Some ls' => lquiesce f ls' | None => ls end
  end.

Definition lsettle (ls : lstate) : lstate := lquiesce (measure (fst ls)) ls.
