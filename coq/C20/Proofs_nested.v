(* C20 — partially observed scripts and operations nested in Add's Done() callback: the boolean
   oracles decide the spec predicates; on fully observed scripts the partial-observation spec
   implies the script spec; whatever the model produces for a nested case satisfies the nested
   specification (so verdict 2 on such a case can only come from the implementation).
   No axioms. *)
From Kit Require Import C20.Model C20.Spec C20.Check C20.Proofs C20.Proofs_script.

(* ===================================================================================== *)
(* oracle soundness                                                                        *)

Lemma size_okb_sound r z : size_okb r z = true <-> size_ok r z.
Proof.
  unfold size_okb, size_ok. destruct (r_cancelled r); [apply Z.eqb_eq|].
  rewrite andb_true_iff, !Z.leb_le. reflexivity.
Qed.

Lemma pobs_oracle_sound pin r o : pobs_oracle pin r o = true <-> pobs_spec pin r o.
Proof.
  unfold pobs_oracle, pobs_spec. rewrite andb_true_iff.
  assert (A : match p_done o with Some d => Bool.eqb d (ref_done r) | None => true end = true <->
              (forall d, p_done o = Some d -> d = ref_done r)).
  { destruct (p_done o) as [d|].
    - rewrite eqb_true_iff. split; [intros H d' E; injection E as <-; exact H | intro H; apply H; reflexivity].
    - split; [intros _ d E; discriminate E | reflexivity]. }
  assert (B : match p_size o with
              | Some z => size_okb r z && match pin with Some e => (z =? e)%Z | None => true end
              | None => true
              end = true <->
              (forall z, p_size o = Some z -> size_ok r z /\ (forall e, pin = Some e -> z = e))).
  { destruct (p_size o) as [z|].
    - rewrite andb_true_iff, size_okb_sound.
      assert (P : match pin with Some e => (z =? e)%Z | None => true end = true <->
                  (forall e, pin = Some e -> z = e)).
      { destruct pin as [e|].
        - rewrite Z.eqb_eq. split; [intros H e' E; injection E as <-; exact H | intro H; apply H; reflexivity].
        - split; [intros _ e E; discriminate E | reflexivity]. }
      rewrite P. split; [intros H z' E; injection E as <-; exact H | intro H; apply H; reflexivity].
    - split; [intros _ z E; discriminate E | reflexivity]. }
  rewrite A, B. reflexivity.
Qed.

Lemma pscript_oracle_from_sound ops : forall r pin obs,
  pscript_oracle_from r pin ops obs = true <-> pscript_spec_from r pin ops obs.
Proof.
  induction ops as [|op ops IH]; intros r pin [|o obs]; cbn [pscript_oracle_from pscript_spec_from];
    try (split; [discriminate | intros []]).
  - split; [intros _; exact I | reflexivity].
  - rewrite andb_true_iff, pobs_oracle_sound, IH. reflexivity.
Qed.

Lemma pscript_oracle_sound pre ctxs ops o0 obs fin leak :
  pscript_oracle pre ctxs ops o0 obs fin leak = true <-> pscript_spec pre ctxs ops o0 obs fin leak.
Proof.
  unfold pscript_oracle, pscript_spec.
  rewrite !andb_true_iff, pobs_oracle_sound, pscript_oracle_from_sound, negb_true_iff. tauto.
Qed.

Lemma nested_oracle_sound pre ctxs ops1 o0 obs1 m nops called ndone nret nres oA ops2 obs2 fin leak :
  nested_oracle pre ctxs ops1 o0 obs1 m nops called ndone nret nres oA ops2 obs2 fin leak = true <->
  nested_spec pre ctxs ops1 o0 obs1 m nops called ndone nret nres oA ops2 obs2 fin leak.
Proof.
  unfold nested_oracle, nested_spec.
  rewrite andb_true_iff, orb_true_iff, andb_true_iff, !pscript_oracle_sound. reflexivity.
Qed.

(* ===================================================================================== *)
(* fully observed: the partial-observation spec is at least the script spec                 *)

Lemma pobs_full_obs r op szb o :
  pobs_spec (pin_step r (Some szb) op) (ref_step r op) (pfull o) ->
  obs_spec (Some (r, op, szb)) (ref_step r op) o.
Proof.
  intros [Hd Hz]. cbn [pfull p_done p_size] in *.
  specialize (Hd (fst o) eq_refl). destruct (Hz (snd o) eq_refl) as [Hs Hp].
  unfold obs_spec. split; [exact Hd|]. split; [exact Hs|].
  intros Ha Hrd. apply Hp. destruct op as [x|x| |]; try discriminate Ha.
  cbn [pin_step]. rewrite Hrd. reflexivity.
Qed.

Lemma pscript_full_from ops : forall r szb obs,
  pscript_spec_from r (Some szb) ops (map pfull obs) -> script_spec_from r szb ops obs.
Proof.
  induction ops as [|op ops IH]; intros r szb [|o obs]; cbn [map pscript_spec_from script_spec_from];
    try (intro H; exact H).
  intros [H1 H2]. split; [apply pobs_full_obs; exact H1|].
  apply IH. exact H2.
Qed.

Theorem pscript_full_implies_script pre ctxs ops o0 obs fin leak :
  pscript_spec pre ctxs ops o0 (map pfull obs) fin leak -> script_spec pre ctxs ops o0 obs fin leak.
Proof.
  unfold pscript_spec, script_spec. intros ([Hd Hz] & H2 & H3 & H4).
  cbn [pfull p_done p_size] in *.
  split; [|split; [apply pscript_full_from; exact H2 | split; assumption]].
  unfold obs_spec. split; [apply Hd; reflexivity|]. split; [apply (Hz _ eq_refl) | exact I].
Qed.

(* ===================================================================================== *)
(* the settled model satisfies the partial-observation spec for every weakening of its      *)
(* observations                                                                             *)

Definition weaker (o : bool * Z) (p : pobs) : Prop :=
  (forall d, p_done p = Some d -> d = fst o) /\ (forall z, p_size p = Some z -> z = snd o).

Lemma pobs_match_sound o p : pobs_match o p = true <-> weaker o p.
Proof.
  unfold pobs_match, weaker. rewrite andb_true_iff.
  assert (A : match p_done p with Some d => Bool.eqb d (fst o) | None => true end = true <->
              (forall d, p_done p = Some d -> d = fst o)).
  { destruct (p_done p) as [d|].
    - rewrite eqb_true_iff. split; [intros H d' E; injection E as <-; exact H | intro H; apply H; reflexivity].
    - split; [intros _ d E; discriminate E | reflexivity]. }
  assert (B : match p_size p with Some z => (z =? snd o)%Z | None => true end = true <->
              (forall z, p_size p = Some z -> z = snd o)).
  { destruct (p_size p) as [z|].
    - rewrite Z.eqb_eq. split; [intros H z' E; injection E as <-; exact H | intro H; apply H; reflexivity].
    - split; [intros _ z E; discriminate E | reflexivity]. }
  rewrite A, B. reflexivity.
Qed.

Lemma pobs_matches_sound : forall a b, pobs_matches a b = true <-> Forall2 weaker a b.
Proof.
  induction a as [|x a IH]; intros [|y b]; cbn [pobs_matches].
  - split; [intros _; constructor | reflexivity].
  - split; [discriminate | intro H; inversion H].
  - split; [discriminate | intro H; inversion H].
  - rewrite andb_true_iff, pobs_match_sound, IH. split.
    + intros [H1 H2]. constructor; assumption.
    + intro H. inversion H; subst. split; assumption.
Qed.

Lemma sim_size_ok s r : Sim s r -> size_ok r (size s).
Proof.
  intro S. destruct (sim_obs s r None S I) as (_ & H & _). exact H.
Qed.

Lemma sim_pobs s r pin p :
  Sim s r -> (forall e, pin = Some e -> size s = e) -> weaker (observe s) p -> pobs_spec pin r p.
Proof.
  intros S Hpin [Wd Wz]. split.
  - intros d E. rewrite (Wd d E). cbn [observe fst]. apply sim_done. exact S.
  - intros z E. rewrite (Wz z E). cbn [observe snd]. split; [apply sim_size_ok; exact S | exact Hpin].
Qed.

Lemma do_op_size s r : Sim s r -> do_op s SSize = s.
Proof.
  intros [[I _ _ _ _ _ _] Q]. unfold do_op. cbn [ev_of]. unfold step. rewrite (inv_panic s I).
  apply quiescent_quiesce. exact Q.
Qed.

Lemma pin_step_ok s r pin op :
  Sim s r -> (forall e, pin = Some e -> size s = e) ->
  forall e, pin_step r pin op = Some e -> size (do_op s op) = e.
Proof.
  intros S Hpin e E. destruct op as [x|x| |]; cbn [pin_step] in E; try discriminate E.
  - destruct (ref_done r) eqn:D; [|discriminate E].
    destruct (sim_step s r (SAdd x) S) as [_ H]. rewrite (H eq_refl D). apply Hpin. exact E.
  - rewrite (do_op_size s r S). apply Hpin. exact E.
Qed.

Lemma pscript_obs_spec ops : forall s r pin pobs,
  Sim s r -> (forall e, pin = Some e -> size s = e) ->
  Forall2 weaker (script_obs s ops) pobs -> pscript_spec_from r pin ops pobs.
Proof.
  induction ops as [|op ops IH]; intros s r pin pobs S Hpin F; cbn [script_obs] in F;
    inversion F as [|o p os ps W F']; subst; cbn [pscript_spec_from]; [exact I|].
  destruct (sim_step s r op S) as [S' _].
  pose proof (pin_step_ok s r pin op S Hpin) as Hpin'.
  split.
  - apply (sim_pobs (do_op s op)); assumption.
  - apply (IH (do_op s op)); [exact S' | | exact F'].
    intros e E. unfold pin_next in E. destruct (p_size p) as [z|] eqn:Pz.
    + injection E as <-. destruct W as [_ Wz]. rewrite (Wz z Pz). reflexivity.
    + apply Hpin'. exact E.
Qed.

Lemma eqb_obs_eq a b : eqb_obs a b = true -> a = b.
Proof.
  destruct a as [d z], b as [d' z']. unfold eqb_obs. cbn [fst snd].
  rewrite andb_true_iff, eqb_true_iff, Z.eqb_eq. intros [-> ->]. reflexivity.
Qed.

Lemma weaker_full o : weaker o (pfull o).
Proof.
  split; cbn [pfull p_done p_size]; intros x E; injection E as <-; reflexivity.
Qed.

(* Every partially observed script whose observations agree with the model's satisfies the spec. *)
Theorem pscript_model_meets_spec pre ctxs ops pobs :
  let '(o0, obs, fin) := script_model pre ctxs ops in
  Forall2 weaker obs pobs -> pscript_spec pre ctxs ops o0 pobs fin false.
Proof.
  pose proof (script_model_meets_spec pre ctxs ops) as Hm.
  unfold script_model in *. intro F.
  pose proof (sim_init pre ctxs) as S0.
  set (s0 := settle (new_pool pre ctxs)) in *.
  destruct Hm as (_ & _ & Hfin & _).
  unfold pscript_spec. split; [|split; [|split; [exact Hfin | reflexivity]]].
  - apply (sim_pobs s0); [exact S0 | intros e E; discriminate E | apply weaker_full].
  - apply (pscript_obs_spec ops s0); [exact S0 | | exact F].
    intros e E. injection E as <-. reflexivity.
Qed.

(* A partially observed script case on which the model agrees with the implementation passes
   the oracle. *)
Theorem pscript_agrees_oracle pre ctxs ops o0 obs fin leak :
  model_agrees (CPScript pre ctxs ops o0 obs fin leak) = true ->
  oracle (CPScript pre ctxs ops o0 obs fin leak) = true.
Proof.
  cbn [model_agrees oracle].
  pose proof (pscript_model_meets_spec pre ctxs ops obs) as Hm.
  destruct (script_model pre ctxs ops) as [[m0 mobs] mfin].
  rewrite !andb_true_iff, negb_true_iff, eqb_true_iff, pobs_matches_sound.
  intros (((H0 & Hobs) & Hfin) & Hleak).
  apply eqb_obs_eq in H0. subst m0 mfin leak.
  apply pscript_oracle_sound, Hm. exact Hobs.
Qed.

(* NESTED.  A nested case on which the model agrees with the implementation satisfies the
   nested specification (through the order "Add first"): the oracle never fails on behaviour
   the model produces. *)
Theorem nested_agrees_spec pre ctxs ops1 o0 obs1 m nops called inside ndone nret nres oA ops2 obs2 fin leak :
  nested_agrees pre ctxs ops1 o0 obs1 m nops called inside ndone nret nres oA ops2 obs2 fin leak = true ->
  nested_spec pre ctxs ops1 o0 obs1 m nops called ndone nret nres oA ops2 obs2 fin leak.
Proof.
  unfold nested_agrees, nested_spec.
  pose proof (pscript_model_meets_spec pre ctxs (lin_add_first ops1 m nops ops2)
                (lin_add_first_obs obs1 nops ndone nres oA obs2)) as Hm.
  destruct (script_model pre ctxs (lin_add_first ops1 m nops ops2)) as [[m0 mobs] mfin].
  rewrite !andb_true_iff, !negb_true_iff, !eqb_true_iff, pobs_matches_sound.
  intros (((((H0 & Hobs) & _) & Hret) & Hfin) & Hleak).
  apply eqb_obs_eq in H0. subst m0 mfin leak.
  split; [exact Hret | left; apply Hm; exact Hobs].
Qed.

Corollary nested_agrees_oracle pre ctxs ops1 o0 obs1 m nops called inside ndone nret nres oA ops2 obs2 fin leak :
  nested_agrees pre ctxs ops1 o0 obs1 m nops called inside ndone nret nres oA ops2 obs2 fin leak = true ->
  nested_oracle pre ctxs ops1 o0 obs1 m nops called ndone nret nres oA ops2 obs2 fin leak = true.
Proof. intro H. apply nested_oracle_sound. apply (nested_agrees_spec _ _ _ _ _ _ _ _ inside). exact H. Qed.

(* ===================================================================================== *)
(* the watcher ends with the pool, at every look of every script                            *)

(* In every settled state of a scripted run the watcher goroutine has returned exactly when the
   pool's context is done - whatever the members are doing (live, never ending, ended): this is
   what [leak = false] asks of the implementation at each look that finds the pool done. *)
Lemma sim_watcher s r : Sim s r -> watcher_gone s = ctx_done s.
Proof.
  intros [[I _ _ _ _ _ _] _]. unfold watcher_gone.
  destruct (ctx_done s) eqn:Hd.
  - assert (Hp : pc s = W_done) by (apply (inv_done s I); exact Hd). rewrite Hp. reflexivity.
  - destruct (pc s) eqn:Hp; try reflexivity.
    assert (X : ctx_done s = true) by (apply (inv_done s I); exact Hp).
    rewrite X in Hd. discriminate Hd.
Qed.

Fixpoint script_states (s : state) (ops : list sop) : list state :=
  match ops with
  | [] => []
  | op :: ops' => do_op s op :: script_states (do_op s op) ops'
  end.

Lemma script_states_watcher ops : forall s r,
  Sim s r -> Forall (fun s' => watcher_gone s' = ctx_done s') (script_states s ops).
Proof.
  induction ops as [|op ops IH]; intros s r S; cbn [script_states]; constructor.
  - apply (sim_watcher _ (ref_step r op)). apply (sim_step s r op S).
  - apply (IH _ (ref_step r op)). apply (sim_step s r op S).
Qed.

Theorem script_watcher_ends_with_pool pre ctxs ops :
  let s0 := settle (new_pool pre ctxs) in
  Forall (fun s => watcher_gone s = ctx_done s)
         (s0 :: script_states s0 (ops ++ end_all (pre ++ ctxs ++ op_ids ops))).
Proof.
  cbn zeta. pose proof (sim_init pre ctxs) as S0. constructor.
  - apply (sim_watcher _ _ S0).
  - apply (script_states_watcher _ _ _ S0).
Qed.

(* Cancel with a member that never ends: done, Size 0, the watcher gone - and it stays so. *)
Example cancel_with_never_ending_member :
  let s := script_end (settle (new_pool [] [90%Z; 1%Z])) [SEnd 1%Z; SCancel] in
  ctx_done s = true /\ watcher_gone s = true /\ size s = 0%Z /\ is_ended s 90%Z = false.
Proof. vm_compute. repeat split. Qed.

(* ===================================================================================== *)
(* concrete instances (non-vacuity, and what the oracle rejects)                            *)

Local Open Scope Z_scope.

(* pool.go as it is: NewPool(a); Add(c) whose Done() starts Cancel(); Cancel returns after Add;
   Size is 0 from then on and the later Add is ignored. *)
Example nested_cancel_accepted :
  check_case (CNested [] [0] [] (false, 1) [] 1 [SCancel] true false false true None (true, 0)
                      [SSize; SAdd 2; SSize] [(true, 0); (true, 0); (true, 0)] true false) = 0.
Proof. vm_compute. reflexivity. Qed.

(* Add split into check / ctx.Done() / append: Cancel() ran to completion inside the callback,
   then Add appended - a cancelled pool tracking a context.  Neither order of Add and Cancel
   allows Size() = 1 after Cancel returned. *)
Example nested_cancel_then_tracked_rejected :
  check_case (CNested [] [0] [] (false, 1) [] 1 [SCancel] true true false true None (true, 1)
                      [SSize; SAdd 2; SSize] [(true, 1); (true, 1); (true, 1)] true false) = 2.
Proof. vm_compute. reflexivity. Qed.

(* The last member ended inside the callback and the pool was seen done there; Add then appended
   the live context 1: either 1 is a member (Add first) and the pool ended early, or it was
   offered to an ended pool (Add last) and must not be counted. *)
Example nested_end_then_tracked_rejected :
  check_case (CNested [] [0] [] (false, 1) [] 1 [SEnd 0] true true true true None (true, 2)
                      [SSize] [(true, 2)] true false) = 2.
Proof. vm_compute. reflexivity. Qed.

(* ... whereas with pool.go as it is the pool waits for the added context. *)
Example nested_end_accepted :
  check_case (CNested [] [0] [] (false, 1) [] 1 [SEnd 0] true false false true None (false, 2)
                      [SSize; SEnd 1; SSize] [(false, 2); (true, 2); (true, 2)] true false) = 0.
Proof. vm_compute. reflexivity. Qed.

(* The order "nested operation first" is needed for implementations that take the lock late:
   observation of a pool that ran Cancel() before Add looked - accepted by the oracle (verdict 1,
   not 2: the model of pool.go does not produce it). *)
Example nested_cancel_first_allowed :
  check_case (CNested [] [0] [] (false, 1) [] 1 [SCancel] true true false true None (true, 0)
                      [SSize] [(true, 0)] true false) = 1.
Proof. vm_compute. reflexivity. Qed.

(* Size() ran inside the callback (it saw the two initial members), Add then appended: both
   calls overlapped, Size grew afterwards - nothing the property forbids (verdict 1: pool.go
   does not let Size() in). *)
Example nested_size_inside_allowed :
  check_case (CNested [] [0; 1] [] (false, 2) [] 2 [SSize] true true false true (Some 2) (false, 3)
                      [SSize] [(false, 3)] true false) = 1.
Proof. vm_compute. reflexivity. Qed.

(* Cancel() immediately followed by Add and Size(), nothing looked at in between: with pool.go
   as it is the Add is ignored ... *)
Example fast_cancel_add_accepted :
  check_case (CPScript [] [0; 1] [SCancel; SAdd 2; SSize] (false, 2)
                       [pnone; pnone; pfull (true, 0)] true false) = 0.
Proof. vm_compute. reflexivity. Qed.

(* ... an Add that looks only at the pool's context, which the watcher has not cancelled yet,
   appends: Size() = 1 after Cancel returned. *)
Example fast_cancel_add_tracked_rejected :
  check_case (CPScript [] [0; 1] [SCancel; SAdd 2; SSize] (false, 2)
                       [pnone; pnone; pfull (true, 1)] true false) = 2.
Proof. vm_compute. reflexivity. Qed.
