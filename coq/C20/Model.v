(* C20 — context.Pool (/repo/context/pool.go) as an event system. Definitions only.

   Go code modelled (line numbers of pool.go):

     NewPool(ctx...)   37-68   callee,cancel := WithCancel(Background); p.pool = the Done channels
                               of the contexts that are NOT already done; p.lock.RLock(); go watcher
     watcher           53-65   defer cancel(); defer RUnlock();
                               for i := 0; i < len(p.pool); i++ {
                                 ch := p.pool[i]; RUnlock(); select {<-ch | <-p.closed}; RLock() }
     Add(ctx)          73-83   Lock(); select { <-p.Done(): | <-p.closed: | default: append }; Unlock()
     Cancel()          86-93   Lock(); if p.pool != nil { close(p.closed); p.pool = nil }; Unlock()
     Size()            96-100  RLock(); len(p.pool); RUnlock()

   A context is an id ([Z]); the environment ends it with [MemberDone m] (its Done channel is
   closed; irreversible, so [ended] only grows).  The same id may be offered several times.

   The watcher goroutine has one program counter:
     [W_check i]   it HOLDS the read lock (taken on its behalf by NewPool, or re-taken after a
                   wait) and is about to evaluate [i < len(p.pool)].  While it is here the write
                   lock cannot be taken: [Add] and [Cancel] are not enabled.
     [W_wait i ch] it read [ch := p.pool[i]], released the read lock and blocks in the select on
                   [ch] / [p.closed].
     [W_exiting]   the loop condition was false, the deferred RUnlock has run, the deferred
                   cancel() has NOT run yet (the "exit window": the lock is free, the pool
                   context is not done, yet the watcher will never look at the slice again).
     [W_done]      cancel() has run and the goroutine has returned.
   One [WStep] moves the watcher by one of these atomic pieces.  Waking from the select and
   re-taking the read lock are one step: both conditions of the select are monotone (a closed
   channel stays closed), so a watcher that woke up and has not yet re-locked behaves exactly
   like one that is still in the select with an enabled condition.

   [Add], [Cancel], [Size] run entirely under the lock, hence are atomic events.

   Ghost fields (never read by the code part of [step]):
     [members]       the contexts that are members IN THE PROPERTY'S SENSE: those passed at
                     creation, and those added while the pool was still live (context not done,
                     Cancel not called) AND some member was still live;
     [late]          contexts that [Add] appended to the slice although no member was live any
                     more (offered between the end of the last member and the watcher's
                     cancel()): tracked, counted by Size, but not members;
     [cancel_called] Cancel has been called. *)
From Kit Require Export Lib.Base.

Definition id := Z.

Inductive wpc :=
| W_check (i : nat)
| W_wait (i : nat) (ch : id)
| W_exiting
| W_done.

Record state := mk {
  ended : list id;            (* contexts whose Done channel is closed *)
  pool : option (list id);    (* p.pool; None = nil *)
  closed : bool;              (* p.closed is closed *)
  ctx_done : bool;            (* the pool's own context (callee) is cancelled *)
  pc : wpc;                   (* watcher goroutine *)
  panicked : bool;            (* close of a closed channel *)
  members : list id;          (* ghost *)
  late : list id;             (* ghost *)
  cancel_called : bool        (* ghost *)
}.

Inductive event :=
| AddCtx (m : id)
| Cancel
| Size
| MemberDone (m : id)   (* environment: context m ends *)
| WStep.                (* internal: one step of the watcher goroutine *)

Definition mem (m : id) (l : list id) : bool := existsb (Z.eqb m) l.

Definition is_ended (s : state) (m : id) : bool := mem m (ended s).

(* the slice as a list (nil slice = empty) *)
Definition tracked (s : state) : list id :=
  match pool s with Some l => l | None => [] end.

(* what Size() returns *)
Definition size (s : state) : Z := Z.of_nat (length (tracked s)).

Definition some_member_live (s : state) : bool :=
  existsb (fun m => negb (is_ended s m)) (members s).

(* the write lock can be taken iff the watcher does not hold the read lock *)
Definition write_lock_free (s : state) : bool :=
  match pc s with W_check _ => false | _ => true end.

Definition set_pc (s : state) (p : wpc) : state :=
  mk (ended s) (pool s) (closed s) (ctx_done s) p (panicked s) (members s) (late s)
     (cancel_called s).

Definition step (s : state) (e : event) : option state :=
  if panicked s then None else
  match e with
  | MemberDone m =>
      Some (mk (m :: ended s) (pool s) (closed s) (ctx_done s) (pc s) (panicked s)
               (members s) (late s) (cancel_called s))
  | Size => Some s
  | AddCtx m =>
      if negb (write_lock_free s) then None
      else if ctx_done s || closed s then Some s          (* case <-p.Done(): / case <-p.closed: *)
      else                                                  (* default: append *)
        let live := some_member_live s in
        Some (mk (ended s) (Some (tracked s ++ [m])) (closed s) (ctx_done s) (pc s) (panicked s)
                 (if live then members s ++ [m] else members s)
                 (if live then late s else late s ++ [m])
                 (cancel_called s))
  | Cancel =>
      if negb (write_lock_free s) then None
      else match pool s with
           | Some _ =>
               if closed s
               then Some (mk (ended s) (pool s) (closed s) (ctx_done s) (pc s) true
                             (members s) (late s) true)   (* close(p.closed) twice: panic *)
               else Some (mk (ended s) None true (ctx_done s) (pc s) (panicked s)
                             (members s) (late s) true)
           | None =>
               Some (mk (ended s) None (closed s) (ctx_done s) (pc s) (panicked s)
                        (members s) (late s) true)
           end
  | WStep =>
      match pc s with
      | W_check i =>
          match nth_error (tracked s) i with
          | Some ch => Some (set_pc s (W_wait i ch))        (* i < len: ch := p.pool[i]; RUnlock *)
          | None => Some (set_pc s W_exiting)               (* loop ends; deferred RUnlock *)
          end
      | W_wait i ch =>
          if is_ended s ch || closed s then Some (set_pc s (W_check (S i)))  (* select; RLock; i++ *)
          else None
      | W_exiting =>                                         (* deferred cancel(); return *)
          Some (mk (ended s) (pool s) (closed s) true W_done (panicked s)
                   (members s) (late s) (cancel_called s))
      | W_done => None
      end
  end.

(* NewPool(ctxs...) when the contexts in [pre] have already ended.  The watcher starts holding
   the read lock (NewPool takes it before the [go] statement). *)
Definition new_pool (pre ctxs : list id) : state :=
  mk pre (Some (filter (fun m => negb (mem m pre)) ctxs)) false false (W_check 0) false
     ctxs [] false.

Fixpoint run (s : state) (es : list event) : option state :=
  match es with
  | [] => Some s
  | e :: es' => match step s e with Some s' => run s' es' | None => None end
  end.

(* a state of some execution: any creation, any schedule *)
Definition reachable (s : state) : Prop :=
  exists pre ctxs es, run (new_pool pre ctxs) es = Some s.

(* Bound on the number of further watcher steps, as a function of the state: decreases with
   every WStep (Proofs.v), so the watcher cannot run forever on its own. *)
Definition measure (s : state) : nat :=
  match pc s with
  | W_done => 0
  | W_exiting => 1
  | W_check i => 2 + 2 * (length (tracked s) - i)
  | W_wait i _ => 3 + 2 * (length (tracked s) - S i)
  end.

(* run the watcher until it blocks or ends *)
Fixpoint quiesce (fuel : nat) (s : state) : state :=
  match fuel with
  | O => s
  | S f => match step s WStep with Some s' => quiesce f s' | None => s end
  end.

Definition settle (s : state) : state := quiesce (measure s) s.

Definition quiescent (s : state) : Prop := step s WStep = None.

(* A schedule in which every API call is issued only when the watcher is blocked or has ended
   (the caller "waits for quiescence"): this is how the scripted harness drives the pool. *)
Fixpoint polite (s : state) (es : list event) : Prop :=
  match es with
  | [] => True
  | e :: es' =>
      (match e with AddCtx _ => quiescent s | _ => True end) /\
      match step s e with Some s' => polite s' es' | None => True end
  end.
