(* C20 — proofs over ALL creations and ALL schedules of the event system of C20/Model.v:
   the invariant, never-early, no-wedge progress, late Add ignored, Size, Cancel, watcher exit,
   no double close.  No axioms. *)
From Kit Require Import C20.Model C20.Spec.

(* ===================================================================================== *)
(* Small facts                                                                             *)

Lemma mem_In m l : mem m l = true <-> In m l.
Proof.
  unfold mem. rewrite existsb_exists. split.
  - intros (x & Hx & E). apply Z.eqb_eq in E. subst x. exact Hx.
  - intro H. exists m. split; [exact H | apply Z.eqb_refl].
Qed.

Lemma mem_cons_mono m x l : mem m l = true -> mem m (x :: l) = true.
Proof. rewrite !mem_In. intro H. right. exact H. Qed.

Lemma run_app s es1 es2 :
  run s (es1 ++ es2) = match run s es1 with Some s' => run s' es2 | None => None end.
Proof.
  revert s. induction es1 as [|e es1 IH]; intro s; cbn [run app]; [reflexivity|].
  destruct (step s e) as [s'|]; [apply IH | reflexivity].
Qed.

Lemma reachable_init pre ctxs : reachable (new_pool pre ctxs).
Proof. exists pre, ctxs, []. reflexivity. Qed.

Lemma reachable_step s e s' : reachable s -> step s e = Some s' -> reachable s'.
Proof.
  intros (pre & ctxs & es & Hr) Hs. exists pre, ctxs, (es ++ [e]).
  rewrite run_app, Hr. cbn [run]. rewrite Hs. reflexivity.
Qed.

Lemma reachable_run s es s' : reachable s -> run s es = Some s' -> reachable s'.
Proof.
  revert s. induction es as [|e es IH]; intros s Hr H; cbn [run] in H.
  - injection H as <-. exact Hr.
  - destruct (step s e) as [s1|] eqn:E; [|discriminate H].
    eapply IH; [eapply reachable_step; eassumption | exact H].
Qed.

(* an induction principle: a property of the initial states preserved by every step holds in
   every reachable state *)
Lemma reachable_ind (P : state -> Prop) :
  (forall pre ctxs, P (new_pool pre ctxs)) ->
  (forall s e s', P s -> step s e = Some s' -> P s') ->
  forall s, reachable s -> P s.
Proof.
  intros Hinit Hstep s (pre & ctxs & es & Hr).
  assert (G : forall es s0, P s0 -> run s0 es = Some s -> P s).
  { clear Hr es. intro es. induction es as [|e es IH]; intros s0 H0 H; cbn [run] in H.
    - injection H as <-. exact H0.
    - destruct (step s0 e) as [s1|] eqn:E; [|discriminate H].
      eapply IH; [eapply Hstep; eassumption | exact H]. }
  eapply G; [apply Hinit | exact Hr].
Qed.

(* ===================================================================================== *)
(* The steps, one lemma per event                                                          *)

Lemma step_panicked s e : panicked s = true -> step s e = None.
Proof. intro H. unfold step. rewrite H. reflexivity. Qed.

Lemma step_some_not_panicked s e s' : step s e = Some s' -> panicked s = false.
Proof. intro H. destruct (panicked s) eqn:E; [rewrite step_panicked in H by exact E; discriminate H | reflexivity]. Qed.

(* ===================================================================================== *)
(* The invariant                                                                           *)

(* positions of the slice the watcher has still to look at *)
Definition pos_ok (p : wpc) (j : nat) : Prop :=
  match p with W_check i | W_wait i _ => i <= j | _ => False end.

Record Inv (s : state) : Prop := mkInv {
  inv_panic : panicked s = false;
  inv_closed : closed s = cancel_called s;
  inv_pool : closed s = true <-> pool s = None;
  inv_done : ctx_done s = true <-> pc s = W_done;
  inv_wait : forall i ch, pc s = W_wait i ch -> closed s = false ->
             nth_error (tracked s) i = Some ch;
  (* a member that has not ended is in the slice at a position the watcher has yet to reach *)
  inv_members : closed s = false -> forall m, In m (members s) ->
                is_ended s m = true \/
                exists j, pos_ok (pc s) j /\ nth_error (tracked s) j = Some m;
  (* everything in the slice is a member or a late (non-member) entry *)
  inv_tracked : forall m, In m (tracked s) -> In m (members s) \/ In m (late s)
}.

Lemma Inv_init pre ctxs : Inv (new_pool pre ctxs).
Proof.
  constructor; cbn; try reflexivity.
  - split; discriminate.
  - split; discriminate.
  - intros i ch H. discriminate H.
  - intros _ m Hm.
    destruct (mem m pre) eqn:E; [left; exact E | right].
    assert (Hin : In m (filter (fun m0 => negb (mem m0 pre)) ctxs)).
    { apply filter_In. split; [exact Hm | rewrite E; reflexivity]. }
    apply In_nth_error in Hin. destruct Hin as [j Hj]. exists j. split; [apply Nat.le_0_l | exact Hj].
  - intros m Hm. apply filter_In in Hm. left. apply Hm.
Qed.

Lemma nth_error_app_l {A} (l : list A) x i a :
  nth_error l i = Some a -> nth_error (l ++ [x]) i = Some a.
Proof.
  intro H. rewrite nth_error_app1; [exact H|]. apply nth_error_Some. rewrite H. discriminate.
Qed.

Lemma nth_error_app_last {A} (l : list A) x : nth_error (l ++ [x]) (length l) = Some x.
Proof. rewrite nth_error_app2 by apply Nat.le_refl. rewrite Nat.sub_diag. reflexivity. Qed.

Lemma some_member_live_true s :
  some_member_live s = true -> exists m, In m (members s) /\ is_ended s m = false.
Proof.
  unfold some_member_live. rewrite existsb_exists. intros (m & Hm & E).
  exists m. split; [exact Hm|]. apply negb_true_iff. exact E.
Qed.

Lemma some_member_live_false s :
  some_member_live s = false -> forall m, In m (members s) -> is_ended s m = true.
Proof.
  unfold some_member_live. intros H m Hm.
  destruct (is_ended s m) eqn:E; [reflexivity|].
  assert (X : existsb (fun m0 => negb (is_ended s m0)) (members s) = true).
  { apply existsb_exists. exists m. split; [exact Hm | rewrite E; reflexivity]. }
  rewrite X in H. discriminate H.
Qed.

Lemma Inv_step s e s' : Inv s -> step s e = Some s' -> Inv s'.
Proof.
  intros I H. unfold step in H. rewrite (inv_panic s I) in H.
  destruct e as [m0| | |m0|].
  - (* AddCtx *)
    destruct (write_lock_free s) eqn:Hl; cbn [negb] in H; [|discriminate H].
    destruct (ctx_done s || closed s) eqn:Hdc.
    { injection H as <-. exact I. }
    apply orb_false_iff in Hdc. destruct Hdc as [Hd Hc].
    injection H as <-.
    constructor; cbn.
    + reflexivity.
    + apply I.
    + rewrite Hc. split; discriminate.
    + apply I.
    + intros i ch Hp _. apply nth_error_app_l. apply (inv_wait s I); assumption.
    + intros _ m Hm.
      assert (Hold : In m (members s) ->
                     is_ended s m = true \/
                     exists j, pos_ok (pc s) j /\ nth_error (tracked s ++ [m0]) j = Some m).
      { intro Hin. destruct (inv_members s I Hc m Hin) as [He|(j & Hj & Hn)]; [left; exact He|].
        right. exists j. split; [exact Hj | apply nth_error_app_l; exact Hn]. }
      unfold is_ended in *. cbn.
      destruct (some_member_live s) eqn:Hlive; [|apply Hold; exact Hm].
      apply in_app_or in Hm. destruct Hm as [Hm|[<-|[]]]; [apply Hold; exact Hm|].
      right. exists (length (tracked s)). split; [|apply nth_error_app_last].
      destruct (pc s) as [i|i ch| |] eqn:Hpc; cbn.
      * unfold write_lock_free in Hl. rewrite Hpc in Hl. discriminate Hl.
      * apply Nat.lt_le_incl. apply nth_error_Some.
        rewrite (inv_wait s I i ch Hpc Hc). discriminate.
      * apply some_member_live_true in Hlive. destruct Hlive as (m1 & Hm1 & He1).
        destruct (inv_members s I Hc m1 Hm1) as [He|(j & Hj & _)].
        -- unfold is_ended in He, He1. rewrite He in He1. discriminate He1.
        -- rewrite Hpc in Hj. exact Hj.
      * assert (X : ctx_done s = true) by (apply (inv_done s I); exact Hpc).
        rewrite X in Hd. discriminate Hd.
    + intros m Hm. apply in_app_or in Hm.
      destruct (some_member_live s).
      * destruct Hm as [Hm|[<-|[]]].
        -- destruct (inv_tracked s I m Hm) as [X|X]; [left; apply in_or_app; left; exact X | right; exact X].
        -- left. apply in_or_app. right. left. reflexivity.
      * destruct Hm as [Hm|[<-|[]]].
        -- destruct (inv_tracked s I m Hm) as [X|X]; [left; exact X | right; apply in_or_app; left; exact X].
        -- right. apply in_or_app. right. left. reflexivity.
  - (* Cancel *)
    destruct (write_lock_free s) eqn:Hl; cbn [negb] in H; [|discriminate H].
    destruct (pool s) as [l|] eqn:Hp.
    + assert (Hc : closed s = false).
      { destruct (closed s) eqn:E; [|reflexivity].
        assert (X : pool s = None) by (apply (inv_pool s I); exact E).
        rewrite Hp in X. discriminate X. }
      rewrite Hc in H. injection H as <-.
      constructor; cbn; try reflexivity.
      * split; reflexivity.
      * apply I.
      * intros i ch _ X. discriminate X.
      * intro X. discriminate X.
      * intros m [].
    + assert (Hc : closed s = true) by (apply (inv_pool s I); exact Hp).
      injection H as <-.
      constructor; cbn.
      * reflexivity.
      * exact Hc.
      * split; [reflexivity | intros _; exact Hc].
      * apply I.
      * intros i ch _ X. rewrite Hc in X. discriminate X.
      * intro X. rewrite Hc in X. discriminate X.
      * intros m [].
  - (* Size *)
    injection H as <-. exact I.
  - (* MemberDone *)
    injection H as <-.
    constructor; cbn; try reflexivity; try apply I.
    intros Hc m Hm. destruct (inv_members s I Hc m Hm) as [He|X]; [left | right; exact X].
    unfold is_ended in *. cbn. apply mem_cons_mono. exact He.
  - (* WStep *)
    destruct (pc s) as [i|i ch| |] eqn:Hpc.
    + (* W_check *)
      assert (Hnd : ctx_done s = true <-> False).
      { split; [|intros []]. intro X. apply (inv_done s I) in X. rewrite Hpc in X. discriminate X. }
      destruct (nth_error (tracked s) i) as [ch|] eqn:Hn; injection H as <-.
      * constructor; cbn; try reflexivity; try apply I.
        -- rewrite Hnd. split; [intros [] | discriminate].
        -- intros i' ch' X _. injection X as <- <-. exact Hn.
        -- intros Hc m Hm. destruct (inv_members s I Hc m Hm) as [He|(j & Hj & Hjn)]; [left; exact He|].
           right. exists j. rewrite Hpc in Hj. split; assumption.
      * constructor; cbn; try reflexivity; try apply I.
        -- rewrite Hnd. split; [intros [] | discriminate].
        -- intros i' ch' X. discriminate X.
        -- intros Hc m Hm. destruct (inv_members s I Hc m Hm) as [He|(j & Hj & Hjn)]; [left; exact He|].
           exfalso. rewrite Hpc in Hj. cbn in Hj.
           apply nth_error_None in Hn.
           assert (X : nth_error (tracked s) j = None) by (apply nth_error_None; lia).
           rewrite X in Hjn. discriminate Hjn.
    + (* W_wait *)
      destruct (is_ended s ch || closed s) eqn:Hw; [|discriminate H].
      injection H as <-.
      assert (Hnd : ctx_done s = true <-> False).
      { split; [|intros []]. intro X. apply (inv_done s I) in X. rewrite Hpc in X. discriminate X. }
      constructor; cbn; try reflexivity; try apply I.
      * rewrite Hnd. split; [intros [] | discriminate].
      * intros i' ch' X. discriminate X.
      * intros Hc m Hm. rewrite Hc, orb_false_r in Hw.
        destruct (inv_members s I Hc m Hm) as [He|(j & Hj & Hjn)]; [left; exact He|].
        rewrite Hpc in Hj. cbn in Hj.
        destruct (Nat.eq_dec j i) as [->|Hne].
        -- left. rewrite (inv_wait s I i ch Hpc Hc) in Hjn. injection Hjn as <-. exact Hw.
        -- right. exists j. split; [cbn; lia | exact Hjn].
    + (* W_exiting *)
      injection H as <-.
      constructor; cbn; try reflexivity; try apply I.
      * split; reflexivity.
      * intros i ch X. discriminate X.
      * intros Hc m Hm. destruct (inv_members s I Hc m Hm) as [He|(j & Hj & _)]; [left; exact He|].
        rewrite Hpc in Hj. destruct Hj.
    + discriminate H.
Qed.

Lemma reachable_Inv s : reachable s -> Inv s.
Proof.
  apply reachable_ind.
  - apply Inv_init.
  - intros s0 e s1. apply Inv_step.
Qed.

(* ===================================================================================== *)
(* Views                                                                                   *)

Definition watcher_gone (s : state) : bool :=
  match pc s with W_done => true | _ => false end.

Definition view_of (s : state) : view :=
  mkview (ended s) (members s) (cancel_called s) (ctx_done s) (size s) (watcher_gone s).

(* the ghost [members] field follows the property's definition of membership *)
Lemma members_init pre ctxs : members (new_pool pre ctxs) = ctxs.
Proof. reflexivity. Qed.

Lemma members_step s e s' :
  reachable s -> step s e = Some s' ->
  members s' = match e with
               | AddCtx m => members_after_add (view_of s) m
               | _ => members s
               end.
Proof.
  intros Hr H. pose proof (reachable_Inv s Hr) as I.
  unfold step in H. rewrite (inv_panic s I) in H.
  destruct e as [m0| | |m0|].
  - destruct (write_lock_free s); cbn [negb] in H; [|discriminate H].
    unfold members_after_add, view_of. cbn.
    rewrite <- (inv_closed s I).
    destruct (ctx_done s); cbn [orb negb andb] in *.
    { injection H as <-. reflexivity. }
    destruct (closed s); cbn [orb negb andb] in *.
    { injection H as <-. reflexivity. }
    injection H as <-. cbn. reflexivity.
  - destruct (write_lock_free s); cbn [negb] in H; [|discriminate H].
    destruct (pool s); [destruct (closed s)|]; injection H as <-; reflexivity.
  - injection H as <-. reflexivity.
  - injection H as <-. reflexivity.
  - destruct (pc s) as [i|i ch| |].
    + destruct (nth_error (tracked s) i); injection H as <-; reflexivity.
    + destruct (is_ended s ch || closed s); [injection H as <-; reflexivity | discriminate H].
    + injection H as <-. reflexivity.
    + discriminate H.
Qed.

(* ===================================================================================== *)
(* never early                                                                             *)

Lemma never_early_reachable s : reachable s -> never_early (view_of s).
Proof.
  intros Hr. pose proof (reachable_Inv s Hr) as I.
  unfold never_early, view_of, all_ended. cbn. intro Hd.
  apply (inv_done s I) in Hd.
  rewrite <- (inv_closed s I).
  destruct (closed s) eqn:Hc; [left; reflexivity | right].
  intros m Hm. destruct (inv_members s I Hc m Hm) as [He|(j & Hj & _)]; [exact He|].
  rewrite Hd in Hj. destruct Hj.
Qed.

(* in the form of the design: for every creation and every schedule *)
Lemma never_early_run pre ctxs es s :
  run (new_pool pre ctxs) es = Some s ->
  ctx_done s = true ->
  cancel_called s = true \/ forall m, In m (members s) -> is_ended s m = true.
Proof.
  intros Hr Hd. apply (never_early_reachable s); [exists pre, ctxs, es; exact Hr | exact Hd].
Qed.

(* ===================================================================================== *)
(* the watcher ends exactly with the pool; no panic                                         *)

Lemma watcher_exits_reachable s : reachable s -> watcher_ends_with_pool (view_of s).
Proof.
  intro Hr. pose proof (reachable_Inv s Hr) as I.
  unfold watcher_ends_with_pool, view_of, watcher_gone. cbn.
  rewrite (inv_done s I). destruct (pc s); split; intro H; try reflexivity; discriminate H.
Qed.

(* once gone it does nothing more, and the pool's context stays done *)
Lemma watcher_done_stays s e s' :
  reachable s -> pc s = W_done -> step s e = Some s' -> pc s' = W_done /\ ctx_done s' = true.
Proof.
  intros Hr Hp H. pose proof (reachable_Inv s' (reachable_step s e s' Hr H)) as I'.
  assert (X : pc s' = W_done).
  { unfold step in H. destruct (panicked s); [discriminate H|].
    destruct e as [m0| | |m0|].
    - destruct (write_lock_free s); cbn [negb] in H; [|discriminate H].
      destruct (ctx_done s || closed s); injection H as <-; exact Hp.
    - destruct (write_lock_free s); cbn [negb] in H; [|discriminate H].
      destruct (pool s); [destruct (closed s)|]; injection H as <-; exact Hp.
    - injection H as <-. exact Hp.
    - injection H as <-. exact Hp.
    - rewrite Hp in H. discriminate H. }
  split; [exact X | apply (inv_done s' I'); exact X].
Qed.

Lemma done_stays_run s es s' :
  reachable s -> ctx_done s = true -> run s es = Some s' -> ctx_done s' = true /\ pc s' = W_done.
Proof.
  revert s. induction es as [|e es IH]; intros s Hr Hd H; cbn [run] in H.
  - injection H as <-. split; [exact Hd | apply (inv_done s (reachable_Inv s Hr)); exact Hd].
  - destruct (step s e) as [s1|] eqn:E; [|discriminate H].
    assert (Hp : pc s = W_done) by (apply (inv_done s (reachable_Inv s Hr)); exact Hd).
    destruct (watcher_done_stays s e s1 Hr Hp E) as [_ Hd1].
    eapply IH; [eapply reachable_step; eassumption | exact Hd1 | exact H].
Qed.

Lemma no_panic_reachable s : reachable s -> panicked s = false.
Proof. intro Hr. apply (inv_panic s (reachable_Inv s Hr)). Qed.

(* ===================================================================================== *)
(* Size and Cancel                                                                          *)

Lemma size_step s s' : step s Size = Some s' -> s' = s.
Proof. unfold step. destruct (panicked s); [discriminate|]. intro H. injection H as <-. reflexivity. Qed.

Lemma size_enabled s : reachable s -> step s Size = Some s.
Proof. intro Hr. unfold step. rewrite (no_panic_reachable s Hr). reflexivity. Qed.

Lemma size_after_cancel s : reachable s -> size_zero_after_cancel (view_of s).
Proof.
  intro Hr. pose proof (reachable_Inv s Hr) as I.
  unfold size_zero_after_cancel, view_of, size, tracked. cbn. intro Hc.
  rewrite <- (inv_closed s I) in Hc. apply (inv_pool s I) in Hc. rewrite Hc. reflexivity.
Qed.

(* cancel_called is stable *)
Lemma cancel_called_step s e s' : step s e = Some s' -> cancel_called s = true -> cancel_called s' = true.
Proof.
  intros H Hc. unfold step in H. destruct (panicked s); [discriminate H|].
  destruct e as [m0| | |m0|].
  - destruct (write_lock_free s); cbn [negb] in H; [|discriminate H].
    destruct (ctx_done s || closed s); injection H as <-; exact Hc.
  - destruct (write_lock_free s); cbn [negb] in H; [|discriminate H].
    destruct (pool s); [destruct (closed s)|]; injection H as <-; reflexivity.
  - injection H as <-. exact Hc.
  - injection H as <-. exact Hc.
  - destruct (pc s) as [i|i ch| |].
    + destruct (nth_error (tracked s) i); injection H as <-; exact Hc.
    + destruct (is_ended s ch || closed s); [injection H as <-; exact Hc | discriminate H].
    + injection H as <-. exact Hc.
    + discriminate H.
Qed.

Lemma cancel_called_run s es s' : run s es = Some s' -> cancel_called s = true -> cancel_called s' = true.
Proof.
  revert s. induction es as [|e es IH]; intros s H Hc; cbn [run] in H.
  - injection H as <-. exact Hc.
  - destruct (step s e) as [s1|] eqn:E; [|discriminate H].
    eapply IH; [exact H | eapply cancel_called_step; eassumption].
Qed.

Lemma cancel_step_sets s s' : step s Cancel = Some s' -> cancel_called s' = true.
Proof.
  intro H. unfold step in H. destruct (panicked s); [discriminate H|].
  destruct (write_lock_free s); cbn [negb] in H; [|discriminate H].
  destruct (pool s); [destruct (closed s)|]; injection H as <-; reflexivity.
Qed.

(* Cancel is enabled whenever the watcher does not hold the read lock *)
Lemma cancel_enabled_inv s : Inv s -> write_lock_free s = true -> exists s', step s Cancel = Some s'.
Proof.
  intros I Hl. unfold step. rewrite (inv_panic s I), Hl. cbn [negb].
  destruct (pool s); [destruct (closed s)|]; eexists; reflexivity.
Qed.

Lemma cancel_enabled s : reachable s -> write_lock_free s = true -> exists s', step s Cancel = Some s'.
Proof. intro Hr. apply cancel_enabled_inv. apply reachable_Inv. exact Hr. Qed.

(* ===================================================================================== *)
(* late Add ignored                                                                         *)

Lemma add_after_end_ignored s m s' :
  reachable s -> ctx_done s = true \/ cancel_called s = true ->
  step s (AddCtx m) = Some s' -> s' = s.
Proof.
  intros Hr Hd H. pose proof (reachable_Inv s Hr) as I.
  unfold step in H. rewrite (inv_panic s I) in H.
  destruct (write_lock_free s); cbn [negb] in H; [|discriminate H].
  rewrite <- (inv_closed s I) in Hd.
  assert (X : ctx_done s || closed s = true) by (apply orb_true_iff; exact Hd).
  rewrite X in H. injection H as <-. reflexivity.
Qed.

(* and it is always possible to call Add on an ended pool (it does not block or panic) *)
Lemma add_after_end_enabled s m :
  reachable s -> ctx_done s = true -> step s (AddCtx m) = Some s.
Proof.
  intros Hr Hd. pose proof (reachable_Inv s Hr) as I.
  unfold step. rewrite (inv_panic s I).
  assert (Hp : pc s = W_done) by (apply (inv_done s I); exact Hd).
  unfold write_lock_free. rewrite Hp. cbn [negb]. rewrite Hd. reflexivity.
Qed.

(* ===================================================================================== *)
(* eventually: no wedge                                                                     *)

Lemma wstep_measure s s' : step s WStep = Some s' -> Model.measure s' < Model.measure s.
Proof.
  intro H. unfold step in H. destruct (panicked s); [discriminate H|].
  unfold Model.measure.
  destruct (pc s) as [i|i ch| |] eqn:Hpc.
  - destruct (nth_error (tracked s) i) as [ch|] eqn:Hn; injection H as <-; cbn.
    + assert (i < length (tracked s)) by (apply nth_error_Some; rewrite Hn; discriminate).
      unfold tracked in *. cbn. lia.
    + lia.
  - destruct (is_ended s ch || closed s); [|discriminate H]. injection H as <-. cbn.
    unfold tracked. cbn. lia.
  - injection H as <-. cbn. lia.
  - discriminate H.
Qed.

(* what a watcher step leaves alone *)
Lemma wstep_frame s s' :
  step s WStep = Some s' ->
  ended s' = ended s /\ pool s' = pool s /\ closed s' = closed s /\ members s' = members s /\
  late s' = late s /\ cancel_called s' = cancel_called s.
Proof.
  intro H. unfold step in H. destruct (panicked s); [discriminate H|].
  destruct (pc s) as [i|i ch| |].
  - destruct (nth_error (tracked s) i); injection H as <-; cbn; repeat split.
  - destruct (is_ended s ch || closed s); [|discriminate H]. injection H as <-; cbn; repeat split.
  - injection H as <-; cbn; repeat split.
  - discriminate H.
Qed.

(* the pool's documented end condition, on the tracked slice *)
Definition may_end (s : state) : Prop :=
  cancel_called s = true \/ forall m, In m (tracked s) -> is_ended s m = true.

Lemma may_end_wstep s s' : step s WStep = Some s' -> may_end s -> may_end s'.
Proof.
  intros H M. destruct (wstep_frame s s' H) as (He & Hp & _ & _ & _ & Hc).
  unfold may_end, tracked, is_ended in *. rewrite He, Hp, Hc. exact M.
Qed.

(* progress: while the end condition holds and the watcher has not finished, its next step is
   enabled *)
Lemma wstep_progress s :
  Inv s -> may_end s -> pc s <> W_done -> exists s', step s WStep = Some s'.
Proof.
  intros I M Hp. unfold step. rewrite (inv_panic s I).
  destruct (pc s) as [i|i ch| |] eqn:Hpc.
  - destruct (nth_error (tracked s) i); eexists; reflexivity.
  - destruct (closed s) eqn:Hc.
    + rewrite orb_true_r. eexists; reflexivity.
    + destruct M as [M|M]; [rewrite <- (inv_closed s I), Hc in M; discriminate M|].
      rewrite (M ch).
      * eexists; reflexivity.
      * eapply nth_error_In. apply (inv_wait s I i ch Hpc Hc).
  - eexists; reflexivity.
  - exfalso. apply Hp. reflexivity.
Qed.

Lemma eventually_measure n : forall s,
  Inv s -> may_end s -> Model.measure s <= n ->
  exists k s', k <= Model.measure s /\ run s (repeat WStep k) = Some s' /\
               ctx_done s' = true /\ pc s' = W_done.
Proof.
  induction n as [|n IH]; intros s I M Hn.
  - exists 0, s. cbn. split; [lia|]. split; [reflexivity|].
    assert (Hp : pc s = W_done).
    { unfold Model.measure in Hn. destruct (pc s); try lia. reflexivity. }
    split; [apply (inv_done s I); exact Hp | exact Hp].
  - destruct (pc s) eqn:Hpc.
    4:{ exists 0, s. cbn. split; [lia|]. split; [reflexivity|].
        split; [apply (inv_done s I); exact Hpc | exact Hpc]. }
    all: destruct (wstep_progress s I M) as [s1 H1]; [rewrite Hpc; discriminate|];
      pose proof (wstep_measure s s1 H1) as Hlt;
      destruct (IH s1 (Inv_step s WStep s1 I H1) (may_end_wstep s s1 H1 M)) as (k & s' & Hk & Hrun & Hd & Hp);
      [lia|];
      exists (S k), s'; cbn [repeat run]; rewrite H1;
      split; [lia|]; split; [exact Hrun|]; split; assumption.
Qed.

Lemma eventually_reachable s :
  reachable s -> may_end s ->
  exists k s', k <= Model.measure s /\ run s (repeat WStep k) = Some s' /\
               ctx_done s' = true /\ pc s' = W_done.
Proof.
  intros Hr M. apply (eventually_measure (Model.measure s)); [apply reachable_Inv; exact Hr | exact M | lia].
Qed.

(* in terms of membership: everything tracked is a member or a late entry *)
Lemma members_late_may_end s :
  reachable s ->
  (forall m, In m (members s) -> is_ended s m = true) ->
  (forall m, In m (late s) -> is_ended s m = true) ->
  may_end s.
Proof.
  intros Hr Hm Hl. right. intros m Hin.
  destruct (inv_tracked s (reachable_Inv s Hr) m Hin) as [X|X]; [apply Hm | apply Hl]; exact X.
Qed.

(* ===================================================================================== *)
(* polite schedules (Add only when the watcher is blocked or gone) never produce late       *)
(* entries                                                                                  *)

Lemma polite_no_late_from es : forall s s',
  Inv s -> late s = [] -> polite s es -> run s es = Some s' -> late s' = [].
Proof.
  induction es as [|e es IH]; intros s s' I Hl P H; cbn [run polite] in *.
  - injection H as <-. exact Hl.
  - destruct (step s e) as [s1|] eqn:E; [|discriminate H].
    destruct P as [Pq P].
    apply (IH s1 s' (Inv_step s e s1 I E)); [|exact P|exact H].
    clear IH H P.
    pose proof E as E0.
    unfold step in E. rewrite (inv_panic s I) in E.
    destruct e as [m0| | |m0|].
    + destruct (write_lock_free s) eqn:Hlk; cbn [negb] in E; [|discriminate E].
      destruct (ctx_done s || closed s) eqn:Hdc; [injection E as <-; exact Hl|].
      apply orb_false_iff in Hdc. destruct Hdc as [Hd Hc].
      injection E as <-. cbn.
      assert (Hlive : some_member_live s = true).
      { unfold quiescent, step in Pq. rewrite (inv_panic s I) in Pq.
        destruct (pc s) as [i|i ch| |] eqn:Hpc.
        - unfold write_lock_free in Hlk. rewrite Hpc in Hlk. discriminate Hlk.
        - rewrite Hc, orb_false_r in Pq.
          destruct (is_ended s ch) eqn:Hech; [discriminate Pq|].
          assert (Hin : In ch (tracked s)).
          { eapply nth_error_In. apply (inv_wait s I i ch Hpc Hc). }
          destruct (inv_tracked s I ch Hin) as [X|X]; [|rewrite Hl in X; destruct X].
          unfold some_member_live. apply existsb_exists. exists ch.
          split; [exact X | rewrite Hech; reflexivity].
        - discriminate Pq.
        - assert (X : ctx_done s = true) by (apply (inv_done s I); exact Hpc).
          rewrite X in Hd. discriminate Hd. }
      rewrite Hlive. exact Hl.
    + destruct (write_lock_free s); cbn [negb] in E; [|discriminate E].
      destruct (pool s); [destruct (closed s)|]; injection E as <-; exact Hl.
    + injection E as <-. exact Hl.
    + injection E as <-. exact Hl.
    + destruct (wstep_frame s s1 E0) as (_ & _ & _ & _ & X & _). rewrite X. exact Hl.
Qed.

Lemma polite_no_late pre ctxs es s :
  polite (new_pool pre ctxs) es -> run (new_pool pre ctxs) es = Some s -> late s = [].
Proof. apply polite_no_late_from; [apply Inv_init | reflexivity]. Qed.

(* ===================================================================================== *)
(* Witnesses: why the membership qualification and the [late] premise are needed           *)

(* exit window: NewPool(0); 0 ends; the watcher leaves the loop; Add(1) is accepted; cancel() *)
Definition exit_window_schedule : list event :=
  [WStep; MemberDone 0%Z; WStep; WStep; AddCtx 1%Z; WStep].

Lemma exit_window_witness :
  exists s, run (new_pool [] [0%Z]) exit_window_schedule = Some s /\
            ctx_done s = true /\ cancel_called s = false /\
            In 1%Z (tracked s) /\ size s = 2%Z /\ is_ended s 1%Z = false /\
            ~ In 1%Z (members s) /\ late s = [1%Z].
Proof.
  eexists. split; [vm_compute; reflexivity|]. cbn.
  repeat split; try reflexivity.
  - right. left. reflexivity.
  - intros [H|[]]. discriminate H.
Qed.

(* Add between the end of the last member and the watcher's last look: tracked AND waited for *)
Definition late_waited_schedule : list event :=
  [WStep; MemberDone 0%Z; AddCtx 1%Z; WStep; WStep].

Lemma late_waited_witness :
  exists s, run (new_pool [] [0%Z]) late_waited_schedule = Some s /\
            (forall m, In m (members s) -> is_ended s m = true) /\
            cancel_called s = false /\ ctx_done s = false /\
            step s WStep = None /\ late s = [1%Z].
Proof.
  eexists. split; [vm_compute; reflexivity|]. cbn.
  repeat split; try reflexivity.
  intros m [<-|[]]. reflexivity.
Qed.

(* non-vacuity of never_early: a pool that is done because its two members ended, one of them
   added while the first was live *)
Example never_early_nonvacuous :
  exists s, run (new_pool [] [0%Z]) [WStep; AddCtx 1%Z; MemberDone 0%Z; WStep; WStep;
                                     MemberDone 1%Z; WStep; WStep; WStep] = Some s /\
            ctx_done s = true /\ cancel_called s = false /\ members s = [0%Z; 1%Z].
Proof. eexists. split; [vm_compute; reflexivity|]. repeat split; reflexivity. Qed.

(* non-vacuity of eventually: a reachable state where the end condition holds and the watcher
   has work left *)
Example eventually_nonvacuous :
  exists s, run (new_pool [] [0%Z; 1%Z]) [WStep; MemberDone 1%Z; MemberDone 0%Z] = Some s /\
            may_end s /\ ctx_done s = false /\ Model.measure s = 5.
Proof.
  eexists. split; [vm_compute; reflexivity|]. split; [|split; reflexivity].
  right. cbn. intros m [<-|[<-|[]]]; reflexivity.
Qed.
