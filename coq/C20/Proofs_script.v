(* C20 — sequential (settled) use: for EVERY script the model's observations satisfy the script
   specification of Spec.v; the boolean oracles decide the spec predicates.  No axioms. *)
From Kit Require Import C20.Model C20.Spec C20.Check C20.Proofs.

(* ===================================================================================== *)
(* settling                                                                                *)

Lemma quiesce_Inv fuel : forall s, Inv s -> Inv (quiesce fuel s).
Proof.
  induction fuel as [|f IH]; intros s I; cbn [quiesce]; [exact I|].
  destruct (step s WStep) as [s1|] eqn:E; [|exact I].
  apply IH. eapply Inv_step; eassumption.
Qed.

Lemma quiesce_frame fuel : forall s,
  ended (quiesce fuel s) = ended s /\ pool (quiesce fuel s) = pool s /\
  members (quiesce fuel s) = members s /\ late (quiesce fuel s) = late s /\
  cancel_called (quiesce fuel s) = cancel_called s.
Proof.
  induction fuel as [|f IH]; intros s; cbn [quiesce]; [repeat split|].
  destruct (step s WStep) as [s1|] eqn:E; [|repeat split].
  destruct (wstep_frame s s1 E) as (He & Hp & _ & Hm & Hl & Hc).
  destruct (IH s1) as (He' & Hp' & Hm' & Hl' & Hc').
  rewrite He', Hp', Hm', Hl', Hc'. repeat split; assumption.
Qed.

Lemma quiesce_quiescent fuel : forall s, Model.measure s <= fuel -> quiescent (quiesce fuel s).
Proof.
  induction fuel as [|f IH]; intros s Hm; cbn [quiesce].
  - unfold quiescent, step. destruct (panicked s); [reflexivity|].
    unfold Model.measure in Hm. destruct (pc s); try lia. reflexivity.
  - destruct (step s WStep) as [s1|] eqn:E; [|exact E].
    apply IH. pose proof (wstep_measure s s1 E). lia.
Qed.

Lemma settle_quiescent s : quiescent (settle s).
Proof. apply quiesce_quiescent. apply Nat.le_refl. Qed.

Lemma quiescent_quiesce fuel s : quiescent s -> quiesce fuel s = s.
Proof. intro Q. destruct fuel; cbn [quiesce]; [reflexivity|]. rewrite Q. reflexivity. Qed.

Lemma quiesce_run fuel : forall s, exists k, run s (repeat WStep k) = Some (quiesce fuel s).
Proof.
  induction fuel as [|f IH]; intros s; cbn [quiesce].
  - exists 0. reflexivity.
  - destruct (step s WStep) as [s1|] eqn:E.
    + destruct (IH s1) as [k Hk]. exists (S k). cbn [repeat run]. rewrite E. exact Hk.
    + exists 0. reflexivity.
Qed.

Lemma quiescent_lock_free s : Inv s -> quiescent s -> write_lock_free s = true.
Proof.
  intros I Q. unfold quiescent, step in Q. rewrite (inv_panic s I) in Q.
  unfold write_lock_free. destruct (pc s) as [i|i ch| |]; try reflexivity.
  destruct (nth_error (tracked s) i); discriminate Q.
Qed.

(* ===================================================================================== *)
(* done, at quiescence, without late entries: exactly the property's condition              *)

Lemma some_member_live_spec s : some_member_live s = some_live (ended s) (members s).
Proof. reflexivity. Qed.

Lemma done_at_quiescence s :
  Inv s -> quiescent s -> late s = [] ->
  ctx_done s = cancel_called s || negb (some_member_live s).
Proof.
  intros I Q Hl. destruct (ctx_done s) eqn:Hd; symmetry.
  - assert (Hp : pc s = W_done) by (apply (inv_done s I); exact Hd).
    rewrite <- (inv_closed s I). destruct (closed s) eqn:Hc; [reflexivity|]. cbn [orb].
    destruct (some_member_live s) eqn:Hlive; [|reflexivity]. exfalso.
    apply some_member_live_true in Hlive. destruct Hlive as (m & Hm & He).
    destruct (inv_members s I Hc m Hm) as [X|(j & Hj & _)].
    + rewrite X in He. discriminate He.
    + rewrite Hp in Hj. exact Hj.
  - destruct (cancel_called s || negb (some_member_live s)) eqn:R; [exfalso | reflexivity].
    assert (M : may_end s).
    { apply orb_true_iff in R. destruct R as [R|R]; [left; exact R | right].
      apply negb_true_iff in R. intros m Hm.
      destruct (inv_tracked s I m Hm) as [X|X]; [|rewrite Hl in X; destruct X].
      apply (some_member_live_false s R m X). }
    destruct (wstep_progress s I M) as [s1 H1].
    + intro Hp. apply (inv_done s I) in Hp. rewrite Hp in Hd. discriminate Hd.
    + unfold quiescent in Q. rewrite Q in H1. discriminate H1.
Qed.

(* ===================================================================================== *)
(* simulation between the settled model and the reference of Spec.v                         *)

Record PreSim (s : state) (r : ref) : Prop := mkPreSim {
  ps_inv : Inv s;
  ps_late : late s = [];
  ps_ended : ended s = r_ended r;
  ps_members : members s = r_members r;
  ps_cancel : cancel_called s = r_cancelled r;
  ps_off : length (tracked s) <= r_offered r;
  ps_live : cancel_called s = false -> length (live_members r) <= length (tracked s)
}.

Definition Sim (s : state) (r : ref) : Prop := PreSim s r /\ quiescent s.

Lemma settle_sim s r : PreSim s r -> Sim (settle s) r.
Proof.
  intros [I Hl He Hm Hc Ho Hv]. split; [|apply settle_quiescent].
  unfold settle. destruct (quiesce_frame (Model.measure s) s) as (He' & Hp' & Hm' & Hl' & Hc').
  constructor; unfold tracked in *; rewrite ?He', ?Hp', ?Hm', ?Hl', ?Hc'; try assumption.
  apply quiesce_Inv. exact I.
Qed.

Lemma sim_done s r : Sim s r -> ctx_done s = ref_done r.
Proof.
  intros [[I Hl He Hm Hc Ho Hv] Q].
  rewrite (done_at_quiescence s I Q Hl), some_member_live_spec, He, Hm, Hc. reflexivity.
Qed.

Lemma filter_length_mono {A} (f g : A -> bool) l :
  (forall x, f x = true -> g x = true) -> length (filter f l) <= length (filter g l).
Proof.
  intro H. induction l as [|x l IH]; cbn [filter]; [apply Nat.le_refl|].
  destruct (f x) eqn:E.
  - rewrite (H x E). cbn [length]. lia.
  - destruct (g x); cbn [length]; lia.
Qed.

Lemma filter_length_le {A} (f : A -> bool) l : length (filter f l) <= length l.
Proof. induction l as [|x l IH]; cbn [filter]; [apply Nat.le_refl|]. destruct (f x); cbn [length]; lia. Qed.

Lemma sim_init pre ctxs : Sim (settle (new_pool pre ctxs)) (ref_new pre ctxs).
Proof.
  apply settle_sim. constructor; try reflexivity.
  - apply Inv_init.
  - cbn. apply filter_length_le.
Qed.

Lemma cancel_frame s s1 :
  Inv s -> step s Cancel = Some s1 ->
  ended s1 = ended s /\ members s1 = members s /\ late s1 = late s /\
  cancel_called s1 = true /\ pool s1 = None.
Proof.
  intros I H. unfold step in H. rewrite (inv_panic s I) in H.
  destruct (write_lock_free s); cbn [negb] in H; [|discriminate H].
  destruct (pool s) as [l|] eqn:Hp.
  - destruct (closed s) eqn:Hc.
    + assert (X : pool s = None) by (apply (inv_pool s I); exact Hc).
      rewrite Hp in X. discriminate X.
    + injection H as <-. cbn. repeat split.
  - injection H as <-. cbn. repeat split.
Qed.

(* one operation *)
Lemma sim_step s r op :
  Sim s r ->
  Sim (do_op s op) (ref_step r op) /\
  (is_add op = true -> ref_done r = true -> do_op s op = s).
Proof.
  intros S. pose proof (sim_done s r S) as Hdone.
  destruct S as [[I Hl He Hm Hc Ho Hv] Q].
  pose proof (quiescent_lock_free s I Q) as Hlk.
  assert (Hsettle : settle s = s) by (apply quiescent_quiesce; exact Q).
  assert (Hsim : Sim s r) by (split; [constructor; assumption | exact Q]).
  destruct op as [m|m| |]; unfold do_op; cbn [ev_of ref_step is_add].
  - (* SEnd *)
    split; [|discriminate].
    unfold step. rewrite (inv_panic s I).
    apply settle_sim.
    constructor; cbn; try assumption.
    + apply (Inv_step s (MemberDone m)); [exact I|]. unfold step. rewrite (inv_panic s I). reflexivity.
    + rewrite He. reflexivity.
    + intro Hcc. eapply Nat.le_trans; [|apply Hv; exact Hcc].
      unfold live_members. cbn. apply filter_length_mono.
      intros x Hx. apply negb_true_iff in Hx. apply negb_true_iff.
      destruct (memz x (r_ended r)) eqn:E; [|reflexivity].
      unfold memz in *. cbn [existsb] in Hx. rewrite E, orb_true_r in Hx. discriminate Hx.
  - (* SAdd *)
    destruct (ref_done r) eqn:Hrd.
    + assert (Hstep : step s (AddCtx m) = Some s).
      { unfold step. rewrite (inv_panic s I), Hlk. cbn [negb]. rewrite Hdone. reflexivity. }
      rewrite Hstep, Hsettle. split; [exact Hsim | reflexivity].
    + split; [|intros _ X; discriminate X].
      unfold ref_done in Hrd. apply orb_false_iff in Hrd. destruct Hrd as [Hrc Hrl].
      apply negb_false_iff in Hrl.
      assert (Hcc : cancel_called s = false) by (rewrite Hc; exact Hrc).
      assert (Hcl : closed s = false) by (rewrite (inv_closed s I); exact Hcc).
      assert (Hlive : some_member_live s = true) by (rewrite some_member_live_spec, He, Hm; exact Hrl).
      assert (Hstep : step s (AddCtx m) =
                      Some (mk (ended s) (Some (tracked s ++ [m])) (closed s) (ctx_done s) (pc s)
                               (panicked s) (members s ++ [m]) (late s) (cancel_called s))).
      { unfold step. rewrite (inv_panic s I), Hlk. cbn [negb]. rewrite Hdone, Hcl. cbn [orb].
        rewrite Hlive. reflexivity. }
      rewrite Hstep. apply settle_sim.
      constructor; cbn -[live_members memz]; try assumption.
      * eapply Inv_step; [exact I | exact Hstep].
      * rewrite Hm. reflexivity.
      * rewrite app_length. cbn [length]. lia.
      * intros _. rewrite app_length. cbn [length].
        unfold live_members. cbn [r_members r_ended]. rewrite filter_app, app_length.
        specialize (Hv Hcc). unfold live_members in Hv.
        pose proof (filter_length_le (fun m0 => negb (memz m0 (r_ended r))) [m]) as X.
        cbn [length] in X. lia.
  - (* SCancel *)
    split; [|discriminate].
    destruct (cancel_enabled_inv s I Hlk) as [s1 H1].
    rewrite H1. destruct (cancel_frame s s1 I H1) as (He1 & Hm1 & Hl1 & Hc1 & Hp1).
    apply settle_sim.
    constructor; cbn.
    + eapply Inv_step; eassumption.
    + rewrite Hl1. exact Hl.
    + rewrite He1. exact He.
    + rewrite Hm1. exact Hm.
    + exact Hc1.
    + unfold tracked. rewrite Hp1. apply Nat.le_0_l.
    + intro X. rewrite Hc1 in X. discriminate X.
  - (* SSize *)
    split; [|discriminate].
    unfold step. rewrite (inv_panic s I), Hsettle. exact Hsim.
Qed.

(* ===================================================================================== *)
(* whole scripts                                                                           *)

Lemma sim_size_zero s r : Sim s r -> r_cancelled r = true -> size s = 0%Z.
Proof.
  intros [[I Hl He Hm Hc Ho Hv] Q] Hrc. rewrite <- Hc, <- (inv_closed s I) in Hrc.
  apply (inv_pool s I) in Hrc. unfold size, tracked. rewrite Hrc. reflexivity.
Qed.

Lemma sim_obs s r prev :
  Sim s r ->
  match prev with
  | Some (rb, op, szb) => is_add op = true -> ref_done rb = true -> size s = szb
  | None => True
  end ->
  obs_spec prev r (observe s).
Proof.
  intros S Hprev. unfold obs_spec, observe. cbn [fst snd].
  split; [apply sim_done; exact S|]. split; [|exact Hprev].
  destruct (r_cancelled r) eqn:Hrc; [apply (sim_size_zero s r S Hrc)|].
  destruct S as [[I Hl He Hm Hc Ho Hv] Q]. unfold size.
  rewrite Hrc in Hc. specialize (Hv Hc). lia.
Qed.

Lemma script_obs_spec ops : forall s r,
  Sim s r -> script_spec_from r (size s) ops (script_obs s ops).
Proof.
  induction ops as [|op ops IH]; intros s r S; cbn [script_obs script_spec_from]; [exact I|].
  destruct (sim_step s r op S) as [S' Hign].
  cbn [snd observe]. split.
  - apply sim_obs; [exact S'|]. intros Ha Hd. rewrite (Hign Ha Hd). reflexivity.
  - apply IH. exact S'.
Qed.

Lemma script_end_sim ops : forall s r,
  Sim s r -> Sim (script_end s ops) (fold_left ref_step ops r).
Proof.
  unfold script_end. induction ops as [|op ops IH]; intros s r S; cbn [fold_left]; [exact S|].
  apply IH. apply (sim_step s r op S).
Qed.

Lemma ref_members_subset ops : forall r m,
  In m (r_members (fold_left ref_step ops r)) -> In m (r_members r ++ op_ids ops).
Proof.
  induction ops as [|op ops IH]; intros r m H; cbn [fold_left op_ids flat_map] in *.
  - rewrite app_nil_r. exact H.
  - apply IH in H. apply in_app_or in H. apply in_or_app.
    destruct H as [H|H]; [|right; apply in_or_app; right; exact H].
    destruct op as [x|x| |]; cbn [ref_step] in H; try (left; exact H).
    destruct (ref_done r); [left; exact H|]. cbn in H. apply in_app_or in H.
    destruct H as [H|[<-|[]]]; [left; exact H | right; left; reflexivity].
Qed.

Lemma end_all_ref ids : forall r,
  let r' := fold_left ref_step (end_all ids) r in
  r_members r' = r_members r /\ r_cancelled r' = r_cancelled r /\
  (forall m, In m ids \/ memz m (r_ended r) = true -> memz m (r_ended r') = true).
Proof.
  induction ids as [|x ids IH]; intros r; cbn [end_all map fold_left].
  - repeat split. intros m [[]|H]. exact H.
  - destruct (IH (ref_step r (SEnd x))) as (Hm & Hc & He). cbn [ref_step] in *.
    split; [exact Hm|]. split; [exact Hc|].
    intros m H. apply He. cbn [r_ended].
    destruct H as [[<-|H]|H].
    + right. unfold memz. cbn [existsb]. rewrite Z.eqb_refl. reflexivity.
    + left. exact H.
    + right. unfold memz in *. cbn [existsb]. rewrite H. apply orb_true_r.
Qed.

Lemma some_live_false ended l :
  (forall m, In m l -> memz m ended = true) -> some_live ended l = false.
Proof.
  intro H. unfold some_live. destruct (existsb _ l) eqn:E; [|reflexivity].
  apply existsb_exists in E. destruct E as (m & Hm & X). rewrite (H m Hm) in X. discriminate X.
Qed.

Theorem script_model_meets_spec pre ctxs ops :
  let '(o0, obs, fin) := script_model pre ctxs ops in
  script_spec pre ctxs ops o0 obs fin false.
Proof.
  unfold script_model, script_spec.
  pose proof (sim_init pre ctxs) as S0.
  set (s0 := settle (new_pool pre ctxs)) in *.
  split; [apply sim_obs; [exact S0 | exact I]|].
  split; [apply script_obs_spec; exact S0|].
  split; [|reflexivity].
  pose proof (script_end_sim ops s0 _ S0) as S1.
  set (r1 := fold_left ref_step ops (ref_new pre ctxs)) in *.
  pose proof (script_end_sim (end_all (pre ++ ctxs ++ op_ids ops)) _ _ S1) as S2.
  rewrite (sim_done _ _ S2).
  destruct (end_all_ref (pre ++ ctxs ++ op_ids ops) r1) as (Hm & Hc & He).
  unfold ref_done. rewrite Hm. apply orb_true_iff. right. apply negb_true_iff.
  apply some_live_false. intros m Hin. apply He. left.
  apply (ref_members_subset ops (ref_new pre ctxs)) in Hin. cbn [ref_new r_members] in Hin.
  apply in_or_app. right. exact Hin.
Qed.

(* every script step is enabled in the model: [do_op] never takes its fallback branch *)
Lemma sim_step_enabled s r op : Sim s r -> exists s1, step s (ev_of op) = Some s1.
Proof.
  intros [[I Hl He Hm Hc Ho Hv] Q].
  pose proof (quiescent_lock_free s I Q) as Hlk.
  destruct op as [m|m| |]; cbn [ev_of].
  - unfold step. rewrite (inv_panic s I). eexists; reflexivity.
  - unfold step. rewrite (inv_panic s I), Hlk. cbn [negb].
    destruct (ctx_done s || closed s); eexists; reflexivity.
  - apply cancel_enabled_inv; assumption.
  - unfold step. rewrite (inv_panic s I). eexists; reflexivity.
Qed.

(* the scripted run is a schedule of the event system: polite, and reachable *)
Lemma do_op_run s op :
  (exists s1, step s (ev_of op) = Some s1) ->
  exists k, run s (ev_of op :: repeat WStep k) = Some (do_op s op).
Proof.
  intros [s1 H1]. unfold do_op. rewrite H1. unfold settle.
  destruct (quiesce_run (Model.measure s1) s1) as [k Hk]. exists k. cbn [run]. rewrite H1. exact Hk.
Qed.

(* ===================================================================================== *)
(* oracle soundness                                                                        *)

Lemma obs_oracle_sound prev r o : obs_oracle prev r o = true <-> obs_spec prev r o.
Proof.
  unfold obs_oracle, obs_spec. rewrite !andb_true_iff, eqb_true_iff.
  assert (H2 : (if r_cancelled r then (snd o =? 0)%Z
                else (Z.of_nat (length (live_members r)) <=? snd o)%Z &&
                     (snd o <=? Z.of_nat (r_offered r))%Z) = true <->
               (if r_cancelled r then snd o = 0%Z
                else (Z.of_nat (length (live_members r)) <= snd o <= Z.of_nat (r_offered r))%Z)).
  { destruct (r_cancelled r); [apply Z.eqb_eq|]. rewrite andb_true_iff, !Z.leb_le. reflexivity. }
  assert (H3 : match prev with
               | Some (rb, op, szb) => if is_add op && ref_done rb then (snd o =? szb)%Z else true
               | None => true
               end = true <->
               match prev with
               | Some (rb, op, szb) => is_add op = true -> ref_done rb = true -> snd o = szb
               | None => True
               end).
  { destruct prev as [[[rb op] szb]|]; [|tauto].
    destruct (is_add op); cbn [andb]; [|split; [intros _ X; discriminate X | reflexivity]].
    destruct (ref_done rb); [|split; [intros _ _ X; discriminate X | reflexivity]].
    rewrite Z.eqb_eq. split; [intros H _ _; exact H | intro H; apply H; reflexivity]. }
  rewrite H2, H3. tauto.
Qed.

Lemma script_oracle_from_sound ops : forall r szb obs,
  script_oracle_from r szb ops obs = true <-> script_spec_from r szb ops obs.
Proof.
  induction ops as [|op ops IH]; intros r szb [|o obs]; cbn [script_oracle_from script_spec_from];
    try (split; [discriminate | intros []]).
  - split; [intros _; exact I | reflexivity].
  - rewrite andb_true_iff, obs_oracle_sound, IH. reflexivity.
Qed.

Lemma script_oracle_sound pre ctxs ops o0 obs fin leak :
  script_oracle pre ctxs ops o0 obs fin leak = true <-> script_spec pre ctxs ops o0 obs fin leak.
Proof.
  unfold script_oracle, script_spec.
  rewrite !andb_true_iff, obs_oracle_sound, script_oracle_from_sound, negb_true_iff. tauto.
Qed.

Lemma race_oracle_sound confirmed mid fin leak :
  race_oracle confirmed mid fin leak = true <-> race_spec confirmed mid fin leak.
Proof.
  unfold race_oracle, race_spec. rewrite !andb_true_iff, negb_true_iff.
  assert (H : (if existsb (fun b : bool => b) confirmed then negb mid else true) = true <->
              (In true confirmed -> mid = false)).
  { destruct (existsb (fun b : bool => b) confirmed) eqn:E.
    - rewrite negb_true_iff. split; [intros H _; exact H | intro H; apply H].
      apply existsb_exists in E. destruct E as (b & Hb & ->). exact Hb.
    - split; [|reflexivity]. intros _ Hin. exfalso.
      assert (X : existsb (fun b : bool => b) confirmed = true)
        by (apply existsb_exists; exists true; split; [exact Hin | reflexivity]).
      rewrite X in E. discriminate E. }
  rewrite H. tauto.
Qed.

(* the model's own scripted observations always pass the oracle (so verdict 2 can only come
   from the implementation's observation) *)
Corollary script_oracle_on_model pre ctxs ops :
  let '(o0, obs, fin) := script_model pre ctxs ops in
  script_oracle pre ctxs ops o0 obs fin false = true.
Proof.
  pose proof (script_model_meets_spec pre ctxs ops) as H.
  destruct (script_model pre ctxs ops) as [[o0 obs] fin].
  apply script_oracle_sound. exact H.
Qed.

(* ===================================================================================== *)
(* races: what the property says about ANY schedule of the race, from never-early.          *)
(* If after any schedule some context that is a member has not ended and Cancel was not     *)
(* called, the pool is not done - whatever the interleaving was.                            *)
Lemma live_member_not_done s m :
  reachable s -> cancel_called s = false -> In m (members s) -> is_ended s m = false ->
  ctx_done s = false.
Proof.
  intros Hr Hc Hm He. destruct (ctx_done s) eqn:Hd; [exfalso | reflexivity].
  destruct (never_early_reachable s Hr Hd) as [X|X]; cbn in X.
  - rewrite Hc in X. discriminate X.
  - specialize (X m Hm). unfold is_ended, mem in He. unfold memz in X. rewrite X in He. discriminate He.
Qed.
