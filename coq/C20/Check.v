(* C20 — executable correspondence interface.  The Go harness prints [case] terms holding the
   input AND what the implementation was observed to do; [check_case] compares with the model
   and evaluates the spec oracle on the observation. *)
From Kit Require Export C20.Model C20.ModelLock C20.Spec Lib.CheckLib.

(* ------------------------------------------------------------------------------------- *)
(* Scripts: one caller, the pool settles after every step.                                 *)

Definition ev_of (op : sop) : event :=
  match op with
  | SEnd m => MemberDone m
  | SAdd m => AddCtx m
  | SCancel => Cancel
  | SSize => Size
  end.

(* apply one operation, then let the watcher run until it blocks or ends *)
Definition do_op (s : state) (op : sop) : state :=
  match step s (ev_of op) with
  | Some s' => settle s'
  | None => s            (* not enabled: cannot happen in a settled state (Proofs.v) *)
  end.

Definition observe (s : state) : bool * Z := (ctx_done s, size s).

Fixpoint script_obs (s : state) (ops : list sop) : list (bool * Z) :=
  match ops with
  | [] => []
  | op :: ops' => let s' := do_op s op in observe s' :: script_obs s' ops'
  end.

Definition script_end (s : state) (ops : list sop) : state := fold_left do_op ops s.

Definition op_ids (ops : list sop) : list Z :=
  flat_map (fun op => match op with SEnd m | SAdd m => [m] | _ => [] end) ops.

(* the harness's last phase: every context it created is ended *)
Definition end_all (ids : list Z) : list sop := map SEnd ids.

Definition script_model (pre ctxs : list Z) (ops : list sop)
  : (bool * Z) * list (bool * Z) * bool :=
  let s0 := settle (new_pool pre ctxs) in
  let s1 := script_end s0 ops in
  let s2 := script_end s1 (end_all (pre ++ ctxs ++ op_ids ops)) in
  (observe s0, script_obs s0 ops, ctx_done s2).

Definition eqb_obs (a b : bool * Z) : bool := Bool.eqb (fst a) (fst b) && (snd a =? snd b)%Z.

Fixpoint eqb_obss (a b : list (bool * Z)) : bool :=
  match a, b with
  | [], [] => true
  | x :: a', y :: b' => eqb_obs x y && eqb_obss a' b'
  | _, _ => false
  end.

(* ------------------------------------------------------------------------------------- *)
(* Races: every interleaving of the ender thread (MemberDone 0 .. MemberDone k-1, in order), *)
(* the adder threads (Add (k+j), one each) and the watcher, explored to the end.  An outcome *)
(* = (for each adder: did its context become a member?, is the pool done at quiescence?).    *)

Fixpoint removals {A} (l : list A) : list (A * list A) :=
  match l with
  | [] => []
  | x :: t => (x, t) :: map (fun p => (fst p, x :: snd p)) (removals t)
  end.

Fixpoint race_explore (fuel : nat) (s : state) (enders adders all_adders : list Z)
  : list (list bool * bool) :=
  match fuel with
  | O => []
  | S f =>
      let w := match step s WStep with
               | Some s' => race_explore f s' enders adders all_adders
               | None => []
               end in
      let e := match enders with
               | m :: enders' =>
                   match step s (MemberDone m) with
                   | Some s' => race_explore f s' enders' adders all_adders
                   | None => []
                   end
               | [] => []
               end in
      let a := flat_map (fun p : Z * list Z =>
                           match step s (AddCtx (fst p)) with
                           | Some s' => race_explore f s' enders (snd p) all_adders
                           | None => []
                           end) (removals adders) in
      let here := match step s WStep, enders, adders with
                  | None, [], [] => [(map (fun b => mem b (members s)) all_adders, ctx_done s)]
                  | _, _, _ => []
                  end in
      here ++ w ++ e ++ a
  end.

Definition zseq (from n : nat) : list Z := map Z.of_nat (seq from n).

Definition race_outcomes (k adds : nat) : list (list bool * bool) :=
  let members0 := zseq 0 k in
  let adders := zseq k adds in
  race_explore (4 * (k + adds) + 8) (new_pool [] members0) members0 adders adders.

Fixpoint implb_all (a b : list bool) : bool :=
  match a, b with
  | [], [] => true
  | x :: a', y :: b' => implb x y && implb_all a' b'
  | _, _ => false
  end.

(* is the observation explained by SOME schedule of the model? *)
Definition race_possible (k : nat) (confirmed : list bool) (mid : bool) : bool :=
  existsb (fun o : list bool * bool => implb_all confirmed (fst o) && Bool.eqb (snd o) mid)
          (race_outcomes k (length confirmed)).

(* ------------------------------------------------------------------------------------- *)
(* An operation nested in Add's call of the offered context's Done() method.  In pool.go Add *)
(* holds the write lock from its first line to its return, across ctx.Done(): a Cancel() or  *)
(* Size() started inside the callback blocks on the lock, and a watcher woken by members     *)
(* ended inside the callback blocks on the read lock, until Add returns.  So the model - in  *)
(* which Add is one atomic event - predicts: Done() is called iff Add does not ignore the    *)
(* offer (neither <-p.Done() nor <-p.closed is ready); nothing nested completes inside the   *)
(* callback ([inside] = the nested call returned there, [ndone] = the pool's context was     *)
(* seen done there); every observation is that of the settled script: Add, then the nested             *)
(* operation.                                                                                *)

Definition pobs_match (o : bool * Z) (p : pobs) : bool :=
  match p_done p with Some d => Bool.eqb d (fst o) | None => true end &&
  match p_size p with Some z => (z =? snd o)%Z | None => true end.

Fixpoint pobs_matches (a : list (bool * Z)) (b : list pobs) : bool :=
  match a, b with
  | [], [] => true
  | x :: a', y :: b' => pobs_match x y && pobs_matches a' b'
  | _, _ => false
  end.

Definition nested_called (pre ctxs : list Z) (ops1 : list sop) : bool :=
  let s1 := script_end (settle (new_pool pre ctxs)) ops1 in
  negb (ctx_done s1 || closed s1).

(* The same prediction COMPUTED by the lock-aware model of ModelLock.v, on every nested case: the
   Add is begun in the settled state after [ops1]; while it is in flight each nested operation is
   tried (a disabled one - Cancel, Size - does not run inside: it runs after the Add), the watcher
   is given every step it can take; [inside] = every nested call ran inside / for ended members
   the pool's context got done inside, [ndone] = the pool's context is done before LAddEnd.
   Proofs_lock.v proves this is always (nested_called, false, false). *)
Definition is_end (op : sop) : bool := match op with SEnd _ => true | _ => false end.

Definition flight_op (acc : lstate * bool) (op : sop) : lstate * bool :=
  match lstep (fst acc) (LEv (ev_of op)) with
  | Some l => (lsettle l, snd acc)
  | None => (fst acc, false)
  end.

Definition nested_flight (pre ctxs : list Z) (ops1 : list sop) (m : Z) (nops : list sop)
  : bool * bool * bool :=
  let s1 := script_end (settle (new_pool pre ctxs)) ops1 in
  match lstep (s1, None) (LAddBegin m) with
  | Some (s, Some f) =>
      if f_append f then
        let r := fold_left flight_op nops ((s, Some f), true) in
        let done := ctx_done (fst (fst r)) in
        (true, if forallb is_end nops then done else snd r, done)
      else (false, false, false)
  | _ => (false, false, false)
  end.

Definition flight_agrees (called inside ndone : bool) (p : bool * bool * bool) : bool :=
  Bool.eqb called (fst (fst p)) && Bool.eqb inside (snd (fst p)) && Bool.eqb ndone (snd p).

Definition nested_agrees (pre ctxs : list Z) (ops1 : list sop) (o0 : bool * Z)
           (obs1 : list (bool * Z)) (m : Z) (nops : list sop) (called inside ndone nret : bool)
           (nres : option Z) (oA : bool * Z) (ops2 : list sop) (obs2 : list (bool * Z))
           (fin leak : bool) : bool :=
  let '(m0, mobs, mfin) := script_model pre ctxs (lin_add_first ops1 m nops ops2) in
  eqb_obs m0 o0 &&
  pobs_matches mobs (lin_add_first_obs obs1 nops ndone nres oA obs2) &&
  flight_agrees called inside ndone (nested_flight pre ctxs ops1 m nops) &&
  nret && Bool.eqb mfin fin && negb leak.

(* ------------------------------------------------------------------------------------- *)

Inductive case :=
| CScript (pre ctxs : list Z) (ops : list sop)
          (obs0 : bool * Z) (obs : list (bool * Z)) (obs_final obs_leak : bool)
| CRace (k : Z) (confirmed : list bool) (obs_mid obs_final obs_leak : bool)
(* a script in which some steps were not observed: the operations marked so by the harness
   were issued back to back with the next one, without letting the pool settle (Spec.v, 4) *)
| CPScript (pre ctxs : list Z) (ops : list sop) (obs0 : bool * Z) (obs : list pobs)
           (obs_final obs_leak : bool)
(* an operation nested in the Done() callback of the context offered to Add (Spec.v, 5) *)
| CNested (pre ctxs : list Z) (ops1 : list sop) (obs0 : bool * Z) (obs1 : list (bool * Z))
          (m : Z) (nops : list sop) (called inside ndone nret : bool) (nres : option Z)
          (obsA : bool * Z) (ops2 : list sop) (obs2 : list (bool * Z))
          (obs_final obs_leak : bool).

Definition model_agrees (c : case) : bool :=
  match c with
  | CScript pre ctxs ops o0 obs fin leak =>
      let '(m0, mobs, mfin) := script_model pre ctxs ops in
      eqb_obs m0 o0 && eqb_obss mobs obs && Bool.eqb mfin fin && negb leak
  | CRace k confirmed mid fin leak =>
      race_possible (Z.to_nat k) confirmed mid && fin && negb leak
  | CPScript pre ctxs ops o0 obs fin leak =>
      let '(m0, mobs, mfin) := script_model pre ctxs ops in
      eqb_obs m0 o0 && pobs_matches mobs obs && Bool.eqb mfin fin && negb leak
  | CNested pre ctxs ops1 o0 obs1 m nops called inside ndone nret nres oA ops2 obs2 fin leak =>
      nested_agrees pre ctxs ops1 o0 obs1 m nops called inside ndone nret nres oA ops2 obs2 fin leak
  end.

Definition oracle (c : case) : bool :=
  match c with
  | CScript pre ctxs ops o0 obs fin leak => script_oracle pre ctxs ops o0 obs fin leak
  | CRace _ confirmed mid fin leak => race_oracle confirmed mid fin leak
  | CPScript pre ctxs ops o0 obs fin leak => pscript_oracle pre ctxs ops o0 obs fin leak
  | CNested pre ctxs ops1 o0 obs1 m nops called inside ndone nret nres oA ops2 obs2 fin leak =>
      nested_oracle pre ctxs ops1 o0 obs1 m nops called ndone nret nres oA ops2 obs2 fin leak
  end.

(* 0 = agree and oracle holds; 1 = model and implementation differ; 2 = the implementation's
   observed behaviour violates the spec. *)
Definition check_case (c : case) : Z :=
  if negb (oracle c) then 2 else if negb (model_agrees c) then 1 else 0.

Definition run_cases (cs : list (Z * case)) : list (Z * Z) := failures check_case cs.
