(* C20 — the statements exported to Properties/C20.v, assembled from Proofs.v / Proofs_script.v.
   Every statement quantifies over every creation [new_pool pre ctxs] (any number of contexts,
   any of them already ended) and every schedule [es] (event lists of any length).  No axioms. *)
From Kit Require Import C20.Model C20.Spec C20.Check C20.Proofs C20.Proofs_script.

Definition all_done (s : state) (l : list id) : Prop := forall m, In m l -> is_ended s m = true.

(* ---- never early ---- *)
Lemma main_never_early pre ctxs es s :
  run (new_pool pre ctxs) es = Some s ->
  ctx_done s = true -> cancel_called s = true \/ all_done s (members s).
Proof. apply never_early_run. Qed.

(* ---- membership ghost = the property's definition ---- *)
Lemma main_membership :
  (forall pre ctxs, members (new_pool pre ctxs) = ctxs) /\
  (forall pre ctxs es s e s',
     run (new_pool pre ctxs) es = Some s -> step s e = Some s' ->
     members s' = match e with
                  | AddCtx m => members_after_add (view_of s) m
                  | _ => members s
                  end).
Proof.
  split; [reflexivity|]. intros pre ctxs es s e s' Hr. apply members_step. exists pre, ctxs, es. exact Hr.
Qed.

(* ---- eventually (no wedge) ---- *)
Definition ends_by_itself (s : state) : Prop :=
  exists k s', k <= Model.measure s /\ run s (repeat WStep k) = Some s' /\
               ctx_done s' = true /\ watcher_gone s' = true.

Lemma ends_by_itself_of s :
  reachable s -> may_end s -> ends_by_itself s.
Proof.
  intros Hr M. destruct (eventually_reachable s Hr M) as (k & s' & Hk & Hrun & Hd & Hp).
  exists k, s'. unfold watcher_gone. rewrite Hp. repeat split; assumption.
Qed.

Lemma main_eventually pre ctxs es s :
  run (new_pool pre ctxs) es = Some s ->
  cancel_called s = true \/ (all_done s (members s) /\ all_done s (late s)) ->
  ends_by_itself s.
Proof.
  intros Hr H. assert (R : reachable s) by (exists pre, ctxs, es; exact Hr).
  apply ends_by_itself_of; [exact R|].
  destruct H as [H|[Hm Hl]]; [left; exact H | apply members_late_may_end; assumption].
Qed.

(* in terms of the slice: every tracked context has ended *)
Lemma main_eventually_tracked pre ctxs es s :
  run (new_pool pre ctxs) es = Some s ->
  cancel_called s = true \/ all_done s (tracked s) ->
  ends_by_itself s.
Proof.
  intros Hr H. apply ends_by_itself_of; [exists pre, ctxs, es; exact Hr | exact H].
Qed.

Lemma main_watcher_measure s s' : step s WStep = Some s' -> Model.measure s' < Model.measure s.
Proof. apply wstep_measure. Qed.

(* callers that Add only when the watcher is blocked or gone: no late entries, so the end of
   the members alone suffices *)
Lemma main_eventually_polite pre ctxs es s :
  polite (new_pool pre ctxs) es ->
  run (new_pool pre ctxs) es = Some s ->
  late s = [] /\
  (cancel_called s = true \/ all_done s (members s) -> ends_by_itself s).
Proof.
  intros P Hr. pose proof (polite_no_late pre ctxs es s P Hr) as Hl. split; [exact Hl|].
  intro H. apply (main_eventually pre ctxs es s Hr).
  destruct H as [H|H]; [left; exact H | right; split; [exact H|]].
  rewrite Hl. intros m [].
Qed.

(* ---- late Add ignored ---- *)
Lemma main_late_add_ignored pre ctxs es s m :
  run (new_pool pre ctxs) es = Some s ->
  ctx_done s = true \/ cancel_called s = true ->
  (forall s', step s (AddCtx m) = Some s' -> s' = s) /\
  (ctx_done s = true -> step s (AddCtx m) = Some s) /\
  (ctx_done s = true -> forall es' s', run s es' = Some s' -> ctx_done s' = true).
Proof.
  intros Hr H. assert (R : reachable s) by (exists pre, ctxs, es; exact Hr).
  split; [intros s'; apply add_after_end_ignored; assumption|].
  split; [apply add_after_end_enabled; exact R|].
  intros Hd es' s' Hrun. apply (done_stays_run s es' s' R Hd Hrun).
Qed.

(* ---- Size ---- *)
Lemma live_member_tracked s m :
  reachable s -> cancel_called s = false -> In m (members s) -> is_ended s m = false ->
  In m (tracked s).
Proof.
  intros Hr Hc Hm He. pose proof (reachable_Inv s Hr) as I.
  rewrite <- (inv_closed s I) in Hc.
  destruct (inv_members s I Hc m Hm) as [X|(j & _ & Hj)].
  - rewrite X in He. discriminate He.
  - eapply nth_error_In. exact Hj.
Qed.

Lemma main_size pre ctxs es s :
  run (new_pool pre ctxs) es = Some s ->
  step s Size = Some s /\
  size s = Z.of_nat (length (tracked s)) /\
  (cancel_called s = false ->
   forall m, In m (members s) -> is_ended s m = false -> In m (tracked s)) /\
  (cancel_called s = true -> forall es' s', run s es' = Some s' -> size s' = 0%Z).
Proof.
  intros Hr. assert (R : reachable s) by (exists pre, ctxs, es; exact Hr).
  split; [apply size_enabled; exact R|]. split; [reflexivity|].
  split; [intros Hc m; apply live_member_tracked; assumption|].
  intros Hc es' s' Hrun.
  apply (size_after_cancel s' (reachable_run s es' s' R Hrun)).
  cbn. eapply cancel_called_run; eassumption.
Qed.

(* ---- Cancel ---- *)
Lemma cancel_measure s s1 : Inv s -> step s Cancel = Some s1 -> Model.measure s1 <= 3.
Proof.
  intros I H. destruct (cancel_frame s s1 I H) as (_ & _ & _ & _ & Hp).
  assert (Hpc : pc s1 = pc s).
  { unfold step in H. rewrite (inv_panic s I) in H.
    destruct (write_lock_free s); cbn [negb] in H; [|discriminate H].
    destruct (pool s); [destruct (closed s)|]; injection H as <-; reflexivity. }
  assert (Hl : write_lock_free s = true).
  { unfold step in H. rewrite (inv_panic s I) in H.
    destruct (write_lock_free s); [reflexivity | discriminate H]. }
  unfold Model.measure, tracked. rewrite Hp, Hpc. unfold write_lock_free in Hl.
  destruct (pc s); cbn; try lia; discriminate Hl.
Qed.

Lemma main_cancel pre ctxs es s :
  run (new_pool pre ctxs) es = Some s ->
  (write_lock_free s = true -> exists s1, step s Cancel = Some s1) /\
  (forall s1, step s Cancel = Some s1 ->
     cancel_called s1 = true /\ size s1 = 0%Z /\ panicked s1 = false /\
     exists k s2, k <= 3 /\ run s1 (repeat WStep k) = Some s2 /\
                  ctx_done s2 = true /\ watcher_gone s2 = true).
Proof.
  intros Hr. assert (R : reachable s) by (exists pre, ctxs, es; exact Hr).
  split; [apply cancel_enabled; exact R|].
  intros s1 H1. pose proof (reachable_step s Cancel s1 R H1) as R1.
  pose proof (cancel_step_sets s s1 H1) as Hc.
  split; [exact Hc|]. split; [apply (size_after_cancel s1 R1); exact Hc|].
  split; [apply no_panic_reachable; exact R1|].
  destruct (ends_by_itself_of s1 R1 (or_introl Hc)) as (k & s2 & Hk & Hrun & Hd & Hg).
  exists k, s2. pose proof (cancel_measure s s1 (reachable_Inv s R) H1).
  repeat split; try assumption. lia.
Qed.

(* ---- the watcher goroutine ends with the pool ---- *)
Lemma main_watcher_exits pre ctxs es s :
  run (new_pool pre ctxs) es = Some s ->
  (ctx_done s = true <-> watcher_gone s = true) /\
  (watcher_gone s = true -> step s WStep = None).
Proof.
  intros Hr. assert (R : reachable s) by (exists pre, ctxs, es; exact Hr).
  split; [apply (watcher_exits_reachable s R)|].
  unfold watcher_gone, step. intro H. destruct (panicked s); [reflexivity|].
  destruct (pc s); try discriminate H. reflexivity.
Qed.

(* ---- no double close ---- *)
Lemma main_no_panic pre ctxs es s :
  run (new_pool pre ctxs) es = Some s -> panicked s = false.
Proof. intro Hr. apply no_panic_reachable. exists pre, ctxs, es. exact Hr. Qed.

(* ---- races: a live member keeps the pool alive whatever the interleaving ---- *)
Lemma main_live_member_not_done pre ctxs es s m :
  run (new_pool pre ctxs) es = Some s ->
  cancel_called s = false -> In m (members s) -> is_ended s m = false -> ctx_done s = false.
Proof. intro Hr. apply live_member_not_done. exists pre, ctxs, es. exact Hr. Qed.

(* ---- non-vacuity of the polite theorem: the scripted runs are polite schedules ---- *)
Example polite_nonvacuous :
  let es := [WStep; AddCtx 1%Z; MemberDone 0%Z; WStep; WStep; MemberDone 1%Z] in
  polite (new_pool [] [0%Z]) es /\
  exists s, run (new_pool [] [0%Z]) es = Some s /\ all_done s (members s) /\ ctx_done s = false.
Proof.
  split.
  - cbn. repeat split; reflexivity.
  - eexists. split; [vm_compute; reflexivity|]. split; [|reflexivity].
    intros m [<-|[<-|[]]]; reflexivity.
Qed.
