(* C16 — proofs: the three stream wrappers meet their specs for every script and every positive
   consumer; the pre-fix code is refuted on concrete witnesses; the boolean oracles decide the
   spec predicates.  No axioms. *)
From Kit Require Import C16.Model C16.Spec C16.Check.

(* ===================================================================================== *)
(* Oracle soundness                                                                        *)

Lemma limit_oracle_sound n s out e cb ca :
  limit_oracle n s out e cb ca = true <-> limit_spec n s out e cb ca.
Proof.
  unfold limit_oracle, limit_spec. cbv zeta.
  rewrite andb_true_iff, Nat.eqb_eq.
  destruct (Z.of_nat (length (data_of s)) >? n)%Z.
  - rewrite !andb_true_iff, eqb_listN_spec, err_eqb_spec, orb_true_iff, Z.ltb_lt, Nat.eqb_eq.
    split.
    + intros (Hca & (Ho & He) & Hcb). repeat split; try assumption.
      intro Hn. destruct Hcb as [Hcb|Hcb]; [lia | exact Hcb].
    + intros (Hca & Ho & He & Hcb). repeat split; try assumption.
      destruct (Z.lt_ge_cases n 0) as [Hn|Hn]; [left; exact Hn | right; exact (Hcb Hn)].
  - rewrite andb_true_iff, eqb_listN_spec, err_eqb_spec; reflexivity.
Qed.

(* Close called again: every wrapper's Close is idempotent, so [k >= 1] calls are one call. *)
Lemma iter_idem {A} (f : A -> A) : (forall x, f (f x) = f x) ->
  forall k x, 1 <= k -> Nat.iter k f x = f x.
Proof.
  intros Hf k x Hk. destruct k as [|k]; [lia|]. clear Hk.
  induction k as [|k IH]; [reflexivity|].
  change (Nat.iter (S (S k)) f x) with (f (Nat.iter (S k) f x)). rewrite IH. apply Hf.
Qed.

Lemma limit_close_idem l : limit_close (limit_close l) = limit_close l.
Proof.
  unfold limit_close. destruct (lclosed l) eqn:Hc; [rewrite Hc; reflexivity | reflexivity].
Qed.

Lemma multi_close_idem m : multi_close (multi_close m) = multi_close m.
Proof. unfold multi_close. cbn [mreaders mgone map]. rewrite app_nil_r. reflexivity. Qed.

Lemma tee_close_idem t : tee_close (tee_close t) = tee_close t.
Proof.
  unfold tee_close. destruct (topen t) eqn:Ho; [reflexivity | rewrite Ho; reflexivity].
Qed.

Lemma eqb_listnat_spec a b : eqb_listnat a b = true <-> a = b.
Proof.
  unfold eqb_listnat. revert b.
  induction a as [|x a IH]; intros [|y b]; cbn [length combine forallb fst snd Nat.eqb];
    split; intro H; try reflexivity; try discriminate H.
  - rewrite andb_true_iff in H. destruct H as [Hlen H].
    rewrite andb_true_iff in H. destruct H as [Hxy Hall].
    apply Nat.eqb_eq in Hxy. subst y. f_equal.
    apply IH. rewrite andb_true_iff. split; assumption.
  - injection H as <- <-.
    assert (Hab : Nat.eqb (length a) (length a) && forallb (fun p => Nat.eqb (fst p) (snd p)) (combine a a) = true)
      by (apply IH; reflexivity).
    rewrite andb_true_iff in Hab. destruct Hab as [Hlen Hall].
    rewrite Hlen, Nat.eqb_refl, Hall. reflexivity.
Qed.

Lemma multi_oracle_sound srcs out e ca :
  multi_oracle srcs out e ca = true <-> (multi_dom srcs = true -> multi_spec srcs out e ca).
Proof.
  unfold multi_oracle, multi_spec.
  rewrite orb_true_iff, negb_true_iff, !andb_true_iff, eqb_listN_spec, err_eqb_spec,
    eqb_listnat_spec.
  destruct (multi_dom srcs); split; intro H.
  - intros _. destruct H as [H|H]; [discriminate H | tauto].
  - right. specialize (H eq_refl). tauto.
  - intro Hd. discriminate Hd.
  - left. reflexivity.
Qed.

Lemma tee_oracle_sound s b out e w sc wc :
  tee_oracle s b out e w sc wc = true <-> tee_spec s b out e w sc wc.
Proof.
  unfold tee_oracle, tee_spec.
  rewrite !andb_true_iff, eqb_listN_spec, !Nat.eqb_eq, prefixb_spec.
  assert (Hm :
    match e with
    | EWriter => match b with None => false | Some _ => true end
    | _ => eqb_listN out (data_of s) && err_eqb e (end_of s)
    end = true <->
    match e with
    | EWriter => b <> None
    | _ => out = data_of s /\ e = end_of s
    end).
  { destruct e; try (rewrite andb_true_iff, eqb_listN_spec, err_eqb_spec; reflexivity).
    destruct b; split; intro H; try reflexivity; try discriminate H; congruence. }
  rewrite Hm. tauto.
Qed.

Lemma limit_stop_oracle_sound n s out ca :
  limit_stop_oracle n s out ca = true <-> limit_stop_spec n s out ca.
Proof.
  unfold limit_stop_oracle, limit_stop_spec.
  rewrite !andb_true_iff, Nat.eqb_eq, prefixb_spec, Z.leb_le. tauto.
Qed.

Lemma multi_stop_oracle_sound srcs out ca :
  multi_stop_oracle srcs out ca = true <-> (multi_dom srcs = true -> multi_stop_spec srcs out ca).
Proof.
  unfold multi_stop_oracle, multi_stop_spec.
  rewrite orb_true_iff, negb_true_iff, andb_true_iff, prefixb_spec, eqb_listnat_spec.
  destruct (multi_dom srcs); split; intro H.
  - intros _. destruct H as [H|H]; [discriminate H | tauto].
  - right. specialize (H eq_refl). tauto.
  - intro Hd. discriminate Hd.
  - left. reflexivity.
Qed.

Lemma tee_stop_oracle_sound s out w sc wc :
  tee_stop_oracle s out w sc wc = true <-> tee_stop_spec s out w sc wc.
Proof.
  unfold tee_stop_oracle, tee_stop_spec.
  rewrite !andb_true_iff, eqb_listN_spec, !Nat.eqb_eq, prefixb_spec. tauto.
Qed.

(* ===================================================================================== *)
(* LimitReadCloser                                                                         *)

Section Limit.
  Variables (n0 : Z) (s0 : list rd).

  Definition lim_inv (l : lim) (acc : list N) : Prop :=
    (0 <= lN l)%Z /\ lclosed l = false /\ closes (lsrc l) = 0 /\
    acc ++ data_of (script (lsrc l)) = data_of s0 /\
    end_of (script (lsrc l)) = end_of s0 /\
    lN l = (n0 - Z.of_nat (length acc))%Z.

  Definition lim_post (out : list N) (e : err) (l : lim) : Prop :=
    limit_spec n0 s0 out e (closes (lsrc l)) (closes (lsrc (limit_close l))).

  Lemma limit_read_step want l acc bs e l' :
    0 < want -> lim_inv l acc -> limit_read Fixed want l = (bs, e, l') ->
    match e with
    | ENil => lim_inv l' (acc ++ bs) /\
              script_fuel (script (lsrc l')) < script_fuel (script (lsrc l))
    | _ => lim_post (acc ++ bs) e l'
    end.
  Proof.
    intros Hw (HN & Hcl & Hc0 & Hdata & Heof & HlN) Hr.
    unfold limit_read in Hr.
    destruct (Z.ltb_spec (lN l) 0) as [Hneg|_]; [lia|].
    destruct want as [|w]; [lia|]. remember (S w) as want eqn:Hwant. clear Hwant w.
    rewrite Hcl in Hr.
    remember (if (Z.of_nat want >? lN l + 1)%Z then Z.to_nat (lN l + 1) else want)
      as want' eqn:Hwant'.
    assert (Hw' : 0 < want' /\ (Z.of_nat want' <= lN l + 1)%Z).
    { subst want'. destruct (Z.gtb_spec (Z.of_nat want) (lN l + 1)); lia. }
    clear Hwant'. destruct Hw' as [Hw'pos Hw'le].
    destruct (read want' (lsrc l)) as [[bs0 e0] src'] eqn:Hrd.
    destruct (read_step _ _ _ _ _ Hw'pos Hrd) as (Hd & Hc & Hlen & He).
    destruct (Z.ltb_spec (lN l - Z.of_nat (length bs0)) 0) as [Hover|Hfit].
    - (* the read crossed the limit: exactly one byte too many *)
      assert (Hm1 : (lN l - Z.of_nat (length bs0) = -1)%Z) by lia.
      rewrite Hm1 in Hr. cbn [Z.eqb Pos.eqb] in Hr.
      injection Hr as <- <- <-.
      unfold lim_post, limit_spec, limit_close. cbn [lclosed lsrc close_reader closes].
      split; [lia|]. cbv zeta.
      assert (Hne : bs0 <> []) by (intros ->; cbn [length] in Hm1; lia).
      pose proof (app_removelast_last 0%N Hne) as Hlast.
      assert (Hlen' : length (acc ++ removelast bs0) = Z.to_nat n0).
      { apply (f_equal (@length N)) in Hlast. rewrite app_length in Hlast.
        cbn [length] in Hlast. rewrite app_length. lia. }
      assert (Hd0 : data_of s0 =
                    (acc ++ removelast bs0) ++ (last bs0 0%N :: data_after e0 src')).
      { rewrite <- Hdata, Hd. rewrite Hlast at 1. rewrite <- !app_assoc. reflexivity. }
      assert (Hlong : (Z.of_nat (length (data_of s0)) > n0)%Z).
      { rewrite Hd0, app_length. cbn [length]. lia. }
      destruct (Z.gtb_spec (Z.of_nat (length (data_of s0))) n0) as [_|Hno]; [|lia].
      split; [|split; [reflexivity | intros _; lia]].
      rewrite Hd0. symmetry. apply firstn_exact. exact Hlen'.
    - (* within the limit *)
      injection Hr as <- <- <-.
      assert (Hfin : data_after e0 src' = [] -> end_of (script (lsrc l)) = e0 ->
                     lim_post (acc ++ bs0) e0
                       {| lN := lN l - Z.of_nat (length bs0); lclosed := false; lsrc := src' |}).
      { intros He1 He2.
        unfold lim_post, limit_spec, limit_close. cbn [lclosed lsrc close_reader closes].
        split; [lia|]. cbv zeta.
        assert (Hd0 : data_of s0 = acc ++ bs0).
        { rewrite <- Hdata, Hd, He1, app_nil_r. reflexivity. }
        rewrite Hd0, app_length.
        destruct (Z.gtb_spec (Z.of_nat (length acc + length bs0)) n0) as [Hbad|_]; [lia|].
        rewrite <- Heof, He2. split; reflexivity. }
      destruct e0; try contradiction.
      + (* ENil *)
        destruct He as [He1 He2]. cbn [lsrc]. split; [|exact He2].
        unfold lim_inv. cbn [lN lclosed lsrc]. cbn [data_after] in Hd.
        rewrite <- app_assoc, <- Hd, app_length.
        repeat split; try assumption; try lia; congruence.
      + (* EEOF *)
        destruct He as [He1 He2]. apply Hfin; assumption.
      + (* EFail k *)
        apply Hfin; [reflexivity | exact He].
  Qed.

  (* whenever the invariant holds, a Close now leaves the source closed once, and what was
     delivered is a prefix of at most n0 bytes *)
  Lemma lim_inv_stop l acc :
    lim_inv l acc -> limit_stop_spec n0 s0 acc (closes (lsrc (limit_close l))).
  Proof.
    intros (HN & Hcl & Hc0 & Hdata & Heof & HlN).
    unfold limit_stop_spec, limit_close. rewrite Hcl. cbn [lsrc close_reader closes].
    split; [lia|]. split; [|lia].
    exists (data_of (script (lsrc l))). symmetry. exact Hdata.
  Qed.
End Limit.

(* the first Read of a limiter built with a negative limit *)
Lemma limit_read_neg want n s : (n < 0)%Z ->
  limit_read Fixed want (lim_new n s) = ([], ETooLarge, lim_new n s).
Proof.
  intro Hn. unfold limit_read, lim_new. cbn [lN].
  destruct (Z.ltb_spec n 0) as [_|Hbad]; [reflexivity | lia].
Qed.

Lemma limit_neg_spec n s k : (n < 0)%Z -> 1 <= k ->
  limit_spec n s [] ETooLarge (closes (lsrc (lim_new n s)))
             (closes (lsrc (Nat.iter k limit_close (lim_new n s)))).
Proof.
  intros Hneg Hk. rewrite (iter_idem limit_close limit_close_idem k _ Hk).
  unfold limit_spec, limit_close, lim_new. cbn [lclosed lsrc close_reader closes].
  split; [reflexivity|]. cbv zeta.
  destruct (Z.gtb_spec (Z.of_nat (length (data_of s))) n) as [_|Hbad]; [|lia].
  split; [|split; [reflexivity | lia]].
  destruct n as [|p|p]; try lia. reflexivity.
Qed.

Lemma lim_inv_new n s : (0 <= n)%Z -> lim_inv n s (lim_new n s) [].
Proof.
  intro Hpos. unfold lim_inv, lim_new. cbn [lN lclosed lsrc script closes app length].
  repeat split; try reflexivity; lia.
Qed.

Lemma limit_run_spec : forall n s c k, consumer_pos c -> 1 <= k ->
  exists out e cb ca, limit_run Fixed n s c None k = (out, Some e, cb, ca) /\
                      limit_spec n s out e cb ca.
Proof.
  intros n s c k Hc Hk. unfold limit_run, fuel_of.
  destruct (Z.ltb_spec n 0) as [Hneg|Hpos].
  - (* negative limit: the first Read fails at once *)
    unfold limit_fuel. cbn [consume].
    destruct (next_size c) as [want c'] eqn:Hn.
    rewrite (limit_read_neg want n s Hneg). cbn [app].
    exists [], ETooLarge. eexists. eexists. split; [reflexivity|].
    exact (limit_neg_spec n s k Hneg Hk).
  - destruct (consume_rule (limit_read Fixed) (lim_inv n s)
               (fun l => script_fuel (script (lsrc l))) (lim_post n s)
               (limit_read_step n s)
               (limit_fuel (lim_new n s)) c (lim_new n s) [] Hc)
      as (out & e & l1 & Hrun & Hpost).
    + exact (lim_inv_new n s Hpos).
    + unfold limit_fuel. lia.
    + rewrite Hrun. exists out, e. eexists. eexists. split; [reflexivity|].
      rewrite (iter_idem limit_close limit_close_idem k _ Hk). exact Hpost.
Qed.

(* The consumer stops after at most [fuel] Read calls, whatever [fuel], and then calls Close. *)
Lemma limit_run_stop_spec : forall n s c fuel k, consumer_pos c -> 1 <= k ->
  exists out eo cb ca, limit_run Fixed n s c (Some fuel) k = (out, eo, cb, ca) /\
    match eo with
    | Some e => limit_spec n s out e cb ca
    | None => limit_stop_spec n s out ca
    end.
Proof.
  intros n s c fuel k Hc Hk. unfold limit_run, fuel_of.
  destruct (Z.ltb_spec n 0) as [Hneg|Hpos].
  - destruct fuel as [|fuel]; cbn [consume].
    + exists [], None. eexists. eexists. split; [reflexivity|].
      rewrite (iter_idem limit_close limit_close_idem k _ Hk).
      unfold limit_stop_spec, limit_close, lim_new. cbn [lclosed lsrc close_reader closes length].
      split; [reflexivity|]. split; [exists (data_of s); reflexivity | lia].
    + destruct (next_size c) as [want c'] eqn:Hn.
      rewrite (limit_read_neg want n s Hneg). cbn [app].
      exists [], (Some ETooLarge). eexists. eexists. split; [reflexivity|].
      exact (limit_neg_spec n s k Hneg Hk).
  - destruct (consume_upto_rule (limit_read Fixed) (lim_inv n s) (lim_post n s)) 
      with (fuel := fuel) (c := c) (s := lim_new n s) (acc := @nil N)
      as (out & eo & l1 & Hrun & Hres).
    + intros want l acc bs e l' Hw Hinv Hr.
      pose proof (limit_read_step n s want l acc bs e l' Hw Hinv Hr) as H.
      destruct e; try exact H. exact (proj1 H).
    + exact Hc.
    + exact (lim_inv_new n s Hpos).
    + rewrite Hrun. exists out, eo. eexists. eexists. split; [reflexivity|].
      rewrite (iter_idem limit_close limit_close_idem k _ Hk).
      destruct eo as [e|]; [exact Hres | exact (lim_inv_stop n s _ _ Hres)].
Qed.

Lemma limit_over_refuted : exists n s c, consumer_pos c /\
  (Z.of_nat (length (data_of s)) > n)%Z /\
  exists out cb ca, limit_run Original n s c None 1 = (out, Some EEOF, cb, ca).
Proof.
  exists 2%Z, [Data [1; 2]%N; DataEOF [3]%N], {| csizes := []; cdflt := 4 |}.
  split; [split; [constructor | cbn [cdflt]; lia]|].
  split; [vm_compute; reflexivity|].
  eexists. eexists. eexists. vm_compute. reflexivity.
Qed.

(* The code before the second fix: with the largest limit there is (a caller's "no limit"), the
   first Read panics although the source has three bytes. *)
Lemma limit_maxint_refuted : exists s c, consumer_pos c /\
  (Z.of_nat (length (data_of s)) <= max_int64)%Z /\
  exists cb ca, limit_run Original max_int64 s c None 1 = ([], Some EPanic, cb, ca).
Proof.
  exists [Data [1; 2; 3]%N], {| csizes := []; cdflt := 4 |}.
  split; [split; [constructor | cbn [cdflt]; lia]|].
  split; [vm_compute; discriminate|].
  eexists. eexists. vm_compute. reflexivity.
Qed.

(* ... where the current tree delivers the source unchanged. *)
Example limit_maxint_fixed :
  limit_run Fixed max_int64 [Data [1; 2; 3]%N] {| csizes := []; cdflt := 4 |} None 1
  = ([1; 2; 3]%N, Some EEOF, 0, 1).
Proof. vm_compute. reflexivity. Qed.

(* ===================================================================================== *)
(* MultiReaderCloser                                                                       *)

(* What the remaining sources still owe, read off the current state. *)
Fixpoint expect_rs (rs : list src) : list N * err :=
  match rs with
  | [] => ([], EEOF)
  | r :: t =>
      match end_of (script (sreader r)) with
      | EEOF => (data_of (script (sreader r)) ++ fst (expect_rs t), snd (expect_rs t))
      | e => (data_of (script (sreader r)), e)
      end
  end.

Definition closes_due (rs : list src) : list nat :=
  map (fun s => if closable s then 1 else 0) rs.

Definition gone_counts (g : list src) : list nat := map (fun s => closes (sreader s)) g.

Definition unclosed (rs : list src) : Prop := Forall (fun s => closes (sreader s) = 0) rs.

Definition fuel_rs (rs : list src) : nat :=
  fold_right (fun s acc => script_fuel (script (sreader s)) + acc) 0 rs.

Lemma expect_rs_new srcs : expect_rs (map src_new srcs) = multi_expect srcs.
Proof.
  induction srcs as [|sc t IH]; [reflexivity|].
  cbn [map expect_rs multi_expect src_new sreader script]. rewrite IH. reflexivity.
Qed.

Lemma closes_due_new srcs : closes_due (map src_new srcs) = expected_closes srcs.
Proof.
  unfold closes_due, expected_closes. rewrite map_map. reflexivity.
Qed.

Lemma unclosed_new srcs : unclosed (map src_new srcs).
Proof.
  unfold unclosed. induction srcs as [|sc t IH]; cbn [map]; constructor; [reflexivity | exact IH].
Qed.

Lemma closes_close_src s :
  closes (sreader s) = 0 -> closes (sreader (close_src s)) = if closable s then 1 else 0.
Proof.
  intro H. unfold close_src. destruct (closable s); cbn [sreader close_reader closes]; lia.
Qed.

Lemma gone_counts_close rs : unclosed rs -> gone_counts (map close_src rs) = closes_due rs.
Proof.
  unfold unclosed, gone_counts, closes_due. intro H.
  induction H as [|s rs Hs Hrs IH]; [reflexivity|].
  cbn [map]. rewrite IH, (closes_close_src s Hs). reflexivity.
Qed.

Lemma close_counts_multi_close m :
  unclosed (mreaders m) ->
  close_counts (multi_close m) = gone_counts (mgone m) ++ closes_due (mreaders m).
Proof.
  intro H. unfold close_counts, multi_close. cbn [mreaders mgone].
  rewrite app_nil_r, map_app. fold (gone_counts (mgone m)).
  fold (gone_counts (map close_src (mreaders m))). rewrite (gone_counts_close _ H). reflexivity.
Qed.

(* no remaining source ends with http.ErrBodyReadAfterClose *)
Definition indom (rs : list src) : Prop :=
  Forall (fun s => body_closed_end (script (sreader s)) = false) rs.

Lemma indom_new srcs : multi_dom srcs = true -> indom (map src_new srcs).
Proof.
  unfold multi_dom, indom. intro H. rewrite forallb_forall in H.
  apply Forall_forall. intros s Hin. apply in_map_iff in Hin. destruct Hin as (sc & <- & Hsc).
  specialize (H sc Hsc). apply negb_true_iff in H. exact H.
Qed.

Section Multi.
  (* the stream still owed at the start, and the close counts due after Close *)
  Variables (E : list N) (Er : err) (X : list nat).

  Definition multi_cl (rs gone : list src) : Prop :=
    gone_counts gone ++ closes_due rs = X /\ unclosed rs.

  Definition multi_inv' (rs gone : list src) (acc : list N) : Prop :=
    acc ++ fst (expect_rs rs) = E /\ snd (expect_rs rs) = Er /\ multi_cl rs gone /\ indom rs.

  Definition multi_fin (out : list N) (e : err) (m : multi) : Prop :=
    out = E /\ e = Er /\ multi_cl (mreaders m) (mgone m).

  Lemma multi_read_loop_step want : 0 < want ->
    forall rs gone acc bs e m',
    multi_inv' rs gone acc -> multi_read_loop want rs gone = (bs, e, m') ->
    match e with
    | ENil => multi_inv' (mreaders m') (mgone m') (acc ++ bs) /\
              fuel_rs (mreaders m') < fuel_rs rs
    | _ => multi_fin (acc ++ bs) e m'
    end.
  Proof.
    intros Hw. induction rs as [|r rest IH]; intros gone acc bs e m' Hinv Hr.
    - (* no reader left *)
      cbn [multi_read_loop] in Hr. injection Hr as <- <- <-.
      destruct Hinv as (HE & HEr & Hcl & _). cbn [expect_rs fst snd] in HE, HEr.
      unfold multi_fin. cbn [mreaders mgone]. split; [exact HE|]. split; [exact HEr | exact Hcl].
    - cbn [multi_read_loop] in Hr.
      destruct (read want (sreader r)) as [[bs0 e0] rd'] eqn:Hrd.
      destruct (read_step _ _ _ _ _ Hw Hrd) as (Hd & Hc & Hlen & He).
      destruct Hinv as (HE & HEr & (HX & Hun) & Hdom).
      pose proof (Forall_inv Hun) as Hr0. pose proof (Forall_inv_tail Hun) as Hrest.
      pose proof (Forall_inv Hdom) as Hdom0. pose proof (Forall_inv_tail Hdom) as Hdomrest.
      cbn beta in Hr0, Hdom0. fold (indom rest) in Hdomrest.
      cbn [expect_rs] in HE, HEr. cbn [closes_due map] in HX. fold (closes_due rest) in HX.
      destruct e0; try contradiction.
      + (* ENil: the head source made progress *)
        injection Hr as <- <- <-. destruct He as [He1 He2]. cbn [data_after] in Hd.
        assert (Hdom' : indom ({| sreader := rd'; closable := closable r |} :: rest)).
        { constructor; [|exact Hdomrest]. cbn [sreader]. unfold body_closed_end.
          rewrite He1. exact Hdom0. }
        cbn [mreaders mgone]. split.
        * unfold multi_inv', multi_cl. cbn [expect_rs sreader closes_due map closable].
          fold (closes_due rest). rewrite He1.
          destruct (end_of (script (sreader r))); cbn [fst snd] in *;
            try (rewrite <- app_assoc, <- Hd;
                 repeat split; try assumption;
                 constructor; [cbn [sreader]; lia | exact Hrest]).
          rewrite <- app_assoc, (app_assoc bs0), <- Hd.
          repeat split; try assumption. constructor; [cbn [sreader]; lia | exact Hrest].
        * cbn [fuel_rs fold_right sreader]. fold (fuel_rs rest). lia.
      + (* EEOF: the head source is exhausted and dropped *)
        destruct He as [He1 He2]. rewrite He2 in HE, HEr. cbn [fst snd] in HE, HEr.
        cbn [data_after] in Hd. rewrite Hd, He1, app_nil_r in HE.
        set (r'' := close_src {| sreader := rd'; closable := closable r |}) in Hr.
        assert (Hc'' : gone_counts (gone ++ [r'']) ++ closes_due rest = X).
        { unfold gone_counts. rewrite map_app. cbn [map]. fold (gone_counts gone).
          subst r''. rewrite closes_close_src by (cbn [sreader]; lia).
          cbn [closable]. rewrite <- app_assoc. exact HX. }
        destruct bs0 as [|b bs0].
        * (* nothing delivered: try the next source *)
          cbn [app] in HE.
          assert (Hinv' : multi_inv' rest (gone ++ [r'']) acc)
            by (repeat split; assumption).
          specialize (IH _ _ _ _ _ Hinv' Hr).
          destruct e; try exact IH.
          destruct IH as [IH1 IH2]. split; [exact IH1|].
          cbn [fuel_rs fold_right]. fold (fuel_rs rest). lia.
        * destruct rest as [|r2 rest2].
          -- injection Hr as <- <- <-. cbn [expect_rs fst snd] in HE, HEr.
             rewrite app_nil_r in HE.
             unfold multi_fin, multi_cl. cbn [mreaders mgone]. repeat split; assumption.
          -- injection Hr as <- <- <-. cbn [mreaders mgone]. split.
             ++ unfold multi_inv', multi_cl. rewrite <- app_assoc.
                repeat split; assumption.
             ++ pose proof (script_fuel_pos (script (sreader r))) as Hpos.
                cbn [fuel_rs fold_right]. cbn [fuel_rs fold_right] in Hpos. lia.
      + (* EFail k: the head source failed; it stays at the head *)
        rename He into He2.
        assert (Hk : is_body_closed k = false).
        { unfold body_closed_end in Hdom0. rewrite He2 in Hdom0. exact Hdom0. }
        rewrite Hk in Hr.
        injection Hr as <- <- <-.
        rewrite He2 in HE, HEr. cbn [fst snd] in HE, HEr.
        cbn [data_after] in Hd. rewrite Hd, app_nil_r in HE.
        unfold multi_fin, multi_cl. cbn [mreaders mgone closes_due map closable].
        fold (closes_due rest).
        repeat split; try assumption. constructor; [cbn [sreader]; lia | exact Hrest].
  Qed.

  Definition multi_inv (m : multi) (acc : list N) : Prop :=
    multi_inv' (mreaders m) (mgone m) acc.

  Definition multi_post (out : list N) (e : err) (m : multi) : Prop :=
    out = E /\ e = Er /\ close_counts (multi_close m) = X.

  Lemma multi_fin_post out e m : multi_fin out e m -> multi_post out e m.
  Proof.
    intros (H1 & H2 & H3 & H4). unfold multi_post.
    rewrite (close_counts_multi_close _ H4). repeat split; assumption.
  Qed.

  Lemma multi_read_step want m acc bs e m' :
    0 < want -> multi_inv m acc -> multi_read want m = (bs, e, m') ->
    match e with
    | ENil => multi_inv m' (acc ++ bs) /\ fuel_rs (mreaders m') < fuel_rs (mreaders m)
    | _ => multi_post (acc ++ bs) e m'
    end.
  Proof.
    intros Hw Hinv Hr. unfold multi_read in Hr.
    pose proof (multi_read_loop_step want Hw _ _ _ _ _ _ Hinv Hr) as H.
    destruct e; try (apply multi_fin_post; exact H). exact H.
  Qed.
End Multi.

Lemma multi_inv_new srcs : multi_dom srcs = true ->
  multi_inv (fst (multi_expect srcs)) (snd (multi_expect srcs)) (expected_closes srcs)
            (multi_new srcs) [].
Proof.
  intro Hdom.
  unfold multi_inv, multi_inv', multi_cl, multi_new. cbn [mreaders mgone app gone_counts map].
  rewrite expect_rs_new, closes_due_new.
  repeat split; try reflexivity; [apply unclosed_new | apply indom_new; exact Hdom].
Qed.

Lemma multi_read_spec : forall v srcs c k, consumer_pos c -> 1 <= k -> multi_dom srcs = true ->
  exists out e cb ca, multi_run v srcs (ViaRead c) None k = (out, Some e, cb, ca) /\
                      multi_spec srcs out e ca.
Proof.
  intros v srcs c k Hc Hk Hdom. unfold multi_run, fuel_of.
  destruct (consume_rule multi_read
              (multi_inv (fst (multi_expect srcs)) (snd (multi_expect srcs)) (expected_closes srcs))
              (fun m => fuel_rs (mreaders m))
              (multi_post (fst (multi_expect srcs)) (snd (multi_expect srcs)) (expected_closes srcs))
              (fun want m acc bs e m' =>
                 multi_read_step _ _ _ want m acc bs e m')
              (multi_fuel (multi_new srcs)) c (multi_new srcs) [] Hc)
    as (out & e & m1 & Hrun & Hpost).
  - apply multi_inv_new; exact Hdom.
  - unfold multi_fuel, fuel_rs. lia.
  - rewrite Hrun. destruct Hpost as (H1 & H2 & H3).
    exists out, e. eexists. eexists. split; [reflexivity|].
    rewrite (iter_idem multi_close multi_close_idem k _ Hk).
    unfold multi_spec. repeat split; assumption.
Qed.

(* the consumer stops after at most [fuel] Read calls and then calls Close *)
Lemma multi_read_stop_spec : forall v srcs c fuel k, consumer_pos c -> 1 <= k ->
  multi_dom srcs = true ->
  exists out eo cb ca, multi_run v srcs (ViaRead c) (Some fuel) k = (out, eo, cb, ca) /\
    match eo with
    | Some e => multi_spec srcs out e ca
    | None => multi_stop_spec srcs out ca
    end.
Proof.
  intros v srcs c fuel k Hc Hk Hdom. unfold multi_run, fuel_of.
  set (E := fst (multi_expect srcs)). set (Er := snd (multi_expect srcs)).
  set (X := expected_closes srcs).
  destruct (consume_upto_rule multi_read (multi_inv E Er X) (multi_post E Er X))
    with (fuel := fuel) (c := c) (s := multi_new srcs) (acc := @nil N)
    as (out & eo & m1 & Hrun & Hres).
  - intros want m acc bs e m' Hw Hinv Hr.
    pose proof (multi_read_step E Er X want m acc bs e m' Hw Hinv Hr) as H.
    destruct e; try exact H. exact (proj1 H).
  - exact Hc.
  - apply multi_inv_new; exact Hdom.
  - rewrite Hrun. exists out, eo. eexists. eexists. split; [reflexivity|].
    rewrite (iter_idem multi_close multi_close_idem k _ Hk).
    destruct eo as [e|].
    + destruct Hres as (H1 & H2 & H3). unfold multi_spec. repeat split; assumption.
    + destruct Hres as (HE & _ & (HX & Hun) & _). unfold multi_stop_spec. split.
      * exists (fst (expect_rs (mreaders m1))). symmetry. exact HE.
      * rewrite (close_counts_multi_close _ Hun). exact HX.
Qed.

(* WriteTo path *)

Lemma copy_buf_pos : 0 < copy_buf.
Proof. unfold copy_buf. lia. Qed.

Lemma copy_all_spec c r : consumer_pos c -> exists r',
  copy_all c r = (data_of (script r), Some (end_of (script r)), r') /\
  closes r' = closes r.
Proof.
  intro Hcpos. unfold copy_all.
  destruct (consume_rule read
              (fun r1 acc => acc ++ data_of (script r1) = data_of (script r) /\
                             end_of (script r1) = end_of (script r) /\
                             closes r1 = closes r)
              (fun r1 => script_fuel (script r1))
              (fun out e r1 => out = data_of (script r) /\
                               e = end_of (script r) /\
                               closes r1 = closes r))
    with (fuel := S (script_fuel (script r))) (c := c)
         (s := r) (acc := @nil N)
    as (out & e & r' & Hrun & Hout & He & Hc).
  - intros want r1 acc bs e r2 Hw (Hd & Heof & Hcl) Hrd.
    destruct (read_step _ _ _ _ _ Hw Hrd) as (Hd' & Hc' & _ & He).
    destruct e; try contradiction.
    + destruct He as [He1 He2]. cbn [data_after] in Hd'. rewrite <- app_assoc, <- Hd'.
      repeat split; try assumption; congruence.
    + destruct He as [He1 He2]. rewrite <- Heof, He2. cbn [data_after] in Hd'.
      rewrite <- Hd, Hd', He1, app_nil_r. repeat split; congruence.
    + rewrite <- Heof, He. cbn [data_after] in Hd'.
      rewrite <- Hd, Hd', app_nil_r. repeat split; congruence.
  - exact Hcpos.
  - repeat split; reflexivity.
  - lia.
  - exists r'. rewrite Hrun, Hout, He. split; [reflexivity | exact Hc].
Qed.

Lemma multi_write_to_loop_spec c rs : consumer_pos c -> forall gone acc, unclosed rs ->
  exists m', multi_write_to_loop Fixed c rs gone acc =
               (acc ++ fst (expect_rs rs), snd (expect_rs rs), m') /\
             gone_counts (mgone m') ++ closes_due (mreaders m') =
               gone_counts gone ++ closes_due rs /\
             unclosed (mreaders m').
Proof.
  intro Hcpos. induction rs as [|r rest IH]; intros gone acc Hun.
  - cbn [multi_write_to_loop expect_rs fst snd]. rewrite app_nil_r.
    eexists. split; [reflexivity|]. cbn [mreaders mgone]. split; [reflexivity | exact Hun].
  - pose proof (Forall_inv Hun) as Hr0. pose proof (Forall_inv_tail Hun) as Hrest.
    cbn beta in Hr0.
    cbn [multi_write_to_loop expect_rs].
    destruct (copy_all_spec c (sreader r) Hcpos) as (rd' & Hcopy & Hcl). rewrite Hcopy.
    destruct (end_of (script (sreader r)));
      try (eexists; cbn [fst snd]; split; [reflexivity|]; cbn [mreaders mgone]; split;
           [reflexivity | constructor; [cbn [sreader]; lia | exact Hrest]]).
    + destruct (IH (gone ++ [close_src {| sreader := rd'; closable := closable r |}])
                   (acc ++ data_of (script (sreader r))) Hrest) as (m' & Hrun & Hcnt & Hun').
      exists m'. rewrite Hrun. cbn [fst snd]. rewrite <- app_assoc.
      split; [reflexivity|]. split; [|exact Hun'].
      rewrite Hcnt. unfold gone_counts at 1. rewrite map_app. cbn [map].
      fold (gone_counts gone).
      rewrite closes_close_src by (cbn [sreader]; lia).
      cbn [closable closes_due map]. rewrite <- app_assoc. reflexivity.
Qed.

Lemma multi_writeto_spec : forall srcs c k, consumer_pos c -> 1 <= k ->
  exists out e cb ca, multi_run Fixed srcs (ViaWriteTo c) None k = (out, Some e, cb, ca) /\
                      multi_spec srcs out e ca.
Proof.
  intros srcs c k Hc Hk. unfold multi_run, multi_write_to, multi_new. cbn [mreaders mgone].
  destruct (multi_write_to_loop_spec c (map src_new srcs) Hc [] [] (unclosed_new srcs))
    as (m' & Hrun & Hcnt & Hun).
  rewrite Hrun. cbn [app].
  eexists. eexists. eexists. eexists. split; [reflexivity|].
  rewrite (iter_idem multi_close multi_close_idem k _ Hk).
  unfold multi_spec. rewrite expect_rs_new.
  repeat split.
  rewrite (close_counts_multi_close _ Hun), Hcnt. cbn [gone_counts map app].
  apply closes_due_new.
Qed.

Lemma copy_consumer_pos : consumer_pos copy_consumer.
Proof. split; [constructor | exact copy_buf_pos]. Qed.

Lemma multi_writeto_refuted : exists srcs out e cb ca,
  multi_run Original srcs (ViaWriteTo copy_consumer) None 1 = (out, Some e, cb, ca) /\
  ca <> expected_closes srcs.
Proof.
  exists [([DataEOF [1]%N], true); ([Data [2]%N], true)].
  eexists. eexists. eexists. eexists. split.
  - vm_compute. reflexivity.
  - vm_compute. discriminate.
Qed.

(* ===================================================================================== *)
(* TeeReadCloser                                                                           *)

Section Tee.
  Variables (s0 : list rd) (b0 : option nat).

  Definition tee_inv (t : tee) (acc : list N) : Prop :=
    topen t = true /\ teof t = false /\ wbuf (tw t) = acc /\
    acc ++ data_of (script (tr t)) = data_of s0 /\
    end_of (script (tr t)) = end_of s0 /\
    closes (tr t) = 0 /\ wcloses (tw t) = 0 /\
    (b0 = None -> wbudget (tw t) = None).

  Definition tee_post (out : list N) (e : err) (t : tee) : Prop :=
    tee_spec s0 b0 out e (wbuf (tw (tee_close t))) (closes (tr (tee_close t)))
             (wcloses (tw (tee_close t))).

  Lemma tee_read_step want t acc bs e t' :
    0 < want -> tee_inv t acc -> tee_read want t = (bs, e, t') ->
    match e with
    | ENil => tee_inv t' (acc ++ bs) /\
              script_fuel (script (tr t')) < script_fuel (script (tr t))
    | _ => tee_post (acc ++ bs) e t'
    end.
  Proof.
    intros Hw (Hopen & Hteof & Hbuf & Hdata & Heof & Hc0 & Hwc0 & Hbud) Hr.
    unfold tee_read in Hr. rewrite Hopen, Hteof in Hr. cbn [negb] in Hr.
    destruct (read want (tr t)) as [[bs0 e0] r'] eqn:Hrd.
    destruct (read_step _ _ _ _ _ Hw Hrd) as (Hd & Hc & _ & He).
    (* any final state with the source and the writer not yet closed *)
    assert (Hfin : forall w' out, wbuf w' = out -> wcloses w' = 0 ->
              (exists rest, data_of s0 = out ++ rest) ->
              forall e1 eof',
              match e1 with
              | EWriter => b0 <> None
              | _ => out = data_of s0 /\ e1 = end_of s0
              end ->
              tee_post out e1 {| tr := r'; tw := w'; topen := true; teof := eof' |}).
    { intros w' out Hw1 Hw2 Hpre e1 eof' Hcase.
      unfold tee_post, tee_spec, tee_close. cbn [topen tr tw wbuf wcloses close_reader closes].
      repeat split; try assumption; lia. }
    (* the source ended (EOF or failure) on this read, which delivered [bs0] *)
    assert (Hend : forall e1, e1 <> EWriter -> data_after e0 r' = [] ->
              end_of (script (tr t)) = e1 ->
              acc ++ bs0 = data_of s0 /\ e1 = end_of s0).
    { intros e1 _ He1 He2. split; [|congruence].
      rewrite <- Hdata, Hd, He1, app_nil_r. reflexivity. }
    destruct bs0 as [|b bs0].
    - (* empty read: nothing is written *)
      injection Hr as <- <- <-. rewrite app_nil_r. cbn [app] in Hd.
      destruct e0; try contradiction.
      + destruct He as [He1 He2]. cbn [tr]. split; [|exact He2]. cbn [data_after] in Hd.
        unfold tee_inv. cbn [tr tw topen teof].
        repeat split; try assumption; congruence.
      + destruct He as [He1 He2].
        destruct (Hend EEOF ltac:(discriminate) He1 He2) as [Hout Hee].
        rewrite app_nil_r in Hout.
        apply Hfin; try assumption.
        * exists []. rewrite app_nil_r. symmetry. exact Hout.
        * split; assumption.
      + destruct (Hend (EFail k) ltac:(discriminate) eq_refl He) as [Hout Hee].
        rewrite app_nil_r in Hout.
        apply Hfin; try assumption.
        * exists []. rewrite app_nil_r. symmetry. exact Hout.
        * split; assumption.
    - remember (b :: bs0) as bs1 eqn:Hbs1.
      set (eof1 := match e0 with
                   | EEOF => true
                   | EFail k => is_eof_kind k || false
                   | _ => false
                   end) in Hr.
      assert (Hr' : (let '(ok, w') := write bs1 (tw t) in
                     if ok
                     then (bs1, e0, {| tr := r'; tw := w'; topen := true; teof := eof1 |})
                     else ([], EWriter, {| tr := r'; tw := w'; topen := true; teof := eof1 |}))
                    = (bs, e, t')).
      { subst bs1. exact Hr. }
      clear Hr Hbs1 b bs0.
      unfold write in Hr'.
      assert (Hok : forall k,
                 (bs1, e0, {| tr := r';
                              tw := {| wbuf := wbuf (tw t) ++ bs1; wbudget := k;
                                       wcloses := wcloses (tw t) |};
                              topen := true; teof := eof1 |})
                 = (bs, e, t') -> (b0 = None -> k = None) ->
                 match e with
                 | ENil => tee_inv t' (acc ++ bs) /\
                           script_fuel (script (tr t')) < script_fuel (script (tr t))
                 | _ => tee_post (acc ++ bs) e t'
                 end).
      { intros k Hk Hbk. injection Hk as <- <- <-.
        destruct e0; try contradiction.
        - destruct He as [He1 He2]. cbn [tr]. split; [|exact He2]. cbn [data_after] in Hd.
          unfold tee_inv. cbn [tr tw topen teof wbuf wbudget wcloses].
          rewrite <- app_assoc, <- Hd.
          repeat split; try assumption; congruence.
        - destruct He as [He1 He2].
          destruct (Hend EEOF ltac:(discriminate) He1 He2) as [Hout Hee].
          apply Hfin; cbn [wbuf wcloses]; try assumption.
          + congruence.
          + exists []. rewrite app_nil_r. symmetry. exact Hout.
          + split; assumption.
        - destruct (Hend (EFail k0) ltac:(discriminate) eq_refl He) as [Hout Hee].
          apply Hfin; cbn [wbuf wcloses]; try assumption.
          + congruence.
          + exists []. rewrite app_nil_r. symmetry. exact Hout.
          + split; assumption. }
      destruct (wbudget (tw t)) as [[|k]|] eqn:Hb.
      + (* the writer refuses: no byte delivered, no byte written *)
        injection Hr' as <- <- <-. rewrite app_nil_r.
        apply Hfin; try assumption.
        * exists (bs1 ++ data_after e0 r'). rewrite <- Hdata, Hd. reflexivity.
        * intro Hnone. specialize (Hbud Hnone). congruence.
      + apply (Hok (Some k) Hr'). intro Hnone. specialize (Hbud Hnone). congruence.
      + apply (Hok None Hr'). reflexivity.
  Qed.

  Lemma tee_inv_stop t acc :
    tee_inv t acc ->
    tee_stop_spec s0 acc (wbuf (tw (tee_close t))) (closes (tr (tee_close t)))
                  (wcloses (tw (tee_close t))).
  Proof.
    intros (Hopen & Hteof & Hbuf & Hdata & Heof & Hc0 & Hwc0 & Hbud).
    unfold tee_stop_spec, tee_close. rewrite Hopen.
    cbn [tr tw wbuf wcloses close_reader closes].
    repeat split; try assumption; try lia.
    exists (data_of (script (tr t))). symmetry. exact Hdata.
  Qed.
End Tee.

Lemma tee_inv_new s b : tee_inv s b (tee_new s b) [].
Proof.
  unfold tee_inv, tee_new. cbn [tr tw topen teof wbuf wbudget wcloses script closes app].
  repeat split; try reflexivity. intro H; exact H.
Qed.

Lemma tee_run_spec : forall s b c k, consumer_pos c -> 1 <= k ->
  exists out e w sc wc, tee_run s b c None k = (out, Some e, w, sc, wc) /\
                        tee_spec s b out e w sc wc.
Proof.
  intros s b c k Hc Hk. unfold tee_run, fuel_of.
  destruct (consume_rule tee_read (tee_inv s b)
              (fun t => script_fuel (script (tr t))) (tee_post s b)
              (tee_read_step s b)
              (tee_fuel (tee_new s b)) c (tee_new s b) [] Hc)
    as (out & e & t1 & Hrun & Hpost).
  - apply tee_inv_new.
  - unfold tee_fuel. lia.
  - rewrite Hrun. rewrite (iter_idem tee_close tee_close_idem k _ Hk).
    exists out, e. eexists. eexists. eexists.
    split; [reflexivity | exact Hpost].
Qed.

(* the consumer stops after at most [fuel] Read calls and then calls Close *)
Lemma tee_run_stop_spec : forall s b c fuel k, consumer_pos c -> 1 <= k ->
  exists out eo w sc wc, tee_run s b c (Some fuel) k = (out, eo, w, sc, wc) /\
    match eo with
    | Some e => tee_spec s b out e w sc wc
    | None => tee_stop_spec s out w sc wc
    end.
Proof.
  intros s b c fuel k Hc Hk. unfold tee_run, fuel_of.
  destruct (consume_upto_rule tee_read (tee_inv s b) (tee_post s b))
    with (fuel := fuel) (c := c) (s := tee_new s b) (acc := @nil N)
    as (out & eo & t1 & Hrun & Hres).
  - intros want t acc bs e t' Hw Hinv Hr.
    pose proof (tee_read_step s b want t acc bs e t' Hw Hinv Hr) as H.
    destruct e; try exact H. exact (proj1 H).
  - exact Hc.
  - apply tee_inv_new.
  - rewrite Hrun. rewrite (iter_idem tee_close tee_close_idem k _ Hk).
    exists out, eo. eexists. eexists. eexists. split; [reflexivity|].
    destruct eo as [e|]; [exact Hres | exact (tee_inv_stop s b _ _ Hres)].
Qed.

(* ===================================================================================== *)
(* MultiReaderCloser under any use: whatever sequence of Read / WriteTo calls (with whatever
   buffer sizes, 0 included, with destinations that fail, going on after errors or not), Close
   leaves every closable source closed exactly once.                                       *)

Lemma read_pres want r bs e r' :
  read want r = (bs, e, r') -> clean (script r) = true ->
  closes r' = closes r /\ clean (script r') = true /\
  match e with EFail k => is_body_closed k = false | _ => True end.
Proof.
  intros Hr Hcl. unfold read in Hr.
  destruct want as [|w]; [injection Hr as <- <- <-; repeat split; assumption|].
  remember (S w) as want eqn:Hwant. clear Hwant w.
  destruct (script r) as [|x t] eqn:Hs.
  - injection Hr as <- <- <-. rewrite Hs. repeat split; reflexivity.
  - unfold clean in Hcl. cbn [forallb] in Hcl. apply andb_true_iff in Hcl as [Hx Ht].
    fold (clean t) in Ht.
    destruct x as [d| |d|k|d k|d k]; cbn [clean_item] in Hx;
      try (destruct (Nat.leb (length d) want));
      injection Hr as <- <- <-; cbn [with_script script closes];
      try rewrite Hs; unfold clean; cbn [forallb clean_item]; fold (clean t);
      try rewrite Hx; try rewrite Ht;
      repeat split; try reflexivity; try (apply negb_true_iff; exact Hx).
Qed.

Lemma copy_to_pres fuel : forall c b r acc out eo r' b',
  copy_to fuel c b r acc = (out, eo, r', b') -> clean (script r) = true ->
  closes r' = closes r /\ clean (script r') = true /\
  match eo with Some (EFail k) => is_body_closed k = false | _ => True end.
Proof.
  induction fuel as [|fuel IH]; intros c b r acc out eo r' b' Hc Hcl.
  - cbn [copy_to] in Hc. injection Hc as <- <- <- <-. repeat split; assumption.
  - cbn [copy_to] in Hc.
    destruct (next_size c) as [want c'].
    destruct (read want r) as [[bs e] r1] eqn:Hrd.
    destruct (read_pres _ _ _ _ _ Hrd Hcl) as (Hc1 & Hcl1 & Hk).
    assert (Hgo : forall b1,
              match e with
              | ENil => copy_to fuel c' b1 r1 (acc ++ bs)
              | _ => (acc ++ bs, Some e, r1, b1)
              end = (out, eo, r', b') ->
              closes r' = closes r /\ clean (script r') = true /\
              match eo with Some (EFail k) => is_body_closed k = false | _ => True end).
    { intros b1 H. destruct e; try (injection H as <- <- <- <-; repeat split; assumption).
      destruct (IH _ _ _ _ _ _ _ _ H Hcl1) as (H1 & H2 & H3).
      repeat split; try assumption. congruence. }
    destruct bs as [|x bs]; [exact (Hgo _ Hc)|].
    destruct b as [[|k]|]; [|exact (Hgo _ Hc)|exact (Hgo _ Hc)].
    injection Hc as <- <- <- <-. repeat split; assumption.
Qed.

(* the part of the state the close counts depend on *)
Definition cleans (rs : list src) : Prop := Forall (fun s => clean (script (sreader s)) = true) rs.

Section AnyUse.
  Variable X : list nat.

  Definition use_inv (rs gone : list src) : Prop := multi_cl X rs gone /\ cleans rs.

  Lemma use_inv_head r rest gone rd' :
    use_inv (r :: rest) gone -> closes rd' = closes (sreader r) -> clean (script rd') = true ->
    use_inv ({| sreader := rd'; closable := closable r |} :: rest) gone.
  Proof.
    intros [[HX Hun] Hcl] Hc Hcl'. split; [split|].
    - exact HX.
    - constructor; [cbn [sreader]; rewrite Hc; exact (Forall_inv Hun) | exact (Forall_inv_tail Hun)].
    - constructor; [exact Hcl' | exact (Forall_inv_tail Hcl)].
  Qed.

  (* dropping the head source, closed if it can be *)
  Lemma use_inv_drop_closed r rest gone rd' :
    use_inv (r :: rest) gone -> closes rd' = closes (sreader r) ->
    use_inv rest (gone ++ [close_src {| sreader := rd'; closable := closable r |}]).
  Proof.
    intros [[HX Hun] Hcl] Hc. split; [split|].
    - unfold gone_counts. rewrite map_app. cbn [map]. fold (gone_counts gone).
      rewrite closes_close_src by (cbn [sreader]; rewrite Hc; exact (Forall_inv Hun)).
      cbn [closable]. rewrite <- app_assoc. exact HX.
    - exact (Forall_inv_tail Hun).
    - exact (Forall_inv_tail Hcl).
  Qed.

  Lemma multi_read_loop_pres want : forall rs gone bs e m',
    use_inv rs gone -> multi_read_loop want rs gone = (bs, e, m') ->
    use_inv (mreaders m') (mgone m').
  Proof.
    induction rs as [|r rest IH]; intros gone bs e m' Hinv Hr.
    - cbn [multi_read_loop] in Hr. injection Hr as <- <- <-. exact Hinv.
    - cbn [multi_read_loop] in Hr.
      destruct (read want (sreader r)) as [[bs0 e0] rd'] eqn:Hrd.
      destruct (read_pres _ _ _ _ _ Hrd (Forall_inv (proj2 Hinv))) as (Hc & Hcl' & Hk).
      pose proof (use_inv_head _ _ _ _ Hinv Hc Hcl') as Hkeep.
      pose proof (use_inv_drop_closed _ _ _ _ Hinv Hc) as Hdrop.
      destruct e0; try (injection Hr as <- <- <-; exact Hkeep).
      + (* EEOF *)
        destruct bs0 as [|x bs0]; [exact (IH _ _ _ _ Hdrop Hr)|].
        injection Hr as <- <- <-. exact Hdrop.
      + (* EFail k: never http.ErrBodyReadAfterClose here *)
        rewrite Hk in Hr. injection Hr as <- <- <-. exact Hkeep.
  Qed.

  Lemma multi_wt_loop_pres c : forall rs b gone acc bs e m',
    use_inv rs gone -> multi_wt_loop c b rs gone acc = (bs, e, m') ->
    use_inv (mreaders m') (mgone m').
  Proof.
    induction rs as [|r rest IH]; intros b gone acc bs e m' Hinv Hr.
    - cbn [multi_wt_loop] in Hr. injection Hr as <- <- <-. exact Hinv.
    - cbn [multi_wt_loop] in Hr.
      destruct (copy_to (S (script_fuel (script (sreader r)))) c b (sreader r) [])
        as [[[bs0 eo] rd'] b'] eqn:Hcp.
      destruct (copy_to_pres _ _ _ _ _ _ _ _ _ Hcp (Forall_inv (proj2 Hinv))) as (Hc & Hcl' & _).
      pose proof (use_inv_head _ _ _ _ Hinv Hc Hcl') as Hkeep.
      pose proof (use_inv_drop_closed _ _ _ _ Hinv Hc) as Hdrop.
      destruct eo as [e0|]; [|injection Hr as <- <- <-; exact Hkeep].
      destruct e0; try (injection Hr as <- <- <-; exact Hkeep).
      exact (IH _ _ _ _ _ _ Hdrop Hr).
  Qed.

  Lemma multi_ops_pres : forall ops m outs m',
    use_inv (mreaders m) (mgone m) -> multi_ops ops m = (outs, m') ->
    use_inv (mreaders m') (mgone m').
  Proof.
    induction ops as [|op t IH]; intros m outs m' Hinv Hr.
    - cbn [multi_ops] in Hr. injection Hr as <- <-. exact Hinv.
    - cbn [multi_ops] in Hr.
      destruct (multi_op op m) as [[bs e] m1] eqn:Hop.
      destruct (multi_ops t m1) as [outs1 m2] eqn:Ht.
      injection Hr as <- <-.
      apply (IH m1 outs1 m2); [|exact Ht].
      destruct op as [want|c b]; cbn [multi_op] in Hop.
      + exact (multi_read_loop_pres _ _ _ _ _ _ Hinv Hop).
      + exact (multi_wt_loop_pres _ _ _ _ _ _ _ _ Hinv Hop).
  Qed.
End AnyUse.

Lemma cleans_new srcs : multi_clean srcs = true -> cleans (map src_new srcs).
Proof.
  unfold multi_clean, cleans. intro H. rewrite forallb_forall in H.
  apply Forall_forall. intros s Hin. apply in_map_iff in Hin. destruct Hin as (sc & <- & Hsc).
  exact (H sc Hsc).
Qed.

Lemma multi_use_closed_once : forall srcs ops k, multi_clean srcs = true -> 1 <= k ->
  exists outs cb, multi_use srcs ops k = (outs, cb, expected_closes srcs).
Proof.
  intros srcs ops k Hcl Hk. unfold multi_use.
  destruct (multi_ops ops (multi_new srcs)) as [outs m1] eqn:Hops.
  assert (Hinv : use_inv (expected_closes srcs) (mreaders (multi_new srcs)) (mgone (multi_new srcs))).
  { unfold use_inv, multi_cl, multi_new. cbn [mreaders mgone gone_counts map app].
    rewrite closes_due_new. repeat split; [apply unclosed_new | apply cleans_new; exact Hcl]. }
  destruct (multi_ops_pres _ _ _ _ _ Hinv Hops) as [[HX Hun] _].
  exists outs. eexists. rewrite (iter_idem multi_close multi_close_idem k _ Hk).
  rewrite (close_counts_multi_close _ Hun), HX. reflexivity.
Qed.

Lemma multi_use_oracle_sound srcs ca :
  multi_use_oracle srcs ca = true <-> (multi_clean srcs = true -> multi_use_spec srcs ca).
Proof.
  unfold multi_use_oracle, multi_use_spec.
  rewrite orb_true_iff, negb_true_iff, eqb_listnat_spec.
  destruct (multi_clean srcs); split; intro H.
  - intros _. destruct H as [H|H]; [discriminate H | exact H].
  - right. exact (H eq_refl).
  - intro Hd. discriminate Hd.
  - left. reflexivity.
Qed.

Lemma multi_use_spec_thm : forall srcs ops k, multi_clean srcs = true -> 1 <= k ->
  exists outs cb ca, multi_use srcs ops k = (outs, cb, ca) /\ multi_use_spec srcs ca.
Proof.
  intros srcs ops k Hcl Hk.
  destruct (multi_use_closed_once srcs ops k Hcl Hk) as (outs & cb & H).
  exists outs, cb, (expected_closes srcs). split; [exact H | reflexivity].
Qed.

(* ------------------------------------------------------------------------------------- *)
(* The bytes, for any MIX of the two paths (a few Read calls for a header, then io.Copy for the
   rest, ...): up to and including the first call that reports anything but nil, the calls
   deliver exactly the expected stream and that call reports its expected end (a WriteTo that
   returns nil is reported as [EEOF], the clean end).                                        *)

Lemma copy_to_none fuel : forall c r acc,
  copy_to fuel c None r acc =
  (let '(o, e, r') := consume read fuel c r acc in (o, e, r', None)).
Proof.
  induction fuel as [|fuel IH]; intros c r acc; [reflexivity|].
  cbn [copy_to consume].
  destruct (next_size c) as [want c'].
  destruct (read want r) as [[bs e] r1].
  destruct bs as [|x bs]; destruct e; try reflexivity; apply IH.
Qed.

Lemma multi_wt_loop_none c : forall rs gone acc,
  multi_wt_loop c None rs gone acc = multi_write_to_loop Fixed c rs gone acc.
Proof.
  induction rs as [|r rest IH]; intros gone acc; [reflexivity|].
  cbn [multi_wt_loop multi_write_to_loop]. unfold copy_all. rewrite copy_to_none.
  destruct (consume read (S (script_fuel (script (sreader r)))) c (sreader r) [])
    as [[bs e] rd'].
  destruct e as [e|]; [|reflexivity]. destruct e; try reflexivity. apply IH.
Qed.

Lemma end_of_not_nil s : end_of s <> ENil.
Proof.
  induction s as [|[d| |d|k|d k|d k] t IH]; cbn [end_of]; try exact IH; discriminate.
Qed.

Lemma expect_rs_not_nil rs : snd (expect_rs rs) <> ENil.
Proof.
  induction rs as [|r t IH]; cbn [expect_rs]; [discriminate|].
  pose proof (end_of_not_nil (script (sreader r))) as Hn.
  destruct (end_of (script (sreader r))); cbn [snd]; try discriminate; try exact IH.
  contradiction.
Qed.

(* well-formed calls for this clause: non-empty Read buffers, positive copy sizes, destinations
   that do not fail *)
Definition op_ok (op : mop) : Prop :=
  match op with
  | ORead want => 0 < want
  | OWriteTo c b => consumer_pos c /\ b = None
  end.

Lemma multi_ops_stream E Er X : forall ops m acc outs m',
  Forall op_ok ops -> multi_inv E Er X m acc -> multi_ops ops m = (outs, m') ->
  match upto_err outs with
  | (o, Some e) => acc ++ o = E /\ e = Er
  | (o, None) => exists rest, E = (acc ++ o) ++ rest
  end.
Proof.
  induction ops as [|op t IH]; intros m acc outs m' Hok Hinv Hr.
  - cbn [multi_ops] in Hr. injection Hr as <- <-. cbn [upto_err]. rewrite app_nil_r.
    destruct Hinv as (HE & _). exists (fst (expect_rs (mreaders m))). symmetry. exact HE.
  - cbn [multi_ops] in Hr.
    destruct (multi_op op m) as [[bs e] m1] eqn:Hop.
    destruct (multi_ops t m1) as [outs1 m2] eqn:Ht.
    injection Hr as <- <-.
    pose proof (Forall_inv Hok) as Hop_ok. pose proof (Forall_inv_tail Hok) as Hok'.
    assert (Hstep : match e with
                    | ENil => multi_inv E Er X m1 (acc ++ bs)
                    | _ => acc ++ bs = E /\ e = Er
                    end).
    { destruct op as [want|c b]; cbn [multi_op op_ok] in Hop, Hop_ok.
      - pose proof (multi_read_step E Er X want m acc bs e m1 Hop_ok Hinv Hop) as H.
        destruct e; try (destruct H as (H1 & H2 & _); split; assumption).
        exact (proj1 H).
      - destruct Hop_ok as [Hc ->]. rewrite multi_wt_loop_none in Hop.
        destruct Hinv as (HE & HEr & (HX & Hun) & Hdom).
        destruct (multi_write_to_loop_spec c (mreaders m) Hc (mgone m) [] Hun)
          as (mx & Hrun & _).
        rewrite Hrun in Hop. injection Hop as <- <- <-. cbn [app].
        pose proof (expect_rs_not_nil (mreaders m)) as Hnn.
        destruct (snd (expect_rs (mreaders m))) eqn:Hs; try (split; [exact HE | exact HEr]).
        contradiction. }
    cbn [upto_err].
    destruct e; try exact Hstep.
    specialize (IH m1 (acc ++ bs) outs1 m2 Hok' Hstep Ht).
    destruct (upto_err outs1) as [o eo]. rewrite app_assoc. exact IH.
Qed.

Lemma multi_stream_oracle_sound srcs outs :
  multi_stream_oracle srcs outs = true <-> multi_stream_spec srcs outs.
Proof.
  unfold multi_stream_oracle, multi_stream_spec.
  destruct (upto_err outs) as [o [e|]].
  - rewrite andb_true_iff, eqb_listN_spec, err_eqb_spec. reflexivity.
  - apply prefixb_spec.
Qed.

Lemma multi_any_path_spec : forall srcs ops k, multi_dom srcs = true -> Forall op_ok ops ->
  exists outs cb ca, multi_use srcs ops k = (outs, cb, ca) /\ multi_stream_spec srcs outs.
Proof.
  intros srcs ops k Hdom Hok. unfold multi_use.
  destruct (multi_ops ops (multi_new srcs)) as [outs m1] eqn:Hops.
  exists outs. eexists. eexists. split; [reflexivity|].
  exact (multi_ops_stream _ _ _ ops (multi_new srcs) [] outs m1 Hok (multi_inv_new srcs Hdom) Hops).
Qed.

(* ===================================================================================== *)
(* Non-vacuity: concrete runs                                                              *)

Definition ex_consumer : consumer := {| csizes := [1; 3]; cdflt := 4 |}.

Example ex_consumer_pos : consumer_pos ex_consumer.
Proof. split; [repeat constructor | cbn [cdflt ex_consumer]; lia]. Qed.

(* Over-limit source whose 3rd byte arrives with EOF: the current tree reports ErrStreamTooLarge
   after exactly 2 bytes and has closed the source itself ... *)
Example limit_over_fixed :
  limit_run Fixed 2 [Data [1; 2]%N; DataEOF [3]%N] {| csizes := []; cdflt := 4 |} None 2
  = ([1; 2]%N, Some ETooLarge, 1, 1).
Proof. vm_compute. reflexivity. Qed.

(* ... where the code before the fix ended in a clean EOF. *)
Example limit_over_original :
  limit_run Original 2 [Data [1; 2]%N; DataEOF [3]%N] {| csizes := []; cdflt := 4 |} None 1
  = ([1; 2]%N, Some EEOF, 1, 1).
Proof. vm_compute. reflexivity. Qed.

Example limit_within :
  limit_run Fixed 5 [Data [1; 2]%N; Zero; DataEOF [3]%N] ex_consumer None 1
  = ([1; 2; 3]%N, Some EEOF, 0, 1).
Proof. vm_compute. reflexivity. Qed.

(* data delivered together with a failure that wraps io.EOF: all of it, and that very error *)
Example limit_within_datafail :
  limit_run Fixed 5 [Data [1; 2]%N; DataFail [3]%N FWrapEOF] ex_consumer None 1
  = ([1; 2; 3]%N, Some (EFail FWrapEOF), 0, 1).
Proof. vm_compute. reflexivity. Qed.

(* a transient failure delivered with data: the stream ends THERE with that error, although the
   source would have gone on *)
Example limit_transient :
  limit_run Fixed 9 [Data [1; 2]%N; DataErr [3]%N FCtxDeadline; Data [4]%N] ex_consumer None 1
  = ([1; 2; 3]%N, Some (EFail FCtxDeadline), 0, 1).
Proof. vm_compute. reflexivity. Qed.

Example multi_transient :
  multi_run Fixed [([DataErr [1]%N FNetClosed; Data [2]%N], true); ([Data [3]%N], true)]
            (ViaRead ex_consumer) None 1
  = ([1]%N, Some (EFail FNetClosed), [0; 0], [1; 1]).
Proof. vm_compute. reflexivity. Qed.

Example tee_transient :
  tee_run [DataErr [1; 2]%N FUnexpEOF; Data [3]%N] None ex_consumer None 1
  = ([1; 2]%N, Some (EFail FUnexpEOF), [1; 2]%N, 1, 1).
Proof. vm_compute. reflexivity. Qed.

(* the consumer stops after two Read calls, then Close *)
Example limit_stopped :
  limit_run Fixed 5 [Data [1; 2]%N; Zero; DataEOF [3]%N] ex_consumer (Some 2) 1
  = ([1; 2]%N, None, 0, 1).
Proof. vm_compute. reflexivity. Qed.

Example multi_read_run :
  multi_run Fixed [([Data [1; 2]%N; DataEOF [3]%N], true); ([], false); ([Data [4]%N], true)]
            (ViaRead ex_consumer) None 2
  = ([1; 2; 3; 4]%N, Some EEOF, [1; 0; 1], [1; 0; 1]).
Proof. vm_compute. reflexivity. Qed.

(* a non-last source that fails with an error wrapping io.EOF is NOT a finished source: the
   stream ends there with that error, and Close closes it and the sources after it *)
Example multi_read_wrapped_eof :
  multi_run Fixed [([DataEOF [1]%N], true); ([Data [2]%N; Fail FWrapEOF], true); ([Data [3]%N], true)]
            (ViaRead ex_consumer) None 1
  = ([1; 2]%N, Some (EFail FWrapEOF), [1; 0; 0], [1; 1; 1]).
Proof. vm_compute. reflexivity. Qed.

(* so is a source torn down under the reader (io.ErrClosedPipe, os.ErrClosed, ... bare or wrapped) *)
Example multi_read_closed_pipe :
  multi_run Fixed [([Data [1]%N; Fail FWrapOsClosed], true); ([Data [2]%N], true)]
            (ViaRead ex_consumer) None 1
  = ([1]%N, Some (EFail FWrapOsClosed), [0; 0], [1; 1]).
Proof. vm_compute. reflexivity. Qed.

(* the one identity the code knows, outside the spec's domain: on the Read path the source is
   dropped without being closed and the stream goes on; WriteTo reports the error *)
Example multi_read_body_closed :
  multi_run Fixed [([Data [1]%N; Fail FBodyClosed], true); ([Data [2]%N], true)]
            (ViaRead ex_consumer) None 1
  = ([1; 2]%N, Some EEOF, [0; 1], [0; 1]).
Proof. vm_compute. reflexivity. Qed.

Example multi_writeto_body_closed :
  multi_run Fixed [([Data [1]%N; Fail FBodyClosed], true); ([Data [2]%N], true)]
            (ViaWriteTo ex_consumer) None 1
  = ([1]%N, Some (EFail FBodyClosed), [0; 0], [1; 1]).
Proof. vm_compute. reflexivity. Qed.

Example multi_dom_ex :
  multi_dom [([Data [1]%N; Fail FWrapOsClosed], true); ([Data [2]%N], true)] = true /\
  multi_dom [([Data [1]%N; Fail FBodyClosed], true); ([Data [2]%N], true)] = false.
Proof. vm_compute. split; reflexivity. Qed.

(* the consumer stops after one Read call with three sources unfinished; Close closes them all *)
Example multi_read_stopped :
  multi_run Fixed [([Data [1; 2]%N], true); ([Data [3]%N], false); ([Data [4]%N], true)]
            (ViaRead ex_consumer) (Some 1) 2
  = ([1]%N, None, [0; 0; 0], [1; 0; 1]).
Proof. vm_compute. reflexivity. Qed.

Example multi_writeto_run_fixed :
  multi_run Fixed [([DataEOF [1]%N], true); ([Data [2]%N; Fail FPlain], true); ([Data [3]%N], true)]
            (ViaWriteTo ex_consumer) None 3
  = ([1; 2]%N, Some (EFail FPlain), [1; 0; 0], [1; 1; 1]).
Proof. vm_compute. reflexivity. Qed.

Example multi_writeto_run_original :
  multi_run Original [([DataEOF [1]%N], true); ([Data [2]%N], true)] (ViaWriteTo copy_consumer) None 1
  = ([1; 2]%N, Some EEOF, [0; 0], [0; 0]).
Proof. vm_compute. reflexivity. Qed.

Example tee_run_ok :
  tee_run [Data [1; 2]%N; Zero; DataEOF [3]%N] None ex_consumer None 2
  = ([1; 2; 3]%N, Some EEOF, [1; 2; 3]%N, 1, 1).
Proof. vm_compute. reflexivity. Qed.

Example tee_run_writer_fails :
  tee_run [Data [1; 2]%N; Zero; DataEOF [3]%N] (Some 1) ex_consumer None 1
  = ([1]%N, Some EWriter, [1]%N, 1, 1).
Proof. vm_compute. reflexivity. Qed.

Example tee_run_datafail :
  tee_run [Data [1; 2]%N; DataFail [3]%N FWrapUEOF] None ex_consumer None 1
  = ([1; 2; 3]%N, Some (EFail FWrapUEOF), [1; 2; 3]%N, 1, 1).
Proof. vm_compute. reflexivity. Qed.

Example tee_run_stopped :
  tee_run [Data [1; 2]%N; Zero; DataEOF [3]%N] None ex_consumer (Some 1) 1
  = ([1]%N, None, [1]%N, 1, 1).
Proof. vm_compute. reflexivity. Qed.

(* any use: a Read, a WriteTo whose destination refuses its third write (the chunk [4] is lost),
   another Read, a WriteTo that completes, a Read after the end; two Close calls *)
Example multi_use_run :
  multi_use [([Data [1; 2]%N; DataEOF [3]%N], true); ([Data [4]%N; Data [5]%N], true);
             ([Data [6]%N], false)]
            [ORead 1; OWriteTo copy_consumer (Some 2); ORead 4; OWriteTo copy_consumer None; ORead 1] 2
  = ([([1]%N, ENil); ([2; 3]%N, EWriter); ([5]%N, ENil); ([6]%N, EEOF); ([], EEOF)],
     [1; 1; 0], [1; 1; 0]).
Proof. vm_compute. reflexivity. Qed.

(* the caller goes on after a transient error of the second source (and starts with an empty
   buffer): still every source closed exactly once *)
Example multi_use_after_error :
  multi_use [([Data [1; 2]%N], true); ([DataErr [3]%N FNetClosed; Data [4]%N], true);
             ([Data [5]%N], true)]
            [ORead 0; ORead 8; ORead 8; ORead 8; OWriteTo copy_consumer None] 1
  = ([([], ENil); ([1; 2]%N, ENil); ([3]%N, EFail FNetClosed); ([4]%N, ENil); ([5]%N, EEOF)],
     [1; 1; 1], [1; 1; 1]).
Proof. vm_compute. reflexivity. Qed.

(* a header through Read, the rest through WriteTo: the stream, then the clean end *)
Example multi_mixed_paths :
  multi_use [([Data [1; 2]%N; DataEOF [3]%N], true); ([Data [4]%N], true)]
            [ORead 2; OWriteTo ex_consumer None] 1
  = ([([1; 2]%N, ENil); ([3; 4]%N, EEOF)], [1; 1], [1; 1])
  /\ upto_err [([1; 2]%N, ENil); ([3; 4]%N, EEOF)] = ([1; 2; 3; 4]%N, Some EEOF)
  /\ Forall op_ok [ORead 2; OWriteTo ex_consumer None].
Proof.
  split; [vm_compute; reflexivity|]. split; [reflexivity|].
  repeat constructor; cbn [csizes cdflt ex_consumer]; lia.
Qed.
