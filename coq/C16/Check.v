(* C16 — executable correspondence interface: the Go harness prints [case] terms holding the
   input AND what the implementation was observed to do; [check_case] compares with the model
   (current tree = Fixed) and evaluates the spec oracle on the observation.

   [sizes]/[dflt] = the buffer sizes of the Read calls that reached the wrapper (recorded by the
   harness, or known from the consumption path: 32 KiB for io.Copy, the given buffer for
   io.CopyBuffer, the destination's choice when io.Copy hands the wrapper to its ReadFrom);
   for [CMulti] with [writeto = true] they are the sizes used to copy each source inside WriteTo.
   [stop] = [Some k]: the consumer was a Read loop told to stop after k calls ([obs_err = ENil] when
   no error had come by then); [None]: it read until it was given an error.
   [ncl] = how many times the consumer then called Close. *)
From Kit Require Export C16.Model C16.Spec Lib.CheckLib.

Definition mkc (sizes : list Z) (dflt : Z) : consumer :=
  {| csizes := map Z.to_nat sizes; cdflt := Z.to_nat dflt |}.

(* one call on the wrapper: Read with a buffer of n bytes, or WriteTo to a destination that
   accepts b more Write calls while the per-source copies read with (sizes, dflt) *)
Inductive zop := ZRead (n : Z) | ZWriteTo (sizes : list Z) (dflt : Z) (b : option Z).

Definition mop_of (o : zop) : mop :=
  match o with
  | ZRead n => ORead (Z.to_nat n)
  | ZWriteTo sizes dflt b => OWriteTo (mkc sizes dflt) (option_map Z.to_nat b)
  end.

(* the calls C16_multi_any_path_spec speaks of ([op_ok]) *)
Definition zop_ok (o : zop) : bool :=
  match o with
  | ZRead n => (0 <? n)%Z
  | ZWriteTo sizes dflt b =>
      forallb (fun z => (0 <? z)%Z) sizes && (0 <? dflt)%Z &&
      match b with None => true | Some _ => false end
  end.

Fixpoint eqb_outs (a b : list (list N * err)) : bool :=
  match a, b with
  | [], [] => true
  | (x, e) :: a', (y, f) :: b' => eqb_listN x y && err_eqb e f && eqb_outs a' b'
  | _, _ => false
  end.

Inductive case :=
| CLimit (n : Z) (s : list rd) (sizes : list Z) (dflt : Z) (stop : option Z) (ncl : Z)
         (obs_out : list N) (obs_err : err) (obs_closes_before obs_closes_after : Z)
| CMulti (srcs : list (list rd * bool)) (writeto : bool) (sizes : list Z) (dflt : Z)
         (stop : option Z) (ncl : Z)
         (obs_out : list N) (obs_err : err) (obs_closes_before obs_closes_after : list Z)
| CTee (s : list rd) (budget : option Z) (sizes : list Z) (dflt : Z) (stop : option Z) (ncl : Z)
       (obs_out : list N) (obs_err : err) (obs_written : list N) (obs_src_closes obs_w_closes : Z)
(* MultiReaderCloser used by an arbitrary sequence of calls ([zop]), then [ncl] Close calls:
   what every call delivered and reported, and the close counts before / after Close *)
| CMultiUse (srcs : list (list rd * bool)) (ops : list zop) (ncl : Z)
            (obs : list (list N * err)) (obs_closes_before obs_closes_after : list Z)
(* the Go type of wrapper [w] was observed (interface assertion) to implement / not implement [i] *)
| CIface (w : wrapper) (i : iface) (obs_implemented : bool).

(* the model's [None] (the consumer stopped) is the harness's ENil *)
Definition opt_err_eqb (a : option err) (b : err) : bool :=
  match a with Some a' => err_eqb a' b | None => err_eqb b ENil end.

Definition model_agrees (v : variant) (c : case) : bool :=
  match c with
  | CLimit n s sizes dflt st k o e cb ca =>
      let '(mo, me, mcb, mca) :=
        limit_run v n s (mkc sizes dflt) (option_map Z.to_nat st) (Z.to_nat k) in
      eqb_listN mo o && opt_err_eqb me e && Nat.eqb mcb (Z.to_nat cb) && Nat.eqb mca (Z.to_nat ca)
  | CMulti srcs wt sizes dflt st k o e cb ca =>
      let '(mo, me, mcb, mca) :=
        multi_run v srcs (if wt then ViaWriteTo (mkc sizes dflt) else ViaRead (mkc sizes dflt))
                  (option_map Z.to_nat st) (Z.to_nat k) in
      eqb_listN mo o && opt_err_eqb me e && eqb_listnat mcb (map Z.to_nat cb)
      && eqb_listnat mca (map Z.to_nat ca)
  | CTee s b sizes dflt st k o e w sc wc =>
      let '(mo, me, mw, msc, mwc) :=
        tee_run s (option_map Z.to_nat b) (mkc sizes dflt) (option_map Z.to_nat st) (Z.to_nat k) in
      eqb_listN mo o && opt_err_eqb me e && eqb_listN mw w && Nat.eqb msc (Z.to_nat sc)
      && Nat.eqb mwc (Z.to_nat wc)
  | CMultiUse srcs ops k obs cb ca =>
      let '(mo, mcb, mca) := multi_use srcs (map mop_of ops) (Z.to_nat k) in
      eqb_outs mo obs && eqb_listnat mcb (map Z.to_nat cb) && eqb_listnat mca (map Z.to_nat ca)
  | CIface w i obs => Bool.eqb (implements w i) obs
  end.

(* a consumer that stopped by itself ([stop = Some _] and no error seen) is judged by the
   early-stop spec; every other observation by the full one *)
Definition stopped (st : option Z) (e : err) : bool :=
  match st with Some _ => err_eqb e ENil | None => false end.

Definition oracle (c : case) : bool :=
  match c with
  | CLimit n s _ _ st _ o e cb ca =>
      if stopped st e then limit_stop_oracle n s o (Z.to_nat ca)
      else limit_oracle n s o e (Z.to_nat cb) (Z.to_nat ca)
  | CMulti srcs _ _ _ st _ o e _ ca =>
      if stopped st e then multi_stop_oracle srcs o (map Z.to_nat ca)
      else multi_oracle srcs o e (map Z.to_nat ca)
  | CTee s b _ _ st _ o e w sc wc =>
      if stopped st e then tee_stop_oracle s o w (Z.to_nat sc) (Z.to_nat wc)
      else tee_oracle s (option_map Z.to_nat b) o e w (Z.to_nat sc) (Z.to_nat wc)
  | CMultiUse srcs ops _ obs _ ca =>
      multi_use_oracle srcs (map Z.to_nat ca) &&
      (* the stream clause speaks of well-formed calls on sources in its domain *)
      (negb (multi_dom srcs && forallb zop_ok ops) || multi_stream_oracle srcs obs)
  | CIface _ _ _ => true   (* the property does not speak of method sets: correspondence only *)
  end.

(* 0 = agree and oracle holds; 1 = model and implementation differ; 2 = the implementation's
   observed behaviour violates the spec (and the model reproduces it); 3 = it violates the spec
   and the model does not reproduce it. *)
Definition check_case (c : case) : Z :=
  if negb (oracle c) then (if model_agrees Fixed c then 2 else 3)
  else if negb (model_agrees Fixed c) then 1 else 0.

Definition run_cases (cs : list (Z * case)) : list (Z * Z) := failures check_case cs.
