(* C16 — streams: line-by-line models of LimitReadCloser, MultiReaderCloser, TeeReadCloser
   (/repo/streams/{limitreadcloser,multireadercloser,teereadcloser}.go). Definitions only. *)
From Kit Require Export Lib.Reader.

(* ------------------------------------------------------------------------------------- *)
(* LimitReadCloser                                                                         *)

Record lim := mkLim { lN : Z; lclosed : bool; lsrc : reader }.

Definition lim_new (n : Z) (s : list rd) : lim :=
  {| lN := n; lclosed := false; lsrc := {| script := s; closes := 0 |} |}.

(* func (l *limitReadCloser) Read(p []byte).
   Original: [if err == nil { err = ErrStreamTooLarge }]; Fixed: the error is always
   ErrStreamTooLarge once the limit is exceeded. *)
Definition limit_read (v : variant) (want : nat) (l : lim) : list N * err * lim :=
  if (lN l <? 0)%Z then ([], ETooLarge, l)
  else match want with
  | O => ([], ENil, l)
  | _ =>
    if lclosed l then ([], EEOF, l)
    else
      let want' := if (Z.of_nat want >? lN l + 1)%Z then Z.to_nat (lN l + 1) else want in
      let '(bs, e, src') := read want' (lsrc l) in
      let n' := (lN l - Z.of_nat (length bs))%Z in
      if (n' <? 0)%Z then
        let bs' := if (n' =? -1)%Z then removelast bs else bs in
        let e' := match v with
                  | Original => match e with ENil => ETooLarge | _ => e end
                  | Fixed => ETooLarge
                  end in
        (bs', e', {| lN := n'; lclosed := true; lsrc := close_reader src' |})
      else (bs, e, {| lN := n'; lclosed := lclosed l; lsrc := src' |})
  end.

Definition limit_close (l : lim) : lim :=
  if lclosed l then l
  else {| lN := lN l; lclosed := true; lsrc := close_reader (lsrc l) |}.

(* Fuel that always suffices for a read loop over a limit reader. *)
Definition limit_fuel (l : lim) : nat := S (S (script_fuel (script (lsrc l)))).

(* Consume to the end, then Close: (bytes, final error, closes before Close, closes after). *)
Definition limit_run (v : variant) (n : Z) (s : list rd) (c : consumer)
  : list N * option err * nat * nat :=
  let l0 := lim_new n s in
  let '(bs, e, l1) := consume (limit_read v) (limit_fuel l0) c l0 [] in
  (bs, e, closes (lsrc l1), closes (lsrc (limit_close l1))).

(* ------------------------------------------------------------------------------------- *)
(* MultiReaderCloser                                                                       *)

Record src := mkSrc { sreader : reader; closable : bool }.

(* [gone] = sources already dropped from mr.readers (kept to count their closes). *)
Record multi := mkMulti { mreaders : list src; mgone : list src }.

Definition src_new (sc : list rd * bool) : src :=
  {| sreader := {| script := fst sc; closes := 0 |}; closable := snd sc |}.

Definition multi_new (srcs : list (list rd * bool)) : multi :=
  {| mreaders := map src_new srcs; mgone := [] |}.

Definition close_src (s : src) : src :=
  if closable s then {| sreader := close_reader (sreader s); closable := true |} else s.

(* func (mr *MultiReaderCloser) Read(p []byte): the for loop over mr.readers. *)
Fixpoint multi_read_loop (want : nat) (rs : list src) (gone : list src) : list N * err * multi :=
  match rs with
  | [] => ([], EEOF, {| mreaders := []; mgone := gone |})
  | r :: rest =>
      let '(bs, e, rd') := read want (sreader r) in
      let r' := {| sreader := rd'; closable := closable r |} in
      match e with
      | EEOF =>
          let r'' := close_src r' in
          match bs with
          | [] => multi_read_loop want rest (gone ++ [r''])
          | _ => (bs, match rest with [] => EEOF | _ => ENil end,
                  {| mreaders := rest; mgone := gone ++ [r''] |})
          end
      | _ => (bs, e, {| mreaders := r' :: rest; mgone := gone |})
      end
  end.

Definition multi_read (want : nat) (m : multi) : list N * err * multi :=
  multi_read_loop want (mreaders m) (mgone m).

(* io.CopyBuffer(w, r, buf) with a 32 KiB buffer and a writer that never fails: all the data of
   the source up to EOF (nil error, here EEOF = "clean") or the source's error. *)
Definition copy_buf : nat := Z.to_nat 32768.

Definition copy_all (r : reader) : list N * option err * reader :=
  consume read (S (script_fuel (script r))) {| csizes := []; cdflt := copy_buf |} r [].

(* func (mr *MultiReaderCloser) writeToWithBuffer.
   Original: never closes a source; Fixed: closes each fully copied source that is a Closer. *)
Fixpoint multi_write_to_loop (v : variant) (rs : list src) (gone : list src) (acc : list N)
  : list N * err * multi :=
  match rs with
  | [] => (acc, EEOF, {| mreaders := []; mgone := gone |})
  | r :: rest =>
      let '(bs, e, rd') := copy_all (sreader r) in
      let r' := {| sreader := rd'; closable := closable r |} in
      match e with
      | Some EEOF =>
          let r'' := match v with Original => r' | Fixed => close_src r' end in
          multi_write_to_loop v rest (gone ++ [r'']) (acc ++ bs)
      | Some e' => (acc ++ bs, e', {| mreaders := r' :: rest; mgone := gone |})
      | None => (acc ++ bs, EFail, {| mreaders := r' :: rest; mgone := gone |})
      end
  end.

Definition multi_write_to (v : variant) (m : multi) : list N * err * multi :=
  multi_write_to_loop v (mreaders m) (mgone m) [].

Definition multi_close (m : multi) : multi :=
  {| mreaders := []; mgone := mgone m ++ map close_src (mreaders m) |}.

Definition multi_fuel (m : multi) : nat :=
  S (fold_right (fun s acc => script_fuel (script (sreader s)) + acc) 0 (mreaders m)).

Definition close_counts (m : multi) : list nat :=
  map (fun s => closes (sreader s)) (mgone m ++ mreaders m).

(* mode: [Some c] = Read loop with consumer c; [None] = WriteTo (io.Copy). *)
Definition multi_run (v : variant) (srcs : list (list rd * bool)) (mode : option consumer)
  : list N * option err * list nat * list nat :=
  let m0 := multi_new srcs in
  let '(bs, e, m1) :=
    match mode with
    | Some c => consume multi_read (multi_fuel m0) c m0 []
    | None => let '(bs, e, m1) := multi_write_to v m0 in (bs, Some e, m1)
    end in
  (bs, e, close_counts m1, close_counts (multi_close m1)).

(* ------------------------------------------------------------------------------------- *)
(* TeeReadCloser                                                                           *)

(* The writer accepts [wbudget] more writes ([None] = never fails); a failing write accepts no
   byte and returns an error. *)
Record writer := mkWriter { wbuf : list N; wbudget : option nat; wcloses : nat }.

Definition write (bs : list N) (w : writer) : bool * writer :=
  match wbudget w with
  | None => (true, {| wbuf := wbuf w ++ bs; wbudget := None; wcloses := wcloses w |})
  | Some O => (false, w)
  | Some (S k) => (true, {| wbuf := wbuf w ++ bs; wbudget := Some k; wcloses := wcloses w |})
  end.

Record tee := mkTee { tr : reader; tw : writer; topen : bool; teof : bool }.

Definition tee_new (s : list rd) (budget : option nat) : tee :=
  {| tr := {| script := s; closes := 0 |};
     tw := {| wbuf := []; wbudget := budget; wcloses := 0 |};
     topen := true; teof := false |}.

(* func (t *TeeReadCloser) Read(p []byte) *)
Definition tee_read (want : nat) (t : tee) : list N * err * tee :=
  if negb (topen t) then ([], EClosedPipe, t)
  else if teof t then ([], EEOF, t)
  else
    let '(bs, e, r') := read want (tr t) in
    let eof' := match e with EEOF => true | _ => teof t end in
    match bs with
    | [] => ([], e, {| tr := r'; tw := tw t; topen := true; teof := eof' |})
    | _ =>
        let '(ok, w') := write bs (tw t) in
        if ok then (bs, e, {| tr := r'; tw := w'; topen := true; teof := eof' |})
        else ([], EWriter, {| tr := r'; tw := w'; topen := true; teof := eof' |})
    end.

Definition tee_close (t : tee) : tee :=
  {| tr := close_reader (tr t);
     tw := {| wbuf := wbuf (tw t); wbudget := wbudget (tw t); wcloses := S (wcloses (tw t)) |};
     topen := false; teof := teof t |}.

Definition tee_fuel (t : tee) : nat := S (S (script_fuel (script (tr t)))).

(* (bytes delivered, final error, bytes written, source closes, writer closes) after Close *)
Definition tee_run (s : list rd) (budget : option nat) (c : consumer)
  : list N * option err * list N * nat * nat :=
  let t0 := tee_new s budget in
  let '(bs, e, t1) := consume tee_read (tee_fuel t0) c t0 [] in
  let t2 := tee_close t1 in
  (bs, e, wbuf (tw t2), closes (tr t2), wcloses (tw t2)).
