(* C16 — streams: line-by-line models of LimitReadCloser, MultiReaderCloser, TeeReadCloser
   (/repo/streams/{limitreadcloser,multireadercloser,teereadcloser}.go). Definitions only.

   Sources are the scripted readers of C16/ReaderX.v (read errors carry their identity: plain,
   wrapping io.EOF / io.ErrUnexpectedEOF, bare io.ErrUnexpectedEOF; data may come with an error).
   The error a source's Close returns is not part of the model: every Close of a source in the
   three files is [_ = rc.Close()] / [l.R.Close()] with the loop going on regardless (only the
   wrapper's own Close return value, which the property does not speak of, depends on it), so
   close counts are independent of it; the harness varies it.

   [stop] in the run functions: [None] = the consumer reads until it is given an error;
   [Some k] = it stops after at most k Read calls (final error [None] if none came) - and then
   calls Close all the same. *)
From Kit Require Export C16.ReaderX.

Definition fuel_of (stop : option nat) (dflt : nat) : nat :=
  match stop with Some k => k | None => dflt end.

(* ------------------------------------------------------------------------------------- *)
(* LimitReadCloser                                                                         *)

Record lim := mkLim { lN : Z; lclosed : bool; lsrc : reader }.

Definition lim_new (n : Z) (s : list rd) : lim :=
  {| lN := n; lclosed := false; lsrc := {| script := s; closes := 0 |} |}.

Definition max_int64 : Z := 9223372036854775807.

(* func (l *limitReadCloser) Read(p []byte).
   Original: [if err == nil { err = ErrStreamTooLarge }]; Fixed: the error is always
   ErrStreamTooLarge once the limit is exceeded.
   Original: [if int64(len(p)) > (l.N + 1) { p = p[0:(l.N + 1)] }] in int64 arithmetic: for
   l.N = MaxInt64 the sum wraps to MinInt64, the test holds for every p and the slice
   expression panics (slice bounds out of range); Fixed: [int64(len(p))-1 > l.N], which cannot
   overflow and is the comparison below over Z. *)
Definition limit_read (v : variant) (want : nat) (l : lim) : list N * err * lim :=
  if (lN l <? 0)%Z then ([], ETooLarge, l)
  else match want with
  | O => ([], ENil, l)
  | _ =>
    if lclosed l then ([], EEOF, l)
    else if (match v with Original => (lN l =? max_int64)%Z | Fixed => false end)
    then ([], EPanic, l)
    else
      let want' := if (Z.of_nat want >? lN l + 1)%Z then Z.to_nat (lN l + 1) else want in
      let '(bs, e, src') := read want' (lsrc l) in
      let n' := (lN l - Z.of_nat (length bs))%Z in
      if (n' <? 0)%Z then
        let bs' := if (n' =? -1)%Z then removelast bs else bs in
        let e' := match v with
                  | Original => match e with ENil => ETooLarge | _ => e end
                  | Fixed => ETooLarge
                  end in
        (bs', e', {| lN := n'; lclosed := true; lsrc := close_reader src' |})
      else (bs, e, {| lN := n'; lclosed := lclosed l; lsrc := src' |})
  end.

Definition limit_close (l : lim) : lim :=
  if lclosed l then l
  else {| lN := lN l; lclosed := true; lsrc := close_reader (lsrc l) |}.

(* Fuel that always suffices for a read loop over a limit reader. *)
Definition limit_fuel (l : lim) : nat := S (S (script_fuel (script (lsrc l)))).

(* Consume to the end, then call Close [k] times (a caller may Close again, e.g. a deferred Close
   after an explicit one): (bytes, final error, closes before the first Close, closes after the
   last).  [stop]: see the head of the file.  The consumer [c] is the sequence of buffer sizes of the Read calls that reach the
   wrapper: limitReadCloser has no method besides Read and Close ([implements] below), so
   io.ReadAll, io.Copy, io.CopyBuffer, io.CopyN and a destination's ReadFrom all reduce to Read
   loops, each with its own sizes. *)
Definition limit_run (v : variant) (n : Z) (s : list rd) (c : consumer) (stop : option nat)
           (k : nat) : list N * option err * nat * nat :=
  let l0 := lim_new n s in
  let '(bs, e, l1) := consume (limit_read v) (fuel_of stop (limit_fuel l0)) c l0 [] in
  (bs, e, closes (lsrc l1), closes (lsrc (Nat.iter k limit_close l1))).

(* ------------------------------------------------------------------------------------- *)
(* MultiReaderCloser                                                                       *)

Record src := mkSrc { sreader : reader; closable : bool }.

(* [gone] = sources already dropped from mr.readers (kept to count their closes). *)
Record multi := mkMulti { mreaders : list src; mgone : list src }.

Definition src_new (sc : list rd * bool) : src :=
  {| sreader := {| script := fst sc; closes := 0 |}; closable := snd sc |}.

Definition multi_new (srcs : list (list rd * bool)) : multi :=
  {| mreaders := map src_new srcs; mgone := [] |}.

Definition close_src (s : src) : src :=
  if closable s then {| sreader := close_reader (sreader s); closable := true |} else s.

(* func (mr *MultiReaderCloser) Read(p []byte): the for loop over mr.readers.  [err == io.EOF]
   is a comparison with the VALUE: a failure that wraps io.EOF ([EFail FWrapEOF]) is an error like
   any other and stays at the head of the list.  The one error identity the method knows is
   http.ErrBodyReadAfterClose (checked with errors.Is, so also when wrapped). *)
Fixpoint multi_read_loop (want : nat) (rs : list src) (gone : list src) : list N * err * multi :=
  match rs with
  | [] => ([], EEOF, {| mreaders := []; mgone := gone |})
  | r :: rest =>
      let '(bs, e, rd') := read want (sreader r) in
      let r' := {| sreader := rd'; closable := closable r |} in
      (* the head source is done and leaves the list as [r'']: go on with the next one if it
         delivered nothing on this call, else return its bytes (EOF only if it was the last) *)
      let done := fun r'' : src =>
        match bs with
        | [] => multi_read_loop want rest (gone ++ [r''])
        | _ => (bs, match rest with [] => EEOF | _ => ENil end,
                {| mreaders := rest; mgone := gone ++ [r''] |})
        end in
      let keep := (bs, e, {| mreaders := r' :: rest; mgone := gone |}) in
      match e with
      | EEOF => done (close_src r')
      | EFail k =>
          (* [errors.Is(err, http.ErrBodyReadAfterClose)]: "we consider that the same as io.EOF" -
             the source is dropped, NOT closed (it is closed already, the error says) *)
          if is_body_closed k then done r' else keep
      | _ => keep
      end
  end.

Definition multi_read (want : nat) (m : multi) : list N * err * multi :=
  multi_read_loop want (mreaders m) (mgone m).

(* io.CopyBuffer(w, r, buf) with a writer that never fails: all the data of the source up to EOF
   (nil error, here EEOF = "clean") or the source's error.  [c] = the buffer sizes of the Read
   calls on the source: the 32 KiB buffer of WriteTo ([copy_consumer]) when the destination is a
   plain Writer; whatever the destination's ReadFrom chooses when it is an io.ReaderFrom
   (io.CopyBuffer hands the source to it). *)
Definition copy_buf : nat := Z.to_nat 32768.
Definition copy_consumer : consumer := {| csizes := []; cdflt := copy_buf |}.

Definition copy_all (c : consumer) (r : reader) : list N * option err * reader :=
  consume read (S (script_fuel (script r))) c r [].

(* func (mr *MultiReaderCloser) writeToWithBuffer.
   Original: never closes a source; Fixed: closes each fully copied source that is a Closer. *)
Fixpoint multi_write_to_loop (v : variant) (c : consumer) (rs : list src) (gone : list src)
         (acc : list N) : list N * err * multi :=
  match rs with
  | [] => (acc, EEOF, {| mreaders := []; mgone := gone |})
  | r :: rest =>
      let '(bs, e, rd') := copy_all c (sreader r) in
      let r' := {| sreader := rd'; closable := closable r |} in
      match e with
      | Some EEOF =>
          let r'' := match v with Original => r' | Fixed => close_src r' end in
          multi_write_to_loop v c rest (gone ++ [r'']) (acc ++ bs)
      | Some e' => (acc ++ bs, e', {| mreaders := r' :: rest; mgone := gone |})
      | None => (acc ++ bs, EFail FPlain, {| mreaders := r' :: rest; mgone := gone |})
      end
  end.

Definition multi_write_to (v : variant) (c : consumer) (m : multi) : list N * err * multi :=
  multi_write_to_loop v c (mreaders m) (mgone m) [].

Definition multi_close (m : multi) : multi :=
  {| mreaders := []; mgone := mgone m ++ map close_src (mreaders m) |}.

Definition multi_fuel (m : multi) : nat :=
  S (fold_right (fun s acc => script_fuel (script (sreader s)) + acc) 0 (mreaders m)).

Definition close_counts (m : multi) : list nat :=
  map (fun s => closes (sreader s)) (mgone m ++ mreaders m).

(* mode: [ViaRead c] = Read loop with consumer c; [ViaWriteTo c] = one WriteTo call (io.Copy,
   io.CopyBuffer), every source copied with the buffer sizes [c].  Then [k] calls of Close. *)
Inductive mmode := ViaRead (c : consumer) | ViaWriteTo (c : consumer).

Definition multi_run (v : variant) (srcs : list (list rd * bool)) (mode : mmode)
           (stop : option nat) (k : nat) : list N * option err * list nat * list nat :=
  let m0 := multi_new srcs in
  let '(bs, e, m1) :=
    match mode with
    | ViaRead c => consume multi_read (fuel_of stop (multi_fuel m0)) c m0 []
    | ViaWriteTo c => let '(bs, e, m1) := multi_write_to v c m0 in (bs, Some e, m1)
    end in
  (bs, e, close_counts m1, close_counts (Nat.iter k multi_close m1)).

(* ------------------------------------------------------------------------------------- *)
(* MultiReaderCloser under ANY use: every sequence of Read and WriteTo calls, with a destination
   that may fail                                                                           *)

(* io.CopyBuffer(dst, r, buf) when dst accepts [b] more Write calls ([None] = never fails):
   "nr > 0 -> Write FIRST, then look at the read error"; a refused Write ends the copy with the
   writer's error and the chunk just read is lost.  Returns what was written, how the copy ended,
   the source and the destination's remaining budget. *)
Fixpoint copy_to (fuel : nat) (c : consumer) (b : option nat) (r : reader) (acc : list N)
  : list N * option err * reader * option nat :=
  match fuel with
  | O => (acc, None, r, b)
  | S fuel' =>
      let '(want, c') := next_size c in
      let '(bs, e, r') := read want r in
      match bs, b with
      | _ :: _, Some O => (acc, Some EWriter, r', b)
      | _, _ =>
          let b' := match bs, b with _ :: _, Some (S k) => Some k | _, _ => b end in
          match e with
          | ENil => copy_to fuel' c' b' r' (acc ++ bs)
          | _ => (acc ++ bs, Some e, r', b')
          end
      end
  end.

(* writeToWithBuffer on the current tree with such a destination: a source whose copy ends with
   an error - its own or the destination's - stays at the head of the list with its successors
   ("permit resume / retry after error"). *)
Fixpoint multi_wt_loop (c : consumer) (b : option nat) (rs gone : list src) (acc : list N)
  : list N * err * multi :=
  match rs with
  | [] => (acc, EEOF, {| mreaders := []; mgone := gone |})
  | r :: rest =>
      let '(bs, e, rd', b') :=
        copy_to (S (script_fuel (script (sreader r)))) c b (sreader r) [] in
      let r' := {| sreader := rd'; closable := closable r |} in
      match e with
      | Some EEOF => multi_wt_loop c b' rest (gone ++ [close_src r']) (acc ++ bs)
      | Some e' => (acc ++ bs, e', {| mreaders := r' :: rest; mgone := gone |})
      | None => (acc ++ bs, EFail FPlain, {| mreaders := r' :: rest; mgone := gone |})
      end
  end.

(* One call on the wrapper. *)
Inductive mop :=
| ORead (want : nat)                          (* Read(p), len(p) = want (0 allowed) *)
| OWriteTo (c : consumer) (b : option nat).   (* WriteTo(dst): copies read with sizes c, dst
                                                 accepts b more writes *)

Definition multi_op (op : mop) (m : multi) : list N * err * multi :=
  match op with
  | ORead want => multi_read want m
  | OWriteTo c b => multi_wt_loop c b (mreaders m) (mgone m) []
  end.

(* Any sequence of calls, whatever they return (the caller may go on after an error); what each
   call delivered / reported, and the final state. *)
Fixpoint multi_ops (ops : list mop) (m : multi) : list (list N * err) * multi :=
  match ops with
  | [] => ([], m)
  | op :: t =>
      let '(bs, e, m') := multi_op op m in
      let '(outs, m'') := multi_ops t m' in
      ((bs, e) :: outs, m'')
  end.

(* ... then [k] calls of Close: (per-call results, closes before Close, closes after). *)
Definition multi_use (srcs : list (list rd * bool)) (ops : list mop) (k : nat)
  : list (list N * err) * list nat * list nat :=
  let '(outs, m1) := multi_ops ops (multi_new srcs) in
  (outs, close_counts m1, close_counts (Nat.iter k multi_close m1)).

(* ------------------------------------------------------------------------------------- *)
(* TeeReadCloser                                                                           *)

(* The writer accepts [wbudget] more writes ([None] = never fails); a failing write accepts no
   byte and returns an error. *)
Record writer := mkWriter { wbuf : list N; wbudget : option nat; wcloses : nat }.

Definition write (bs : list N) (w : writer) : bool * writer :=
  match wbudget w with
  | None => (true, {| wbuf := wbuf w ++ bs; wbudget := None; wcloses := wcloses w |})
  | Some O => (false, w)
  | Some (S k) => (true, {| wbuf := wbuf w ++ bs; wbudget := Some k; wcloses := wcloses w |})
  end.

Record tee := mkTee { tr : reader; tw : writer; topen : bool; teof : bool }.

Definition tee_new (s : list rd) (budget : option nat) : tee :=
  {| tr := {| script := s; closes := 0 |};
     tw := {| wbuf := []; wbudget := budget; wcloses := 0 |};
     topen := true; teof := false |}.

(* func (t *TeeReadCloser) Read(p []byte).  [errors.Is(err, io.EOF)] also holds for a failure
   that wraps io.EOF: it is returned as it is, and remembered as the end of the stream. *)
Definition tee_read (want : nat) (t : tee) : list N * err * tee :=
  if negb (topen t) then ([], EClosedPipe, t)
  else if teof t then ([], EEOF, t)
  else
    let '(bs, e, r') := read want (tr t) in
    let eof' := match e with
                | EEOF => true
                | EFail k => is_eof_kind k || teof t
                | _ => teof t
                end in
    match bs with
    | [] => ([], e, {| tr := r'; tw := tw t; topen := true; teof := eof' |})
    | _ =>
        let '(ok, w') := write bs (tw t) in
        if ok then (bs, e, {| tr := r'; tw := w'; topen := true; teof := eof' |})
        else ([], EWriter, {| tr := r'; tw := w'; topen := true; teof := eof' |})
    end.

(* func (t *TeeReadCloser) Close(): closes r and w and sets both to nil ([topen = false]); a
   second Close finds nil interfaces, whose io.Closer assertions fail, and closes nothing. *)
Definition tee_close (t : tee) : tee :=
  if topen t then
    {| tr := close_reader (tr t);
       tw := {| wbuf := wbuf (tw t); wbudget := wbudget (tw t); wcloses := S (wcloses (tw t)) |};
       topen := false; teof := teof t |}
  else t.

Definition tee_fuel (t : tee) : nat := S (S (script_fuel (script (tr t)))).

(* (bytes delivered, final error, bytes written, source closes, writer closes) after [k] calls
   of Close *)
Definition tee_run (s : list rd) (budget : option nat) (c : consumer) (stop : option nat)
           (k : nat) : list N * option err * list N * nat * nat :=
  let t0 := tee_new s budget in
  let '(bs, e, t1) := consume tee_read (fuel_of stop (tee_fuel t0)) c t0 [] in
  let t2 := Nat.iter k tee_close t1 in
  (bs, e, wbuf (tw t2), closes (tr t2), wcloses (tw t2)).

(* ------------------------------------------------------------------------------------- *)
(* Method sets                                                                             *)

(* Which of the io package's optional interfaces each wrapper type implements.  io.Copy and
   friends pick their path by these (WriterTo on the source first, then ReaderFrom on the
   destination), so the models above are models of the whole type only as long as this table is
   the method set of the Go type: the harness probes every entry by interface assertion. *)
Inductive wrapper := WLimit | WMulti | WTee.

Inductive iface :=
| IWriterTo | IReaderFrom | IByteReader | IByteScanner | IRuneReader | IRuneScanner
| ISeeker | IReaderAt | IWriter | IStringWriter | IByteWriter | IWriterAt.

Definition implements (w : wrapper) (i : iface) : bool :=
  match w, i with
  | WMulti, IWriterTo => true
  | _, _ => false
  end.
