(* C16 — scripted io.Reader model of this property: Lib/Reader.v's script language (same names,
   same semantics on the common part) extended with what C16's sources need and Lib/Reader.v
   cannot express:
     * the IDENTITY of a read error: a failure is plain, or WRAPS io.EOF / io.ErrUnexpectedEOF
       (fmt.Errorf("...: %w", io.EOF): errors.Is(err, io.EOF) holds, err == io.EOF does not), or
       is the bare io.ErrUnexpectedEOF value;
     * data delivered TOGETHER with a non-EOF error ([DataFail]).
   Definitions first, then the generic facts (one [read]; loop rules for [consume]).
   This file does not use Lib/Reader.v or Lib/ReaderFacts.v. *)
From Kit Require Export Lib.Base.

(* What a failing Read returns besides being non-nil and not the io.EOF value. *)
Inductive fkind :=
| FPlain          (* errors.New(...) *)
| FWrapEOF        (* fmt.Errorf("...: %w", io.EOF) *)
| FWrapUEOF       (* fmt.Errorf("...: %w", io.ErrUnexpectedEOF) *)
| FUnexpEOF       (* io.ErrUnexpectedEOF itself *)
(* the well-known sentinels a source reports when it is torn down under the reader *)
| FClosedPipe     (* io.ErrClosedPipe *)
| FWrapClosedPipe (* fmt.Errorf("...: %w", io.ErrClosedPipe) *)
| FOsClosed       (* os.ErrClosed *)
| FWrapOsClosed   (* fmt.Errorf("...: %w", os.ErrClosed), e.g. an *fs.PathError *)
| FNetClosed      (* net.ErrClosed *)
| FNoProgress     (* io.ErrNoProgress *)
| FCtxCanceled    (* context.Canceled *)
| FCtxDeadline    (* context.DeadlineExceeded *)
| FBodyClosed     (* http.ErrBodyReadAfterClose *)
| FWrapBodyClosed. (* fmt.Errorf("...: %w", http.ErrBodyReadAfterClose) *)

Definition fkind_code (k : fkind) : N :=
  match k with
  | FPlain => 0 | FWrapEOF => 1 | FWrapUEOF => 2 | FUnexpEOF => 3 | FClosedPipe => 4
  | FWrapClosedPipe => 5 | FOsClosed => 6 | FWrapOsClosed => 7 | FNetClosed => 8
  | FNoProgress => 9 | FCtxCanceled => 10 | FCtxDeadline => 11 | FBodyClosed => 12
  | FWrapBodyClosed => 13
  end%N.

Definition fkind_eqb (a b : fkind) : bool := (fkind_code a =? fkind_code b)%N.

(* errors.Is(err, http.ErrBodyReadAfterClose) for a failure of kind k *)
Definition is_body_closed (k : fkind) : bool :=
  match k with FBodyClosed | FWrapBodyClosed => true | _ => false end.

(* errors.Is(err, io.EOF) for a failure of kind k *)
Definition is_eof_kind (k : fkind) : bool :=
  match k with FWrapEOF => true | _ => false end.

(* One script item = what the next call(s) to Read can return.
   [Data bs]       : bytes available without EOF; a read of [want] bytes returns min(want,|bs|)
                     of them with a nil error, the remainder stays at the head of the script;
   [Zero]          : one read returns (0, nil);
   [DataEOF bs]    : like [Data bs] but the read that returns the last byte returns io.EOF with it;
   [Fail k]        : the read returns (0, error of kind k), and so does every later read;
   [DataFail bs k] : like [Data bs] but the read that returns the last byte returns the error of
                     kind k with it; every later read returns (0, that error);
   [DataErr bs k]  : a TRANSIENT failure: like [DataFail bs k], but the error is reported once
                     and later reads go on with the rest of the script (a reader that recovers:
                     a timeout, a retried connection).  For the property the stream ends at its
                     first failure all the same; what follows is only there to be seen if a
                     wrapper swallows the error and reads on. *)
Inductive rd :=
| Data (bs : list N) | Zero | DataEOF (bs : list N) | Fail (k : fkind)
| DataFail (bs : list N) (k : fkind) | DataErr (bs : list N) (k : fkind).

(* Error classes: never error texts.  [EEOF] is the io.EOF VALUE (err == io.EOF).
   [EPanic]: the call did not return - it panicked. *)
Inductive err := ENil | EEOF | EFail (k : fkind) | ETooLarge | EClosedPipe | EWriter | EPanic.

Definition err_eqb (a b : err) : bool :=
  match a, b with
  | ENil, ENil | EEOF, EEOF | ETooLarge, ETooLarge
  | EClosedPipe, EClosedPipe | EWriter, EWriter | EPanic, EPanic => true
  | EFail j, EFail k => fkind_eqb j k
  | _, _ => false
  end.

Record reader := mkReader { script : list rd; closes : nat }.

Definition with_script (r : reader) (s : list rd) : reader :=
  {| script := s; closes := closes r |}.

Definition close_reader (r : reader) : reader :=
  {| script := script r; closes := S (closes r) |}.

(* One call Read(p) with len(p) = want. *)
Definition read (want : nat) (r : reader) : list N * err * reader :=
  match want with
  | O => ([], ENil, r)
  | _ =>
    match script r with
    | [] => ([], EEOF, r)
    | Zero :: t => ([], ENil, with_script r t)
    | Fail k :: _ => ([], EFail k, r)
    | Data bs :: t =>
        if Nat.leb (length bs) want then (bs, ENil, with_script r t)
        else (firstn want bs, ENil, with_script r (Data (skipn want bs) :: t))
    | DataEOF bs :: t =>
        if Nat.leb (length bs) want then (bs, EEOF, with_script r [])
        else (firstn want bs, ENil, with_script r (DataEOF (skipn want bs) :: t))
    | DataFail bs k :: t =>
        if Nat.leb (length bs) want then (bs, EFail k, with_script r [Fail k])
        else (firstn want bs, ENil, with_script r (DataFail (skipn want bs) k :: t))
    | DataErr bs k :: t =>
        if Nat.leb (length bs) want then (bs, EFail k, with_script r t)
        else (firstn want bs, ENil, with_script r (DataErr (skipn want bs) k :: t))
    end
  end.

(* The bytes a script carries, up to and including those delivered with its first EOF or
   failure. *)
Fixpoint data_of (s : list rd) : list N :=
  match s with
  | [] => []
  | Data bs :: t => bs ++ data_of t
  | Zero :: t => data_of t
  | DataEOF bs :: _ => bs
  | Fail _ :: _ => []
  | DataFail bs _ :: _ | DataErr bs _ :: _ => bs
  end.

(* How the script ends: [EEOF], or [EFail k] for its first failure. *)
Fixpoint end_of (s : list rd) : err :=
  match s with
  | [] => EEOF
  | Data _ :: t | Zero :: t => end_of t
  | DataEOF _ :: _ => EEOF
  | Fail k :: _ | DataFail _ k :: _ | DataErr _ k :: _ => EFail k
  end.

(* The script ends in EOF (no failure before it). *)
Definition ends_eof (s : list rd) : bool :=
  match end_of s with EEOF => true | _ => false end.

(* A bound on the number of reads (with want > 0) needed to reach EOF/failure. *)
Fixpoint script_fuel (s : list rd) : nat :=
  match s with
  | [] => 1
  | Data bs :: t => S (length bs) + script_fuel t
  | Zero :: t => S (script_fuel t)
  | DataEOF bs :: _ => S (S (length bs))
  | Fail _ :: _ => 1
  | DataFail bs _ :: _ | DataErr bs _ :: _ => S (S (length bs))
  end.

(* A consumer: the list of buffer sizes of its successive Read calls, then [dflt] forever. *)
Record consumer := mkConsumer { csizes : list nat; cdflt : nat }.

Definition next_size (c : consumer) : nat * consumer :=
  match csizes c with
  | [] => (cdflt c, c)
  | n :: t => (n, {| csizes := t; cdflt := cdflt c |})
  end.

Definition consumer_pos (c : consumer) : Prop :=
  Forall (fun n => 0 < n) (csizes c) /\ 0 < cdflt c.

(* The generic read loop "for { n, err := r.Read(buf); out = append(out, buf[:n]...); if err != nil
   { return } }" over any stateful reader [rdf], for at most [fuel] Read calls.  Returns the bytes
   delivered, the error that ended the loop ([None] = the consumer stopped after [fuel] calls
   without having seen an error) and the final reader state. *)
Fixpoint consume {S : Type} (rdf : nat -> S -> list N * err * S)
         (fuel : nat) (c : consumer) (s : S) (acc : list N) : list N * option err * S :=
  match fuel with
  | O => (acc, None, s)
  | Datatypes.S fuel' =>
      let '(want, c') := next_size c in
      let '(bs, e, s') := rdf want s in
      match e with
      | ENil => consume rdf fuel' c' s' (acc ++ bs)
      | _ => (acc ++ bs, Some e, s')
      end
  end.

(* ===================================================================================== *)
(* Facts                                                                                   *)

Lemma script_fuel_pos s : 0 < script_fuel s.
Proof. destruct s as [|[bs| |bs|k|bs k|bs k] t]; cbn [script_fuel]; lia. Qed.

Lemma fkind_eqb_spec a b : fkind_eqb a b = true <-> a = b.
Proof.
  destruct a, b; unfold fkind_eqb; cbn [fkind_code]; split; intro H;
    try reflexivity; try discriminate H.
Qed.

Lemma err_eqb_spec a b : err_eqb a b = true <-> a = b.
Proof.
  destruct a, b; cbn [err_eqb]; try rewrite fkind_eqb_spec;
    split; intro H; try reflexivity; try discriminate H; congruence.
Qed.

Lemma ends_eof_true s : ends_eof s = true <-> end_of s = EEOF.
Proof. unfold ends_eof. destruct (end_of s); split; intro H; try reflexivity; discriminate H. Qed.

(* [firstn] of exactly the length of the left operand. *)
Lemma firstn_exact {A} (a b : list A) k : length a = k -> firstn k (a ++ b) = a.
Proof.
  intros <-. rewrite firstn_app, Nat.sub_diag, firstn_all. cbn [firstn]. apply app_nil_r.
Qed.

(* What of the stream is still to come after a read that returned [e]: nothing once it failed
   (whatever a recovering reader would deliver afterwards). *)
Definition data_after (e : err) (r' : reader) : list N :=
  match e with EFail _ => [] | _ => data_of (script r') end.

(* One call of [read] with a non-empty buffer. *)
Lemma read_step want r bs e r' :
  0 < want -> read want r = (bs, e, r') ->
  data_of (script r) = bs ++ data_after e r' /\
  closes r' = closes r /\
  length bs <= want /\
  match e with
  | ENil => end_of (script r') = end_of (script r) /\
            script_fuel (script r') < script_fuel (script r)
  | EEOF => data_of (script r') = [] /\ end_of (script r) = EEOF
  | EFail k => end_of (script r) = EFail k
  | _ => False
  end.
Proof.
  intros Hw Hr. unfold read in Hr.
  destruct want as [|w]; [lia|]. remember (S w) as want eqn:Hwant. clear Hwant w.
  unfold data_after.
  destruct (script r) as [|[d| |d|k|d k|d k] t] eqn:Hs.
  - (* [] *)
    injection Hr as <- <- <-. rewrite Hs. cbn [data_of end_of app length]. repeat split; lia.
  - (* Data d *)
    destruct (Nat.leb (length d) want) eqn:Hle.
    + apply Nat.leb_le in Hle. injection Hr as <- <- <-.
      cbn [with_script script closes data_of end_of script_fuel]. repeat split; lia.
    + apply Nat.leb_gt in Hle. injection Hr as <- <- <-.
      cbn [with_script script closes data_of end_of script_fuel].
      rewrite app_assoc, firstn_skipn, skipn_length.
      repeat split; try lia. apply firstn_le_length.
  - (* Zero *)
    injection Hr as <- <- <-.
    cbn [with_script script closes data_of end_of script_fuel app length]. repeat split; lia.
  - (* DataEOF d *)
    destruct (Nat.leb (length d) want) eqn:Hle.
    + apply Nat.leb_le in Hle. injection Hr as <- <- <-.
      cbn [with_script script closes data_of end_of]. rewrite app_nil_r. repeat split; lia.
    + apply Nat.leb_gt in Hle. injection Hr as <- <- <-.
      cbn [with_script script closes data_of end_of script_fuel].
      rewrite firstn_skipn, skipn_length.
      repeat split; try lia. apply firstn_le_length.
  - (* Fail k *)
    injection Hr as <- <- <-. try rewrite Hs. cbn [data_of end_of app length].
    repeat split; try lia; reflexivity.
  - (* DataFail d k *)
    destruct (Nat.leb (length d) want) eqn:Hle.
    + apply Nat.leb_le in Hle. injection Hr as <- <- <-.
      cbn [with_script script closes data_of end_of]. rewrite app_nil_r.
      repeat split; try lia; reflexivity.
    + apply Nat.leb_gt in Hle. injection Hr as <- <- <-.
      cbn [with_script script closes data_of end_of script_fuel].
      rewrite firstn_skipn, skipn_length.
      repeat split; try lia. apply firstn_le_length.
  - (* DataErr d k *)
    destruct (Nat.leb (length d) want) eqn:Hle.
    + apply Nat.leb_le in Hle. injection Hr as <- <- <-.
      cbn [with_script script closes data_of end_of]. rewrite app_nil_r.
      repeat split; try lia; reflexivity.
    + apply Nat.leb_gt in Hle. injection Hr as <- <- <-.
      cbn [with_script script closes data_of end_of script_fuel].
      rewrite firstn_skipn, skipn_length.
      repeat split; try lia. apply firstn_le_length.
Qed.

Lemma next_size_pos c want c' :
  consumer_pos c -> next_size c = (want, c') -> 0 < want /\ consumer_pos c'.
Proof.
  intros [Hs Hd] Hn. unfold next_size in Hn.
  destruct (csizes c) as [|n t] eqn:Hc.
  - injection Hn as <- <-. split; [exact Hd|]. split; [rewrite Hc; constructor | exact Hd].
  - injection Hn as <- <-. inversion Hs as [|x l Hx Hl]; subst.
    split; [exact Hx|]. split; cbn [csizes cdflt]; assumption.
Qed.

(* Loop rule for [consume] when the consumer may stop at any time: an invariant on (state,
   bytes so far) kept by every nil-error read, and a postcondition established by every non-nil
   read.  Whatever the number of Read calls, the loop ended in the postcondition or the
   invariant still holds. *)
Lemma consume_upto_rule {St : Type} (rdf : nat -> St -> list N * err * St)
      (Inv : St -> list N -> Prop) (Post : list N -> err -> St -> Prop) :
  (forall want s acc bs e s', 0 < want -> Inv s acc -> rdf want s = (bs, e, s') ->
     match e with
     | ENil => Inv s' (acc ++ bs)
     | _ => Post (acc ++ bs) e s'
     end) ->
  forall fuel c s acc, consumer_pos c -> Inv s acc ->
  exists out eo s', consume rdf fuel c s acc = (out, eo, s') /\
    match eo with Some e => Post out e s' | None => Inv s' out end.
Proof.
  intros Hstep. induction fuel as [|fuel IH]; intros c s acc Hc Hinv.
  - cbn [consume]. exists acc, None, s. split; [reflexivity | exact Hinv].
  - cbn [consume].
    destruct (next_size c) as [want c'] eqn:Hn.
    destruct (next_size_pos _ _ _ Hc Hn) as [Hw Hc'].
    destruct (rdf want s) as [[bs e] s'] eqn:Hr.
    specialize (Hstep want s acc bs e s' Hw Hinv Hr).
    destruct e;
      try (exists (acc ++ bs); eexists; exists s'; split; [reflexivity | exact Hstep]).
    apply IH; [exact Hc' | exact Hstep].
Qed.

(* ... and when it reads to the end: with a measure that every nil-error read decreases and
   enough fuel, the loop ends in the postcondition. *)
Lemma consume_rule {St : Type} (rdf : nat -> St -> list N * err * St)
      (Inv : St -> list N -> Prop) (mu : St -> nat) (Post : list N -> err -> St -> Prop) :
  (forall want s acc bs e s', 0 < want -> Inv s acc -> rdf want s = (bs, e, s') ->
     match e with
     | ENil => Inv s' (acc ++ bs) /\ mu s' < mu s
     | _ => Post (acc ++ bs) e s'
     end) ->
  forall fuel c s acc, consumer_pos c -> Inv s acc -> mu s < fuel ->
  exists out e s', consume rdf fuel c s acc = (out, Some e, s') /\ Post out e s'.
Proof.
  intros Hstep. induction fuel as [|fuel IH]; intros c s acc Hc Hinv Hmu; [lia|].
  cbn [consume].
  destruct (next_size c) as [want c'] eqn:Hn.
  destruct (next_size_pos _ _ _ Hc Hn) as [Hw Hc'].
  destruct (rdf want s) as [[bs e] s'] eqn:Hr.
  specialize (Hstep want s acc bs e s' Hw Hinv Hr).
  destruct e;
    try (exists (acc ++ bs); eexists; exists s'; split; [reflexivity | exact Hstep]).
  destruct Hstep as [Hinv' Hmu']. apply IH; [exact Hc' | exact Hinv' | lia].
Qed.
