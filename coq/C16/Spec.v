(* C16 — what the property demands of the three stream wrappers, written from the property text
   (not from the code), over the script view of the sources (C16/ReaderX.v).

   A source "ends" the way its script says ([end_of]): with io.EOF, or with its first failure,
   WHOSE IDENTITY MATTERS: "yields the source(s) unchanged" includes handing the consumer the
   source's own error - an error that merely wraps io.EOF is a failure, not the end of the
   stream, and a stream cut by it must not be mistaken for a complete one. *)
From Kit Require Export C16.ReaderX.

(* LimitReadCloser(src, n), consumed to its end - by whatever path: Read loop, io.ReadAll,
   io.Copy, ... - and then closed (Close called one or more times).
   [out] = bytes delivered, [e] = the error that ended the stream, [closes_before] = number of
   times the source had been closed when the stream ended (before the caller's Close),
   [closes_after] = number of times it was closed once the last Close has returned.
   "fails with ErrStreamTooLarge ..., having closed the source": an over-long source has been closed
   by the limiter itself when the error is delivered (a negative limit is refused before the
   source is touched; Close then closes it). *)
Definition limit_spec (n : Z) (s : list rd) (out : list N) (e : err)
           (closes_before closes_after : nat) : Prop :=
  closes_after = 1 /\
  let d := data_of s in
  if (Z.of_nat (length d) >? n)%Z
  then out = firstn (Z.to_nat n) d /\ e = ETooLarge /\ ((0 <= n)%Z -> closes_before = 1)
  else out = d /\ e = end_of s.

Definition limit_oracle (n : Z) (s : list rd) (out : list N) (e : err)
           (closes_before closes_after : nat) : bool :=
  Nat.eqb closes_after 1 &&
  let d := data_of s in
  if (Z.of_nat (length d) >? n)%Z
  then eqb_listN out (firstn (Z.to_nat n) d) && err_eqb e ETooLarge &&
       ((n <? 0)%Z || Nat.eqb closes_before 1)
  else eqb_listN out d && err_eqb e (end_of s).

(* ... when the consumer stopped reading before it was given any error, and then called Close:
   what it got is a prefix of the source of at most n bytes, and the source is closed once. *)
Definition limit_stop_spec (n : Z) (s : list rd) (out : list N) (closes_after : nat) : Prop :=
  closes_after = 1 /\ (exists rest, data_of s = out ++ rest) /\
  (Z.of_nat (length out) <= Z.max 0 n)%Z.

Definition limit_stop_oracle (n : Z) (s : list rd) (out : list N) (closes_after : nat) : bool :=
  Nat.eqb closes_after 1 && prefixb out (data_of s) && (Z.of_nat (length out) <=? Z.max 0 n)%Z.

(* MultiReaderCloser(srcs...): expected bytes and final error: the concatenation up to and
   including the first source that does not end with io.EOF, and that source's own error. *)
Fixpoint multi_expect (srcs : list (list rd * bool)) : list N * err :=
  match srcs with
  | [] => ([], EEOF)
  | sc :: t =>
      let s := fst sc in
      match end_of s with
      | EEOF => (data_of s ++ fst (multi_expect t), snd (multi_expect t))
      | e => (data_of s, e)
      end
  end.

(* One error identity is outside what the property speaks of: a source that reports
   http.ErrBodyReadAfterClose.  It is neither an end nor a failure OF THE STREAM but the report
   that somebody closed the body underneath the reader; the code documents its own treatment on
   the Read path ("we consider that the same as io.EOF", the source is not closed again) while
   WriteTo hands the error to the caller.  The spec takes no side: it speaks of lists of sources
   none of which ends that way ([multi_dom]); outside it only the model is compared. *)
Definition body_closed_end (s : list rd) : bool :=
  match end_of s with EFail k => is_body_closed k | _ => false end.

Definition multi_dom (srcs : list (list rd * bool)) : bool :=
  forallb (fun sc : list rd * bool => negb (body_closed_end (fst sc))) srcs.

(* No read error anywhere in a script - not only its first one: a reader that recovers may report
   more than one - is http.ErrBodyReadAfterClose. *)
Definition clean_item (x : rd) : bool :=
  match x with
  | Fail k | DataFail _ k | DataErr _ k => negb (is_body_closed k)
  | _ => true
  end.

Definition clean (s : list rd) : bool := forallb clean_item s.

Definition multi_clean (srcs : list (list rd * bool)) : bool :=
  forallb (fun sc : list rd * bool => clean (fst sc)) srcs.

Definition expected_closes (srcs : list (list rd * bool)) : list nat :=
  map (fun sc : list rd * bool => if snd sc then 1 else 0) srcs.

(* after the stream was consumed (through Read or WriteTo) and Close was called *)
Definition multi_spec (srcs : list (list rd * bool)) (out : list N) (e : err)
           (closes_after : list nat) : Prop :=
  out = fst (multi_expect srcs) /\ e = snd (multi_expect srcs) /\
  closes_after = expected_closes srcs.

Definition eqb_listnat (a b : list nat) : bool :=
  Nat.eqb (length a) (length b) && forallb (fun p => Nat.eqb (fst p) (snd p)) (combine a b).

Definition multi_oracle (srcs : list (list rd * bool)) (out : list N) (e : err)
           (closes_after : list nat) : bool :=
  negb (multi_dom srcs) ||
  eqb_listN out (fst (multi_expect srcs)) && err_eqb e (snd (multi_expect srcs)) &&
  eqb_listnat closes_after (expected_closes srcs).

(* ... under ANY use of the wrapper - any sequence of Read and WriteTo calls, going on after
   errors or not, with destinations that fail - followed by Close: every closable source has been
   closed exactly once.  (Sources none of whose read errors is http.ErrBodyReadAfterClose.) *)
Definition multi_use_spec (srcs : list (list rd * bool)) (closes_after : list nat) : Prop :=
  closes_after = expected_closes srcs.

Definition multi_use_oracle (srcs : list (list rd * bool)) (closes_after : list nat) : bool :=
  negb (multi_clean srcs) || eqb_listnat closes_after (expected_closes srcs).

(* what the calls delivered up to and including the first one that reported something *)
Fixpoint upto_err (outs : list (list N * err)) : list N * option err :=
  match outs with
  | [] => ([], None)
  | (bs, ENil) :: t => let '(b, e) := upto_err t in (bs ++ b, e)
  | (bs, e) :: _ => (bs, Some e)
  end.

(* ... for any mix of Read and WriteTo calls (non-empty buffers, destinations that do not fail):
   the stream, then its expected end, at the first call that reports anything but nil *)
Definition multi_stream_spec (srcs : list (list rd * bool)) (outs : list (list N * err)) : Prop :=
  match upto_err outs with
  | (o, Some e) => o = fst (multi_expect srcs) /\ e = snd (multi_expect srcs)
  | (o, None) => exists rest, fst (multi_expect srcs) = o ++ rest
  end.

Definition multi_stream_oracle (srcs : list (list rd * bool)) (outs : list (list N * err)) : bool :=
  match upto_err outs with
  | (o, Some e) => eqb_listN o (fst (multi_expect srcs)) && err_eqb e (snd (multi_expect srcs))
  | (o, None) => prefixb o (fst (multi_expect srcs))
  end.

(* ... when the consumer stopped early and then called Close: a prefix of the stream, and every
   closable source - finished or not - closed exactly once. *)
Definition multi_stop_spec (srcs : list (list rd * bool)) (out : list N)
           (closes_after : list nat) : Prop :=
  (exists rest, fst (multi_expect srcs) = out ++ rest) /\ closes_after = expected_closes srcs.

Definition multi_stop_oracle (srcs : list (list rd * bool)) (out : list N)
           (closes_after : list nat) : bool :=
  negb (multi_dom srcs) ||
  prefixb out (fst (multi_expect srcs)) && eqb_listnat closes_after (expected_closes srcs).

(* TeeReadCloser(src, w): [budget] = number of writes the writer accepts before failing
   ([None] = never fails). *)
Definition tee_spec (s : list rd) (budget : option nat) (out : list N) (e : err)
           (written : list N) (src_closes w_closes : nat) : Prop :=
  written = out /\ src_closes = 1 /\ w_closes = 1 /\
  (exists rest, data_of s = out ++ rest) /\
  match e with
  | EWriter => budget <> None
  | _ => out = data_of s /\ e = end_of s
  end.

Definition tee_oracle (s : list rd) (budget : option nat) (out : list N) (e : err)
           (written : list N) (src_closes w_closes : nat) : bool :=
  eqb_listN written out && Nat.eqb src_closes 1 && Nat.eqb w_closes 1 &&
  prefixb out (data_of s) &&
  match e with
  | EWriter => match budget with None => false | Some _ => true end
  | _ => eqb_listN out (data_of s) && err_eqb e (end_of s)
  end.

(* ... when the consumer stopped early and then called Close *)
Definition tee_stop_spec (s : list rd) (out written : list N) (src_closes w_closes : nat) : Prop :=
  written = out /\ src_closes = 1 /\ w_closes = 1 /\ exists rest, data_of s = out ++ rest.

Definition tee_stop_oracle (s : list rd) (out written : list N) (src_closes w_closes : nat)
  : bool :=
  eqb_listN written out && Nat.eqb src_closes 1 && Nat.eqb w_closes 1 && prefixb out (data_of s).
