(* C02 — on the concrete Gallina primitives of coq/Crypto ([concrete], C01/Concrete.v; the
   premises [crypto_ok] are proved for them in C01/ConcreteOk2.v):
   * T4: the refutations [no_silent_truncation_refuted] (the header alone of a valid non-empty
     document decrypts cleanly to nothing, both variants) and [zero_key_forgery_refuted]
     (Original accepts a document made under the all-zero file key when unwrap FAILS);
   * an executable checker for [forge_free], proved sound;
   * non-vacuity: the premises of the theorems of C02/Proofs.v hold on concrete tampered
     documents (S = 2, three segments), with the conclusions computed. *)
From Kit Require Import C02.Defs C02.Proofs_Lists C02.Proofs C01.Concrete C01.ConcreteOk2.
From Coq Require Import String.
Local Open Scope string_scope.
Local Open Scope list_scope.

(* ------------------------------------------------------------------------------------- *)
(* executable form of [forge_free] *)

Definition triple_eqb (a b : N * bool * list N) : bool :=
  (fst (fst a) =? fst (fst b))%N && Bool.eqb (snd (fst a)) (snd (fst b)) && eqb_listN (snd a) (snd b).

Lemma triple_eqb_eq a b : triple_eqb a b = true -> a = b.
Proof.
  destruct a as [[i l] c], b as [[j k] d]. unfold triple_eqb. cbn [fst snd]. intros Hb.
  apply andb_true_iff in Hb as [Hb Hc]. apply andb_true_iff in Hb as [Hi Hl].
  apply N.eqb_eq in Hi. apply Bool.eqb_prop in Hl. apply eqb_listN_spec in Hc. congruence.
Qed.

Section Checker.
  Variable C : crypto.
  Variable S : nat.

  Definition forge_free_b (m : manifest) (fk p payload' : list N) : bool :=
    forallb (fun t =>
               match open C (m_cph m) (spec_payload_key C fk (m_np m))
                          (spec_nonce (m_np m) (fst (fst t)) (snd (fst t))) (snd t) with
               | None => true
               | Some _ => existsb (triple_eqb t) (sealed_set C S m fk p)
               end) (tried S payload').

  Lemma forge_free_b_sound m fk p payload' :
    forge_free_b m fk p payload' = true -> forge_free C S m fk p payload'.
  Proof.
    unfold forge_free_b, forge_free. intros Hb i last c x Hin Hop.
    rewrite forallb_forall in Hb. specialize (Hb _ Hin). cbn [fst snd] in Hb.
    rewrite Hop in Hb. apply existsb_exists in Hb as (t & Ht & Heq).
    apply triple_eqb_eq in Heq. subst t. exact Ht.
  Qed.
End Checker.

(* ------------------------------------------------------------------------------------- *)
(* the running example: 5 bytes, 2-byte segments: three segments of 18, 18 and 17 bytes after
   a header of 174 bytes *)

Definition ex_fk : list N := List.repeat 7%N 32.
Definition ex_m : manifest :=
  mkManifest (str "mykey") A256KW (List.repeat 9%N 40) ChaChaPoly [1; 2; 3; 4; 5; 6; 7]%N.
Definition ex_p : list N := [1; 2; 3; 4; 5]%N.
Definition ex_unwrap (w a k : list N) : list N * bool := (ex_fk, false).
Definition ex_d : list N := Eval vm_compute in encrypt_doc concrete 2 ex_m ex_fk ex_p.
Definition ex_hdr : list N :=
  Eval vm_compute in spec_header concrete ex_fk (manifest_json concrete ex_m).

Example ex_layout :
  List.length ex_hdr = 174 /\ List.length ex_d = 227 /\
  map (@List.length N) (spec_segments concrete 2 ex_m ex_fk ex_p) = [18; 18; 17].
Proof. vm_compute. repeat split. Qed.

(* ------------------------------------------------------------------------------------- *)
(* T4 *)

(* "a clean end means the whole plaintext" is FALSE of the code (either variant): cut a valid
   non-empty document right after its header; Decrypt returns a stream that ends cleanly
   without a byte *)
Theorem no_silent_truncation_refuted :
  exists (p d d' : list N) (m : manifest) (fk : list N),
    p <> [] /\ d = encrypt_doc concrete 2 m fk p /\ d' <> d /\ (exists tail, d = d' ++ tail) /\
    forall v, decrypt_stream concrete v 2 400 (fun _ _ _ => (fk, false)) [] [DataEOF d']
              = DecStream [] SClean.
Proof.
  exists ex_p, ex_d, (firstn 174 ex_d), ex_m, ex_fk.
  split; [discriminate|]. split; [vm_compute; reflexivity|].
  split; [intro E; apply (f_equal (@List.length N)) in E; vm_compute in E; discriminate|].
  split; [exists (skipn 174 ex_d); symmetry; apply firstn_skipn|].
  intros v. destruct v; vm_compute; reflexivity.
Qed.

(* the document anyone can make: MACed and sealed under the all-zero file key *)
Definition ex_zero_doc : list N := Eval vm_compute in encrypt_doc concrete 2 ex_m zero_key ex_p.

(* the unwrap callback FAILS (returns an error and no key): the Original variant substitutes the
   zero key, the MAC verifies, the forged plaintext is released with a clean end; the Fixed
   variant answers ErrDecryptionSignature *)
Theorem zero_key_forgery_refuted :
  exists d' p', p' <> [] /\
    decrypt_stream concrete Original 2 400 (fun _ _ _ => ([], true)) [] [DataEOF d']
    = DecStream p' SClean /\
    decrypt_stream concrete Fixed 2 400 (fun _ _ _ => ([], true)) [] [DataEOF d']
    = DecCallError DESignature.
Proof.
  exists ex_zero_doc, ex_p. split; [discriminate|]. split; vm_compute; reflexivity.
Qed.

Example zero_key_doc_is_spec : ex_zero_doc = encrypt_doc concrete 2 ex_m zero_key ex_p.
Proof. vm_compute. reflexivity. Qed.

(* ------------------------------------------------------------------------------------- *)
(* the theorems of C02/Proofs.v without cryptographic premise *)

Definition prefix_only_concrete S H := prefix_only concrete S H concrete_ok.
Definition clean_implies_same_payload_concrete S H := clean_implies_same_payload concrete S H concrete_ok.
Definition modified_payload_rejected_concrete S H := modified_payload_rejected concrete S H concrete_ok.

(* ------------------------------------------------------------------------------------- *)
(* non-vacuity of T2 / T3 and corollaries *)

(* the "no forgery for this input" premise, decided by computation: the header read from the
   input is the original one, and [forge_free_b] holds of the payload *)
Ltac no_forgery_by_computation :=
  let man := fresh "man" in let mac := fresh "mac" in let r := fresh "r" in
  let Hrh := fresh "Hrh" in
  intros man mac r Hrh; vm_compute in Hrh; injection Hrh as <- <- <-; split;
  [ unfold hmac_forge_free; intros _; vm_compute; reflexivity
  | apply forge_free_b_sound; vm_compute; reflexivity ].

Lemma ex_key v m' : effective_key v ex_unwrap [] m' = ex_fk.
Proof. destruct v; reflexivity. Qed.

(* (a) one bit flipped in segment 1: segment 0 is released, then ErrDecryptionFailed *)
Definition ex_flip : list N :=
  Eval vm_compute in firstn 195 ex_d ++ [N.lxor (nth 195 ex_d 0%N) 1] ++ skipn 196 ex_d.
Definition ex_flip_sc : list rd := [Data (firstn 100 ex_flip); Zero; DataEOF (skipn 100 ex_flip)].

Example prefix_only_premises_satisfiable : forall v,
  manifest_bytes_ok ex_m /\ manifest_valid ex_m = true /\ List.length ex_fk = 32 /\
  (forall man' mac' r',
      read_header 400 {| script := ex_flip_sc; closes := 0 |} = Some (Some (man', mac', r')) ->
      hmac_forge_free concrete ex_m ex_fk man' mac' /\
      forge_free concrete 2 ex_m ex_fk ex_p (data_of (script r'))) /\
  (forall m', effective_key v ex_unwrap [] m' = ex_fk) /\
  ex_flip <> ex_d /\
  decrypt_stream concrete v 2 400 ex_unwrap [] ex_flip_sc = DecStream [1; 2]%N SProcFail.
Proof.
  intros v. split; [split; vm_compute; reflexivity|]. split; [vm_compute; reflexivity|].
  split; [vm_compute; reflexivity|]. split; [no_forgery_by_computation|].
  split; [apply ex_key|]. split; [vm_compute; discriminate|].
  destruct v; vm_compute; reflexivity.
Qed.

(* (b) the premises of T3 including [is_clean = true]: the untouched document delivered in
   pieces (left disjunct), and the document cut after its header (right disjunct) *)
Definition ex_ok_sc : list rd := [Data (firstn 180 ex_d); DataEOF (skipn 180 ex_d)].

Example clean_premises_satisfiable : forall v,
  (forall man' mac' r',
      read_header 400 {| script := ex_ok_sc; closes := 0 |} = Some (Some (man', mac', r')) ->
      hmac_forge_free concrete ex_m ex_fk man' mac' /\
      forge_free concrete 2 ex_m ex_fk ex_p (data_of (script r'))) /\
  is_clean (decrypt_stream concrete v 2 400 ex_unwrap [] ex_ok_sc) = true /\
  released (decrypt_stream concrete v 2 400 ex_unwrap [] ex_ok_sc) = ex_p.
Proof.
  intros v. split; [no_forgery_by_computation|]. split; destruct v; vm_compute; reflexivity.
Qed.

Example clean_premises_satisfiable_empty : forall v,
  (forall man' mac' r',
      read_header 400 {| script := [DataEOF ex_hdr]; closes := 0 |} = Some (Some (man', mac', r')) ->
      hmac_forge_free concrete ex_m ex_fk man' mac' /\
      forge_free concrete 2 ex_m ex_fk ex_p (data_of (script r'))) /\
  is_clean (decrypt_stream concrete v 2 400 ex_unwrap [] [DataEOF ex_hdr]) = true /\
  released (decrypt_stream concrete v 2 400 ex_unwrap [] [DataEOF ex_hdr]) = [].
Proof.
  intros v. split; [no_forgery_by_computation|]. split; destruct v; vm_compute; reflexivity.
Qed.

(* (c) modified_payload_rejected / short_nonfinal_rejected: segment 1 loses its last byte *)
Definition ex_segs : list (list N) := Eval vm_compute in spec_segments concrete 2 ex_m ex_fk ex_p.
Definition ex_seg (k : nat) : list N := nth k ex_segs [].
Definition ex_short_payload : list N :=
  Eval vm_compute in List.concat ([ex_seg 0] ++ removelast (ex_seg 1) :: [ex_seg 2]).

Example short_nonfinal_premises_satisfiable : forall v,
  let sc' := [DataEOF (ex_hdr ++ ex_short_payload)] in
  (forall man' mac' r',
      read_header 400 {| script := sc'; closes := 0 |} = Some (Some (man', mac', r')) ->
      hmac_forge_free concrete ex_m ex_fk man' mac' /\
      forge_free concrete 2 ex_m ex_fk ex_p (data_of (script r'))) /\
  spec_segments concrete 2 ex_m ex_fk ex_p = [ex_seg 0] ++ ex_seg 1 :: [ex_seg 2] /\
  [ex_seg 2] <> [] /\ List.length (removelast (ex_seg 1)) < List.length (ex_seg 1) /\
  data_of sc' = spec_header concrete ex_fk (manifest_json concrete ex_m)
                ++ List.concat ([ex_seg 0] ++ removelast (ex_seg 1) :: [ex_seg 2]) /\
  List.length (spec_header concrete ex_fk (manifest_json concrete ex_m)) <= 400 /\
  ex_short_payload <> payload_of concrete 2 ex_m ex_fk ex_p /\ ex_short_payload <> [] /\
  decrypt_stream concrete v 2 400 ex_unwrap [] sc' = DecStream [1; 2]%N SProcFail.
Proof.
  intros v sc'. subst sc'. split; [no_forgery_by_computation|].
  split; [vm_compute; reflexivity|]. split; [discriminate|].
  split; [apply Nat.ltb_lt; vm_compute; reflexivity|]. split; [vm_compute; reflexivity|].
  split; [apply Nat.leb_le; vm_compute; reflexivity|].
  split; [vm_compute; discriminate|]. split; [vm_compute; discriminate|].
  destruct v; vm_compute; reflexivity.
Qed.

(* (d) empty_nonfirst_rejected: segment 1 removed; segment 2 then sits at position 1 and fails *)
Definition ex_drop_payload : list N := Eval vm_compute in List.concat ([ex_seg 0] ++ [ex_seg 2]).

Example empty_nonfirst_premises_satisfiable : forall v,
  let sc' := [DataEOF (ex_hdr ++ ex_drop_payload)] in
  (forall man' mac' r',
      read_header 400 {| script := sc'; closes := 0 |} = Some (Some (man', mac', r')) ->
      hmac_forge_free concrete ex_m ex_fk man' mac' /\
      forge_free concrete 2 ex_m ex_fk ex_p (data_of (script r'))) /\
  spec_segments concrete 2 ex_m ex_fk ex_p = [ex_seg 0] ++ ex_seg 1 :: [ex_seg 2] /\
  [ex_seg 0] <> [] /\
  data_of sc' = spec_header concrete ex_fk (manifest_json concrete ex_m)
                ++ List.concat ([ex_seg 0] ++ [ex_seg 2]) /\
  decrypt_stream concrete v 2 400 ex_unwrap [] sc' = DecStream [1; 2]%N SProcFail.
Proof.
  intros v sc'. subst sc'. split; [no_forgery_by_computation|].
  split; [vm_compute; reflexivity|]. split; [discriminate|].
  split; [vm_compute; reflexivity|].
  destruct v; vm_compute; reflexivity.
Qed.

(* (e) truncation inside the payload (the last segment missing): segments 0 and 1 are at their
   positions, but segment 1 is now the final piece and is tried with last = true: it fails *)
Example truncated_premises_satisfiable : forall v,
  let sc' := [DataEOF (firstn 210 ex_d)] in
  (forall man' mac' r',
      read_header 400 {| script := sc'; closes := 0 |} = Some (Some (man', mac', r')) ->
      hmac_forge_free concrete ex_m ex_fk man' mac' /\
      forge_free concrete 2 ex_m ex_fk ex_p (data_of (script r'))) /\
  decrypt_stream concrete v 2 400 ex_unwrap [] sc' = DecStream [1; 2]%N SProcFail.
Proof.
  intros v sc'. subst sc'. split; [no_forgery_by_computation|].
  destruct v; vm_compute; reflexivity.
Qed.

(* ------------------------------------------------------------------------------------- *)
(* non-vacuity of T5 (a different 32-byte key) and T6 (the source fails after the document) *)

Example wrong_key_premise_satisfiable : forall v,
  let unwrap := fun _ _ _ : list N => (List.repeat 8%N 32, false) in
  (forall man' mac' r' m',
      read_header 400 {| script := [DataEOF ex_d]; closes := 0 |} = Some (Some (man', mac', r')) ->
      parse_manifest concrete man' = Some m' ->
      verify_header concrete (effective_key v unwrap [] m') man' mac' <> Some true) /\
  decrypt_stream concrete v 2 400 unwrap [] [DataEOF ex_d] = DecCallError DESignature.
Proof.
  intros v unwrap. subst unwrap. split.
  - intros man' mac' r' m' Hrh Hpm. vm_compute in Hrh. injection Hrh as <- <- <-.
    vm_compute in Hpm. injection Hpm as <-. destruct v; vm_compute; discriminate.
  - destruct v; vm_compute; reflexivity.
Qed.

Example source_error_ex : forall v,
  ends_eof [Data ex_d; Fail] = false /\
  decrypt_stream concrete v 2 400 ex_unwrap [] [Data ex_d; Fail] = DecStream [1; 2; 3; 4]%N SSrcFail.
Proof. intros v. split; [reflexivity|]. destruct v; vm_compute; reflexivity. Qed.
