(* C02 — over the extended readers of C01/ReaderX.v, on the concrete primitives ([concrete]) and
   the running example of C02/Proofs_Concrete.v (5 bytes, 2-byte segments, header of 174 bytes,
   document of 227 bytes): BEFORE the readHeader fix (header variant [Original]) a non-EOF error
   that the source returns together with the bytes completing the header is dropped — Decrypt
   releases the whole plaintext and ends cleanly although the source reported an error; with the
   fix ([Fixed]) Decrypt fails.  Only errors that are not repeated are lost: a sticky error
   surfaces in either variant.  Everything by [vm_compute].  No axioms. *)
From Kit Require Import C01.ModelX C02.Defs C02.ProofsX C01.Concrete C02.Proofs_Concrete.
From Coq Require Import String.
Local Open Scope string_scope.
Local Open Scope list_scope.

Definition ex_payload : list N := Eval vm_compute in skipn 174 ex_d.

(* the witnesses are what they are said to be *)
Example ex_witness_layout :
  ex_d = encrypt_doc concrete 2 ex_m ex_fk ex_p /\
  ex_hdr = spec_header concrete ex_fk (manifest_json concrete ex_m) /\
  ex_d = ex_hdr ++ ex_payload /\
  List.length ex_hdr = 174 /\ List.length ex_payload = 53 /\
  Nat.leb (List.length ex_d) 400 = true.
Proof. vm_compute. repeat split. Qed.

(* one Read returns the whole document together with a non-EOF error; afterwards the source
   reports EOF *)
Theorem header_read_error_dropped_refuted :
  exists (xs : list rdx) (p : list N),
    p <> [] /\ xends_eof xs = false /\
    decrypt_stream_x concrete Fixed Original 2 400 ex_unwrap [] xs = DecStream p SClean /\
    decrypt_stream_x concrete Fixed Fixed 2 400 ex_unwrap [] xs = DecCallError DEHeader.
Proof.
  exists [XDX ex_d], ex_p.
  split; [discriminate|]. split; [reflexivity|]. split; vm_compute; reflexivity.
Qed.

(* the error comes exactly with the last header byte; then the payload and EOF *)
Theorem header_read_error_dropped_refuted2 :
  exists (xs : list rdx) (p : list N),
    p <> [] /\ xends_eof xs = false /\
    decrypt_stream_x concrete Fixed Original 2 400 ex_unwrap [] xs = DecStream p SClean /\
    decrypt_stream_x concrete Fixed Fixed 2 400 ex_unwrap [] xs = DecCallError DEHeader.
Proof.
  exists [XDX ex_hdr; XDE ex_payload], ex_p.
  split; [discriminate|]. split; [reflexivity|]. split; vm_compute; reflexivity.
Qed.

(* the same for the other variant of the unwrap handling (the two fixes are independent) *)
Example header_read_error_dropped_any_v v :
  decrypt_stream_x concrete v Original 2 400 ex_unwrap [] [XDX ex_d] = DecStream ex_p SClean /\
  decrypt_stream_x concrete v Fixed 2 400 ex_unwrap [] [XDX ex_d] = DecCallError DEHeader.
Proof. destruct v; split; vm_compute; reflexivity. Qed.

(* a STICKY error is not lost even before the fix: the segment loop meets it again *)
Example sticky_error_surfaces_original :
  xends_eof [XDX ex_d; XF] = false /\
  decrypt_stream_x concrete Fixed Original 2 400 ex_unwrap [] [XDX ex_d; XF]
  = DecStream [1; 2; 3; 4]%N SSrcFail /\
  decrypt_stream_x concrete Fixed Original 2 400 ex_unwrap [] [XDX ex_hdr; XD ex_payload; XF]
  = DecStream [1; 2; 3; 4]%N SSrcFail /\
  decrypt_stream_x concrete Fixed Fixed 2 400 ex_unwrap [] [XDX ex_d; XF] = DecCallError DEHeader.
Proof. split; [reflexivity|]. repeat split; vm_compute; reflexivity. Qed.

(* an error delivered with data AFTER the header surfaces in both header variants (the segment
   loop discards the bytes read together with it) *)
Example payload_error_surfaces_both hv :
  decrypt_stream_x concrete Fixed hv 2 400 ex_unwrap [] [XD ex_hdr; XDX ex_payload]
  = DecStream [1; 2; 3; 4]%N SSrcFail.
Proof. destruct hv; vm_compute; reflexivity. Qed.

(* non-vacuity of [source_error_surfaces_x] / its instance on the witnesses; on the embedded
   (error-free) script both header variants give the plaintext, as [decrypt_stream_x_emb] says *)
Example source_error_surfaces_x_ex :
  xends_eof [XDX ex_d] = false /\
  is_clean (decrypt_stream_x concrete Fixed Fixed 2 400 ex_unwrap [] [XDX ex_d]) = false /\
  is_clean (decrypt_stream_x concrete Fixed Fixed 2 400 ex_unwrap [] [XDX ex_hdr; XDE ex_payload])
  = false /\
  forall hv, decrypt_stream_x concrete Fixed hv 2 400 ex_unwrap [] (emb [DataEOF ex_d])
             = DecStream ex_p SClean.
Proof.
  split; [reflexivity|].
  split; [apply source_error_surfaces_x; reflexivity|].
  split; [apply source_error_surfaces_x; reflexivity|].
  intros hv. rewrite decrypt_stream_x_emb. vm_compute. reflexivity.
Qed.

(* non-vacuity of [source_error_surfaces_x_enc]: Encrypt's source returns its last bytes
   together with an error, once *)
Example source_error_surfaces_x_enc_ex :
  let o := mkEncOpts (str "mykey") (str "AES") [] false (Some (str "CHACHA20-POLY1305")) in
  let wrap := fun _ _ _ : list N => Some (List.repeat 9%N 40) in
  let xs := [XD [1; 2; 3]%N; XDX [4; 5]%N] in
  xends_eof xs = false /\
  match encrypt_stream_wx concrete 2 400 o ex_fk [1; 2; 3; 4; 5; 6; 7]%N wrap xs with
  | EncStream out SSrcFail => List.length out = 174 + 18
  | _ => False
  end.
Proof. vm_compute. split; reflexivity. Qed.
