(* C02 — enc/v1: tampered or truncated documents never decrypt silently.  Theorems about the
   decrypt model of C01/Model.v run on ARBITRARY input (any read script, any bytes).
   Unconditional: T6 source_error_surfaces, T1 release_after_open, T5 wrong_key.
   Under "no forgery for this input" (forge_free / hmac_forge_free of Defs.v) and the AEAD /
   base64 premises of C01/Premises.v: T2 prefix_only, T3 clean_implies_same_payload and
   corollaries.  The refutations (T4) and the non-vacuity examples on the concrete primitives
   are in C02/Proofs_Concrete.v. *)
From Kit Require Import C02.Defs C02.Proofs_Lists C01.Proofs_Segments C01.Proofs_Header
     C01.Proofs_Manifest C01.Proofs_Roundtrip.
From Coq Require Import ZifyNat ZifyN ZifyBool.

Section C02.
  Variable C : crypto.
  Variables S H : nat.

  (* ----------------------------------------------------------------------------------- *)
  (* T6: a source that fails never gives a clean end of stream *)

  Theorem source_error_surfaces v unwrap optkn sc' :
    ends_eof sc' = false -> is_clean (decrypt_stream C v S H unwrap optkn sc') = false.
  Proof.
    intros Heof.
    destruct (decrypt_stream C v S H unwrap optkn sc') as [e|out st] eqn:Hd; [reflexivity|].
    apply decrypt_stream_inv in Hd as (man & mac & r & m & Hrh & _ & _ & Hrest).
    cbv zeta in Hrest. destruct Hrest as [_ Hps].
    apply read_header_sound in Hrh as (_ & _ & _ & _ & _ & Heof').
    rewrite process_segments_src_fail in Hps by (lia || congruence).
    match type of Hps with run_chunks_fail ?fn ?i ?cs ?o = _ =>
      pose proof (run_chunks_fail_not_clean fn cs i o) as Hnc end.
    rewrite Hps in Hnc. cbn [snd] in Hnc.
    cbn [is_clean]. destruct st; try reflexivity. congruence.
  Qed.

  (* ----------------------------------------------------------------------------------- *)
  (* T1: whatever the input and the unwrap callback, bytes are released only after the header
     MAC verified under the key in use, and every released chunk is the result of a successful
     AEAD open of the input piece at its position, under the nonce of that position and
     finality *)

  Theorem release_after_open v unwrap optkn sc' out st :
    decrypt_stream C v S H unwrap optkn sc' = DecStream out st ->
    exists man' mac' r' m',
      read_header H {| script := sc'; closes := 0 |} = Some (Some (man', mac', r')) /\
      parse_manifest C man' = Some m' /\ manifest_valid m' = true /\
      let fk' := effective_key v unwrap optkn m' in
      verify_header C fk' man' mac' = Some true /\
      exists xs, out = concat xs /\
        length xs <= length (tried S (data_of (script r'))) /\
        forall j, j < length xs -> exists i last c,
          nth_error (tried S (data_of (script r'))) j = Some (i, last, c) /\
          open C (m_cph m') (payload_key C fk' (m_np m')) (nonce_for_segment (m_np m') i last) c
          = Some (nth j xs []).
  Proof.
    intros Hd.
    apply decrypt_stream_inv in Hd as (man & mac & r & m & Hrh & Hpm & Hval & Hrest).
    cbv zeta in Hrest. destruct Hrest as [Hver Hps].
    exists man, mac, r, m. split; [exact Hrh|]. split; [exact Hpm|]. split; [exact Hval|].
    cbv zeta. split; [exact Hver|].
    rewrite process_segments_any in Hps by lia.
    apply run_any_inv in Hps as (pre & rest & xs & Hidx & Hall & Hout & _).
    exists xs. split; [exact Hout|].
    fold (tried S (data_of (script r))) in Hidx.
    pose proof (Forall2_len _ _ _ Hall) as Hlen.
    split; [rewrite Hidx, app_length; lia|].
    intros j Hj.
    destruct (Forall2_nth_l _ [] _ _ Hall j Hj) as ([[i last] c] & Hn & Hop).
    exists i, last, c. split.
    - rewrite Hidx, nth_error_app1 by lia. exact Hn.
    - unfold opens in Hop. cbn [fst snd] in Hop. apply decrypt_segment_open in Hop. exact Hop.
  Qed.

  (* ----------------------------------------------------------------------------------- *)
  (* T5: a key under which the header MAC of the input does not verify: Decrypt itself fails,
     nothing is released *)

  Theorem wrong_key v unwrap optkn sc' :
    (forall man' mac' r' m',
        read_header H {| script := sc'; closes := 0 |} = Some (Some (man', mac', r')) ->
        parse_manifest C man' = Some m' ->
        verify_header C (effective_key v unwrap optkn m') man' mac' <> Some true) ->
    exists e, decrypt_stream C v S H unwrap optkn sc' = DecCallError e.
  Proof.
    intros Hbad.
    destruct (decrypt_stream C v S H unwrap optkn sc') as [e|out st] eqn:Hd; [exists e; reflexivity|].
    exfalso.
    apply decrypt_stream_inv in Hd as (man & mac & r & m & Hrh & Hpm & _ & Hrest).
    cbv zeta in Hrest. destruct Hrest as [Hver _].
    exact (Hbad _ _ _ _ Hrh Hpm Hver).
  Qed.

  Corollary wrong_key_releases_nothing v unwrap optkn sc' :
    (forall man' mac' r' m',
        read_header H {| script := sc'; closes := 0 |} = Some (Some (man', mac', r')) ->
        parse_manifest C man' = Some m' ->
        verify_header C (effective_key v unwrap optkn m') man' mac' <> Some true) ->
    released (decrypt_stream C v S H unwrap optkn sc') = [] /\
    is_clean (decrypt_stream C v S H unwrap optkn sc') = false.
  Proof.
    intros Hbad. destruct (wrong_key v unwrap optkn sc' Hbad) as [e ->]. split; reflexivity.
  Qed.

  (* ----------------------------------------------------------------------------------- *)
  (* T2 / T3, under the premises on the primitives *)

  Section WithPremises.
    Hypothesis Hok : crypto_ok C.
    Hypothesis HS : 0 < S.

    (* an input piece with coordinates [t] opens to [x] under the payload key of (m, fk) *)
    Definition opens_spec (m : manifest) (fk : list N) (t : N * bool * list N) (x : list N) : Prop :=
      open C (m_cph m) (spec_payload_key C fk (m_np m))
           (spec_nonce (m_np m) (fst (fst t)) (snd (fst t))) (snd t) = Some x.

    Lemma seal_chunks_opens m fk : forall cs i,
      Forall2 (opens_spec m fk)
        (indexed i (seal_chunks C (m_cph m) (spec_payload_key C fk (m_np m)) (m_np m) i cs)) cs.
    Proof.
      induction cs as [|c t IH]; intros i; [constructor|].
      cbn [seal_chunks indexed]. constructor; [|apply IH].
      unfold opens_spec. cbn [fst snd].
      replace (is_nil (seal_chunks C (m_cph m) (spec_payload_key C fk (m_np m)) (m_np m) (i + 1) t))
        with (is_nil t) by (destruct t; reflexivity).
      apply (ok_open_seal C Hok).
    Qed.

    Lemma seal_chunks_nonempty cph pk np : forall cs i,
      Forall (fun s => s <> []) (seal_chunks C cph pk np i cs).
    Proof.
      induction cs as [|c t IH]; intros i; [constructor|].
      cbn [seal_chunks]. constructor; [|apply IH].
      intro E. apply (f_equal (@length N)) in E. rewrite (ok_seal_length C Hok) in E.
      cbn [length] in E. lia.
    Qed.

    (* The hypotheses, for one input [sc'] and the original (m, fk, p):
       [Hforge]: no forgery for this input (header MAC and segments);
       [Hkey]:   the key Decrypt ends up using for the manifest it parsed from this input is
                 the original file key. *)
    Definition no_forgery (sc' : list rd) (m : manifest) (fk p : list N) : Prop :=
      forall man' mac' r',
        read_header H {| script := sc'; closes := 0 |} = Some (Some (man', mac', r')) ->
        hmac_forge_free C m fk man' mac' /\ forge_free C S m fk p (data_of (script r')).

    Definition key_recovered v unwrap optkn (sc' : list rd) (fk : list N) : Prop :=
      forall man' mac' r' m',
        read_header H {| script := sc'; closes := 0 |} = Some (Some (man', mac', r')) ->
        parse_manifest C man' = Some m' ->
        effective_key v unwrap optkn m' = fk.

    (* core: the released chunks are an initial run of the original plaintext chunks, and a
       clean end means all of them (or an empty payload) *)
    Lemma tamper_core v unwrap optkn sc' m fk p out st :
      manifest_bytes_ok m -> manifest_valid m = true ->
      no_forgery sc' m fk p -> key_recovered v unwrap optkn sc' fk ->
      decrypt_stream C v S H unwrap optkn sc' = DecStream out st ->
      exists man' mac' r' cs1 cs2,
        read_header H {| script := sc'; closes := 0 |} = Some (Some (man', mac', r')) /\
        chunks S p = cs1 ++ cs2 /\ out = concat cs1 /\
        (st = SClean ->
         (data_of (script r') = payload_of C S m fk p /\ cs2 = []) \/
         (data_of (script r') = [] /\ cs1 = [])).
    Proof.
      intros Hbytes Hvalid Hforge Hkey Hd.
      apply decrypt_stream_inv in Hd as (man & mac & r & m' & Hrh & Hpm & _ & Hrest).
      cbv zeta in Hrest. rewrite (Hkey _ _ _ _ Hrh Hpm) in Hrest. destruct Hrest as [Hver Hps].
      destruct (Hforge _ _ _ Hrh) as [Hhm Hff].
      apply Hhm in Hver. subst man.
      rewrite (parse_manifest_json C Hok m Hbytes) in Hpm. injection Hpm as <-.
      assert (Hnp : length (m_np m) = 7).
      { unfold manifest_valid in Hvalid. apply andb_true_iff in Hvalid as [_ Hn].
        apply Nat.eqb_eq in Hn. exact Hn. }
      exists (manifest_json C m), mac, r.
      rewrite process_segments_any in Hps by lia.
      apply run_any_inv in Hps as (pre & rest & xs & Hidx & Hall & Hout & Hclean).
      fold (tried S (data_of (script r))) in Hidx.
      (* every released piece opened under the spec key/nonce *)
      assert (Hall' : Forall2 (opens_spec m fk) pre xs).
      { eapply Forall2_mono; [|exact Hall]. intros [[k l] c] x Hop.
        unfold opens in Hop. cbn [fst snd] in Hop. apply decrypt_segment_open in Hop.
        rewrite nonce_spec in Hop by exact Hnp. exact Hop. }
      (* ... hence is a sealed segment of the original at the same coordinates *)
      assert (Hin : Forall (fun t => In t (indexed 0 (spec_segments C S m fk p))) pre).
      { eapply Forall2_Forall_l; [exact Hall'|]. intros [[k l] c] x Hp Hop.
        apply (Hff k l c x); [rewrite Hidx; apply in_or_app; left; exact Hp|exact Hop]. }
      destruct (indexed_agree pre 0%N _ _ rest Hidx Hin) as [rest' Hseg].
      pose proof (seal_chunks_opens m fk (chunks S p) 0%N) as Hopen.
      fold (spec_segments C S m fk p) in Hopen. rewrite Hseg in Hopen.
      apply Forall2_app_inv_l in Hopen as (cs1 & cs2 & Hpre & Hrest' & Hcs).
      assert (Exs : xs = cs1).
      { eapply Forall2_functional; [|exact Hall'|exact Hpre].
        intros a x y Hx Hy. unfold opens_spec in Hx, Hy. congruence. }
      exists cs1, cs2. split; [exact Hrh|]. split; [exact Hcs|].
      split; [rewrite Hout, Exs; reflexivity|].
      intros Hst. destruct (Hclean Hst) as [Hr _]. subst rest. rewrite app_nil_r in Hidx.
      unfold tried in Hidx.
      destruct (chunks (S + 16) (data_of (script r))) as [|a A] eqn:EA.
      - right. split.
        + apply (chunks_nil_iff (S + 16)); [lia|exact EA].
        + cbn [indexed] in Hidx. subst pre. inversion Hpre. reflexivity.
      - left. rewrite <- Hidx in Hseg.
        assert (Hr' : rest' = []) by (eapply indexed_prefix_full; [|exact Hseg]; discriminate).
        subst rest'. rewrite app_nil_r in Hseg. apply indexed_inj in Hseg.
        split; [|inversion Hrest'; reflexivity].
        unfold payload_of. rewrite Hseg, <- EA. symmetry. apply chunks_concat. lia.
    Qed.

    (* T2 (general form: the key premise only for the manifest parsed from this input) *)
    Theorem prefix_only_gen v unwrap optkn sc' m fk p :
      manifest_bytes_ok m -> manifest_valid m = true ->
      no_forgery sc' m fk p -> key_recovered v unwrap optkn sc' fk ->
      exists rest, p = released (decrypt_stream C v S H unwrap optkn sc') ++ rest.
    Proof.
      intros Hbytes Hvalid Hforge Hkey.
      destruct (decrypt_stream C v S H unwrap optkn sc') as [e|out st] eqn:Hd;
        [exists p; reflexivity|].
      destruct (tamper_core _ _ _ _ _ _ _ _ _ Hbytes Hvalid Hforge Hkey Hd)
        as (man' & mac' & r' & cs1 & cs2 & _ & Hcs & Hout & _).
      exists (concat cs2). cbn [released]. rewrite Hout, <- concat_app, <- Hcs.
      symmetry. apply chunks_concat. exact HS.
    Qed.

    (* T3 (general form) *)
    Theorem clean_implies_same_payload_gen v unwrap optkn sc' m fk p :
      manifest_bytes_ok m -> manifest_valid m = true ->
      no_forgery sc' m fk p -> key_recovered v unwrap optkn sc' fk ->
      is_clean (decrypt_stream C v S H unwrap optkn sc') = true ->
      exists man' mac' r',
        read_header H {| script := sc'; closes := 0 |} = Some (Some (man', mac', r')) /\
        ((data_of (script r') = payload_of C S m fk p /\
          released (decrypt_stream C v S H unwrap optkn sc') = p) \/
         (data_of (script r') = [] /\
          released (decrypt_stream C v S H unwrap optkn sc') = [])).
    Proof.
      intros Hbytes Hvalid Hforge Hkey Hclean.
      destruct (decrypt_stream C v S H unwrap optkn sc') as [e|out st] eqn:Hd; [discriminate|].
      assert (Hst : st = SClean) by (destruct st; (reflexivity || discriminate)).
      destruct (tamper_core _ _ _ _ _ _ _ _ _ Hbytes Hvalid Hforge Hkey Hd)
        as (man' & mac' & r' & cs1 & cs2 & Hrh & Hcs & Hout & Hcl).
      exists man', mac', r'. split; [exact Hrh|]. cbn [released].
      destruct (Hcl Hst) as [[Hpay Hc2]|[Hpay Hc1]].
      - left. split; [exact Hpay|]. subst cs2. rewrite app_nil_r in Hcs.
        rewrite Hout, <- Hcs. apply chunks_concat. exact HS.
      - right. split; [exact Hpay|]. rewrite Hout, Hc1. reflexivity.
    Qed.

    (* [forall m', effective_key ... m' = fk] is the simplest form of "the unwrap callback
       yields the original file key" *)
    Lemma key_recovered_all v unwrap optkn sc' fk :
      (forall m', effective_key v unwrap optkn m' = fk) -> key_recovered v unwrap optkn sc' fk.
    Proof. intros Hk man' mac' r' m' _ _. apply Hk. Qed.

    (* T2 as stated in the task ([length fk = 32] is not used: it follows from the key premise,
       an effective key always has 32 bytes) *)
    Theorem prefix_only v unwrap optkn sc' m fk p :
      manifest_bytes_ok m -> manifest_valid m = true -> length fk = 32 ->
      (forall man' mac' r',
          read_header H {| script := sc'; closes := 0 |} = Some (Some (man', mac', r')) ->
          hmac_forge_free C m fk man' mac' /\ forge_free C S m fk p (data_of (script r'))) ->
      (forall m', effective_key v unwrap optkn m' = fk) ->
      exists rest, p = released (decrypt_stream C v S H unwrap optkn sc') ++ rest.
    Proof.
      intros Hbytes Hvalid _ Hforge Hkey.
      apply prefix_only_gen with (m := m) (fk := fk); try assumption.
      apply key_recovered_all. exact Hkey.
    Qed.

    (* T3 *)
    Theorem clean_implies_same_payload v unwrap optkn sc' m fk p :
      manifest_bytes_ok m -> manifest_valid m = true -> length fk = 32 ->
      (forall man' mac' r',
          read_header H {| script := sc'; closes := 0 |} = Some (Some (man', mac', r')) ->
          hmac_forge_free C m fk man' mac' /\ forge_free C S m fk p (data_of (script r'))) ->
      (forall m', effective_key v unwrap optkn m' = fk) ->
      is_clean (decrypt_stream C v S H unwrap optkn sc') = true ->
      exists man' mac' r',
        read_header H {| script := sc'; closes := 0 |} = Some (Some (man', mac', r')) /\
        ((data_of (script r') = payload_of C S m fk p /\
          released (decrypt_stream C v S H unwrap optkn sc') = p) \/
         (data_of (script r') = [] /\
          released (decrypt_stream C v S H unwrap optkn sc') = [])).
    Proof.
      intros Hbytes Hvalid _ Hforge Hkey.
      apply clean_implies_same_payload_gen with (m := m) (fk := fk); try assumption.
      apply key_recovered_all. exact Hkey.
    Qed.

    (* The property text's "a clean end means the whole plaintext" holds only up to the one
       exception of the empty payload (see no_silent_truncation_refuted in Proofs_Concrete.v) *)
    Corollary no_silent_truncation_partial v unwrap optkn sc' m fk p :
      manifest_bytes_ok m -> manifest_valid m = true -> length fk = 32 ->
      (forall man' mac' r',
          read_header H {| script := sc'; closes := 0 |} = Some (Some (man', mac', r')) ->
          hmac_forge_free C m fk man' mac' /\ forge_free C S m fk p (data_of (script r'))) ->
      (forall m', effective_key v unwrap optkn m' = fk) ->
      is_clean (decrypt_stream C v S H unwrap optkn sc') = true ->
      released (decrypt_stream C v S H unwrap optkn sc') = p \/
      released (decrypt_stream C v S H unwrap optkn sc') = [].
    Proof.
      intros Hbytes Hvalid Hfk Hforge Hkey Hclean.
      destruct (clean_implies_same_payload _ _ _ _ _ _ _ Hbytes Hvalid Hfk Hforge Hkey Hclean)
        as (man' & mac' & r' & _ & [[_ Hr]|[_ Hr]]); [left|right]; exact Hr.
    Qed.

    (* ---- corollaries for inputs that carry the original header ---- *)

    Lemma spec_header_lines fk man :
      spec_header C fk man
      = scheme_name ++ [10%N] ++ man ++ [10%N]
        ++ b64e C (hmac C (spec_mac_key C fk) (spec_signed_part man)) ++ [10%N].
    Proof.
      unfold spec_header, spec_signed_part. change spec_scheme_line with scheme_name.
      repeat rewrite <- app_assoc. reflexivity.
    Qed.

    (* the original header followed by any payload other than the original one (and not
       empty) never ends cleanly *)
    Corollary modified_payload_rejected v unwrap optkn sc' m fk p payload' :
      manifest_bytes_ok m -> manifest_valid m = true -> length fk = 32 ->
      (forall man' mac' r',
          read_header H {| script := sc'; closes := 0 |} = Some (Some (man', mac', r')) ->
          hmac_forge_free C m fk man' mac' /\ forge_free C S m fk p (data_of (script r'))) ->
      (forall m', effective_key v unwrap optkn m' = fk) ->
      data_of sc' = spec_header C fk (manifest_json C m) ++ payload' ->
      length (spec_header C fk (manifest_json C m)) <= H ->
      payload' <> payload_of C S m fk p -> payload' <> [] ->
      is_clean (decrypt_stream C v S H unwrap optkn sc') = false.
    Proof.
      intros Hbytes Hvalid Hfk Hforge Hkey Hdata HlenH Hneq Hne.
      destruct (is_clean (decrypt_stream C v S H unwrap optkn sc')) eqn:Hclean; [exfalso|reflexivity].
      destruct (clean_implies_same_payload _ _ _ _ _ _ _ Hbytes Hvalid Hfk Hforge Hkey Hclean)
        as (man' & mac' & r' & Hrh & Hcase).
      rewrite spec_header_lines in Hdata, HlenH.
      set (man := manifest_json C m) in *.
      set (mac := b64e C (hmac C (spec_mac_key C fk) (spec_signed_part man))) in *.
      assert (Hdata' : data_of sc' = scheme_name ++ [10%N] ++ man ++ [10%N] ++ mac ++ [10%N] ++ payload').
      { rewrite Hdata. repeat rewrite <- app_assoc. reflexivity. }
      destruct (read_header_complete H sc' man mac payload' Hdata') as (r'' & Hrh' & Hpay & _).
      - apply manifest_json_no_nl, Hok.
      - apply b64e_no_nl, Hok.
      - apply manifest_json_nonempty.
      - apply (ok_b64_nonempty C Hok), (ok_hmac_nonempty C Hok).
      - exact HlenH.
      - rewrite Hrh in Hrh'. injection Hrh' as _ _ <-.
        destruct Hcase as [[Hp _]|[Hp _]]; congruence.
    Qed.

    Lemma concat_length_app_cons (l1 l2 : list (list N)) s :
      length (concat (l1 ++ s :: l2)) = length (concat l1) + length s + length (concat l2).
    Proof. rewrite concat_app. cbn [concat]. rewrite !app_length. lia. Qed.

    Lemma concat_nonempty (l : list (list N)) :
      l <> [] -> Forall (fun s => s <> []) l -> concat l <> [].
    Proof.
      intros Hne Hall. destruct l as [|s t]; [congruence|].
      inversion Hall as [|? ? Hs _]; subst. cbn [concat]. destruct s; [congruence|discriminate].
    Qed.

    (* a NON-final segment replaced by a strictly shorter string *)
    Corollary short_nonfinal_rejected v unwrap optkn sc' m fk p l1 s l2 s' :
      manifest_bytes_ok m -> manifest_valid m = true -> length fk = 32 ->
      (forall man' mac' r',
          read_header H {| script := sc'; closes := 0 |} = Some (Some (man', mac', r')) ->
          hmac_forge_free C m fk man' mac' /\ forge_free C S m fk p (data_of (script r'))) ->
      (forall m', effective_key v unwrap optkn m' = fk) ->
      spec_segments C S m fk p = l1 ++ s :: l2 -> l2 <> [] -> length s' < length s ->
      data_of sc' = spec_header C fk (manifest_json C m) ++ concat (l1 ++ s' :: l2) ->
      length (spec_header C fk (manifest_json C m)) <= H ->
      is_clean (decrypt_stream C v S H unwrap optkn sc') = false.
    Proof.
      intros Hbytes Hvalid Hfk Hforge Hkey Hsegs Hl2 Hlen Hdata HlenH.
      eapply modified_payload_rejected; try eassumption.
      - intro E. apply (f_equal (@length N)) in E. unfold payload_of in E.
        rewrite Hsegs, !concat_length_app_cons in E. lia.
      - pose proof (seal_chunks_nonempty (m_cph m) (spec_payload_key C fk (m_np m)) (m_np m)
                                         (chunks S p) 0%N) as Hall.
        fold (spec_segments C S m fk p) in Hall. rewrite Hsegs in Hall.
        apply Forall_app in Hall as [_ Hall]. inversion Hall as [|? ? _ Hall2]; subst.
        intro E. apply (f_equal (@length N)) in E. rewrite concat_length_app_cons in E.
        cbn [length] in E.
        apply (concat_nonempty l2 Hl2) in Hall2. destruct (concat l2); [congruence|cbn [length] in E; lia].
    Qed.

    (* a segment other than the first removed ("an empty segment") *)
    Corollary empty_nonfirst_rejected v unwrap optkn sc' m fk p l1 s l2 :
      manifest_bytes_ok m -> manifest_valid m = true -> length fk = 32 ->
      (forall man' mac' r',
          read_header H {| script := sc'; closes := 0 |} = Some (Some (man', mac', r')) ->
          hmac_forge_free C m fk man' mac' /\ forge_free C S m fk p (data_of (script r'))) ->
      (forall m', effective_key v unwrap optkn m' = fk) ->
      spec_segments C S m fk p = l1 ++ s :: l2 -> l1 <> [] ->
      data_of sc' = spec_header C fk (manifest_json C m) ++ concat (l1 ++ l2) ->
      length (spec_header C fk (manifest_json C m)) <= H ->
      is_clean (decrypt_stream C v S H unwrap optkn sc') = false.
    Proof.
      intros Hbytes Hvalid Hfk Hforge Hkey Hsegs Hl1 Hdata HlenH.
      pose proof (seal_chunks_nonempty (m_cph m) (spec_payload_key C fk (m_np m)) (m_np m)
                                       (chunks S p) 0%N) as Hall.
      fold (spec_segments C S m fk p) in Hall. rewrite Hsegs in Hall.
      apply Forall_app in Hall as [Hall1 Hall]. inversion Hall as [|? ? Hs _]; subst.
      eapply modified_payload_rejected; try eassumption.
      - intro E. apply (f_equal (@length N)) in E. unfold payload_of in E.
        rewrite Hsegs, concat_length_app_cons, concat_app, app_length in E.
        destruct s; [congruence|cbn [length] in E; lia].
      - rewrite concat_app. apply (concat_nonempty l1 Hl1) in Hall1.
        destruct (concat l1); [congruence|discriminate].
    Qed.
  End WithPremises.
End C02.
