(* C02 — non-vacuity of the theorems of C02/ProofsX2.v on the concrete primitives ([concrete];
   [crypto_ok] proved in C01/ConcreteOk2.v) and the running example of C02/Proofs_Concrete.v
   (5 bytes, 2-byte segments: header of 174 bytes, payload of 18 + 18 + 17 bytes), over
   extended scripts that are NOT embeddings of scripts of Lib/Reader.v: a non-EOF error delivered
   together with data in the middle of the payload, once.  The premises are discharged by
   computation as in C02/Proofs_Concrete.v ([no_forgery_by_computation]); the results are
   computed.  No axioms ([Print Assumptions] lists only the PrimInt63 primitives the concrete
   primitives of coq/Crypto compute with). *)
From Kit Require Import C01.ModelX C02.Defs C02.Proofs_Lists C02.Proofs C02.ProofsX C02.ProofsX2
     C01.Concrete C01.ConcreteOk2 C02.Proofs_Concrete C02.ProofsX_Concrete.
From Coq Require Import String.
Local Open Scope string_scope.
Local Open Scope list_scope.

(* the theorems without cryptographic premise *)
Definition prefix_only_x_concrete S H := prefix_only_x concrete S H concrete_ok.
Definition clean_implies_same_payload_x_concrete S H :=
  clean_implies_same_payload_x concrete S H concrete_ok.
Definition model_meets_oracle_x_concrete S H := model_meets_oracle_x concrete S H concrete_ok.

(* (a) the untouched document; the Read that returns payload byte 19 (the second byte of
   segment 1) also returns a non-EOF error, once; then the rest and a clean EOF.  Segment 0 is
   released, the bytes buffered when the error arrived are dropped, the stream ends with the
   source's error. *)
Definition ex_xa : list rdx :=
  [XD ex_hdr; XDX (firstn 20 ex_payload); XDE (skipn 20 ex_payload)].

Example oracle_x_premises_satisfiable_a : forall v,
  manifest_bytes_ok ex_m /\ manifest_valid ex_m = true /\
  no_forgery_x concrete 2 400 ex_xa ex_m ex_fk ex_p /\
  key_recovered_x concrete 400 v ex_unwrap [] ex_xa ex_fk /\
  xends_eof ex_xa = false /\ xdata ex_xa = ex_d /\
  decrypt_stream_x concrete v Fixed 2 400 ex_unwrap [] ex_xa = DecStream [1; 2]%N SSrcFail.
Proof.
  intros v. split; [split; vm_compute; reflexivity|]. split; [vm_compute; reflexivity|].
  split; [no_forgery_by_computation|].
  split; [apply key_recovered_x_all, ex_key|].
  split; [reflexivity|]. split; [vm_compute; reflexivity|].
  destruct v; vm_compute; reflexivity.
Qed.

(* (b) one bit flipped in segment 1 AND an error with data later on, then a sticky failure:
   segment 0 is released, then ErrDecryptionFailed *)
Definition ex_flip_payload : list N := Eval vm_compute in skipn 174 ex_flip.
Definition ex_xb : list rdx :=
  [XD ex_hdr; XZ; XD (firstn 30 ex_flip_payload); XDX (skipn 30 ex_flip_payload); XF].

Example oracle_x_premises_satisfiable_b : forall v,
  no_forgery_x concrete 2 400 ex_xb ex_m ex_fk ex_p /\
  key_recovered_x concrete 400 v ex_unwrap [] ex_xb ex_fk /\
  xends_eof ex_xb = false /\ xdata ex_xb = ex_flip /\ ex_flip <> ex_d /\
  decrypt_stream_x concrete v Fixed 2 400 ex_unwrap [] ex_xb = DecStream [1; 2]%N SProcFail.
Proof.
  intros v. split; [no_forgery_by_computation|].
  split; [apply key_recovered_x_all, ex_key|].
  split; [reflexivity|]. split; [vm_compute; reflexivity|]. split; [vm_compute; discriminate|].
  destruct v; vm_compute; reflexivity.
Qed.

(* (c) the premises of [clean_implies_same_payload_x] including [is_clean = true]: the untouched
   document in pieces with an empty read (left disjunct), and the document cut after its header
   (right disjunct) *)
Definition ex_xc : list rdx :=
  [XD (firstn 100 ex_hdr); XZ; XD (skipn 100 ex_hdr ++ firstn 20 ex_payload);
   XDE (skipn 20 ex_payload)].

Example clean_x_premises_satisfiable : forall v,
  no_forgery_x concrete 2 400 ex_xc ex_m ex_fk ex_p /\
  key_recovered_x concrete 400 v ex_unwrap [] ex_xc ex_fk /\
  is_clean (decrypt_stream_x concrete v Fixed 2 400 ex_unwrap [] ex_xc) = true /\
  released (decrypt_stream_x concrete v Fixed 2 400 ex_unwrap [] ex_xc) = ex_p /\
  no_forgery_x concrete 2 400 [XD ex_hdr] ex_m ex_fk ex_p /\
  is_clean (decrypt_stream_x concrete v Fixed 2 400 ex_unwrap [] [XD ex_hdr]) = true /\
  released (decrypt_stream_x concrete v Fixed 2 400 ex_unwrap [] [XD ex_hdr]) = [].
Proof.
  intros v. split; [no_forgery_by_computation|].
  split; [apply key_recovered_x_all, ex_key|].
  split; [destruct v; vm_compute; reflexivity|].
  split; [destruct v; vm_compute; reflexivity|].
  split; [no_forgery_by_computation|].
  split; destruct v; vm_compute; reflexivity.
Qed.

(* the conclusion of [model_meets_oracle_x] on (a), obtained FROM the theorem *)
Example model_meets_oracle_x_instance v :
  let r := decrypt_stream_x concrete v Fixed 2 400 ex_unwrap [] ex_xa in
  (exists rest, ex_p = released r ++ rest) /\
  (is_clean r = true -> released r = ex_p \/ released r = []) /\
  (xends_eof ex_xa = false -> is_clean r = false) /\
  r <> DecCallError DEFuel /\ (forall out, r <> DecStream out SOutOfFuel).
Proof.
  destruct (oracle_x_premises_satisfiable_a v) as (Hb & Hv & Hf & Hk & _).
  apply (model_meets_oracle_x concrete 2 400 concrete_ok ltac:(repeat constructor)
           v ex_unwrap [] ex_xa ex_m ex_fk ex_p Hb Hv Hf Hk).
Qed.

(* (d) [release_after_open_x] and the segment-loop inversion on (a): what was released is the
   opening of piece 0 of ALL the delivered payload, flag false *)
Example release_after_open_x_instance :
  match read_header_x 400 Fixed ex_xa with
  | Some (Some (man', mac', r')) =>
      xdata r' = ex_payload /\ List.length (tried 2 (xdata r')) = 3 /\
      match nth_error (tried 2 (xdata r')) 0 with
      | Some (i, last, c) =>
          i = 0%N /\ last = false /\
          open concrete (m_cph ex_m) (payload_key concrete ex_fk (m_np ex_m))
               (nonce_for_segment (m_np ex_m) i last) c = Some [1; 2]%N
      | None => False
      end
  | _ => False
  end.
Proof. vm_compute. repeat split. Qed.

Print Assumptions oracle_x_premises_satisfiable_a.
Print Assumptions model_meets_oracle_x_instance.
