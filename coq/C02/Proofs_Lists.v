(* C02 — list-level facts used by C02/Proofs.v: [indexed] (pieces with their nonce
   coordinates), what [run_chunks] / [run_chunks_fail] (C01/Sem.v) released in terms of the
   successful calls of processFn, and the inversion of [decrypt_stream] on ARBITRARY input. *)
From Kit Require Import C02.Defs C01.Proofs_Segments.
From Coq Require Import ZifyNat ZifyN ZifyBool.

(* ------------------------------------------------------------------------------------- *)
(* indexed *)

Lemma indexed_length : forall (l : list (list N)) i, length (indexed i l) = length l.
Proof. induction l as [|s t IH]; intros i; [reflexivity|]. cbn [indexed length]. rewrite IH. reflexivity. Qed.

Lemma indexed_map_snd : forall (l : list (list N)) i, map snd (indexed i l) = l.
Proof. induction l as [|s t IH]; intros i; [reflexivity|]. cbn [indexed map snd]. rewrite IH. reflexivity. Qed.

Lemma indexed_inj i A B : indexed i A = indexed i B -> A = B.
Proof. intros E. apply (f_equal (map snd)) in E. rewrite !indexed_map_snd in E. exact E. Qed.

Lemma indexed_ge : forall (l : list (list N)) i k f c, In (k, f, c) (indexed i l) -> (i <= k)%N.
Proof.
  induction l as [|s t IH]; intros i k f c Hin; [contradiction|].
  cbn [indexed] in Hin. destruct Hin as [E|Hin].
  - injection E as <- _ _. lia.
  - apply IH in Hin. lia.
Qed.

(* position j of [indexed i l] carries the number i + j, the real finality and the j-th piece *)
Lemma indexed_nth_error : forall (l : list (list N)) i j k f c,
  nth_error (indexed i l) j = Some (k, f, c) ->
  k = (i + N.of_nat j)%N /\ nth_error l j = Some c /\ f = Nat.eqb (Datatypes.S j) (length l).
Proof.
  induction l as [|s t IH]; intros i j k f c Hn; [destruct j; discriminate|].
  destruct j as [|j]; cbn [indexed nth_error] in Hn.
  - injection Hn as <- <- <-. split; [lia|]. split; [reflexivity|].
    destruct t; reflexivity.
  - apply IH in Hn as (Hk & Hc & Hf). split; [lia|]. split; [exact Hc|].
    rewrite Hf. reflexivity.
Qed.

(* a prefix of the coordinates of [A] whose elements all occur among the coordinates of [B]
   is a prefix of the coordinates of [B] *)
Lemma indexed_agree : forall pre i (A B : list (list N)) rest,
  indexed i A = pre ++ rest -> Forall (fun t => In t (indexed i B)) pre ->
  exists rest', indexed i B = pre ++ rest'.
Proof.
  induction pre as [|t pre IH]; intros i A B rest HA Hall.
  - exists (indexed i B). reflexivity.
  - destruct A as [|a A']; [discriminate|].
    cbn [indexed app] in HA. injection HA as Ht Hrest.
    inversion Hall as [|? ? Hin Hall']; subst.
    destruct B as [|b B']; [contradiction|].
    cbn [indexed] in Hin. destruct Hin as [Heq|Hin].
    + destruct (IH (i + 1)%N A' B' rest Hrest) as [rest' Hr'].
      * rewrite Forall_forall in Hall' |- *. intros [[k f] c] Hp.
        specialize (Hall' _ Hp). cbn [indexed] in Hall'. destruct Hall' as [E|Hin']; [|exact Hin'].
        exfalso. injection E as Ek _ _.
        assert (Hin2 : In (k, f, c) (indexed (i + 1) A')) by (rewrite Hrest; apply in_or_app; left; exact Hp).
        apply indexed_ge in Hin2. lia.
      * exists rest'. cbn [indexed app]. rewrite Heq, Hr'. reflexivity.
    + exfalso. apply indexed_ge in Hin. lia.
Qed.

(* ... and if that prefix is all of [A] (non-empty), whose last element is flagged final,
   nothing of [B] is left *)
Lemma indexed_prefix_full : forall (A : list (list N)) i B rest',
  A <> [] -> indexed i B = indexed i A ++ rest' -> rest' = [].
Proof.
  induction A as [|a A' IH]; intros i B rest' Hne HB; [congruence|].
  destruct B as [|b B']; [discriminate|].
  cbn [indexed app] in HB. injection HB as Hb Hf Hrest.
  destruct A' as [|a' A''].
  - cbn [is_nil] in Hf. destruct B'; [|discriminate]. cbn [indexed app] in Hrest. congruence.
  - eapply IH; [|exact Hrest]. discriminate.
Qed.

(* ------------------------------------------------------------------------------------- *)
(* Forall2 helpers *)

Lemma Forall2_len {A B} (R : A -> B -> Prop) : forall l l', Forall2 R l l' -> length l = length l'.
Proof. induction 1 as [|a b l l' HR Hall IH]; [reflexivity|]. cbn [length]. rewrite IH. reflexivity. Qed.

Lemma Forall2_mono {A B} (R1 R2 : A -> B -> Prop) : (forall a b, R1 a b -> R2 a b) ->
  forall l l', Forall2 R1 l l' -> Forall2 R2 l l'.
Proof. intros Himp. induction 1 as [|a b l l' HR Hall IH]; constructor; [apply Himp; exact HR|exact IH]. Qed.

Lemma Forall2_nth_l {A B} (R : A -> B -> Prop) (d : B) : forall l l', Forall2 R l l' ->
  forall j, j < length l' -> exists a, nth_error l j = Some a /\ R a (nth j l' d).
Proof.
  induction 1 as [|a b l l' HR Hall IH]; intros j Hj; [cbn in Hj; lia|].
  destruct j as [|j]; cbn [nth_error nth].
  - exists a. split; [reflexivity|exact HR].
  - apply IH. cbn [length] in Hj. lia.
Qed.

Lemma Forall2_functional {A B} (R : A -> B -> Prop) :
  (forall a x y, R a x -> R a y -> x = y) ->
  forall l xs, Forall2 R l xs -> forall ys, Forall2 R l ys -> xs = ys.
Proof.
  intros Hfun. induction 1 as [|a x l xs HR Hall IH]; intros ys Hys.
  - inversion Hys. reflexivity.
  - inversion Hys as [|? y ? ys' HR' Hall']; subst. f_equal; [eapply Hfun; eassumption|].
    apply IH. exact Hall'.
Qed.

Lemma Forall2_Forall_l {A B} (R : A -> B -> Prop) (P : A -> Prop) : forall l xs,
  Forall2 R l xs -> (forall a x, In a l -> R a x -> P a) -> Forall P l.
Proof.
  induction 1 as [|a x l xs HR Hall IH]; intros HP; [constructor|].
  constructor.
  - eapply HP; [left; reflexivity|exact HR].
  - apply IH. intros a' x' Hin. apply HP. right. exact Hin.
Qed.

(* ------------------------------------------------------------------------------------- *)
(* what run_chunks / run_chunks_fail released *)

(* processFn succeeded on a piece with its coordinates *)
Definition opens (fn : list N -> N -> bool -> option (list N)) (t : N * bool * list N) (x : list N)
  : Prop := fn (snd t) (fst (fst t)) (snd (fst t)) = Some x.

Lemma run_chunks_inv fn : forall cs i out0 out st,
  run_chunks fn i cs out0 = (out, st) ->
  exists pre rest xs, indexed i cs = pre ++ rest /\ Forall2 (opens fn) pre xs /\
                      out = out0 ++ concat xs /\ (st = SClean -> rest = []).
Proof.
  induction cs as [|c t IH]; intros i out0 out st Hrun.
  - cbn in Hrun. injection Hrun as <- <-. exists [], [], [].
    cbn [concat app indexed]. rewrite app_nil_r. repeat split. constructor.
  - cbn [run_chunks] in Hrun. destruct (fn c i (is_nil t)) as [w|] eqn:Efn.
    + destruct (negb (is_nil t) && (i =? max_segment)%N).
      * injection Hrun as <- <-. exists [(i, is_nil t, c)], (indexed (i + 1) t), [w].
        cbn [concat]. rewrite app_nil_r. split; [reflexivity|]. split; [|split; [reflexivity|discriminate]].
        constructor; [exact Efn|constructor].
      * apply IH in Hrun as (pre & rest & xs & Hidx & Hall & Hout & Hclean).
        exists ((i, is_nil t, c) :: pre), rest, (w :: xs).
        cbn [indexed concat app]. rewrite Hidx. split; [reflexivity|].
        split; [constructor; [exact Efn|exact Hall]|].
        split; [rewrite Hout, <- app_assoc; reflexivity|exact Hclean].
    + injection Hrun as <- <-. exists [], (indexed i (c :: t)), [].
      cbn [concat app]. rewrite app_nil_r. split; [reflexivity|]. split; [constructor|].
      split; [reflexivity|discriminate].
Qed.

Lemma run_chunks_fail_inv fn : forall cs i out0 out st,
  run_chunks_fail fn i cs out0 = (out, st) ->
  exists pre rest xs, indexed i cs = pre ++ rest /\ Forall2 (opens fn) pre xs /\
                      out = out0 ++ concat xs /\ (rest <> [] \/ cs = []) /\ st <> SClean.
Proof.
  induction cs as [|c t IH]; intros i out0 out st Hrun.
  - cbn in Hrun. injection Hrun as <- <-. exists [], [], [].
    cbn [concat app indexed]. rewrite app_nil_r. repeat split; try discriminate. constructor.
    right; reflexivity.
  - destruct t as [|c' t'].
    + cbn in Hrun. injection Hrun as <- <-. exists [], [(i, true, c)], [].
      cbn [concat app]. rewrite app_nil_r. repeat split; try discriminate. constructor.
      left; discriminate.
    + rewrite run_chunks_fail_cons in Hrun by discriminate.
      destruct (fn c i false) as [w|] eqn:Efn.
      * destruct (i =? max_segment)%N.
        -- injection Hrun as <- <-. exists [(i, false, c)], (indexed (i + 1) (c' :: t')), [w].
           cbn [concat]. rewrite app_nil_r. split; [reflexivity|].
           split; [constructor; [exact Efn|constructor]|].
           split; [reflexivity|]. split; [left; discriminate|discriminate].
        -- apply IH in Hrun as (pre & rest & xs & Hidx & Hall & Hout & Hrest & Hst).
           exists ((i, false, c) :: pre), rest, (w :: xs).
           split; [change (indexed i (c :: c' :: t')) with ((i, false, c) :: indexed (i + 1) (c' :: t'));
                   rewrite Hidx; reflexivity|].
           split; [constructor; [exact Efn|exact Hall]|].
           split; [cbn [concat]; rewrite Hout, <- app_assoc; reflexivity|].
           split; [|exact Hst]. destruct Hrest as [Hr|Hr]; [left; exact Hr|discriminate].
      * injection Hrun as <- <-. exists [], (indexed i (c :: c' :: t')), [].
        cbn [concat app]. rewrite app_nil_r. split; [reflexivity|]. split; [constructor|].
        split; [reflexivity|]. split; [left; discriminate|discriminate].
Qed.

Lemma run_any_inv fn eof cs i out0 out st :
  run_any eof fn i cs out0 = (out, st) ->
  exists pre rest xs, indexed i cs = pre ++ rest /\ Forall2 (opens fn) pre xs /\
                      out = out0 ++ concat xs /\ (st = SClean -> rest = [] /\ eof = true).
Proof.
  destruct eof; cbn [run_any]; intros Hrun.
  - apply run_chunks_inv in Hrun as (pre & rest & xs & H1 & H2 & H3 & H4).
    exists pre, rest, xs. repeat split; try assumption. apply H4; assumption.
  - apply run_chunks_fail_inv in Hrun as (pre & rest & xs & H1 & H2 & H3 & _ & H5).
    exists pre, rest, xs. repeat split; try assumption; contradiction.
Qed.

(* ------------------------------------------------------------------------------------- *)
(* decrypt_stream on arbitrary input: what a returned stream implies *)

Section Inv.
  Variable C : crypto.

  Lemma decrypt_segment_open cph pk np c k l x :
    decrypt_segment C cph pk np c k l = Some x ->
    open C cph pk (nonce_for_segment np k l) c = Some x.
  Proof. unfold decrypt_segment. destruct c; [discriminate|intro E; exact E]. Qed.

  Lemma decrypt_stream_inv v S H unwrap optkn sc out st :
    decrypt_stream C v S H unwrap optkn sc = DecStream out st ->
    exists man mac r m,
      read_header H {| script := sc; closes := 0 |} = Some (Some (man, mac, r)) /\
      parse_manifest C man = Some m /\ manifest_valid m = true /\
      let fk := effective_key v unwrap optkn m in
      verify_header C fk man mac = Some true /\
      process_segments (S + 16)
        (decrypt_segment C (m_cph m) (payload_key C fk (m_np m)) (m_np m)) (script r) = (out, st).
  Proof.
    unfold decrypt_stream.
    destruct (read_header H {| script := sc; closes := 0 |}) as [[[[man mac] r]|]|] eqn:Hrh; try discriminate.
    destruct (parse_manifest C man) as [m|] eqn:Hpm; try discriminate.
    destruct (manifest_valid m) eqn:Hval; cbn [negb]; try discriminate.
    fold (dec_key_name optkn m).
    destruct (is_nil (dec_key_name optkn m)); try discriminate.
    intros Hd. exists man, mac, r, m. split; [reflexivity|]. split; [exact Hpm|]. split; [exact Hval|].
    unfold effective_key. cbv zeta. revert Hd.
    destruct (unwrap (m_wfk m) (kwalg_name (m_kw m)) (dec_key_name optkn m)) as [fkb uerr].
    set (failed := match v with
                   | Original => negb (Nat.eqb (length fkb) 32)
                   | Fixed => uerr || negb (Nat.eqb (length fkb) 32)
                   end).
    intros Hd. revert Hd.
    destruct (verify_header C (if failed then zero_key else fkb) man mac) as [[|]|]; try discriminate.
    destruct (is_fixed v && failed); try discriminate.
    destruct (process_segments _ _ _) as [o s]. intros Hd. injection Hd as <- <-. split; reflexivity.
  Qed.
End Inv.
