(* C02 — source-table tie.  C02's theorems are stated about the decrypt model of C01 (Model.v,
   Manifest.v) and about C02/Defs.v, whose [tried] / [effective_key] repeat the 16-byte overhead
   and the 32-byte key of [decrypt_stream]; the table is C01's (harness/srctab02 regenerates the
   same items from /repo/schemes/enc/v1), plus the test that Defs.v agrees with the model on
   those two numbers. *)
From Kit Require Import Lib.SrcTab C01.Model C02.Defs.
From Kit Require Export C01.SrcTab.
From Coq Require Import String.
Local Open Scope string_scope.

(* Defs.effective_key turns a key of the wrong length into the zero key: the length it insists on *)
Definition defs_keylen_ok (z : Z) : bool :=
  let m := mkManifest [] A256KW [1%N] AESGCM [] in
  let key n := effective_key Fixed (fun _ _ _ => (repeat 9%N n, false)) [] m in
  eqb_listN (key (Z.to_nat z)) (repeat 9%N (Z.to_nat z))
  && eqb_listN (key (Z.to_nat z + 1)) zero_key && eqb_listN (key (Z.to_nat z - 1)) zero_key.

(* Defs.tried cuts the payload into pieces of S + overhead bytes *)
Definition defs_overhead_ok (z : Z) : bool :=
  match tried 2 (repeat 7%N (2 * (2 + Z.to_nat z))) with
  | [(_, _, a); (_, _, b)] => Nat.eqb (List.length a) (2 + Z.to_nat z) && Nat.eqb (List.length b) (2 + Z.to_nat z)
  | _ => false
  end.

Definition table : list entry :=
  (C01.SrcTab.table
   ++ [ ("enc.Decrypt.fileKeyLength/Defs", on_Z defs_keylen_ok);
        ("enc.SegmentOverhead/Defs", on_Z defs_overhead_ok) ])%list.

Definition run_cases := run_tab table.
