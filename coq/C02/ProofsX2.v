(* C02 — the theorems of C02/Proofs.v once more, for the model over the EXTENDED readers
   (C01/ReaderX.v, C01/ModelX.v: a Read may return data TOGETHER with a non-EOF error, once or
   for ever, anywhere), i.e. for the function the correspondence check evaluates
   ([decrypt_stream_x C v Fixed]):
   G1  [decrypt_stream_x_definite]: the model's fuel always suffices (never [DEFuel], never
       [SOutOfFuel]); [decrypt_stream_x_no_unexpected_eof]: the two ErrUnexpectedEOF guards of
       processSegments are dead code under the reader contract;
   G2  [psegx_inv] / [process_segments_x_inv]: what the segment loop released, on ANY extended
       script; [release_after_open_x];
   G3  [prefix_only_x], [clean_implies_same_payload_x] under the forgery-exclusion premises
       stated on the extended input;
   G4  [model_meets_oracle_x].
   Non-vacuity examples on the concrete primitives: C02/ProofsX2_Concrete.v.
   Stdlib style.  No axioms. *)
From Kit Require Import C01.ModelX C02.Defs C02.Proofs_Lists Lib.ReaderFacts
     C01.Proofs_Segments C01.Proofs_Header C01.Proofs_Manifest C01.Proofs_Roundtrip
     C02.Proofs C02.ProofsX.
From Coq Require Import Lia ZifyNat ZifyN ZifyBool.
Local Open Scope list_scope.

(* ------------------------------------------------------------------------------------- *)
(* the inner read loop on any extended script                                              *)

Section FillX.
  Variable S : nat.

  (* outcome of the inner read loop: [d] = the bytes it took from the source.  After a failure
     the rest of the script is arbitrary (it may go on delivering data). *)
  Definition fillx_post (buf : list N) (r : list rdx) (buf' : list N) (e : err) (r' : list rdx)
    : Prop :=
    exists d, buf' = buf ++ d /\ xdata r = d ++ xdata r' /\ length buf' <= S + 1 /\
              ((e = ENil /\ length buf' = S + 1 /\ xends_eof r' = xends_eof r)
               \/ (e = EEOF /\ r' = [] /\ xends_eof r = true)
               \/ (e = EFail /\ xends_eof r = false)).

  (* with fuel above [xfuel r] the loop never runs out of fuel *)
  Lemma fillx_spec : forall fuel r buf,
    xfuel r < fuel -> length buf <= S + 1 ->
    exists buf' e r', fillx S fuel buf ENil r = Some (buf', e, r') /\ fillx_post buf r buf' e r'.
  Proof.
    induction fuel as [|f IH]; intros r buf Hf Hb; [lia|].
    destruct (Nat.ltb (length buf) (S + 1)) eqn:Hlt.
    - apply Nat.ltb_lt in Hlt.
      cbn [fillx]. rewrite (proj2 (Nat.ltb_lt _ _) Hlt). cbn [err_is_nil negb].
      rewrite andb_true_l. cbn [negb].
      destruct (xread (S + 1 - length buf) r) as [[bs e] r'] eqn:Hr.
      destruct (xread_step _ _ _ _ _ Hr) as (Hlen & Hd & He).
      destruct e; try contradiction.
      + destruct He as [Heof Hfuel]. specialize (Hfuel ltac:(lia)).
        destruct (IH r' (buf ++ bs)) as (buf' & e' & r'' & Hfill & d & Hb' & Hd' & Hl' & Hcase).
        * lia.
        * rewrite app_length. lia.
        * exists buf', e', r''. split; [exact Hfill|].
          exists (bs ++ d). split; [rewrite Hb', app_assoc; reflexivity|].
          split; [rewrite Hd, Hd', app_assoc; reflexivity|].
          split; [exact Hl'|]. rewrite <- Heof. exact Hcase.
      + destruct He as [Heof Hnil].
        exists (buf ++ bs), EEOF, r'. split.
        * destruct f; cbn [fillx err_is_nil negb]; rewrite andb_false_r; reflexivity.
        * exists bs. split; [reflexivity|]. split; [exact Hd|].
          split; [rewrite app_length; lia|]. right; left. repeat split; assumption.
      + exists (buf ++ bs), EFail, r'. split.
        * destruct f; cbn [fillx err_is_nil negb]; rewrite andb_false_r; reflexivity.
        * exists bs. split; [reflexivity|]. split; [exact Hd|].
          split; [rewrite app_length; lia|]. right; right. split; [reflexivity|exact He].
    - apply Nat.ltb_ge in Hlt.
      exists buf, ENil, r. split.
      + cbn [fillx]. rewrite (proj2 (Nat.ltb_ge _ _) Hlt). reflexivity.
      + exists []. rewrite app_nil_r. split; [reflexivity|]. split; [reflexivity|].
        split; [exact Hb|]. left. repeat split. lia.
  Qed.

  Corollary fillx_definite fuel r buf :
    xfuel r < fuel -> length buf <= S + 1 -> fillx S fuel buf ENil r <> None.
  Proof.
    intros Hf Hb. destruct (fillx_spec fuel r buf Hf Hb) as (b & e & r' & -> & _). discriminate.
  Qed.
End FillX.

(* ------------------------------------------------------------------------------------- *)
(* the header loop never runs out of fuel                                                  *)

Section HdrFuel.
  Variable H : nat.

  Lemma rh_loopx_definite : forall fuel n st r,
    xfuel r < fuel -> n <= H -> rh_loopx H fuel n st r <> HXFuel.
  Proof.
    induction fuel as [|f IH]; intros n st r Hf Hn; [lia|].
    cbn [rh_loopx].
    destruct (Nat.leb 3 (h_nl st)); [discriminate|].
    destruct (Nat.eqb n H) eqn:En; [discriminate|].
    apply Nat.eqb_neq in En.
    destruct (xread (H - n) r) as [[bs e] r'] eqn:Hr.
    destruct (xread_step _ _ _ _ _ Hr) as (Hlen & _ & He).
    destruct bs as [|b bs].
    - destruct e; cbn [err_is_nil]; try discriminate.
      destruct He as [_ Hfuel]. specialize (Hfuel ltac:(lia)). apply IH; lia.
    - destruct (scan (b :: bs) st) as [[st' rest]|]; [|discriminate].
      destruct e; cbn [err_is_nil]; rewrite ?andb_false_l; try discriminate.
      rewrite andb_true_l.
      destruct (negb (Nat.leb 3 (h_nl st'))); [|discriminate].
      destruct He as [_ Hfuel]. specialize (Hfuel ltac:(lia)). apply IH; lia.
  Qed.

  Lemma read_header_x_definite hv r : read_header_x H hv r <> None.
  Proof.
    unfold read_header_x.
    pose proof (rh_loopx_definite (Datatypes.S (xfuel r)) 0 hst0 r ltac:(lia) ltac:(lia)) as Hl.
    destruct (rh_loopx H (Datatypes.S (xfuel r)) 0 hst0 r) as [| |st extra r' e];
      [congruence|discriminate|].
    destruct (is_fixed hv && negb (err_is_nil e) && negb (err_is_eof e)); [discriminate|].
    destruct (Nat.ltb (h_nl st) 1); [discriminate|].
    destruct (is_nil (h_man st)); [discriminate|].
    destruct (is_nil (h_mac st)); discriminate.
  Qed.
End HdrFuel.

(* ------------------------------------------------------------------------------------- *)
(* one iteration of the segment loop on any extended script                                *)

Section SegX2.
  Variable S : nat.
  Variable fn : list N -> N -> bool -> option (list N).
  Hypothesis HS : 0 < S.

  (* The three ways one iteration of "for !done" goes.  [q] = carry-over byte ++ all the data
     the source has yet to deliver; [buf] = what the iteration buffered of it.
     (A) the source reported a non-EOF error (alone or with data): the buffered bytes are
         dropped, the stream ends with the source's error;
     (B) S+1 bytes buffered: the first S are processed as a NON-final piece and the loop goes
         on with the last one carried over;
     (C) end of file with at most S bytes buffered: they are the final piece. *)
  Lemma psegx_step f r seg carry out :
    exists buf r1,
      carry_list carry ++ xdata r = buf ++ xdata r1 /\
      ( (xends_eof r = false /\
         psegx S fn (Datatypes.S f) r seg carry ENil out = (out, SSrcFail))
      \/ (exists data c, buf = data ++ [c] /\ length data = S /\
          xends_eof r1 = xends_eof r /\
          psegx S fn (Datatypes.S f) r seg carry ENil out =
            match fn data seg false with
            | None => (out, SProcFail)
            | Some w => if (seg =? max_segment)%N then (out ++ w, STooLarge)
                        else psegx S fn f r1 (seg + 1)%N (Some c) ENil (out ++ w)
            end)
      \/ (r1 = [] /\ xends_eof r = true /\ length buf <= S /\
          psegx S fn (Datatypes.S f) r seg carry ENil out =
            match buf with
            | [] => if (seg =? 0)%N then (out, SClean) else (out, SUnexpectedEOF)
            | _ => match fn buf seg true with
                   | None => (out, SProcFail)
                   | Some w => (out ++ w, SClean)
                   end
            end)).
  Proof.
    assert (Hc : length (carry_list carry) <= S + 1) by (destruct carry; cbn; lia).
    destruct (fillx_spec S (Datatypes.S (xfuel r)) r (carry_list carry))
      as (buf & e1 & r1 & Hfill & d & Hbuf & Hd & Hlen & Hcase); [lia|exact Hc|].
    exists buf, r1. split; [rewrite Hbuf, Hd, app_assoc; reflexivity|].
    (* the "big" branch *)
    assert (Hbig : length buf = S + 1 -> xends_eof r1 = xends_eof r ->
                   negb (err_is_nil e1) && negb (err_is_eof e1) = false ->
      exists data c, buf = data ++ [c] /\ length data = S /\
          xends_eof r1 = xends_eof r /\
          psegx S fn (Datatypes.S f) r seg carry ENil out =
            match fn data seg false with
            | None => (out, SProcFail)
            | Some w => if (seg =? max_segment)%N then (out ++ w, STooLarge)
                        else psegx S fn f r1 (seg + 1)%N (Some c) ENil (out ++ w)
            end).
    { intros Hfull Heof1 He1.
      replace (S + 1) with (Datatypes.S S) in Hfull by lia.
      destruct (removelast_last_length buf S Hfull) as [Ebuf Hdl].
      exists (removelast buf), (last buf 0%N).
      split; [exact Ebuf|]. split; [exact Hdl|]. split; [exact Heof1|].
      cbn [psegx]. fold (carry_list carry). rewrite Hfill, He1. cbv zeta.
      rewrite (proj2 (Nat.ltb_lt S (length buf))) by lia.
      cbn [negb]. rewrite andb_true_r, andb_true_l.
      rewrite (proj2 (Nat.ltb_ge (length (removelast buf)) S)) by lia.
      destruct (removelast buf) as [|x data'] eqn:Edata; [cbn [length] in Hdl; lia|].
      reflexivity. }
    destruct Hcase as [(He & Hfull & Heof1) | [(He & Hs1 & Heof0) | (He & Heof0)]].
    - right; left. subst e1. apply Hbig; [exact Hfull|exact Heof1|reflexivity].
    - subst e1.
      destruct (Nat.eq_dec (length buf) (S + 1)) as [Hfull|Hnfull].
      + right; left. apply Hbig; [exact Hfull| |reflexivity].
        rewrite Hs1, Heof0. reflexivity.
      + right; right. split; [exact Hs1|]. split; [exact Heof0|]. split; [lia|].
        cbn [psegx]. fold (carry_list carry). rewrite Hfill.
        cbn [err_is_nil err_is_eof negb]. rewrite andb_false_r. cbv zeta.
        rewrite (proj2 (Nat.ltb_ge S (length buf))) by lia.
        cbn [negb]. rewrite andb_false_r, andb_false_l.
        destruct buf as [|x buf']; reflexivity.
    - left. subst e1. split; [exact Heof0|].
      cbn [psegx]. fold (carry_list carry). rewrite Hfill. reflexivity.
  Qed.
End SegX2.

(* ------------------------------------------------------------------------------------- *)
(* G1 (segment loop): the fuel suffices; ErrUnexpectedEOF is unreachable.                  *)
(* G2: what the segment loop released.                                                     *)

Section SegX3.
  Variable S : nat.
  Variable fn : list N -> N -> bool -> option (list N).
  Hypothesis HS : 0 < S.

  (* each iteration that goes on consumed S >= 1 bytes of (carry-over ++ data to come) *)
  Lemma psegx_definite : forall fuel r seg carry out,
    length (carry_list carry ++ xdata r) < fuel ->
    snd (psegx S fn fuel r seg carry ENil out) <> SOutOfFuel.
  Proof.
    induction fuel as [|f IH]; intros r seg carry out Hf; [lia|].
    destruct (psegx_step S fn HS f r seg carry out)
      as (buf & r1 & Hq & [(_ & ->) | [(data & c & Hb & Hdl & _ & ->) | (_ & _ & _ & ->)]]).
    - cbn [snd]. discriminate.
    - destruct (fn data seg false) as [w|]; [|cbn [snd]; discriminate].
      destruct (seg =? max_segment)%N; [cbn [snd]; discriminate|].
      apply IH. rewrite Hq, Hb in Hf. cbn [carry_list].
      rewrite !app_length in Hf. rewrite app_length. cbn [length] in Hf |- *. lia.
    - destruct buf as [|x b].
      + destruct (seg =? 0)%N; cbn [snd]; discriminate.
      + destruct (fn (x :: b) seg true); cbn [snd]; discriminate.
  Qed.

  (* the guards "n < segmentSize && !done" and "n == 0 (&& segment > 0)" never fire: a
     non-final iteration has S+1 bytes, and an iteration after the first starts with the
     carry-over byte *)
  Lemma psegx_no_unexpected_eof : forall fuel r seg carry out,
    seg = 0%N \/ carry_list carry ++ xdata r <> [] ->
    snd (psegx S fn fuel r seg carry ENil out) <> SUnexpectedEOF.
  Proof.
    induction fuel as [|f IH]; intros r seg carry out Hseg; [cbn; discriminate|].
    destruct (psegx_step S fn HS f r seg carry out)
      as (buf & r1 & Hq & [(_ & ->) | [(data & c & Hb & Hdl & _ & ->) | (Hr1 & _ & _ & ->)]]).
    - cbn [snd]. discriminate.
    - destruct (fn data seg false) as [w|]; [|cbn [snd]; discriminate].
      destruct (seg =? max_segment)%N; [cbn [snd]; discriminate|].
      apply IH. right. cbn [carry_list app]. discriminate.
    - destruct buf as [|x b].
      + subst r1. cbn [xdata app] in Hq.
        destruct Hseg as [-> | Hne]; [cbn; discriminate | contradiction].
      + destruct (fn (x :: b) seg true); cbn [snd]; discriminate.
  Qed.

  (* What a run of the loop released, in the shape of [run_any_inv] (C02/Proofs_Lists.v):
     [q] = ALL the data the source delivers (with the carry-over byte in front), cut into pieces
     of S bytes with the coordinates [indexed] gives them; [pre] = the pieces processFn was
     called on successfully — an initial run of them, each with the flag of its position in the
     WHOLE data (so a non-final call never hits the last piece, and the final call only the
     last piece); a clean end means every piece was processed and the source ended in EOF. *)
  Definition seg_inv (seg : N) (q : list N) (eofb : bool) (out0 out : list N) (st : sstatus)
    : Prop :=
    exists pre rest xs,
      indexed seg (chunks S q) = pre ++ rest /\ Forall2 (opens fn) pre xs /\
      out = out0 ++ concat xs /\ (st = SClean -> rest = [] /\ eofb = true).

  Lemma seg_inv_none seg q eofb out st : st <> SClean -> seg_inv seg q eofb out out st.
  Proof.
    intros Hst. exists [], (indexed seg (chunks S q)), []. cbn [app concat].
    rewrite app_nil_r. repeat split; try contradiction. constructor.
  Qed.

  Lemma psegx_inv : forall fuel r seg carry out0 out st,
    psegx S fn fuel r seg carry ENil out0 = (out, st) ->
    seg_inv seg (carry_list carry ++ xdata r) (xends_eof r) out0 out st.
  Proof.
    induction fuel as [|f IH]; intros r seg carry out0 out st Hrun.
    { cbn [psegx] in Hrun. injection Hrun as <- <-. apply seg_inv_none. discriminate. }
    destruct (psegx_step S fn HS f r seg carry out0)
      as (buf & r1 & Hq & [(_ & Hstep) | [(data & c & Hb & Hdl & Heof & Hstep)
                                         | (Hr1 & Heof & Hle & Hstep)]]);
      rewrite Hstep in Hrun; clear Hstep.
    - injection Hrun as <- <-. apply seg_inv_none. discriminate.
    - assert (Hch : chunks S (carry_list carry ++ xdata r) = data :: chunks S ([c] ++ xdata r1))
        by (rewrite Hq, Hb, <- app_assoc, chunks_app_full by assumption; reflexivity).
      assert (Ht : chunks S ([c] ++ xdata r1) <> []).
      { intro E. apply chunks_nil_iff in E; [discriminate|exact HS]. }
      assert (Hidx : indexed seg (data :: chunks S ([c] ++ xdata r1))
                     = (seg, false, data) :: indexed (seg + 1) (chunks S ([c] ++ xdata r1))).
      { cbn [indexed]. destruct (chunks S ([c] ++ xdata r1)); [congruence|reflexivity]. }
      destruct (fn data seg false) as [w|] eqn:Efn.
      + destruct (seg =? max_segment)%N.
        * injection Hrun as <- <-. unfold seg_inv. rewrite Hch.
          exists [(seg, false, data)], (indexed (seg + 1) (chunks S ([c] ++ xdata r1))), [w].
          split; [exact Hidx|]. split; [constructor; [exact Efn|constructor]|].
          split; [cbn [concat]; rewrite app_nil_r; reflexivity|discriminate].
        * apply IH in Hrun as (pre & rest & xs & Hidx' & Hall & Hout & Hclean).
          cbn [carry_list] in Hidx'. unfold seg_inv. rewrite Hch.
          exists ((seg, false, data) :: pre), rest, (w :: xs).
          split; [rewrite Hidx, Hidx'; reflexivity|].
          split; [constructor; [exact Efn|exact Hall]|].
          split; [cbn [concat]; rewrite Hout, <- app_assoc; reflexivity|].
          intros Hst. destruct (Hclean Hst) as [Hrest He]. split; [exact Hrest|congruence].
      + injection Hrun as <- <-. apply seg_inv_none. discriminate.
    - subst r1. cbn [xdata] in Hq. rewrite app_nil_r in Hq. rewrite Hq.
      destruct buf as [|x b].
      + destruct (seg =? 0)%N; injection Hrun as <- <-; [|apply seg_inv_none; discriminate].
        unfold seg_inv. exists [], [], []. cbn [app concat]. rewrite app_nil_r, chunks_nil.
        repeat split; try assumption. constructor.
      + destruct (fn (x :: b) seg true) as [w|] eqn:Efn; injection Hrun as <- <-;
          [|apply seg_inv_none; discriminate].
        unfold seg_inv. rewrite chunks_short by (assumption || discriminate).
        exists [(seg, true, x :: b)], [], [w]. cbn [indexed is_nil app concat].
        rewrite app_nil_r. repeat split; try assumption.
        constructor; [exact Efn|constructor].
  Qed.

  (* G2 for processSegments *)
  Theorem process_segments_x_inv r out st :
    process_segments_x S fn r = (out, st) ->
    exists pre rest xs,
      indexed 0%N (chunks S (xdata r)) = pre ++ rest /\ Forall2 (opens fn) pre xs /\
      out = concat xs /\ (st = SClean -> rest = [] /\ xends_eof r = true).
  Proof.
    unfold process_segments_x. intros Hrun.
    apply psegx_inv in Hrun. exact Hrun.
  Qed.

  (* the same with the processed pieces written as a prefix of the pieces of all the data *)
  Corollary process_segments_x_inv_firstn r out st :
    process_segments_x S fn r = (out, st) ->
    exists ys,
      out = concat ys /\
      Forall2 (opens fn) (firstn (length ys) (indexed 0%N (chunks S (xdata r)))) ys /\
      length ys <= length (chunks S (xdata r)) /\
      (st = SClean -> length ys = length (chunks S (xdata r)) /\ xends_eof r = true).
  Proof.
    intros Hrun.
    apply process_segments_x_inv in Hrun as (pre & rest & xs & Hidx & Hall & Hout & Hclean).
    pose proof (Forall2_len _ _ _ Hall) as Hlen.
    pose proof (indexed_length (chunks S (xdata r)) 0%N) as Hil.
    rewrite Hidx, app_length in Hil.
    exists xs. split; [exact Hout|].
    split; [rewrite Hidx, <- Hlen, firstn_app, Nat.sub_diag, firstn_all; cbn [firstn];
            rewrite app_nil_r; exact Hall|].
    split; [lia|].
    intros Hst. destruct (Hclean Hst) as [-> He]. cbn [length] in Hil. split; [lia|exact He].
  Qed.

  Theorem process_segments_x_definite r :
    snd (process_segments_x S fn r) <> SOutOfFuel /\
    snd (process_segments_x S fn r) <> SUnexpectedEOF.
  Proof.
    unfold process_segments_x. split.
    - apply psegx_definite. cbn [carry_list app]. lia.
    - apply psegx_no_unexpected_eof. left. reflexivity.
  Qed.
End SegX3.

(* ------------------------------------------------------------------------------------- *)
(* Decrypt over any extended script                                                        *)

Section StreamX2.
  Variable C : crypto.

  (* what a returned stream implies (the X counterpart of [decrypt_stream_inv]) *)
  Lemma decrypt_stream_x_inv_full v hv S H unwrap optkn xs out st :
    decrypt_stream_x C v hv S H unwrap optkn xs = DecStream out st ->
    exists man mac r m,
      read_header_x H hv xs = Some (Some (man, mac, r)) /\
      parse_manifest C man = Some m /\ manifest_valid m = true /\
      let fk := effective_key v unwrap optkn m in
      verify_header C fk man mac = Some true /\
      process_segments_x (S + 16)
        (decrypt_segment C (m_cph m) (payload_key C fk (m_np m)) (m_np m)) r = (out, st).
  Proof.
    unfold decrypt_stream_x.
    destruct (read_header_x H hv xs) as [[[[man mac] r]|]|] eqn:Hrh; try discriminate.
    destruct (parse_manifest C man) as [m|] eqn:Hpm; try discriminate.
    destruct (manifest_valid m) eqn:Hval; cbn [negb]; try discriminate.
    fold (dec_key_name optkn m).
    destruct (is_nil (dec_key_name optkn m)); try discriminate.
    intros Hd. exists man, mac, r, m. split; [reflexivity|]. split; [exact Hpm|].
    split; [exact Hval|].
    unfold effective_key. cbv zeta. revert Hd.
    destruct (unwrap (m_wfk m) (kwalg_name (m_kw m)) (dec_key_name optkn m)) as [fkb uerr].
    set (failed := match v with
                   | Original => negb (Nat.eqb (length fkb) 32)
                   | Fixed => uerr || negb (Nat.eqb (length fkb) 32)
                   end).
    intros Hd. revert Hd.
    destruct (verify_header C (if failed then zero_key else fkb) man mac) as [[|]|];
      try discriminate.
    destruct (is_fixed v && failed); try discriminate.
    destruct (process_segments_x _ _ _) as [o s]. intros Hd. injection Hd as <- <-.
    split; reflexivity.
  Qed.

  Lemma decrypt_stream_x_fuel_inv v hv S H unwrap optkn xs :
    decrypt_stream_x C v hv S H unwrap optkn xs = DecCallError DEFuel ->
    read_header_x H hv xs = None.
  Proof.
    unfold decrypt_stream_x.
    destruct (read_header_x H hv xs) as [[[[man mac] r]|]|]; try discriminate; [|reflexivity].
    destruct (parse_manifest C man) as [m|]; try discriminate.
    destruct (negb (manifest_valid m)); try discriminate.
    destruct (is_nil (if is_nil optkn then m_k m else optkn)); try discriminate.
    destruct (unwrap (m_wfk m) (kwalg_name (m_kw m)) (if is_nil optkn then m_k m else optkn))
      as [fkb uerr].
    cbv zeta.
    destruct (verify_header C _ man mac) as [[|]|]; try discriminate.
    destruct (is_fixed v && _); try discriminate.
    destruct (process_segments_x _ _ _) as [o s]. discriminate.
  Qed.

  (* G1: for every finite extended script — whatever it delivers, whatever errors it reports,
     with or without data, once or for ever — Decrypt ends with a definite outcome: the model's
     fuel (S (xfuel r) for the read loops, S (S (length (xdata r))) for the segment loop) always
     suffices.  No premise. *)
  Theorem decrypt_stream_x_definite v hv S H unwrap optkn xs :
    decrypt_stream_x C v hv S H unwrap optkn xs <> DecCallError DEFuel /\
    (forall out, decrypt_stream_x C v hv S H unwrap optkn xs <> DecStream out SOutOfFuel).
  Proof.
    split.
    - intros Hd. apply decrypt_stream_x_fuel_inv in Hd.
      exact (read_header_x_definite H hv xs Hd).
    - intros out Hd.
      apply decrypt_stream_x_inv in Hd as (man & mac & r & fn & _ & Hps).
      destruct (process_segments_x_definite (S + 16) fn ltac:(lia) r) as [Hnf _].
      rewrite Hps in Hnf. apply Hnf. reflexivity.
  Qed.

  (* ... and never with io.ErrUnexpectedEOF: both guards of processSegments are dead code under
     the io.Reader contract *)
  Theorem decrypt_stream_x_no_unexpected_eof v hv S H unwrap optkn xs out :
    decrypt_stream_x C v hv S H unwrap optkn xs <> DecStream out SUnexpectedEOF.
  Proof.
    intros Hd.
    apply decrypt_stream_x_inv in Hd as (man & mac & r & fn & _ & Hps).
    destruct (process_segments_x_definite (S + 16) fn ltac:(lia) r) as [_ Hnu].
    rewrite Hps in Hnu. apply Hnu. reflexivity.
  Qed.

  (* T1 over the extended readers, with the clean-end clause added.  No premise: whatever the input script and the unwrap
     callback, bytes are released only after the header MAC verified under the key in use, and
     every released chunk is the result of a successful AEAD open of the piece of the delivered
     data at its position, under the nonce of that position and finality. *)
  Theorem release_after_open_x_strong v hv S H unwrap optkn xs out st :
    decrypt_stream_x C v hv S H unwrap optkn xs = DecStream out st ->
    exists man' mac' r' m',
      read_header_x H hv xs = Some (Some (man', mac', r')) /\
      parse_manifest C man' = Some m' /\ manifest_valid m' = true /\
      let fk' := effective_key v unwrap optkn m' in
      verify_header C fk' man' mac' = Some true /\
      exists ys, out = concat ys /\
        length ys <= length (tried S (xdata r')) /\
        (st = SClean -> length ys = length (tried S (xdata r')) /\ xends_eof r' = true) /\
        forall j, j < length ys -> exists i last c,
          nth_error (tried S (xdata r')) j = Some (i, last, c) /\
          open C (m_cph m') (payload_key C fk' (m_np m')) (nonce_for_segment (m_np m') i last) c
          = Some (nth j ys []).
  Proof.
    intros Hd.
    apply decrypt_stream_x_inv_full in Hd as (man & mac & r & m & Hrh & Hpm & Hval & Hrest).
    cbv zeta in Hrest. destruct Hrest as [Hver Hps].
    exists man, mac, r, m. split; [exact Hrh|]. split; [exact Hpm|]. split; [exact Hval|].
    cbv zeta. split; [exact Hver|].
    apply process_segments_x_inv in Hps as (pre & rest & ys & Hidx & Hall & Hout & Hclean);
      [|lia].
    fold (tried S (xdata r)) in Hidx.
    exists ys. split; [exact Hout|].
    pose proof (Forall2_len _ _ _ Hall) as Hlen.
    split; [rewrite Hidx, app_length; lia|].
    split.
    { intros Hst. destruct (Hclean Hst) as [-> He].
      rewrite Hidx, app_length. cbn [length]. split; [lia|exact He]. }
    intros j Hj.
    destruct (Forall2_nth_l _ [] _ _ Hall j Hj) as ([[i last] c] & Hn & Hop).
    exists i, last, c. split.
    - rewrite Hidx, nth_error_app1 by lia. exact Hn.
    - unfold opens in Hop. cbn [fst snd] in Hop. apply decrypt_segment_open in Hop. exact Hop.
  Qed.

  (* the statement of [release_after_open] (C02/Proofs.v) word for word, with
     [decrypt_stream_x C v hv], [read_header_x H hv xs] and [xdata r'] *)
  Theorem release_after_open_x v hv S H unwrap optkn xs out st :
    decrypt_stream_x C v hv S H unwrap optkn xs = DecStream out st ->
    exists man' mac' r' m',
      read_header_x H hv xs = Some (Some (man', mac', r')) /\
      parse_manifest C man' = Some m' /\ manifest_valid m' = true /\
      let fk' := effective_key v unwrap optkn m' in
      verify_header C fk' man' mac' = Some true /\
      exists ys, out = concat ys /\
        length ys <= length (tried S (xdata r')) /\
        forall j, j < length ys -> exists i last c,
          nth_error (tried S (xdata r')) j = Some (i, last, c) /\
          open C (m_cph m') (payload_key C fk' (m_np m')) (nonce_for_segment (m_np m') i last) c
          = Some (nth j ys []).
  Proof.
    intros Hd.
    destruct (release_after_open_x_strong _ _ _ _ _ _ _ _ _ Hd)
      as (man & mac & r & m & Hrh & Hpm & Hval & Hrest).
    cbv zeta in Hrest. destruct Hrest as (Hver & ys & Hout & Hlen & _ & Hnth).
    exists man, mac, r, m. split; [exact Hrh|]. split; [exact Hpm|]. split; [exact Hval|].
    cbv zeta. split; [exact Hver|]. exists ys. split; [exact Hout|]. split; [exact Hlen|exact Hnth].
  Qed.
End StreamX2.

(* ------------------------------------------------------------------------------------- *)
(* G3 / G4: under the forgery-exclusion premises, stated on the extended input             *)

Section C02X.
  Variable C : crypto.
  Variables S H : nat.
  Hypothesis Hok : crypto_ok C.
  Hypothesis HS : 0 < S.

  (* The middle part of [tamper_core] (C02/Proofs.v), independent of the model that produced
     the facts: if an initial run [pre] of the pieces of the input payload [d] opened (to [xs])
     under the payload key of (m, fk) with the nonces of their coordinates, and no piece of [d]
     is a forgery, then [xs] is an initial run of the plaintext chunks of [p]; and if ALL pieces
     of [d] opened, [d] is the original payload (or empty). *)
  Lemma opened_pieces_are_original m fk p d pre rest xs :
    length (m_np m) = 7 ->
    forge_free C S m fk p d ->
    indexed 0%N (chunks (S + 16) d) = pre ++ rest ->
    Forall2 (opens (decrypt_segment C (m_cph m) (payload_key C fk (m_np m)) (m_np m))) pre xs ->
    exists cs1 cs2,
      chunks S p = cs1 ++ cs2 /\ xs = cs1 /\
      (rest = [] -> (d = payload_of C S m fk p /\ cs2 = []) \/ (d = [] /\ cs1 = [])).
  Proof.
    intros Hnp Hff Hidx Hall.
    assert (Hall' : Forall2 (opens_spec C m fk) pre xs).
    { eapply Forall2_mono; [|exact Hall]. intros [[k l] c] x Hop.
      unfold opens in Hop. cbn [fst snd] in Hop. apply decrypt_segment_open in Hop.
      rewrite nonce_spec in Hop by exact Hnp. exact Hop. }
    assert (Hin : Forall (fun t => In t (indexed 0 (spec_segments C S m fk p))) pre).
    { eapply Forall2_Forall_l; [exact Hall'|]. intros [[k l] c] x Hp Hop.
      apply (Hff k l c x); [unfold tried; rewrite Hidx; apply in_or_app; left; exact Hp|exact Hop]. }
    destruct (indexed_agree pre 0%N _ _ rest Hidx Hin) as [rest' Hseg].
    pose proof (seal_chunks_opens C Hok m fk (chunks S p) 0%N) as Hopen.
    fold (spec_segments C S m fk p) in Hopen. rewrite Hseg in Hopen.
    apply Forall2_app_inv_l in Hopen as (cs1 & cs2 & Hpre & Hrest' & Hcs).
    assert (Exs : xs = cs1).
    { eapply Forall2_functional; [|exact Hall'|exact Hpre].
      intros a x y Hx Hy. unfold opens_spec in Hx, Hy. congruence. }
    exists cs1, cs2. split; [exact Hcs|]. split; [exact Exs|].
    intros Hr. subst rest. rewrite app_nil_r in Hidx.
    destruct (chunks (S + 16) d) as [|a A] eqn:EA.
    - right. split.
      + apply (chunks_nil_iff (S + 16)); [lia|exact EA].
      + cbn [indexed] in Hidx. subst pre. inversion Hpre. reflexivity.
    - left. rewrite <- Hidx in Hseg.
      assert (Hr' : rest' = []) by (eapply indexed_prefix_full; [|exact Hseg]; discriminate).
      subst rest'. rewrite app_nil_r in Hseg. apply indexed_inj in Hseg.
      split; [|inversion Hrest'; reflexivity].
      unfold payload_of. rewrite Hseg, <- EA. symmetry. apply chunks_concat. lia.
  Qed.

  (* The hypotheses, for one extended input [xs] and the original (m, fk, p) *)
  Definition no_forgery_x (xs : list rdx) (m : manifest) (fk p : list N) : Prop :=
    forall man' mac' r',
      read_header_x H Fixed xs = Some (Some (man', mac', r')) ->
      hmac_forge_free C m fk man' mac' /\ forge_free C S m fk p (xdata r').

  Definition key_recovered_x v unwrap optkn (xs : list rdx) (fk : list N) : Prop :=
    forall man' mac' r' m',
      read_header_x H Fixed xs = Some (Some (man', mac', r')) ->
      parse_manifest C man' = Some m' ->
      effective_key v unwrap optkn m' = fk.

  Lemma key_recovered_x_all v unwrap optkn xs fk :
    (forall m', effective_key v unwrap optkn m' = fk) -> key_recovered_x v unwrap optkn xs fk.
  Proof. intros Hk man' mac' r' m' _ _. apply Hk. Qed.

  (* core: the released chunks are an initial run of the original plaintext chunks; a clean end
     means all of them (or an empty payload), and a source that ended in EOF *)
  Lemma tamper_core_x v unwrap optkn xs m fk p out st :
    manifest_bytes_ok m -> manifest_valid m = true ->
    no_forgery_x xs m fk p -> key_recovered_x v unwrap optkn xs fk ->
    decrypt_stream_x C v Fixed S H unwrap optkn xs = DecStream out st ->
    exists man' mac' r' cs1 cs2,
      read_header_x H Fixed xs = Some (Some (man', mac', r')) /\
      chunks S p = cs1 ++ cs2 /\ out = concat cs1 /\
      (st = SClean ->
       xends_eof r' = true /\
       ((xdata r' = payload_of C S m fk p /\ cs2 = []) \/ (xdata r' = [] /\ cs1 = []))).
  Proof.
    intros Hbytes Hvalid Hforge Hkey Hd.
    apply decrypt_stream_x_inv_full in Hd as (man & mac & r & m' & Hrh & Hpm & _ & Hrest).
    cbv zeta in Hrest. rewrite (Hkey _ _ _ _ Hrh Hpm) in Hrest. destruct Hrest as [Hver Hps].
    destruct (Hforge _ _ _ Hrh) as [Hhm Hff].
    apply Hhm in Hver. subst man.
    rewrite (parse_manifest_json C Hok m Hbytes) in Hpm. injection Hpm as <-.
    assert (Hnp : length (m_np m) = 7).
    { unfold manifest_valid in Hvalid. apply andb_true_iff in Hvalid as [_ Hn].
      apply Nat.eqb_eq in Hn. exact Hn. }
    exists (manifest_json C m), mac, r.
    apply process_segments_x_inv in Hps as (pre & rest & ys & Hidx & Hall & Hout & Hclean);
      [|lia].
    destruct (opened_pieces_are_original m fk p (xdata r) pre rest ys Hnp Hff Hidx Hall)
      as (cs1 & cs2 & Hcs & Eys & Hfull).
    exists cs1, cs2. split; [exact Hrh|]. split; [exact Hcs|].
    split; [rewrite Hout, Eys; reflexivity|].
    intros Hst. destruct (Hclean Hst) as [Hr He]. split; [exact He|]. apply Hfull, Hr.
  Qed.

  (* T2 over the extended readers *)
  Theorem prefix_only_x v unwrap optkn xs m fk p :
    manifest_bytes_ok m -> manifest_valid m = true ->
    no_forgery_x xs m fk p -> key_recovered_x v unwrap optkn xs fk ->
    exists rest, p = released (decrypt_stream_x C v Fixed S H unwrap optkn xs) ++ rest.
  Proof.
    intros Hbytes Hvalid Hforge Hkey.
    destruct (decrypt_stream_x C v Fixed S H unwrap optkn xs) as [e|out st] eqn:Hd;
      [exists p; reflexivity|].
    destruct (tamper_core_x _ _ _ _ _ _ _ _ _ Hbytes Hvalid Hforge Hkey Hd)
      as (man' & mac' & r' & cs1 & cs2 & _ & Hcs & Hout & _).
    exists (concat cs2). cbn [released]. rewrite Hout, <- concat_app, <- Hcs.
    symmetry. apply chunks_concat. exact HS.
  Qed.

  (* T3 over the extended readers *)
  Theorem clean_implies_same_payload_x v unwrap optkn xs m fk p :
    manifest_bytes_ok m -> manifest_valid m = true ->
    no_forgery_x xs m fk p -> key_recovered_x v unwrap optkn xs fk ->
    is_clean (decrypt_stream_x C v Fixed S H unwrap optkn xs) = true ->
    exists man' mac' r',
      read_header_x H Fixed xs = Some (Some (man', mac', r')) /\
      ((xdata r' = payload_of C S m fk p /\
        released (decrypt_stream_x C v Fixed S H unwrap optkn xs) = p) \/
       (xdata r' = [] /\
        released (decrypt_stream_x C v Fixed S H unwrap optkn xs) = [])).
  Proof.
    intros Hbytes Hvalid Hforge Hkey Hclean.
    destruct (decrypt_stream_x C v Fixed S H unwrap optkn xs) as [e|out st] eqn:Hd;
      [discriminate|].
    assert (Hst : st = SClean) by (destruct st; (reflexivity || discriminate)).
    destruct (tamper_core_x _ _ _ _ _ _ _ _ _ Hbytes Hvalid Hforge Hkey Hd)
      as (man' & mac' & r' & cs1 & cs2 & Hrh & Hcs & Hout & Hcl).
    exists man', mac', r'. split; [exact Hrh|]. cbn [released].
    destruct (Hcl Hst) as [_ [[Hpay Hc2]|[Hpay Hc1]]].
    - left. split; [exact Hpay|]. subst cs2. rewrite app_nil_r in Hcs.
      rewrite Hout, <- Hcs. apply chunks_concat. exact HS.
    - right. split; [exact Hpay|]. rewrite Hout, Hc1. reflexivity.
  Qed.

  (* G4: everything the oracle of C01/Check.v says of a run, as one theorem about the function
     the check evaluates *)
  Theorem model_meets_oracle_x v unwrap optkn xs m fk p :
    manifest_bytes_ok m -> manifest_valid m = true ->
    no_forgery_x xs m fk p -> key_recovered_x v unwrap optkn xs fk ->
    let r := decrypt_stream_x C v Fixed S H unwrap optkn xs in
    (exists rest, p = released r ++ rest) /\
    (is_clean r = true -> released r = p \/ released r = []) /\
    (xends_eof xs = false -> is_clean r = false) /\
    r <> DecCallError DEFuel /\
    (forall out, r <> DecStream out SOutOfFuel).
  Proof.
    intros Hbytes Hvalid Hforge Hkey r.
    split; [exact (prefix_only_x v unwrap optkn xs m fk p Hbytes Hvalid Hforge Hkey)|].
    split.
    { intros Hclean.
      destruct (clean_implies_same_payload_x v unwrap optkn xs m fk p
                  Hbytes Hvalid Hforge Hkey Hclean)
        as (man' & mac' & r' & _ & [[_ Hr]|[_ Hr]]); [left|right]; exact Hr. }
    split; [apply source_error_surfaces_x|].
    exact (decrypt_stream_x_definite C v Fixed S H unwrap optkn xs).
  Qed.
End C02X.

(* ------------------------------------------------------------------------------------- *)
(* non-vacuity on a tiny abstract instance (the instances on the concrete primitives, with an
   error delivered together with data in the middle of the payload, are in
   C02/ProofsX2_Concrete.v)                                                                *)

(* the segment loop, S = 2, on a script that delivers an error together with data once and then
   goes on to a clean EOF: the piece buffered when the error arrived is dropped; the released
   pieces are the first two pieces of ALL the data the source delivers *)
Example psegx_inv_ex :
  let fn := fun (d : list N) (i : N) (l : bool) => Some (i :: d) in
  let r := [XD [1; 2; 3]%N; XZ; XD [4; 5]%N; XDX [6]%N; XDE [7; 8]%N] in
  process_segments_x 2 fn r = ([0; 1; 2; 1; 3; 4]%N, SSrcFail) /\
  xdata r = [1; 2; 3; 4; 5; 6; 7; 8]%N /\ xends_eof r = false /\
  process_segments_x 2 fn [XD [1; 2; 3]%N; XDE [4; 5]%N] = ([0; 1; 2; 1; 3; 4; 2; 5]%N, SClean).
Proof. repeat split. Qed.

Print Assumptions decrypt_stream_x_definite.
Print Assumptions decrypt_stream_x_no_unexpected_eof.
Print Assumptions psegx_inv.
Print Assumptions release_after_open_x.
Print Assumptions prefix_only_x.
Print Assumptions clean_implies_same_payload_x.
Print Assumptions model_meets_oracle_x.
