(* C02 — enc/v1: tampered or truncated documents never decrypt silently.  Vocabulary used to
   STATE the theorems about the decrypt model of C01/Model.v run on arbitrary input.
   Definitions only. *)
From Kit Require Export C01.Sem.

(* what a Decrypt run released to its consumer, and whether the stream ended in a clean EOF *)
Definition released (r : dec_result) : list N :=
  match r with DecStream out _ => out | DecCallError _ => [] end.

Definition is_clean (r : dec_result) : bool :=
  match r with DecStream _ SClean => true | _ => false end.

(* pieces with their nonce coordinates: (position, last flag, bytes) *)
Fixpoint indexed (i : N) (segs : list (list N)) : list (N * bool * list N) :=
  match segs with
  | [] => []
  | s :: t => (i, is_nil t, s) :: indexed (i + 1)%N t
  end.

Section Defs.
  Variable C : crypto.
  Variable S : nat.

  (* the sealed segments of the original document *)
  Definition sealed_set (m : manifest) (fk p : list N) : list (N * bool * list N) :=
    indexed 0%N (spec_segments C S m fk p).

  (* the original payload *)
  Definition payload_of (m : manifest) (fk p : list N) : list N :=
    concat (spec_segments C S m fk p).

  (* the ciphertext pieces Decrypt tries to open on a payload: pieces of S+16 bytes, the last
     flag on the final one *)
  Definition tried (payload : list N) : list (N * bool * list N) :=
    indexed 0%N (chunks (S + 16) payload).

  (* Segment forgery excluded for one input (INT-CTXT with the forgery probability idealised
     to 0): a piece of the input that opens under the payload key with the nonce of its
     position and finality IS a segment of the original document sealed with that nonce. *)
  Definition forge_free (m : manifest) (fk p payload' : list N) : Prop :=
    forall i last c x,
      In (i, last, c) (tried payload') ->
      open C (m_cph m) (spec_payload_key C fk (m_np m)) (spec_nonce (m_np m) i last) c = Some x ->
      In (i, last, c) (sealed_set m fk p).

  (* Header forgery excluded for one input: a (manifest line, MAC line) pair that verifies
     under the header key of [fk] carries the original manifest line. *)
  Definition hmac_forge_free (m : manifest) (fk man' mac' : list N) : Prop :=
    verify_header C fk man' mac' = Some true -> man' = manifest_json C m.

  (* the file key Decrypt ends up using for a manifest [m'] *)
  Definition effective_key (v : variant) (unwrap : list N -> list N -> list N -> list N * bool)
             (optkn : list N) (m' : manifest) : list N :=
    let '(fkb, uerr) := unwrap (m_wfk m') (kwalg_name (m_kw m')) (dec_key_name optkn m') in
    let failed := match v with
                  | Original => negb (Nat.eqb (length fkb) 32)
                  | Fixed => uerr || negb (Nat.eqb (length fkb) 32)
                  end in
    if failed then zero_key else fkb.
End Defs.
