(* C01/C02 — the model over the EXTENDED readers (C01/ReaderX.v, C01/ModelX.v: a Read may return
   data TOGETHER with a non-EOF error, once):
   1. simulation: on embedded scripts of Lib/Reader.v ([emb]) every function of ModelX.v
      computes what its counterpart of Model.v computes, for both header variants
      ([xread_emb] … [decrypt_stream_x_emb], [encrypt_stream_wx_emb]);
   2. with the header fix ([hv = Fixed]) a source that reports a non-EOF error before its end of
      file never gives a clean end of stream, for EVERY extended script
      ([source_error_surfaces_x], [source_error_surfaces_x_enc]).
   The refutation for [hv = Original] is computed in C02/ProofsX_Concrete.v.
   Stdlib style.  No axioms. *)
From Kit Require Import C01.ModelX C02.Defs Lib.ReaderFacts C01.Proofs_Segments C01.Proofs_Header.
From Coq Require Import Lia.
Local Open Scope list_scope.

(* ------------------------------------------------------------------------------------- *)
(* 1. simulation on embedded scripts                                                       *)

Lemma xread_emb_eq want r bs e r' :
  read want r = (bs, e, r') -> xread want (emb (script r)) = (bs, e, emb (script r')).
Proof.
  unfold read, xread. destruct want as [|w].
  { intros Hr. injection Hr as <- <- <-. reflexivity. }
  destruct (script r) as [|[d| |d|] t] eqn:Hs; cbn [emb map emb_item]; intros Hr.
  - injection Hr as <- <- <-. rewrite Hs. reflexivity.
  - destruct (Nat.leb (length d) (S w)); injection Hr as <- <- <-; reflexivity.
  - injection Hr as <- <- <-. reflexivity.
  - destruct (Nat.leb (length d) (S w)); injection Hr as <- <- <-; reflexivity.
  - injection Hr as <- <- <-. rewrite Hs. reflexivity.
Qed.

Lemma xread_emb want r :
  xread want (emb (script r)) = let '(bs, e, r') := read want r in (bs, e, emb (script r')).
Proof. destruct (read want r) as [[bs e] r'] eqn:Hr. apply xread_emb_eq, Hr. Qed.

(* on a script of Lib/Reader.v a failure comes without bytes, and no other error class occurs *)
Lemma read_err_cases want r bs e r' :
  read want r = (bs, e, r') -> e = ENil \/ e = EEOF \/ (e = EFail /\ bs = []).
Proof.
  unfold read. destruct want as [|w].
  { intros Hr. injection Hr as <- <- <-. left. reflexivity. }
  destruct (script r) as [|[d| |d|] t]; intros Hr.
  - injection Hr as <- <- <-. right; left. reflexivity.
  - destruct (Nat.leb (length d) (S w)); injection Hr as <- <- <-; left; reflexivity.
  - injection Hr as <- <- <-. left. reflexivity.
  - destruct (Nat.leb (length d) (S w)); injection Hr as <- <- <-;
      [right; left | left]; reflexivity.
  - injection Hr as <- <- <-. right; right. split; reflexivity.
Qed.

Lemma xfuel_emb sc : xfuel (emb sc) = script_fuel sc.
Proof.
  induction sc as [|[d| |d|] t IH]; cbn [emb map emb_item xfuel script_fuel];
    try reflexivity; fold (emb t); rewrite IH; reflexivity.
Qed.

Lemma xdata_emb sc : xdata (emb sc) = data_of sc.
Proof.
  induction sc as [|[d| |d|] t IH]; cbn [emb map emb_item xdata data_of];
    try reflexivity; fold (emb t); rewrite IH; reflexivity.
Qed.

Lemma xends_eof_emb sc : xends_eof (emb sc) = ends_eof sc.
Proof.
  induction sc as [|[d| |d|] t IH]; cbn [emb map emb_item xends_eof ends_eof];
    try reflexivity; fold (emb t); exact IH.
Qed.

Definition emb_fill (x : list N * err * reader) : list N * err * list rdx :=
  let '(b, e, r') := x in (b, e, emb (script r')).

Section SegSim.
  Variable S : nat.
  Variable fn : list N -> N -> bool -> option (list N).

  Lemma fillx_emb : forall fuel buf e r,
    fillx S fuel buf e (emb (script r)) = option_map emb_fill (fill S fuel buf e r).
  Proof.
    induction fuel as [|f IH]; intros buf e r.
    - cbn [fillx fill].
      destruct (negb (Nat.ltb (length buf) (S + 1) && err_is_nil e)); reflexivity.
    - cbn [fillx fill].
      destruct (negb (Nat.ltb (length buf) (S + 1) && err_is_nil e)); [reflexivity|].
      destruct (read (S + 1 - length buf) r) as [[bs e'] r'] eqn:Hr.
      rewrite (xread_emb_eq _ _ _ _ _ Hr). apply IH.
  Qed.

  Lemma psegx_emb : forall fuel r seg carry e out,
    psegx S fn fuel (emb (script r)) seg carry e out = pseg S fn fuel r seg carry e out.
  Proof.
    induction fuel as [|f IH]; intros r seg carry e out; [reflexivity|].
    cbn [psegx pseg]. rewrite xfuel_emb, fillx_emb.
    destruct (fill S (Datatypes.S (script_fuel (script r)))
                   match carry with Some c => [c] | None => [] end e r)
      as [[[buf e1] r1]|]; cbn [option_map emb_fill]; [|reflexivity].
    destruct (negb (err_is_nil e1) && negb (err_is_eof e1)); [reflexivity|].
    cbv zeta.
    destruct (Nat.ltb (length (if Nat.ltb S (length buf) then removelast buf else buf)) S
              && negb (negb (Nat.ltb S (length buf)))); [reflexivity|].
    destruct (if Nat.ltb S (length buf) then removelast buf else buf) as [|x data];
      [reflexivity|].
    destruct (fn (x :: data) seg (negb (Nat.ltb S (length buf)))) as [w|]; [|reflexivity].
    destruct (negb (negb (Nat.ltb S (length buf))) && (seg =? max_segment)%N); [reflexivity|].
    destruct (negb (Nat.ltb S (length buf))); [reflexivity|]. apply IH.
  Qed.

  Theorem process_segments_x_emb sc :
    process_segments_x S fn (emb sc) = process_segments S fn sc.
  Proof.
    unfold process_segments_x, process_segments. rewrite xdata_emb.
    apply (psegx_emb _ {| script := sc; closes := 0 |}).
  Qed.
End SegSim.

Definition emb_hdr (x : list N * list N * reader) : list N * list N * list rdx :=
  let '(man, mac, r) := x in (man, mac, emb (script r)).

Section HdrSim.
  Variable H : nat.

  (* the loop of the X model ends where the loop of Model.v ends; the error it additionally
     reports is a failure only while fewer than three line feeds have been seen *)
  Lemma rh_loopx_emb : forall fuel n st r,
    match rh_loop H fuel n st r with
    | HFuel => rh_loopx H fuel n st (emb (script r)) = HXFuel
    | HErr => rh_loopx H fuel n st (emb (script r)) = HXErr
    | HDone st' extra r' =>
        exists e, rh_loopx H fuel n st (emb (script r)) = HXDone st' extra (emb (script r')) e /\
                  (e = ENil \/ e = EEOF \/ (e = EFail /\ h_nl st' < 3))
    end.
  Proof.
    induction fuel as [|f IH]; intros n st r; [reflexivity|].
    cbn [rh_loop rh_loopx].
    destruct (Nat.leb 3 (h_nl st)) eqn:E3.
    { exists ENil. split; [reflexivity | left; reflexivity]. }
    destruct (Nat.eqb n H).
    { exists ENil. split; [reflexivity | left; reflexivity]. }
    apply Nat.leb_gt in E3.
    destruct (read (H - n) r) as [[bs e] r'] eqn:Hr.
    rewrite (xread_emb_eq _ _ _ _ _ Hr).
    pose proof (read_err_cases _ _ _ _ _ Hr) as He.
    destruct bs as [|b bs].
    - destruct (err_is_nil e) eqn:En; [apply IH|].
      exists e. split; [reflexivity|].
      destruct He as [->|[->|[-> _]]]; [left | right; left | right; right; split];
        try reflexivity. exact E3.
    - destruct (scan (b :: bs) st) as [[st' rest]|]; [|reflexivity].
      destruct (err_is_nil e && negb (Nat.leb 3 (h_nl st'))); [apply IH|].
      exists e. split; [reflexivity|].
      destruct He as [->|[->|[_ Hnil]]]; [left; reflexivity | right; left; reflexivity|].
      discriminate Hnil.
  Qed.

  Lemma pushback_emb extra r' :
    match extra with [] => emb (script r') | _ => XD extra :: emb (script r') end
    = emb (script match extra with
                  | [] => r'
                  | _ => with_script r' (Data extra :: script r')
                  end).
  Proof. destruct extra; reflexivity. Qed.

  Theorem read_header_x_emb hv sc :
    read_header_x H hv (emb sc)
    = option_map (option_map emb_hdr) (read_header H {| script := sc; closes := 0 |}).
  Proof.
    unfold read_header_x, read_header. rewrite xfuel_emb. cbn [script].
    pose proof (rh_loopx_emb (Datatypes.S (script_fuel sc)) 0 hst0 {| script := sc; closes := 0 |})
      as Hsim.
    pose proof (rh_loop_start H sc) as Hst.
    cbn [script] in Hsim.
    destruct (rh_loop H (Datatypes.S (script_fuel sc)) 0 hst0 {| script := sc; closes := 0 |})
      as [| |st' extra r'].
    - contradiction.
    - rewrite Hsim. reflexivity.
    - destruct Hsim as (e & -> & He).
      destruct Hst as (bs & _ & Hscan & _).
      assert (Hrest :
        (if Nat.ltb (h_nl st') 1 then Some None
         else if is_nil (h_man st') then Some None
         else if is_nil (h_mac st') then Some None
         else Some (Some (h_man st', h_mac st',
                          match extra with [] => emb (script r') | _ => XD extra :: emb (script r') end)))
        = option_map (option_map emb_hdr)
            (if Nat.ltb (h_nl st') 1 then Some None
             else if is_nil (h_man st') then Some None
             else if is_nil (h_mac st') then Some None
             else Some (Some (h_man st', h_mac st',
                              match extra with
                              | [] => r'
                              | _ => with_script r' (Data extra :: script r')
                              end)))).
      { destruct (Nat.ltb (h_nl st') 1); [reflexivity|].
        destruct (is_nil (h_man st')); [reflexivity|].
        destruct (is_nil (h_mac st')); [reflexivity|].
        cbn [option_map emb_hdr]. rewrite pushback_emb. reflexivity. }
      destruct hv.
      + (* Original: the error is not looked at *)
        cbn [is_fixed]. rewrite !andb_false_l. exact Hrest.
      + cbn [is_fixed]. rewrite andb_true_l.
        destruct He as [->|[->|[-> Hlt]]].
        * cbn [err_is_nil err_is_eof negb]. rewrite andb_false_l. exact Hrest.
        * cbn [err_is_nil err_is_eof negb]. rewrite andb_false_r. exact Hrest.
        * (* a failure without bytes, before the third line feed: Model.v fails as well *)
          cbn [err_is_nil err_is_eof negb]. rewrite andb_true_l.
          destruct (scan0_few _ _ _ Hscan Hlt) as [Hmac _]. rewrite Hmac. cbn [is_nil].
          destruct (Nat.ltb (h_nl st') 1); [reflexivity|].
          destruct (is_nil (h_man st')); reflexivity.
  Qed.

  (* the same with the embedding of the result written out *)
  Corollary read_header_x_emb' hv sc :
    read_header_x H hv (emb sc)
    = option_map (option_map (fun '(man, mac, r) => (man, mac, emb (script r))))
        (read_header H {| script := sc; closes := 0 |}).
  Proof. exact (read_header_x_emb hv sc). Qed.
End HdrSim.

Section StreamSim.
  Variable C : crypto.

  Theorem decrypt_stream_x_emb v hv S H unwrap optkn sc :
    decrypt_stream_x C v hv S H unwrap optkn (emb sc) = decrypt_stream C v S H unwrap optkn sc.
  Proof.
    unfold decrypt_stream_x, decrypt_stream. rewrite read_header_x_emb.
    destruct (read_header H {| script := sc; closes := 0 |}) as [[[[man mac] r]|]|];
      cbn [option_map emb_hdr]; try reflexivity.
    destruct (parse_manifest C man) as [m|]; [|reflexivity].
    destruct (negb (manifest_valid m)); [reflexivity|].
    destruct (is_nil (if is_nil optkn then m_k m else optkn)); [reflexivity|].
    destruct (unwrap (m_wfk m) (kwalg_name (m_kw m)) (if is_nil optkn then m_k m else optkn))
      as [fkb uerr].
    cbv zeta. rewrite process_segments_x_emb. reflexivity.
  Qed.

  Theorem encrypt_stream_wx_emb S H o fk np wrap sc :
    encrypt_stream_wx C S H o fk np wrap (emb sc) = encrypt_stream_w C S H o fk np wrap sc.
  Proof.
    unfold encrypt_stream_wx, encrypt_stream_w, encrypt_stream.
    destruct (encrypt_wrap_args o) as [[alg kn]|]; [|reflexivity].
    destruct (wrap fk alg kn) as [wfk|]; [|reflexivity].
    destruct (encrypt_manifest o np wfk) as [m|]; [|reflexivity].
    cbv zeta. rewrite process_segments_x_emb. reflexivity.
  Qed.
End StreamSim.

(* ------------------------------------------------------------------------------------- *)
(* 2. source errors surface (header variant Fixed), for every extended script              *)

(* One call of [xread].  After a failure the rest of the script is arbitrary (an [XDX] item is
   consumed; what follows may well end in a clean EOF). *)
Lemma xread_step want s bs e s' :
  xread want s = (bs, e, s') ->
  length bs <= want /\ xdata s = bs ++ xdata s' /\
  match e with
  | ENil => xends_eof s' = xends_eof s /\ (0 < want -> xfuel s' < xfuel s)
  | EEOF => xends_eof s = true /\ s' = []
  | EFail => xends_eof s = false
  | _ => False
  end.
Proof.
  unfold xread. destruct want as [|w].
  { intros Hr. injection Hr as <- <- <-. cbn [length app]. repeat split; lia. }
  remember (S w) as want eqn:Hwant.
  assert (Hpos : 0 < want) by lia. clear Hwant w.
  destruct s as [|[d| |d| |d] t]; intros Hr.
  - injection Hr as <- <- <-. cbn [length app xdata xends_eof]. repeat split; lia.
  - destruct (Nat.leb (length d) want) eqn:Hle.
    + apply Nat.leb_le in Hle. injection Hr as <- <- <-.
      cbn [xdata xends_eof xfuel]. repeat split; lia.
    + apply Nat.leb_gt in Hle. injection Hr as <- <- <-.
      cbn [xdata xends_eof xfuel].
      rewrite app_assoc, firstn_skipn, skipn_length.
      repeat split; try lia. apply firstn_le_length.
  - injection Hr as <- <- <-. cbn [length app xdata xends_eof xfuel]. repeat split; lia.
  - destruct (Nat.leb (length d) want) eqn:Hle.
    + apply Nat.leb_le in Hle. injection Hr as <- <- <-.
      cbn [xdata xends_eof]. rewrite app_nil_r. repeat split; lia.
    + apply Nat.leb_gt in Hle. injection Hr as <- <- <-.
      cbn [xdata xends_eof xfuel].
      rewrite firstn_skipn, skipn_length.
      repeat split; try lia. apply firstn_le_length.
  - injection Hr as <- <- <-. cbn [length app xdata xends_eof]. repeat split; lia.
  - destruct (Nat.leb (length d) want) eqn:Hle.
    + apply Nat.leb_le in Hle. injection Hr as <- <- <-.
      cbn [xdata xends_eof]. repeat split; lia.
    + apply Nat.leb_gt in Hle. injection Hr as <- <- <-.
      cbn [xdata xends_eof xfuel].
      rewrite app_assoc, firstn_skipn, skipn_length.
      repeat split; try lia. apply firstn_le_length.
Qed.

Section SegX.
  Variable S : nat.
  Variable fn : list N -> N -> bool -> option (list N).

  (* the inner read loop on a source that has a failure ahead: it fills the buffer (the failure
     is still ahead) or stops on the failure; it cannot stop on EOF *)
  Lemma fillx_fail_ahead : forall fuel r buf,
    xfuel r < fuel -> xends_eof r = false ->
    exists buf' e r', fillx S fuel buf ENil r = Some (buf', e, r') /\
      ((e = ENil /\ S + 1 <= length buf' /\ xends_eof r' = false) \/ e = EFail).
  Proof.
    induction fuel as [|f IH]; intros r buf Hf Heof; [lia|].
    destruct (Nat.ltb (length buf) (S + 1)) eqn:Hlt.
    - apply Nat.ltb_lt in Hlt.
      cbn [fillx]. rewrite (proj2 (Nat.ltb_lt _ _) Hlt). cbn [err_is_nil negb].
      rewrite andb_true_l. cbn [negb].
      destruct (xread (S + 1 - length buf) r) as [[bs e] r'] eqn:Hr.
      destruct (xread_step _ _ _ _ _ Hr) as (_ & _ & He).
      destruct e; try contradiction.
      + destruct He as [Heof' Hfuel]. specialize (Hfuel ltac:(lia)).
        apply IH; [lia | congruence].
      + destruct He as [Htrue _]. congruence.
      + exists (buf ++ bs), EFail, r'. split; [|right; reflexivity].
        destruct f; cbn [fillx err_is_nil negb]; rewrite andb_false_r; reflexivity.
    - apply Nat.ltb_ge in Hlt.
      exists buf, ENil, r. split.
      + cbn [fillx]. rewrite (proj2 (Nat.ltb_ge _ _) Hlt). reflexivity.
      + left. repeat split; assumption.
  Qed.

  (* (a) the segment loop never ends cleanly on such a source — whatever the fuel *)
  Lemma psegx_fail_ahead : 0 < S -> forall fuel r seg carry out,
    xends_eof r = false -> snd (psegx S fn fuel r seg carry ENil out) <> SClean.
  Proof.
    intros HS. induction fuel as [|f IH]; intros r seg carry out Heof; [cbn; discriminate|].
    cbn [psegx].
    destruct (fillx_fail_ahead (Datatypes.S (xfuel r)) r
                match carry with Some c => [c] | None => [] end ltac:(lia) Heof)
      as (buf & e1 & r1 & Hfill & Hcase).
    rewrite Hfill.
    destruct Hcase as [(-> & Hfull & Heof1) | ->].
    - cbn [err_is_nil err_is_eof negb]. rewrite andb_false_l. cbv zeta.
      rewrite (proj2 (Nat.ltb_lt S (length buf))) by lia.
      cbn [negb]. rewrite andb_true_r, andb_true_l.
      destruct (removelast_last_length buf (length buf - 1) ltac:(lia)) as [_ Hdl].
      rewrite (proj2 (Nat.ltb_ge (length (removelast buf)) S)) by lia.
      destruct (removelast buf) as [|x data] eqn:Edata; [cbn [length] in Hdl; lia|].
      destruct (fn (x :: data) seg false) as [w|]; [|cbn; discriminate].
      destruct (seg =? max_segment)%N; [cbn; discriminate|].
      apply IH. exact Heof1.
    - cbn [err_is_nil err_is_eof negb]. rewrite andb_true_l. cbn. discriminate.
  Qed.

  Theorem process_segments_x_fail_ahead r :
    0 < S -> xends_eof r = false -> snd (process_segments_x S fn r) <> SClean.
  Proof. intros HS Heof. unfold process_segments_x. apply psegx_fail_ahead; assumption. Qed.
End SegX.

Section HdrX.
  Variable H : nat.

  (* (b) the header loop on a source with a failure ahead: when it stops without having seen
     the failure, the failure is still ahead of what it leaves *)
  Lemma rh_loopx_fail_ahead : forall fuel n st r,
    xends_eof r = false ->
    match rh_loopx H fuel n st r with
    | HXFuel | HXErr => True
    | HXDone st' extra r' e =>
        match e with
        | ENil | EEOF => xends_eof r' = false
        | _ => True
        end
    end.
  Proof.
    induction fuel as [|f IH]; intros n st r Heof; [exact I|].
    cbn [rh_loopx].
    destruct (Nat.leb 3 (h_nl st)); [exact Heof|].
    destruct (Nat.eqb n H); [exact Heof|].
    destruct (xread (H - n) r) as [[bs e] r'] eqn:Hr.
    destruct (xread_step _ _ _ _ _ Hr) as (_ & _ & He).
    destruct bs as [|b bs].
    - destruct e; cbn [err_is_nil]; try exact I.
      + destruct He as [Heof' _]. apply IH. congruence.
      + destruct He as [Htrue _]. congruence.
    - destruct (scan (b :: bs) st) as [[st' rest]|]; [|exact I].
      destruct e; cbn [err_is_nil]; rewrite ?andb_false_l; try exact I.
      + destruct He as [Heof' _]. rewrite andb_true_l.
        destruct (negb (Nat.leb 3 (h_nl st'))); [apply IH|]; congruence.
      + destruct He as [Htrue _]. congruence.
  Qed.

  (* with the fix, a header is only returned with the failure still ahead *)
  Lemma read_header_x_fixed_fail_ahead xs man mac r :
    xends_eof xs = false ->
    read_header_x H Fixed xs = Some (Some (man, mac, r)) -> xends_eof r = false.
  Proof.
    intros Heof. unfold read_header_x.
    pose proof (rh_loopx_fail_ahead (Datatypes.S (xfuel xs)) 0 hst0 xs Heof) as Hl.
    destruct (rh_loopx H (Datatypes.S (xfuel xs)) 0 hst0 xs) as [| |st' extra r' e];
      try discriminate.
    cbn [is_fixed]. rewrite andb_true_l.
    assert (Hpb : xends_eof match extra with [] => r' | _ => XD extra :: r' end = xends_eof r')
      by (destruct extra; reflexivity).
    destruct e; cbn [err_is_nil err_is_eof negb];
      rewrite ?andb_false_l, ?andb_false_r, ?andb_true_l; try discriminate;
      (destruct (Nat.ltb (h_nl st') 1); [discriminate|];
       destruct (is_nil (h_man st')); [discriminate|];
       destruct (is_nil (h_mac st')); [discriminate|];
       intros Hrh; injection Hrh as _ _ <-; rewrite Hpb; exact Hl).
  Qed.
End HdrX.

Section StreamX.
  Variable C : crypto.

  Lemma decrypt_stream_x_inv v hv S H unwrap optkn xs out st :
    decrypt_stream_x C v hv S H unwrap optkn xs = DecStream out st ->
    exists man mac r fn,
      read_header_x H hv xs = Some (Some (man, mac, r)) /\
      process_segments_x (S + 16) fn r = (out, st).
  Proof.
    unfold decrypt_stream_x.
    destruct (read_header_x H hv xs) as [[[[man mac] r]|]|]; try discriminate.
    destruct (parse_manifest C man) as [m|]; try discriminate.
    destruct (negb (manifest_valid m)); try discriminate.
    destruct (is_nil (if is_nil optkn then m_k m else optkn)); try discriminate.
    destruct (unwrap (m_wfk m) (kwalg_name (m_kw m)) (if is_nil optkn then m_k m else optkn))
      as [fkb uerr].
    cbv zeta.
    destruct (verify_header C _ man mac) as [[|]|]; try discriminate.
    destruct (is_fixed v && _); try discriminate.
    match goal with |- context [process_segments_x ?s ?f r] =>
      destruct (process_segments_x s f r) as [o s'] eqn:Hps; intros Hd;
      exists man, mac, r, f end.
    injection Hd as <- <-. split; [reflexivity | exact Hps].
  Qed.

  (* T6 over the extended readers: an error of the source — alone or together with data,
     reported once or for ever, at any offset — never gives a clean end of stream *)
  Theorem source_error_surfaces_x v S H unwrap optkn xs :
    xends_eof xs = false ->
    is_clean (decrypt_stream_x C v Fixed S H unwrap optkn xs) = false.
  Proof.
    intros Heof.
    destruct (decrypt_stream_x C v Fixed S H unwrap optkn xs) as [e|out st] eqn:Hd;
      [reflexivity|].
    apply decrypt_stream_x_inv in Hd as (man & mac & r & fn & Hrh & Hps).
    apply (read_header_x_fixed_fail_ahead H xs man mac r Heof) in Hrh.
    pose proof (process_segments_x_fail_ahead (S + 16) fn r ltac:(lia) Hrh) as Hnc.
    rewrite Hps in Hnc. cbn [snd] in Hnc.
    cbn [is_clean]. destruct st; try reflexivity. congruence.
  Qed.

  Theorem source_error_surfaces_x_enc S H o fk np wrap xs :
    0 < S -> xends_eof xs = false ->
    match encrypt_stream_wx C S H o fk np wrap xs with
    | EncStream _ SClean => False
    | _ => True
    end.
  Proof.
    intros HS Heof. unfold encrypt_stream_wx.
    destruct (encrypt_wrap_args o) as [[alg kn]|]; [|exact I].
    destruct (wrap fk alg kn) as [wfk|]; [|exact I].
    destruct (encrypt_manifest o np wfk) as [m|]; [|exact I].
    cbv zeta.
    destruct (Nat.ltb H _); [exact I|].
    match goal with |- context [process_segments_x S ?f xs] =>
      pose proof (process_segments_x_fail_ahead S f xs HS Heof) as Hnc;
      destruct (process_segments_x S f xs) as [out st] end.
    cbn [snd] in Hnc. destruct st; try exact I. congruence.
  Qed.
End StreamX.

(* non-vacuity of the hypotheses: errors with data (once), then EOF / sticky; not embeddable *)
Example xends_eof_false_ex :
  xends_eof [XD [1%N]; XZ; XDX [2; 3]%N; XDE [4%N]] = false /\
  xends_eof [XDX [2; 3]%N] = false /\ xends_eof [XD [1%N]; XF] = false /\
  xread 2 [XDX [2; 3]%N; XDE [4%N]] = ([2; 3]%N, EFail, [XDE [4%N]]) /\
  xends_eof [XDE [4%N]] = true.
Proof. repeat split. Qed.
