(* HKDF, written from RFC 5869 (extract-then-expand), generic in the HMAC. *)
From Kit Require Import Lib.Base.
From Kit Require Import Crypto.Words Crypto.SHA256 Crypto.SHA512 Crypto.HMAC.

Section Generic.
  Variable mac : list N -> list N -> list N.   (* HMAC-Hash key msg *)
  Variable hashlen : nat.

  (* section 2.2; an absent (empty) salt is HashLen zero bytes *)
  Definition hkdf_extract (salt ikm : list N) : list N :=
    mac (match salt with [] => zeros hashlen | _ => salt end) ikm.

  (* section 2.3: T(0) = empty, T(i) = HMAC(PRK, T(i-1) | info | i), i = 1, 2, ...
     [blocks] counts the T(i) still to produce, [i] is the next index. *)
  Fixpoint hkdf_blocks (prk info prev : list N) (i : N) (blocks : nat) : list N :=
    match blocks with
    | O => []
    | S blocks' =>
        let t := mac prk (prev ++ info ++ [i]) in
        t ++ hkdf_blocks prk info t (i + 1)%N blocks'
    end.

  (* RFC 5869 requires L <= 255*HashLen; beyond that only 255 blocks exist, so the result
     is then shorter than [len] (Go's reader reports an error at the same point). *)
  Definition hkdf_expand (prk info : list N) (len : nat) : list N :=
    let n := Nat.min 255 ((len + hashlen - 1) / hashlen) in
    firstn len (hkdf_blocks prk info [] 1%N n).

  Definition hkdf (ikm salt info : list N) (len : nat) : list N :=
    hkdf_expand (hkdf_extract salt ikm) info len.
End Generic.

Definition hkdf_sha256 (ikm salt info : list N) (len : nat) : list N :=
  hkdf hmac_sha256 32 ikm salt info len.
Definition hkdf_sha384 (ikm salt info : list N) (len : nat) : list N :=
  hkdf hmac_sha384 48 ikm salt info len.
Definition hkdf_sha512 (ikm salt info : list N) (len : nat) : list N :=
  hkdf hmac_sha512 64 ikm salt info len.
