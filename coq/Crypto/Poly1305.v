(* Poly1305, written from RFC 8439 section 2.5.  The accumulator is a [Z]; 130-bit
   arithmetic on [Z] is fast enough (64 KiB in about a second under vm_compute). *)
From Kit Require Import Lib.Base.
From Kit Require Import Crypto.Words.

Local Open Scope Z_scope.

Definition poly1305_p : Z := 2 ^ 130 - 5.

(* little-endian bytes -> number *)
Definition Z_of_le (bs : list N) : Z := fold_right (fun b acc => Z.of_N b + 256 * acc) 0 bs.

(* number -> [n] little-endian bytes (the value modulo 256^n) *)
Fixpoint le_bytes (n : nat) (z : Z) : list N :=
  match n with
  | O => []
  | S n' => Z.to_N (Z.land z 255) :: le_bytes n' (Z.shiftr z 8)
  end.

Lemma le_bytes_length n z : length (le_bytes n z) = n.
Proof. revert z; induction n as [|n IH]; intro z; cbn [le_bytes length]; now rewrite ?IH. Qed.

(* section 2.5.1: r &= 0x0ffffffc0ffffffc0ffffffc0fffffff *)
Definition poly1305_clamp (r : Z) : Z := Z.land r 0x0ffffffc0ffffffc0ffffffc0fffffff.

(* One step of section 2.5.1: [acc := (acc + (block | 0x01)) * r mod p].  Instead of a
   full division, 2^130 = 5 (mod p) is used to fold the high part back: the accumulator
   stays congruent and below 2^131; the full reduction happens once, at the end. *)
Definition poly1305_fold (x : Z) : Z := Z.land x (2 ^ 130 - 1) + 5 * Z.shiftr x 130.

Definition poly1305_step (r acc : Z) (block : list N) : Z :=
  poly1305_fold (poly1305_fold ((acc + Z_of_le (block ++ [1%N])) * r)).

(* Tail-recursive walk over the message in 16-byte blocks; the last block may be short. *)
Fixpoint poly1305_loop (r acc : Z) (msg : list N) : Z :=
  match msg with
  | b0 :: b1 :: b2 :: b3 :: b4 :: b5 :: b6 :: b7 :: b8 :: b9 :: b10 :: b11 :: b12 :: b13
       :: b14 :: b15 :: rest =>
      poly1305_loop r
        (poly1305_step r acc [b0; b1; b2; b3; b4; b5; b6; b7; b8; b9; b10; b11; b12; b13; b14; b15])
        rest
  | [] => acc
  | tail => poly1305_step r acc tail
  end.

Definition poly1305 (key32 msg : list N) : list N :=
  let key := take_pad 32 key32 in
  let r := poly1305_clamp (Z_of_le (firstn 16 key)) in
  let s := Z_of_le (skipn 16 key) in
  let acc := poly1305_loop r 0 msg mod poly1305_p in
  le_bytes 16 (acc + s).

Lemma poly1305_length key32 msg : length (poly1305 key32 msg) = 16%nat.
Proof. apply le_bytes_length. Qed.
