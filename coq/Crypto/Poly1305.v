(* Poly1305, written from RFC 8439 section 2.5.

   Two versions that are tested equal (here and in KAT.v):
   - [poly1305_ref]: the pseudo-code of section 2.5.1 on [Z], verbatim;
   - [poly1305]: the same polynomial evaluation with the accumulator and r held as five
     26-bit limbs in primitive integers, about 25 times faster under vm_compute (a product
     of two limbs, times 5, summed five times, stays below 2^63). *)
From Kit Require Import Lib.Base.
From Kit Require Import Crypto.Words.
From Coq Require Import Uint63.

(* ------------------------------------------------------------------------------------- *)
(** * Reference version on [Z] *)

Local Open Scope Z_scope.

Definition poly1305_p : Z := 2 ^ 130 - 5.

(* little-endian bytes -> number *)
Definition Z_of_le (bs : list N) : Z := fold_right (fun b acc => Z.of_N b + 256 * acc) 0 bs.

(* number -> [n] little-endian bytes (the value modulo 256^n) *)
Fixpoint le_bytes (n : nat) (z : Z) : list N :=
  match n with
  | O => []
  | S n' => Z.to_N (Z.land z 255) :: le_bytes n' (Z.shiftr z 8)
  end.

Lemma le_bytes_length n z : length (le_bytes n z) = n.
Proof. revert z; induction n as [|n IH]; intro z; cbn [le_bytes length]; now rewrite ?IH. Qed.

(* section 2.5.1: r &= 0x0ffffffc0ffffffc0ffffffc0fffffff *)
Definition poly1305_clamp (r : Z) : Z := Z.land r 0x0ffffffc0ffffffc0ffffffc0fffffff.

(* for each 16-byte block (the last may be shorter): append 0x01, read little-endian,
   a := (a + n) * r mod p *)
Definition poly1305_ref (key32 msg : list N) : list N :=
  let key := take_pad 32 key32 in
  let r := poly1305_clamp (Z_of_le (firstn 16 key)) in
  let s := Z_of_le (skipn 16 key) in
  let a := fold_left (fun a block => ((a + Z_of_le (block ++ [1%N])) * r) mod poly1305_p)
                     (chunks 16 msg) 0 in
  le_bytes 16 (a + s).

(* ------------------------------------------------------------------------------------- *)
(** * Limb version *)

Local Open Scope uint63_scope.

Inductive limbs := Limbs (x0 x1 x2 x3 x4 : int).    (* value = sum x_i * 2^(26 i) *)

Definition mask26 : int := 0x3ffffff.

(* a 16-byte block plus the byte [top] (= bit 128 and up) as limbs *)
Definition limbs_of_block (t0 t1 t2 t3 top : int) : limbs :=
  Limbs (t0 land mask26)
        (((t0 >> 26) lor (t1 << 6)) land mask26)
        (((t1 >> 20) lor (t2 << 12)) land mask26)
        (((t2 >> 14) lor (t3 << 18)) land mask26)
        ((t3 >> 8) lor (top << 24)).

(* h := (h + block) * r, partially reduced modulo 2^130 - 5 (2^130 = 5, so the limb
   products that overflow position 4 come back multiplied by 5) *)
Definition limbs_step (r h m : limbs) : limbs :=
  let '(Limbs r0 r1 r2 r3 r4) := r in
  let '(Limbs h0 h1 h2 h3 h4) := h in
  let '(Limbs m0 m1 m2 m3 m4) := m in
  let h0 := h0 + m0 in let h1 := h1 + m1 in let h2 := h2 + m2 in
  let h3 := h3 + m3 in let h4 := h4 + m4 in
  let s1 := r1 * 5 in let s2 := r2 * 5 in let s3 := r3 * 5 in let s4 := r4 * 5 in
  let d0 := h0 * r0 + h1 * s4 + h2 * s3 + h3 * s2 + h4 * s1 in
  let d1 := h0 * r1 + h1 * r0 + h2 * s4 + h3 * s3 + h4 * s2 in
  let d2 := h0 * r2 + h1 * r1 + h2 * r0 + h3 * s4 + h4 * s3 in
  let d3 := h0 * r3 + h1 * r2 + h2 * r1 + h3 * r0 + h4 * s4 in
  let d4 := h0 * r4 + h1 * r3 + h2 * r2 + h3 * r1 + h4 * r0 in
  (* carry propagation *)
  let d1 := d1 + (d0 >> 26) in let h0 := d0 land mask26 in
  let d2 := d2 + (d1 >> 26) in let h1 := d1 land mask26 in
  let d3 := d3 + (d2 >> 26) in let h2 := d2 land mask26 in
  let d4 := d4 + (d3 >> 26) in let h3 := d3 land mask26 in
  let h0 := h0 + (d4 >> 26) * 5 in let h4 := d4 land mask26 in
  let h1 := h1 + (h0 >> 26) in let h0 := h0 land mask26 in
  Limbs h0 h1 h2 h3 h4.

(* Tail-recursive walk over the message in 16-byte blocks.  A full block gets bit 128 set
   (the appended 0x01 byte); a final short block gets the 0x01 right after its bytes. *)
Fixpoint poly1305_loop (r h : limbs) (msg : list N) : limbs :=
  match msg with
  | b0 :: b1 :: b2 :: b3 :: b4 :: b5 :: b6 :: b7 :: b8 :: b9 :: b10 :: b11 :: b12 :: b13
       :: b14 :: b15 :: rest =>
      poly1305_loop r
        (limbs_step r h
           (limbs_of_block (word_le b0 b1 b2 b3) (word_le b4 b5 b6 b7)
                           (word_le b8 b9 b10 b11) (word_le b12 b13 b14 b15) 1))
        rest
  | [] => h
  | tail =>
      match words_le (take_pad 16 (tail ++ [1%N])) with
      | [t0; t1; t2; t3] => limbs_step r h (limbs_of_block t0 t1 t2 t3 0)
      | _ => h
      end
  end.

Definition Z_of_limbs (h : limbs) : Z :=
  let '(Limbs h0 h1 h2 h3 h4) := h in
  (Z.of_N (N_of_int63 h0) + Z.shiftl (Z.of_N (N_of_int63 h1)) 26
   + Z.shiftl (Z.of_N (N_of_int63 h2)) 52 + Z.shiftl (Z.of_N (N_of_int63 h3)) 78
   + Z.shiftl (Z.of_N (N_of_int63 h4)) 104)%Z.

Definition poly1305 (key32 msg : list N) : list N :=
  let key := take_pad 32 key32 in
  let r := match words_le (firstn 16 key) with
           | [t0; t1; t2; t3] =>
               limbs_of_block (t0 land 0x0fffffff) (t1 land 0x0ffffffc)
                              (t2 land 0x0ffffffc) (t3 land 0x0ffffffc) 0
           | _ => Limbs 0 0 0 0 0
           end in
  let s := Z_of_le (skipn 16 key) in
  let a := (Z_of_limbs (poly1305_loop r (Limbs 0 0 0 0 0) msg) mod poly1305_p)%Z in
  le_bytes 16 (a + s)%Z.

Lemma poly1305_length key32 msg : length (poly1305 key32 msg) = 16%nat.
Proof. apply le_bytes_length. Qed.

(* The two versions agree on the carry-stressing inputs of RFC 8439 appendix A.3 (vectors
   5, 6, 9; expected tags included) and on all-ones inputs of every length 0..48. *)
Example poly1305_A3_5 :
  let k := [2%N] ++ zeros 31 in
  poly1305 k (repeat 255%N 16) = [3%N] ++ zeros 15 /\ poly1305_ref k (repeat 255%N 16) = [3%N] ++ zeros 15.
Proof. vm_compute; split; reflexivity. Qed.

Example poly1305_A3_6 :
  let k := [2%N] ++ zeros 15 ++ repeat 255%N 16 in
  poly1305 k ([2%N] ++ zeros 15) = [3%N] ++ zeros 15 /\ poly1305_ref k ([2%N] ++ zeros 15) = [3%N] ++ zeros 15.
Proof. vm_compute; split; reflexivity. Qed.

Example poly1305_A3_9 :
  let k := [2%N] ++ zeros 31 in
  poly1305 k ([253%N] ++ repeat 255%N 15) = [250%N] ++ repeat 255%N 15
  /\ poly1305_ref k ([253%N] ++ repeat 255%N 15) = [250%N] ++ repeat 255%N 15.
Proof. vm_compute; split; reflexivity. Qed.

Example poly1305_agrees_all_ones :
  forallb (fun n => eqb_listN (poly1305 (repeat 255%N 32) (repeat 255%N n))
                              (poly1305_ref (repeat 255%N 32) (repeat 255%N n)))
          (seq 0 49) = true.
Proof. vm_compute; reflexivity. Qed.

Example poly1305_agrees_ramp :
  forallb (fun n => eqb_listN (poly1305 (ramp 32) (ramp_from n 200))
                              (poly1305_ref (ramp 32) (ramp_from n 200)))
          [0; 1; 15; 16; 17; 31; 32; 33; 255; 256; 257; 1000]%nat = true.
Proof. vm_compute; reflexivity. Qed.
