(* Known-answer tests for the concrete cryptographic library, each closed by
   [vm_compute; reflexivity] (kernel-checked).  Vectors are copied from the cited
   documents; the cited section is given beside each. *)
From Kit Require Import Lib.Base.
From Kit Require Import Crypto.Words Crypto.SHA256 Crypto.SHA512 Crypto.HMAC Crypto.HKDF
  Crypto.ChaCha20 Crypto.Poly1305 Crypto.AEADChaCha Crypto.Base64 Crypto.AES Crypto.GCM
  Crypto.CBC Crypto.KW.
From Coq Require Import String Uint63.
Local Open Scope string_scope.

(* ------------------------------------------------------------------------------------- *)
(** * SHA-2 (FIPS 180-4; vectors from the NIST example files / RFC 6234 section 8.5) *)

Example sha256_abc :
  sha256 (ascii_bytes "abc")
  = hex "ba7816bf8f01cfea414140de5dae2223b00361a396177a9cb410ff61f20015ad".
Proof. vm_compute; reflexivity. Qed.

Example sha256_empty :
  sha256 [] = hex "e3b0c44298fc1c149afbf4c8996fb92427ae41e4649b934ca495991b7852b855".
Proof. vm_compute; reflexivity. Qed.

Example sha256_448bit :
  sha256 (ascii_bytes "abcdbcdecdefdefgefghfghighijhijkijkljklmklmnlmnomnopnopq")
  = hex "248d6a61d20638b8e5c026930c3e6039a33ce45964ff2167f6ecedd419db06c1".
Proof. vm_compute; reflexivity. Qed.

Example sha224_abc :
  sha224 (ascii_bytes "abc") = hex "23097d223405d8228642a477bda255b32aadbce4bda0b3f7e36c9da7".
Proof. vm_compute; reflexivity. Qed.

Example sha384_abc :
  sha384 (ascii_bytes "abc")
  = hex "cb00753f45a35e8bb5a03d699ac65007272c32ab0eded1631a8b605a43ff5bed
         8086072ba1e7cc2358baeca134c825a7".
Proof. vm_compute; reflexivity. Qed.

Example sha512_abc :
  sha512 (ascii_bytes "abc")
  = hex "ddaf35a193617abacc417349ae20413112e6fa4e89a97ea20a9eeee64b55d39a
         2192992a274fc1a836ba3c23a3feebbd454d4423643ce80e2a9ac94fa54ca49f".
Proof. vm_compute; reflexivity. Qed.

Example sha512_896bit :
  sha512 (ascii_bytes ("abcdefghbcdefghicdefghijdefghijkefghijklfghijklmghijklmn"
                       ++ "hijklmnoijklmnopjklmnopqklmnopqrlmnopqrsmnopqrstnopqrstu"))
  = hex "8e959b75dae313da8cf4f72814fc143f8f7779c6eb9f7fa17299aeadb6889018
         501d289e4900f7e4331b99dec4b5433ac7d329eeb6dd26545e96e55b874be909".
Proof. vm_compute; reflexivity. Qed.

(* the SHA-512 round constants extend the SHA-256 ones (cube roots of the same primes) *)
Example K512_extends_K256 :
  map (fun k => let '(W64 hi _) := k in hi) (firstn 64 K512) = K256.
Proof. vm_compute; reflexivity. Qed.

(* ------------------------------------------------------------------------------------- *)
(** * HMAC (RFC 4231 sections 4.2, 4.3) *)

Example hmac_sha256_rfc4231_1 :
  hmac_sha256 (repeat 0x0b%N 20) (ascii_bytes "Hi There")
  = hex "b0344c61d8db38535ca8afceaf0bf12b881dc200c9833da726e9376c2e32cff7".
Proof. vm_compute; reflexivity. Qed.

Example hmac_sha256_rfc4231_2 :
  hmac_sha256 (ascii_bytes "Jefe") (ascii_bytes "what do ya want for nothing?")
  = hex "5bdcc146bf60754e6a042426089575c75a003f089d2739839dec58b964ec3843".
Proof. vm_compute; reflexivity. Qed.

Example hmac_sha384_rfc4231_1 :
  hmac_sha384 (repeat 0x0b%N 20) (ascii_bytes "Hi There")
  = hex "afd03944d84895626b0825f4ab46907f15f9dadbe4101ec682aa034c7cebc59c
         faea9ea9076ede7f4af152e8b2fa9cb6".
Proof. vm_compute; reflexivity. Qed.

Example hmac_sha512_rfc4231_1 :
  hmac_sha512 (repeat 0x0b%N 20) (ascii_bytes "Hi There")
  = hex "87aa7cdea5ef619d4ff0b4241a1d6cb02379f4e2ce4ec2787ad0b30545e17cde
         daa833b7d6b8a702038b274eaea3f4e4be9d914eeb61f1702e696c203a126854".
Proof. vm_compute; reflexivity. Qed.

Example hmac_sha512_rfc4231_2 :
  hmac_sha512 (ascii_bytes "Jefe") (ascii_bytes "what do ya want for nothing?")
  = hex "164b7a7bfcf819e2e395fbe73b56e0a387bd64222e831fd610270cd7ea250554
         9758bf75c05a994a6d034f65f8f0e6fdcaeab1a34d4a6b4b636e070a38bce737".
Proof. vm_compute; reflexivity. Qed.

(* RFC 4231 section 4.7 (test case 6): a 131-byte key, longer than the block *)
Example hmac_sha256_rfc4231_6 :
  hmac_sha256 (repeat 0xaa%N 131)
              (ascii_bytes "Test Using Larger Than Block-Size Key - Hash Key First")
  = hex "60e431591ee0b67f0d8a26aacbf5b77f8e0bc6213728c5140546040f0ee37f54".
Proof. vm_compute; reflexivity. Qed.

(* ------------------------------------------------------------------------------------- *)
(** * HKDF (RFC 5869 appendix A.1, A.3) *)

Example hkdf_rfc5869_1 :
  hkdf_sha256 (repeat 0x0b%N 22) (hex "000102030405060708090a0b0c") (hex "f0f1f2f3f4f5f6f7f8f9") 42
  = hex "3cb25f25faacd57a90434f64d0362f2a2d2d0a90cf1a5a4c5db02d56ecc4c5bf34007208d5b887185865".
Proof. vm_compute; reflexivity. Qed.

Example hkdf_rfc5869_1_prk :
  hkdf_extract hmac_sha256 32 (hex "000102030405060708090a0b0c") (repeat 0x0b%N 22)
  = hex "077709362c2e32df0ddc3f0dc47bba6390b6c73bb50f9c3122ec844ad7c2b3e5".
Proof. vm_compute; reflexivity. Qed.

Example hkdf_rfc5869_3 :
  hkdf_sha256 (repeat 0x0b%N 22) [] [] 42
  = hex "8da4e775a563c18f715f802a063c5a31b8a11f5c5ee1879ec3454e5f3c738d2d9d201395faa4b61a96c8".
Proof. vm_compute; reflexivity. Qed.

(* ------------------------------------------------------------------------------------- *)
(** * ChaCha20, Poly1305, AEAD (RFC 8439) *)

Definition key_00_1f : list N := ramp 32.
Definition sunscreen : list N :=
  ascii_bytes ("Ladies and Gentlemen of the class of '99: If I could offer you only one "
               ++ "tip for the future, sunscreen would be it.").

(* section 2.3.2 *)
Example chacha20_block_rfc8439 :
  chacha20_block key_00_1f 1 (hex "000000090000004a00000000")
  = hex "10f1e7e4d13b5915500fdd1fa32071c4c7d1f4c733c068030422aa9ac3d46c4e
         d2826446079faa0914c2d705d98b02a2b5129cd1de164eb9cbd083e8a2503c4e".
Proof. vm_compute; reflexivity. Qed.

(* section 2.4.2 *)
Example chacha20_encrypt_rfc8439 :
  chacha20_xor key_00_1f 1 (hex "000000000000004a00000000") sunscreen
  = hex "6e2e359a2568f98041ba0728dd0d6981e97e7aec1d4360c20a27afccfd9fae0b
         f91b65c5524733ab8f593dabcd62b3571639d624e65152ab8f530c359f0861d8
         07ca0dbf500d6a6156a38e088a22b65e52bc514d16ccf806818ce91ab7793736
         5af90bbf74a35be6b40b8eedf2785e42874d".
Proof. vm_compute; reflexivity. Qed.

(* section 2.5.2 *)
Example poly1305_rfc8439 :
  poly1305 (hex "85d6be7857556d337f4452fe42d506a80103808afb0db2fd4abff6af4149f51b")
           (ascii_bytes "Cryptographic Forum Research Group")
  = hex "a8061dc1305136c6c22b8baf0c0127a9".
Proof. vm_compute; reflexivity. Qed.

(* section 2.6.2 *)
Example poly1305_key_gen_rfc8439 :
  poly1305_key_gen (hex "808182838485868788898a8b8c8d8e8f909192939495969798999a9b9c9d9e9f")
                   (hex "000000000001020304050607")
  = hex "8ad5a08b905f81cc815040274ab29471a833b637e3fd0da508dbb8e2fdd1a646".
Proof. vm_compute; reflexivity. Qed.

(* section 2.8.2 *)
Definition key_80_9f : list N :=
  hex "808182838485868788898a8b8c8d8e8f909192939495969798999a9b9c9d9e9f".
Definition aead_aad : list N := hex "50515253c0c1c2c3c4c5c6c7".
Definition aead_nonce : list N := hex "070000004041424344454647".
Definition aead_sealed : list N :=
  hex "d31a8d34648e60db7b86afbc53ef7ec2a4aded51296e08fea9e2b5a736ee62d6
       3dbea45e8ca9671282fafb69da92728b1a71de0a9e060b2905d6a5b67ecd3b36
       92ddbd7f2d778b8c9803aee328091b58fab324e4fad675945585808b4831d7bc
       3ff4def08e4b7a9de576d26586cec64b6116
       1ae10b594f09e26a7e902ecbd0600691".

Example chacha20poly1305_seal_rfc8439 :
  chacha20poly1305_seal key_80_9f aead_nonce aead_aad sunscreen = aead_sealed.
Proof. vm_compute; reflexivity. Qed.

Example chacha20poly1305_open_rfc8439 :
  chacha20poly1305_open key_80_9f aead_nonce aead_aad aead_sealed = Some sunscreen.
Proof. vm_compute; reflexivity. Qed.

(* a flipped ciphertext bit, a flipped tag bit, different aad, truncated input: rejected *)
Example chacha20poly1305_open_tampered :
  chacha20poly1305_open key_80_9f aead_nonce aead_aad (xor_bytes aead_sealed [1%N] ++ skipn 1 aead_sealed) = None
  /\ chacha20poly1305_open key_80_9f aead_nonce aead_aad (removelast aead_sealed ++ [0x90%N]) = None
  /\ chacha20poly1305_open key_80_9f aead_nonce [] aead_sealed = None
  /\ chacha20poly1305_open key_80_9f aead_nonce aead_aad (firstn 15 aead_sealed) = None.
Proof. vm_compute; repeat split; reflexivity. Qed.

(* appendix A.5: decryption vector *)
Example chacha20poly1305_open_rfc8439_A5 :
  option_map (firstn 40)
    (chacha20poly1305_open
       (hex "1c9240a5eb55d38af333888604f6b5f0473917c1402b80099dca5cbc207075c0")
       (hex "000000000102030405060708")
       (hex "f33388860000000000004e91")
       (hex "64a0861575861af460f062c79be643bd5e805cfd345cf389f108670ac76c8cb2
             4c6cfc18755d43eea09ee94e382d26b0bdb7b73c321b0100d4f03b7f355894cf
             332f830e710b97ce98c8a84abd0b948114ad176e008d33bd60f982b1ff37c855
             9797a06ef4f0ef61c186324e2b3506383606907b6a7c02b0f9f6157b53c867e4
             b9166c767b804d46a59b5216cde7a4e99040c5a40433225ee282a1b0a06c523e
             af4534d7f83fa1155b0047718cbc546a0d072b04b3564eea1b422273f548271a
             0bb2316053fa76991955ebd63159434ecebb4e466dae5a1073a6727627097a10
             49e617d91d361094fa68f0ff77987130305beaba2eda04df997b714d6c6f2c29
             a6ad5cb4022b02709b
             eead9d67890cbb22392336fea1851f38"))
  = Some (ascii_bytes "Internet-Drafts are draft documents vali").
Proof. vm_compute; reflexivity. Qed.

(* ------------------------------------------------------------------------------------- *)
(** * HChaCha20 and XChaCha20-Poly1305 (draft-irtf-cfrg-xchacha-03) *)

(* section 2.2.1 *)
Example hchacha20_draft :
  hchacha20 key_00_1f (hex "000000090000004a0000000031415927")
  = hex "82413b4227b27bfed30e42508a877d73a0f9e4d58a74a853c12ec41326d3ecdc".
Proof. vm_compute; reflexivity. Qed.

(* appendix A.3.1 *)
Definition xaead_nonce : list N := hex "404142434445464748494a4b4c4d4e4f5051525354555657".
Definition xaead_sealed : list N :=
  hex "bd6d179d3e83d43b9576579493c0e939572a1700252bfaccbed2902c21396cbb
       731c7f1b0b4aa6440bf3a82f4eda7e39ae64c6708c54c216cb96b72e1213b452
       2f8c9ba40db5d945b11b69b982c1bb9e3f3fac2bc369488f76b2383565d3fff9
       21f9664c97637da9768812f615c68b13b52e
       c0875924c1c7987947deafd8780acf49".

Example xchacha20poly1305_seal_draft :
  xchacha20poly1305_seal key_80_9f xaead_nonce aead_aad sunscreen = xaead_sealed.
Proof. vm_compute; reflexivity. Qed.

Example xchacha20poly1305_open_draft :
  xchacha20poly1305_open key_80_9f xaead_nonce aead_aad xaead_sealed = Some sunscreen.
Proof. vm_compute; reflexivity. Qed.

(* ------------------------------------------------------------------------------------- *)
(** * AES (FIPS 197 appendix C.1-C.3, appendix A.1 and figure 7) *)

Definition fips197_pt : list N := hex "00112233445566778899aabbccddeeff".

Example aes128_fips197_C1 :
  aes_encrypt_block (ramp 16) fips197_pt = hex "69c4e0d86a7b0430d8cdb78070b4c55a"
  /\ aes_decrypt_block (ramp 16) (hex "69c4e0d86a7b0430d8cdb78070b4c55a") = fips197_pt.
Proof. vm_compute; split; reflexivity. Qed.

Example aes192_fips197_C2 :
  aes_encrypt_block (ramp 24) fips197_pt = hex "dda97ca4864cdfe06eaf70a0ec0d7191"
  /\ aes_decrypt_block (ramp 24) (hex "dda97ca4864cdfe06eaf70a0ec0d7191") = fips197_pt.
Proof. vm_compute; split; reflexivity. Qed.

Example aes256_fips197_C3 :
  aes_encrypt_block (ramp 32) fips197_pt = hex "8ea2b7ca516745bfeafc49904b496089"
  /\ aes_decrypt_block (ramp 32) (hex "8ea2b7ca516745bfeafc49904b496089") = fips197_pt.
Proof. vm_compute; split; reflexivity. Qed.

(* appendix B *)
Example aes128_fips197_B :
  aes_encrypt_block (hex "2b7e151628aed2a6abf7158809cf4f3c") (hex "3243f6a8885a308d313198a2e0370734")
  = hex "3925841d02dc09fbdc118597196a0b32".
Proof. vm_compute; reflexivity. Qed.

(* figure 7: first and last rows of the S-box, and the worked example {53} -> {ed};
   the inverse S-box inverts it everywhere *)
Example sbox_fips197 :
  map N_of_int8 (firstn 16 sbox_list) = hex "637c777bf26b6fc53001672bfed7ab76"
  /\ map N_of_int8 (skipn 240 sbox_list) = hex "8ca1890dbfe6426841992d0fb054bb16"
  /\ N_of_int8 (sbox 0x53%uint63) = 0xed%N
  /\ map (fun x => inv_sbox (sbox x)) (int_range 256 0%uint63) = int_range 256 0%uint63.
Proof. vm_compute; repeat split; reflexivity. Qed.

(* appendix A.1: last round key of the AES-128 expansion of 2b7e1516... *)
Example key_expansion_fips197_A1 :
  option_map bytes_of_st16 (nth_error (aes_expand (hex "2b7e151628aed2a6abf7158809cf4f3c")) 10)
  = Some (hex "d014f9a8c9ee2589e13f0cc8b6630ca6").
Proof. vm_compute; reflexivity. Qed.

(* ------------------------------------------------------------------------------------- *)
(** * AES-GCM (McGrew and Viega, "The Galois/Counter Mode of Operation", appendix B) *)

Definition gcm_k3 : list N := hex "feffe9928665731c6d6a8f9467308308".
Definition gcm_iv3 : list N := hex "cafebabefacedbaddecaf888".
Definition gcm_p3 : list N :=
  hex "d9313225f88406e5a55909c5aff5269a86a7a9531534f7da2e4c303d8a318a72
       1c3c0c95956809532fcf0e2449a6b525b16aedf5aa0de657ba637b391aafd255".
Definition gcm_a4 : list N := hex "feedfacedeadbeeffeedfacedeadbeefabaddad2".

Example gcm_test_case_1 :
  gcm_seal (zeros 16) (zeros 12) [] [] = hex "58e2fccefa7e3061367f1d57a4e7455a".
Proof. vm_compute; reflexivity. Qed.

Example gcm_test_case_2 :
  gcm_seal (zeros 16) (zeros 12) [] (zeros 16)
  = hex "0388dace60b6a392f328c2b971b2fe78 ab6e47d42cec13bdf53a67b21257bddf".
Proof. vm_compute; reflexivity. Qed.

Example gcm_test_case_3 :
  gcm_seal gcm_k3 gcm_iv3 [] gcm_p3
  = hex "42831ec2217774244b7221b784d0d49ce3aa212f2c02a4e035c17e2329aca12e
         21d514b25466931c7d8f6a5aac84aa051ba30b396a0aac973d58e091473f5985
         4d5c2af327cd64a62cf35abd2ba6fab4".
Proof. vm_compute; reflexivity. Qed.

Example gcm_test_case_4 :
  gcm_seal gcm_k3 gcm_iv3 gcm_a4 (firstn 60 gcm_p3)
  = hex "42831ec2217774244b7221b784d0d49ce3aa212f2c02a4e035c17e2329aca12e
         21d514b25466931c7d8f6a5aac84aa051ba30b396a0aac973d58e091
         5bc94fbc3221a5db94fae95ae7121a47".
Proof. vm_compute; reflexivity. Qed.

(* 8-byte IV: J0 derived with GHASH *)
Example gcm_test_case_5 :
  gcm_seal gcm_k3 (hex "cafebabefacedbad") gcm_a4 (firstn 60 gcm_p3)
  = hex "61353b4c2806934a777ff51fa22a4755699b2a714fcdc6f83766e5f97b6c7423
         73806900e49f24b22b097544d4896b424989b5e1ebac0f07c23f4598
         3612d2e79e3b0785561be14aaca2fccb".
Proof. vm_compute; reflexivity. Qed.

(* 60-byte IV *)
Example gcm_test_case_6 :
  gcm_seal gcm_k3
    (hex "9313225df88406e555909c5aff5269aa6a7a9538534f7da1e4c303d2a318a728
          c3c0c95156809539fcf0e2429a6b525416aedbf5a0de6a57a637b39b")
    gcm_a4 (firstn 60 gcm_p3)
  = hex "8ce24998625615b603a033aca13fb894be9112a5c3a211a8ba262a3cca7e2ca7
         01e4a9a4fba43c90ccdcb281d48c7c6fd62875d2aca417034c34aee5
         619cc5aefffe0bfa462af43c1699d050".
Proof. vm_compute; reflexivity. Qed.

(* AES-256: test cases 13, 14, 16 *)
Example gcm_test_case_13 :
  gcm_seal (zeros 32) (zeros 12) [] [] = hex "530f8afbc74536b9a963b4f1c4cb738b".
Proof. vm_compute; reflexivity. Qed.

Example gcm_test_case_14 :
  gcm_seal (zeros 32) (zeros 12) [] (zeros 16)
  = hex "cea7403d4d606b6e074ec5d3baf39d18 d0d1c8a799996bf0265b98b5d48ab919".
Proof. vm_compute; reflexivity. Qed.

Example gcm_test_case_16 :
  gcm_seal (gcm_k3 ++ gcm_k3) gcm_iv3 gcm_a4 (firstn 60 gcm_p3)
  = hex "522dc1f099567d07f47f37a32a84427d643a8cdcbfe5c0c97598a2bd2555d1aa
         8cb08e48590dbb3da7b08b1056828838c5f61e6393ba7a0abcc9f662
         76fc6ece0f4e1768cddf8853bb2d551b".
Proof. vm_compute; reflexivity. Qed.

Example gcm_open_test_case_16 :
  gcm_open (gcm_k3 ++ gcm_k3) gcm_iv3 gcm_a4
           (gcm_seal (gcm_k3 ++ gcm_k3) gcm_iv3 gcm_a4 (firstn 60 gcm_p3))
  = Some (firstn 60 gcm_p3)
  /\ gcm_open (gcm_k3 ++ gcm_k3) gcm_iv3 []
              (gcm_seal (gcm_k3 ++ gcm_k3) gcm_iv3 gcm_a4 (firstn 60 gcm_p3)) = None
  /\ gcm_open gcm_k3 gcm_iv3 [] (zeros 15) = None.
Proof. vm_compute; repeat split; reflexivity. Qed.

(* ------------------------------------------------------------------------------------- *)
(** * CBC (NIST SP 800-38A appendix F.2.1, F.2.2, F.2.5) *)

Definition sp800_38a_pt : list N :=
  hex "6bc1bee22e409f96e93d7e117393172aae2d8a571e03ac9c9eb76fac45af8e51
       30c81c46a35ce411e5fbc1191a0a52eff69f2445df4f9b17ad2b417be66c3710".
Definition sp800_38a_ct128 : list N :=
  hex "7649abac8119b246cee98e9b12e9197d5086cb9b507219ee95db113a917678b2
       73bed6b8e3c1743b7116e69e222295163ff1caa1681fac09120eca307586e1a7".

Example cbc_aes128_encrypt_F21 :
  aes_cbc_encrypt (hex "2b7e151628aed2a6abf7158809cf4f3c") (ramp 16) sp800_38a_pt = sp800_38a_ct128.
Proof. vm_compute; reflexivity. Qed.

Example cbc_aes128_decrypt_F22 :
  aes_cbc_decrypt (hex "2b7e151628aed2a6abf7158809cf4f3c") (ramp 16) sp800_38a_ct128 = sp800_38a_pt.
Proof. vm_compute; reflexivity. Qed.

Example cbc_aes256_encrypt_F25 :
  aes_cbc_encrypt (hex "603deb1015ca71be2b73aef0857d77811f352c073b6108d72d9810a30914dff4")
                  (ramp 16) sp800_38a_pt
  = hex "f58c4c04d6e5f1ba779eabfb5f7bfbd69cfc4e967edb808d679f777bc6702c7d
         39f23369a9d9bacfa530e26304231461b2eb05e2c39be9fcda6c19078c6a9d1b".
Proof. vm_compute; reflexivity. Qed.

(* ------------------------------------------------------------------------------------- *)
(** * AES Key Wrap (RFC 3394 sections 4.1, 4.3, 4.6) *)

Definition kw_data128 : list N := hex "00112233445566778899AABBCCDDEEFF".
Definition kw_data256 : list N :=
  hex "00112233445566778899AABBCCDDEEFF000102030405060708090A0B0C0D0E0F".

Example kw_rfc3394_4_1 :
  aes_kw_wrap (ramp 16) kw_data128 = hex "1FA68B0A8112B447AEF34BD8FB5A7B829D3E862371D2CFE5"
  /\ aes_kw_unwrap (ramp 16) (hex "1FA68B0A8112B447AEF34BD8FB5A7B829D3E862371D2CFE5")
     = Some kw_data128.
Proof. vm_compute; split; reflexivity. Qed.

Example kw_rfc3394_4_3 :
  aes_kw_wrap (ramp 32) kw_data128 = hex "64E8C3F9CE0F5BA263E9777905818A2A93C8191E7D6E8AE7"
  /\ aes_kw_unwrap (ramp 32) (hex "64E8C3F9CE0F5BA263E9777905818A2A93C8191E7D6E8AE7")
     = Some kw_data128.
Proof. vm_compute; split; reflexivity. Qed.

Example kw_rfc3394_4_6 :
  aes_kw_wrap (ramp 32) kw_data256
  = hex "28C9F404C4B810F4CBCCB35CFB87F8263F5786E2D80ED326CBC7F0E71A99F43BFB988B9B7A02DD21"
  /\ aes_kw_unwrap (ramp 32)
       (hex "28C9F404C4B810F4CBCCB35CFB87F8263F5786E2D80ED326CBC7F0E71A99F43BFB988B9B7A02DD21")
     = Some kw_data256.
Proof. vm_compute; split; reflexivity. Qed.

(* integrity check: one flipped bit is rejected; so are malformed lengths *)
Example kw_unwrap_rejects :
  aes_kw_unwrap (ramp 16) (hex "1FA68B0A8112B447AEF34BD8FB5A7B829D3E862371D2CFE4") = None
  /\ aes_kw_unwrap (ramp 16) (hex "1FA68B0A8112B447AEF34BD8FB5A7B829D3E862371D2CF") = None
  /\ aes_kw_unwrap (ramp 16) (hex "1FA68B0A8112B447") = None.
Proof. vm_compute; repeat split; reflexivity. Qed.

(* ------------------------------------------------------------------------------------- *)
(** * Base64 (RFC 4648 section 10) *)

Example b64_rfc4648 :
  map (fun s => b64_encode (ascii_bytes s)) [""; "f"; "fo"; "foo"; "foob"; "fooba"; "foobar"]
  = map ascii_bytes [""; "Zg=="; "Zm8="; "Zm9v"; "Zm9vYg=="; "Zm9vYmE="; "Zm9vYmFy"].
Proof. vm_compute; reflexivity. Qed.

Example b64_rfc4648_decode :
  map (fun s => b64_decode (ascii_bytes s))
      [""; "Zg=="; "Zm8="; "Zm9v"; "Zm9vYg=="; "Zm9vYmE="; "Zm9vYmFy"]
  = map (fun s => Some (ascii_bytes s)) [""; "f"; "fo"; "foo"; "foob"; "fooba"; "foobar"].
Proof. vm_compute; reflexivity. Qed.

Example b64raw_rfc4648 :
  map (fun s => b64raw_encode (ascii_bytes s)) [""; "f"; "fo"; "foo"; "foob"; "fooba"; "foobar"]
  = map ascii_bytes [""; "Zg"; "Zm8"; "Zm9v"; "Zm9vYg"; "Zm9vYmE"; "Zm9vYmFy"].
Proof. vm_compute; reflexivity. Qed.

(* malformed input is rejected (same verdicts as Go's StdEncoding / RawStdEncoding) *)
Example b64_decode_rejects :
  map (fun s => b64_decode (ascii_bytes s))
      ["Zg="; "Zg"; "Zg==Zg=="; "Z==="; "Zm9v="; "Zm9v Yg=="; "Zm-_"; "="]
  = repeat None 8
  /\ map (fun s => b64raw_decode (ascii_bytes s)) ["Zg=="; "Z"; "Zm9vY"; "Zm8="] = repeat None 4.
Proof. vm_compute; split; reflexivity. Qed.

(* the two alphabets differ exactly on 62 and 63 *)
Example b64url_alphabet :
  b64_encode [0xfb; 0xff; 0xbf]%N = ascii_bytes "+/+/"
  /\ b64url_encode [0xfb; 0xff; 0xbf]%N = ascii_bytes "-_-_"
  /\ b64rawurl_decode (ascii_bytes "-_-_") = Some [0xfb; 0xff; 0xbf]%N
  /\ b64rawurl_decode (ascii_bytes "+/+/") = None.
Proof. vm_compute; repeat split; reflexivity. Qed.
