(* HMAC, written from RFC 2104 (= FIPS 198-1), generic in the hash function. *)
From Kit Require Import Lib.Base.
From Kit Require Import Crypto.Words Crypto.SHA256 Crypto.SHA512.

(* [H] is the hash, [blocksize] its input block length B in bytes.
   RFC 2104 section 2: keys longer than B are hashed first; the key is then zero-padded
   to B bytes; HMAC = H(K xor opad, H(K xor ipad, text)). *)
Definition hmac (H : list N -> list N) (blocksize : nat) (key msg : list N) : list N :=
  let k0 := if Nat.ltb blocksize (length key) then H key else key in
  let k := take_pad blocksize k0 in
  let ipad := map (N.lxor 0x36) k in
  let opad := map (N.lxor 0x5c) k in
  H (opad ++ H (ipad ++ msg)).

Definition hmac_sha256 (key msg : list N) : list N := hmac sha256 64 key msg.
Definition hmac_sha384 (key msg : list N) : list N := hmac sha384 128 key msg.
Definition hmac_sha512 (key msg : list N) : list N := hmac sha512 128 key msg.

Lemma hmac_sha256_length key msg : length (hmac_sha256 key msg) = 32.
Proof. apply sha256_length. Qed.
Lemma hmac_sha384_length key msg : length (hmac_sha384 key msg) = 48.
Proof. apply sha384_length. Qed.
Lemma hmac_sha512_length key msg : length (hmac_sha512 key msg) = 64.
Proof. apply sha512_length. Qed.
