(* Shared helpers for the concrete cryptographic library.

   Bytes are [N] (< 256) and byte strings are [list N] at every public interface.
   Word-level internals use the kernel's primitive 63-bit integers ([Uint63.int]); 32-bit
   words are kept below 2^32 by masking explicitly with [mask32].  Nothing in this file
   (or in the round-trip theorems of the other files) uses a lemma about [Uint63]: the
   primitive operations are only ever *evaluated*. *)
From Kit Require Import Lib.Base.
From Coq Require Import Uint63 Ascii.
From Coq Require String.

Local Open Scope list_scope.

(* ------------------------------------------------------------------------------------- *)
(** * Conversions between [N] and primitive integers *)

Definition int_of_N (n : N) : int :=
  match n with N0 => 0%uint63 | Npos p => Uint63.of_pos p end.

(* The low [k] bits of [i] as an [N] (canonical: no leading zero bits are built). *)
Fixpoint N_of_int_bits (k : nat) (i : int) : N :=
  match k with
  | O => 0%N
  | S k' =>
      let r := N_of_int_bits k' (i >> 1)%uint63 in
      if Uint63.is_even i then N.double r else N.succ_double r
  end.

Definition N_of_int8 (i : int) : N := N_of_int_bits 8 i.
Definition N_of_int32 (i : int) : N := N_of_int_bits 32 i.
Definition N_of_int63 (i : int) : N := N_of_int_bits 63 i.

(* ------------------------------------------------------------------------------------- *)
(** * 32-bit word arithmetic on [int] *)

Definition mask32 : int := 0xFFFFFFFF%uint63.
Definition mask8 : int := 0xFF%uint63.

Definition add32 (a b : int) : int := ((a + b) land mask32)%uint63.
Definition rotl32 (x n : int) : int := (((x << n) lor (x >> (32 - n))) land mask32)%uint63.
Definition rotr32 (x n : int) : int := (((x >> n) lor (x << (32 - n))) land mask32)%uint63.
Definition shr32 (x n : int) : int := (x >> n)%uint63.
Definition not32 (x : int) : int := (x lxor mask32)%uint63.

(* four bytes -> word *)
Definition word_be (a b c d : N) : int :=
  ((int_of_N a << 24) lor (int_of_N b << 16) lor (int_of_N c << 8) lor int_of_N d)%uint63.
Definition word_le (a b c d : N) : int := word_be d c b a.

(* word -> four bytes *)
Definition word_be_bytes (w : int) : list N :=
  [N_of_int8 (w >> 24); N_of_int8 (w >> 16); N_of_int8 (w >> 8); N_of_int8 w]%uint63.
Definition word_le_bytes (w : int) : list N :=
  [N_of_int8 w; N_of_int8 (w >> 8); N_of_int8 (w >> 16); N_of_int8 (w >> 24)]%uint63.

(* byte strings -> word lists; a trailing partial word is zero-padded *)
Fixpoint words_be (bs : list N) : list int :=
  match bs with
  | a :: b :: c :: d :: rest => word_be a b c d :: words_be rest
  | [a; b; c] => [word_be a b c 0]
  | [a; b] => [word_be a b 0 0]
  | [a] => [word_be a 0 0 0]
  | [] => []
  end.

Fixpoint words_le (bs : list N) : list int :=
  match bs with
  | a :: b :: c :: d :: rest => word_le a b c d :: words_le rest
  | [a; b; c] => [word_le a b c 0]
  | [a; b] => [word_le a b 0 0]
  | [a] => [word_le a 0 0 0]
  | [] => []
  end.

Definition bytes_of_words_be (ws : list int) : list N := flat_map word_be_bytes ws.
Definition bytes_of_words_le (ws : list int) : list N := flat_map word_le_bytes ws.

Definition ints_of_bytes (bs : list N) : list int := map int_of_N bs.
Definition bytes_of_ints (xs : list int) : list N := map N_of_int8 xs.

(* ------------------------------------------------------------------------------------- *)
(** * Fixed-width encoders on [N] (the value is reduced modulo 2^width) *)

Definition byte_at (n : N) (shift : N) : N := N.land (N.shiftr n shift) 255.

Definition be16 (n : N) : list N := [byte_at n 8; byte_at n 0].
Definition be32 (n : N) : list N := [byte_at n 24; byte_at n 16; byte_at n 8; byte_at n 0].
Definition be64 (n : N) : list N :=
  [byte_at n 56; byte_at n 48; byte_at n 40; byte_at n 32;
   byte_at n 24; byte_at n 16; byte_at n 8; byte_at n 0].
Definition le32 (n : N) : list N := [byte_at n 0; byte_at n 8; byte_at n 16; byte_at n 24].
Definition le64 (n : N) : list N :=
  [byte_at n 0; byte_at n 8; byte_at n 16; byte_at n 24;
   byte_at n 32; byte_at n 40; byte_at n 48; byte_at n 56].

(* big-/little-endian byte strings -> number *)
Definition N_of_be (bs : list N) : N := fold_left (fun acc b => (acc * 256 + b)%N) bs 0%N.
Definition N_of_le (bs : list N) : N := fold_right (fun b acc => (b + 256 * acc)%N) 0%N bs.

Definition lenN {A} (l : list A) : N := N.of_nat (length l).

(* ------------------------------------------------------------------------------------- *)
(** * Byte-string helpers *)

Definition zeros (n : nat) : list N := repeat 0%N n.

(* xor of two byte strings, truncated to the shorter one *)
Fixpoint xor_bytes (a b : list N) : list N :=
  match a, b with
  | x :: a', y :: b' => N.lxor x y :: xor_bytes a' b'
  | _, _ => []
  end.

Lemma xor_bytes_length a b : length (xor_bytes a b) = Nat.min (length a) (length b).
Proof.
  revert b; induction a as [|x a IH]; intros [|y b]; cbn [xor_bytes length Nat.min];
    try reflexivity.
  now rewrite IH.
Qed.

Lemma xor_bytes_involutive a b :
  length a <= length b -> xor_bytes (xor_bytes a b) b = a.
Proof.
  revert b; induction a as [|x a IH]; intros [|y b] Hlen; cbn [xor_bytes]; try reflexivity.
  - cbn in Hlen. lia.
  - cbn [length] in Hlen. rewrite IH by lia.
    rewrite N.lxor_assoc, N.lxor_nilpotent, N.lxor_0_r. reflexivity.
Qed.

(* first [n] elements, zero-padded on the right: always exactly [n] long *)
Fixpoint take_pad (n : nat) (l : list N) : list N :=
  match n with
  | O => []
  | S n' => match l with
            | [] => 0%N :: take_pad n' []
            | x :: l' => x :: take_pad n' l'
            end
  end.

Lemma take_pad_length n l : length (take_pad n l) = n.
Proof. revert l; induction n as [|n IH]; intros [|x l]; cbn; now rewrite ?IH. Qed.

Lemma take_pad_exact l : take_pad (length l) l = l.
Proof. induction l as [|x l IH]; cbn; now rewrite ?IH. Qed.

(* zero padding up to the next multiple of [k] bytes *)
Definition pad_zeros_to (k : nat) (len : nat) : list N :=
  zeros ((k - len mod k) mod k).

(* ------------------------------------------------------------------------------------- *)
(** * Chunking *)

Fixpoint chunks_fuel {A} (fuel k : nat) (l : list A) : list (list A) :=
  match fuel with
  | O => []
  | S f => match l with
           | [] => []
           | _ :: _ => firstn k l :: chunks_fuel f k (skipn k l)
           end
  end.

(* [chunks k l] cuts [l] into pieces of [k] elements (the last one may be shorter). *)
Definition chunks {A} (k : nat) (l : list A) : list (list A) := chunks_fuel (length l) k l.

Lemma chunks_fuel_concat {A} fuel k (l : list A) :
  0 < k -> length l <= fuel -> concat (chunks_fuel fuel k l) = l.
Proof.
  intros Hk; revert l; induction fuel as [|f IH]; intros l Hl.
  - destruct l; [reflexivity | cbn in Hl; lia].
  - destruct l as [|x l]; [reflexivity|].
    cbn [chunks_fuel concat]. rewrite IH.
    + apply firstn_skipn.
    + rewrite skipn_length. cbn [length] in *. lia.
Qed.

Lemma chunks_concat {A} k (l : list A) : 0 < k -> concat (chunks k l) = l.
Proof. intros Hk. apply chunks_fuel_concat; [assumption | apply Nat.le_refl]. Qed.

Lemma chunks_fuel_of_concat {A} fuel k (bs : list (list A)) :
  0 < k -> Forall (fun b => length b = k) bs -> length (concat bs) <= fuel ->
  chunks_fuel fuel k (concat bs) = bs.
Proof.
  intros Hk Hall; revert fuel; induction Hall as [|b bs Hb Hall IH]; intros fuel Hf.
  - destruct fuel; reflexivity.
  - cbn [concat] in *. rewrite app_length in Hf.
    destruct fuel as [|f]; [lia|].
    cbn [chunks_fuel].
    destruct (b ++ concat bs) as [|y ys] eqn:E.
    + apply (f_equal (@length A)) in E. rewrite app_length in E. cbn in E. lia.
    + rewrite <- E. subst k.
      rewrite firstn_app, Nat.sub_diag, firstn_all, firstn_O, app_nil_r.
      rewrite skipn_app, Nat.sub_diag, skipn_all, skipn_O.
      cbn [app]. f_equal. apply IH. lia.
Qed.

Lemma chunks_of_concat {A} k (bs : list (list A)) :
  0 < k -> Forall (fun b => length b = k) bs -> chunks k (concat bs) = bs.
Proof. intros Hk Hall. apply chunks_fuel_of_concat; auto. Qed.

Lemma chunks_fuel_Forall {A} fuel k (l : list A) :
  0 < k -> length l <= fuel -> length l mod k = 0 ->
  Forall (fun b => length b = k) (chunks_fuel fuel k l).
Proof.
  intros Hk; revert l; induction fuel as [|f IH]; intros l Hl Hmod.
  - constructor.
  - destruct l as [|x l]; [constructor|].
    cbn [chunks_fuel].
    assert (Hge : k <= length (x :: l)).
    { destruct (Nat.lt_ge_cases (length (x :: l)) k) as [Hlt|]; [|assumption].
      rewrite Nat.mod_small in Hmod by assumption. cbn in Hmod. lia. }
    constructor.
    + rewrite firstn_length. lia.
    + apply IH.
      * rewrite skipn_length. cbn [length] in *. lia.
      * rewrite skipn_length.
        replace (length (x :: l)) with ((length (x :: l) - k) + 1 * k) in Hmod by lia.
        rewrite Nat.mod_add in Hmod by lia. exact Hmod.
Qed.

Lemma chunks_Forall {A} k (l : list A) :
  0 < k -> length l mod k = 0 -> Forall (fun b => length b = k) (chunks k l).
Proof. intros. apply chunks_fuel_Forall; auto. Qed.

Lemma concat_length_const {A} k (bs : list (list A)) :
  Forall (fun b => length b = k) bs -> length (concat bs) = k * length bs.
Proof.
  induction 1 as [|b bs Hb Hall IH]; cbn [concat length]; [lia|].
  rewrite app_length, IH, Hb. lia.
Qed.

(* ------------------------------------------------------------------------------------- *)
(** * Validity of elements ([forallb okb], typically [bytes_ok]) through the helpers *)

Lemma forallb_true {A} (l : list A) : forallb (fun _ => true) l = true.
Proof. induction l as [|x l IH]; [reflexivity | exact IH]. Qed.

Lemma forallb_firstn {A} (f : A -> bool) n l :
  forallb f l = true -> forallb f (firstn n l) = true.
Proof.
  revert l; induction n as [|n IH]; intros [|x l] H; cbn [firstn forallb] in *; try reflexivity.
  apply andb_true_iff in H as [Hx Hl]. now rewrite Hx, IH.
Qed.

Lemma forallb_skipn {A} (f : A -> bool) n l :
  forallb f l = true -> forallb f (skipn n l) = true.
Proof.
  revert l; induction n as [|n IH]; intros [|x l] H; cbn [skipn forallb] in *; try assumption.
  apply andb_true_iff in H as [Hx Hl]. now apply IH.
Qed.

Lemma forallb_concat {A} (f : A -> bool) bs :
  Forall (fun b => forallb f b = true) bs -> forallb f (concat bs) = true.
Proof.
  induction 1 as [|b bs Hb Hall IH]; cbn [concat]; [reflexivity|].
  rewrite forallb_app, Hb, IH. reflexivity.
Qed.

Lemma forallb_chunks_fuel {A} (f : A -> bool) fuel k l :
  forallb f l = true -> Forall (fun b => forallb f b = true) (chunks_fuel fuel k l).
Proof.
  revert l; induction fuel as [|fu IH]; intros l H; cbn [chunks_fuel]; [constructor|].
  destruct l as [|x l]; constructor.
  - now apply forallb_firstn.
  - apply IH. now apply forallb_skipn.
Qed.

Lemma forallb_chunks {A} (f : A -> bool) k l :
  forallb f l = true -> Forall (fun b => forallb f b = true) (chunks k l).
Proof. apply forallb_chunks_fuel. Qed.

Lemma forallb_xor_bytes (okb : N -> bool) a b :
  (forall x y, okb x = true -> okb y = true -> okb (N.lxor x y) = true) ->
  forallb okb a = true -> forallb okb b = true -> forallb okb (xor_bytes a b) = true.
Proof.
  intro Hxor; revert b; induction a as [|x a IH]; intros [|y b] Ha Hb;
    cbn [xor_bytes forallb] in *; try reflexivity.
  apply andb_true_iff in Ha as [Hx Ha]. apply andb_true_iff in Hb as [Hy Hb].
  now rewrite Hxor, IH.
Qed.

Lemma byte_ok_lxor x y : byte_ok x = true -> byte_ok y = true -> byte_ok (N.lxor x y) = true.
Proof.
  unfold byte_ok. rewrite !N.ltb_lt. intros Hx Hy.
  destruct (N.eq_dec x 0) as [->|Hx0]; [now rewrite N.lxor_0_l|].
  destruct (N.eq_dec y 0) as [->|Hy0]; [now rewrite N.lxor_0_r|].
  destruct (N.eq_dec (N.lxor x y) 0) as [->|Hz0]; [reflexivity|].
  change 256%N with (2 ^ 8)%N in *.
  apply N.log2_lt_pow2 in Hx; [|lia]. apply N.log2_lt_pow2 in Hy; [|lia].
  apply N.log2_lt_pow2; [lia|].
  pose proof (N.log2_lxor x y) as Hl. lia.
Qed.

Lemma byte_at_ok n s : byte_ok (byte_at n s) = true.
Proof.
  unfold byte_ok, byte_at. apply N.ltb_lt.
  change 255%N with (N.ones 8). rewrite N.land_ones. apply N.mod_lt. discriminate.
Qed.

Lemma be64_ok n : bytes_ok (be64 n) = true.
Proof. unfold be64, bytes_ok. cbn [forallb]. now rewrite !byte_at_ok. Qed.

Lemma N_of_int_bits_lt k i : (N_of_int_bits k i < 2 ^ N.of_nat k)%N.
Proof.
  revert i; induction k as [|k IH]; intro i; cbn [N_of_int_bits].
  - cbn. lia.
  - specialize (IH (i >> 1)%uint63).
    rewrite Nat2N.inj_succ, N.pow_succ_r'.
    destruct (Uint63.is_even i); [rewrite N.double_spec | rewrite N.succ_double_spec]; lia.
Qed.

Lemma bytes_of_ints_ok xs : bytes_ok (bytes_of_ints xs) = true.
Proof.
  unfold bytes_ok, bytes_of_ints. induction xs as [|x xs IH]; cbn [map forallb]; [reflexivity|].
  rewrite IH, andb_true_r. apply N.ltb_lt. apply (N_of_int_bits_lt 8 x).
Qed.

(* A toy "block cipher" used only for the non-vacuity examples of the CBC and KW theorems:
   reduce every element to a byte and pad/cut to 16; it is its own inverse on 16-byte
   blocks. *)
Definition toy_block (b : list N) : list N := take_pad 16 (map (fun x => N.land x 255) b).

Lemma toy_block_length b : length (toy_block b) = 16.
Proof. apply take_pad_length. Qed.

Lemma take_pad_ok n l : bytes_ok l = true -> bytes_ok (take_pad n l) = true.
Proof.
  unfold bytes_ok. revert l; induction n as [|n IH]; intros [|x l] H;
    cbn [take_pad forallb] in *; try reflexivity.
  - now rewrite IH.
  - apply andb_true_iff in H as [Hx Hl]. now rewrite Hx, IH.
Qed.

Lemma toy_block_ok b : bytes_ok (toy_block b) = true.
Proof.
  apply take_pad_ok. unfold bytes_ok. induction b as [|x b IH]; cbn [map forallb]; [reflexivity|].
  rewrite IH, andb_true_r. apply (byte_at_ok x 0).
Qed.

Lemma toy_block_involutive b :
  length b = 16 -> bytes_ok b = true -> toy_block (toy_block b) = b.
Proof.
  intros Hlen Hok.
  assert (Hid : toy_block b = b).
  { unfold toy_block. rewrite <- Hlen, <- (map_length (fun x => N.land x 255) b).
    rewrite take_pad_exact. clear Hlen.
    induction b as [|x b IH]; cbn [map]; [reflexivity|].
    cbn [bytes_ok forallb] in Hok. apply andb_true_iff in Hok as [Hx Hb].
    rewrite IH by exact Hb. f_equal.
    unfold byte_ok in Hx. apply N.ltb_lt in Hx.
    change 255%N with (N.ones 8). rewrite N.land_ones. now apply N.mod_small. }
  now rewrite !Hid.
Qed.

(* ------------------------------------------------------------------------------------- *)
(** * A 16-slot register file, used for the ChaCha20 state (16 words) and the AES state
      (16 bytes, column-major).  Being an inductive with a single constructor, the length
      of its list view is known without evaluating anything. *)

Inductive st16 :=
  St16 (x0 x1 x2 x3 x4 x5 x6 x7 x8 x9 x10 x11 x12 x13 x14 x15 : int).

Definition st16_of_list (l : list int) : st16 :=
  let g i := nth i l 0%uint63 in
  St16 (g 0) (g 1) (g 2) (g 3) (g 4) (g 5) (g 6) (g 7)
       (g 8) (g 9) (g 10) (g 11) (g 12) (g 13) (g 14) (g 15).

Definition st16_to_list (s : st16) : list int :=
  let '(St16 x0 x1 x2 x3 x4 x5 x6 x7 x8 x9 x10 x11 x12 x13 x14 x15) := s in
  [x0; x1; x2; x3; x4; x5; x6; x7; x8; x9; x10; x11; x12; x13; x14; x15].

Lemma st16_to_list_length s : length (st16_to_list s) = 16.
Proof. destruct s; reflexivity. Qed.

Definition st16_map2 (f : int -> int -> int) (s t : st16) : st16 :=
  let '(St16 x0 x1 x2 x3 x4 x5 x6 x7 x8 x9 x10 x11 x12 x13 x14 x15) := s in
  let '(St16 y0 y1 y2 y3 y4 y5 y6 y7 y8 y9 y10 y11 y12 y13 y14 y15) := t in
  St16 (f x0 y0) (f x1 y1) (f x2 y2) (f x3 y3) (f x4 y4) (f x5 y5) (f x6 y6) (f x7 y7)
       (f x8 y8) (f x9 y9) (f x10 y10) (f x11 y11) (f x12 y12) (f x13 y13) (f x14 y14)
       (f x15 y15).

(* ------------------------------------------------------------------------------------- *)
(** * Test helpers: hexadecimal literals and generated inputs *)

Definition hex_digit (c : ascii) : option N :=
  let n := N_of_ascii c in
  if ((48 <=? n) && (n <=? 57))%N then Some (n - 48)%N
  else if ((97 <=? n) && (n <=? 102))%N then Some (n - 87)%N
  else if ((65 <=? n) && (n <=? 70))%N then Some (n - 55)%N
  else None.

(* [hex "0a1B ff"] = [10; 27; 255]; characters that are not hex digits are skipped *)
Fixpoint hex_go (s : String.string) (pending : option N) : list N :=
  match s with
  | String.EmptyString => []
  | String.String c s' =>
      match hex_digit c, pending with
      | None, _ => hex_go s' pending
      | Some d, None => hex_go s' (Some d)
      | Some d, Some h => (16 * h + d)%N :: hex_go s' None
      end
  end.
Definition hex (s : String.string) : list N := hex_go s None.

(* ASCII codes of a string *)
Fixpoint ascii_bytes (s : String.string) : list N :=
  match s with
  | String.EmptyString => []
  | String.String c s' => N_of_ascii c :: ascii_bytes s'
  end.

(* [ramp n] = [0; 1; ...; 255; 0; 1; ...], [n] bytes (built by a function: never write a
   long literal) *)
Fixpoint ramp_from (n : nat) (i : N) : list N :=
  match n with
  | O => []
  | S n' => N.land i 255 :: ramp_from n' (i + 1)%N
  end.
Definition ramp (n : N) : list N := ramp_from (N.to_nat n) 0.
