(* SHA-256, written from FIPS 180-4 (sections 4.1.2, 4.2.2, 5.1.1, 5.3.3, 6.2).
   32-bit words are primitive integers kept below 2^32. *)
From Kit Require Import Lib.Base.
From Kit Require Import Crypto.Words.
From Coq Require Import Uint63.

Local Open Scope uint63_scope.

(* FIPS 180-4 section 4.1.2 *)
Definition Ch (x y z : int) : int := (x land y) lxor (not32 x land z).
Definition Maj (x y z : int) : int := (x land y) lxor (x land z) lxor (y land z).
Definition Sigma0 (x : int) : int := rotr32 x 2 lxor rotr32 x 13 lxor rotr32 x 22.
Definition Sigma1 (x : int) : int := rotr32 x 6 lxor rotr32 x 11 lxor rotr32 x 25.
Definition sigma0 (x : int) : int := rotr32 x 7 lxor rotr32 x 18 lxor shr32 x 3.
Definition sigma1 (x : int) : int := rotr32 x 17 lxor rotr32 x 19 lxor shr32 x 10.

(* section 4.2.2 *)
Definition K256 : list int :=
  [0x428a2f98; 0x71374491; 0xb5c0fbcf; 0xe9b5dba5; 0x3956c25b; 0x59f111f1; 0x923f82a4; 0xab1c5ed5;
   0xd807aa98; 0x12835b01; 0x243185be; 0x550c7dc3; 0x72be5d74; 0x80deb1fe; 0x9bdc06a7; 0xc19bf174;
   0xe49b69c1; 0xefbe4786; 0x0fc19dc6; 0x240ca1cc; 0x2de92c6f; 0x4a7484aa; 0x5cb0a9dc; 0x76f988da;
   0x983e5152; 0xa831c66d; 0xb00327c8; 0xbf597fc7; 0xc6e00bf3; 0xd5a79147; 0x06ca6351; 0x14292967;
   0x27b70a85; 0x2e1b2138; 0x4d2c6dfc; 0x53380d13; 0x650a7354; 0x766a0abb; 0x81c2c92e; 0x92722c85;
   0xa2bfe8a1; 0xa81a664b; 0xc24b8b70; 0xc76c51a3; 0xd192e819; 0xd6990624; 0xf40e3585; 0x106aa070;
   0x19a4c116; 0x1e376c08; 0x2748774c; 0x34b0bcb5; 0x391c0cb3; 0x4ed8aa4a; 0x5b9cca4f; 0x682e6ff3;
   0x748f82ee; 0x78a5636f; 0x84c87814; 0x8cc70208; 0x90befffa; 0xa4506ceb; 0xbef9a3f7; 0xc67178f2].

Inductive st8 := St8 (a b c d e f g h : int).

(* section 5.3.3 *)
Definition H256_init : st8 :=
  St8 0x6a09e667 0xbb67ae85 0x3c6ef372 0xa54ff53a 0x510e527f 0x9b05688c 0x1f83d9ab 0x5be0cd19.

(* Section 6.2.2 steps 1-3, fused: [w] is the sliding window W[t..t+15] of the message
   schedule; one step consumes W[t] and appends W[t+16]. *)
Fixpoint sha256_rounds (ks : list int) (w : list int) (s : st8) : st8 :=
  match ks with
  | [] => s
  | k :: ks' =>
      match w with
      | w0 :: w1 :: w2 :: w3 :: w4 :: w5 :: w6 :: w7 :: w8 :: w9 :: w10 :: w11 :: w12 :: w13
           :: w14 :: w15 :: _ =>
          let '(St8 a b c d e f g h) := s in
          let t1 := (h + Sigma1 e + Ch e f g + k + w0) land mask32 in
          let t2 := (Sigma0 a + Maj a b c) land mask32 in
          let wn := (sigma1 w14 + w9 + sigma0 w1 + w0) land mask32 in
          sha256_rounds ks'
            [w1; w2; w3; w4; w5; w6; w7; w8; w9; w10; w11; w12; w13; w14; w15; wn]
            (St8 (add32 t1 t2) a b c (add32 d t1) e f g)
      | _ => s
      end
  end.

(* section 6.2.2 step 4; [block] is 16 words *)
Definition sha256_compress (H : st8) (block : list int) : st8 :=
  let '(St8 a b c d e f g h) := sha256_rounds K256 block H in
  let '(St8 a0 b0 c0 d0 e0 f0 g0 h0) := H in
  St8 (add32 a a0) (add32 b b0) (add32 c c0) (add32 d d0)
      (add32 e e0) (add32 f f0) (add32 g g0) (add32 h h0).

(* Padding (section 5.1.1) of the final partial block.  [wacc] holds the complete words of
   the partial block in reverse order, [tail] its last 0..3 bytes, [len] the message length
   in bytes. *)
Definition sha256_finish (H : st8) (wacc : list int) (tail : list N) (len : int) : st8 :=
  let last := match words_be (tail ++ [128%N]) with w :: _ => w | [] => 0 end in
  let ws := rev_append wacc [last] in
  let k := length ws in
  let hi := (len >> 29) land mask32 in
  let lo := (len << 3) land mask32 in
  if Nat.leb k 14
  then sha256_compress H (ws ++ repeat 0 (14 - k) ++ [hi; lo])
  else sha256_compress (sha256_compress H (ws ++ repeat 0 (16 - k)))
                       (repeat 0 14 ++ [hi; lo]).

(* Tail-recursive walk over the message, four bytes at a time. [nw] = [length wacc]. *)
Fixpoint sha256_loop (msg : list N) (H : st8) (wacc : list int) (nw : int) (len : int) : st8 :=
  match msg with
  | a :: b :: c :: d :: rest =>
      let w := word_be a b c d in
      if nw =? 15
      then sha256_loop rest (sha256_compress H (rev_append wacc [w])) [] 0 (len + 4)
      else sha256_loop rest H (w :: wacc) (nw + 1) (len + 4)
  | tail => sha256_finish H wacc tail (len + int_of_N (lenN tail))
  end.

Definition st8_bytes (s : st8) : list N :=
  let '(St8 a b c d e f g h) := s in
  bytes_of_words_be [a; b; c; d; e; f; g; h].

Definition sha256_from (H0 : st8) (msg : list N) : st8 := sha256_loop msg H0 [] 0 0.

Definition sha256 (msg : list N) : list N := st8_bytes (sha256_from H256_init msg).

(* SHA-224 (section 5.3.2, 6.3) costs nothing extra *)
Definition H224_init : st8 :=
  St8 0xc1059ed8 0x367cd507 0x3070dd17 0xf70e5939 0xffc00b31 0x68581511 0x64f98fa7 0xbefa4fa4.
Definition sha224 (msg : list N) : list N := firstn 28 (st8_bytes (sha256_from H224_init msg)).

Lemma sha256_length msg : length (sha256 msg) = 32%nat.
Proof. unfold sha256. destruct (sha256_from H256_init msg). reflexivity. Qed.
