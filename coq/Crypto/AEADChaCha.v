(* AEAD_CHACHA20_POLY1305 (RFC 8439 section 2.8) and XChaCha20-Poly1305
   (draft-irtf-cfrg-xchacha-03 section 2), with the round-trip theorems.

   The proofs use only: xor with a key stream of sufficient length is an involution
   ([xor_bytes_involutive]), the key stream has exactly the requested length, and the tag
   is 16 bytes.  No property of the primitive integers is needed. *)
From Kit Require Import Lib.Base.
From Kit Require Import Crypto.Words Crypto.ChaCha20 Crypto.Poly1305.

(* section 2.6: the one-time Poly1305 key is the first 32 bytes of block 0 *)
Definition poly1305_key_gen (key nonce : list N) : list N :=
  firstn 32 (chacha20_block key 0 nonce).

(* section 2.8: aad | pad16 | ciphertext | pad16 | len(aad) le64 | len(ct) le64 *)
Definition aead_mac_data (aad ct : list N) : list N :=
  aad ++ pad_zeros_to 16 (length aad) ++ ct ++ pad_zeros_to 16 (length ct)
      ++ le64 (lenN aad) ++ le64 (lenN ct).

Definition aead_tag (key nonce aad ct : list N) : list N :=
  poly1305 (poly1305_key_gen key nonce) (aead_mac_data aad ct).

Definition chacha20poly1305_seal (key nonce12 aad pt : list N) : list N :=
  let ct := chacha20_xor key 1 nonce12 pt in
  ct ++ aead_tag key nonce12 aad ct.

Definition chacha20poly1305_open (key nonce12 aad ct : list N) : option (list N) :=
  let n := length ct in
  if Nat.ltb n 16 then None
  else
    let c := firstn (n - 16) ct in
    let tag := skipn (n - 16) ct in
    if eqb_listN tag (aead_tag key nonce12 aad c)
    then Some (chacha20_xor key 1 nonce12 c)
    else None.

Lemma aead_tag_length key nonce aad ct : length (aead_tag key nonce aad ct) = 16.
Proof. apply poly1305_length. Qed.

Theorem chacha20poly1305_open_seal (k n a p : list N) :
  chacha20poly1305_open k n a (chacha20poly1305_seal k n a p) = Some p.
Proof.
  unfold chacha20poly1305_open, chacha20poly1305_seal.
  set (c := chacha20_xor k 1 n p).
  set (t := aead_tag k n a c).
  assert (Ht : length t = 16) by apply aead_tag_length.
  rewrite app_length, Ht.
  replace (length c + 16 - 16) with (length c) by lia.
  destruct (Nat.ltb_spec (length c + 16) 16) as [Hlt|_]; [lia|].
  rewrite firstn_app, Nat.sub_diag, firstn_all, firstn_O, app_nil_r.
  rewrite skipn_app, Nat.sub_diag, skipn_all, skipn_O. cbn [app].
  fold t.
  replace (eqb_listN t t) with true by (symmetry; apply eqb_listN_spec; reflexivity).
  unfold c. rewrite chacha20_xor_involutive. reflexivity.
Qed.

(* XChaCha20-Poly1305: derive a subkey with HChaCha20 from the first 16 nonce bytes; the
   remaining 8 nonce bytes, prefixed by four zero bytes, are the inner nonce. *)
Definition xchacha_subkey (key nonce24 : list N) : list N := hchacha20 key (firstn 16 nonce24).
Definition xchacha_nonce (nonce24 : list N) : list N := zeros 4 ++ take_pad 8 (skipn 16 nonce24).

Definition xchacha20poly1305_seal (key nonce24 aad pt : list N) : list N :=
  chacha20poly1305_seal (xchacha_subkey key nonce24) (xchacha_nonce nonce24) aad pt.

Definition xchacha20poly1305_open (key nonce24 aad ct : list N) : option (list N) :=
  chacha20poly1305_open (xchacha_subkey key nonce24) (xchacha_nonce nonce24) aad ct.

Theorem xchacha20poly1305_open_seal (k n a p : list N) :
  xchacha20poly1305_open k n a (xchacha20poly1305_seal k n a p) = Some p.
Proof.
  unfold xchacha20poly1305_open, xchacha20poly1305_seal. apply chacha20poly1305_open_seal.
Qed.

(* Non-vacuity / sanity: the sealed text is 16 bytes longer than the plaintext. *)
Lemma chacha20poly1305_seal_length k n a p :
  length (chacha20poly1305_seal k n a p) = length p + 16.
Proof.
  unfold chacha20poly1305_seal.
  rewrite app_length, aead_tag_length, chacha20_xor_length. reflexivity.
Qed.

Print Assumptions chacha20poly1305_open_seal.
Print Assumptions xchacha20poly1305_open_seal.
