(* SHA-512 and SHA-384, written from FIPS 180-4 (sections 4.1.3, 4.2.3, 5.1.2, 5.3.4, 5.3.5,
   6.4, 6.5).  64-bit words are [N] values kept below 2^64; this is the plain transcription
   of the standard and is meant for short inputs (keys, MACs): about 16 ms per 128-byte
   block under vm_compute (64 KiB: 8.4 s). *)
From Kit Require Import Lib.Base.
From Kit Require Import Crypto.Words.

Local Open Scope N_scope.

Definition mask64 : N := 0xFFFFFFFFFFFFFFFF.
Definition add64 (a b : N) : N := N.land (a + b) mask64.
Definition rotr64 (x n : N) : N :=
  N.lor (N.shiftr x n) (N.land (N.shiftl x (64 - n)) mask64).
Definition shr64 (x n : N) : N := N.shiftr x n.
Definition not64 (x : N) : N := N.lxor x mask64.

(* section 4.1.3 *)
Definition Ch64 (x y z : N) : N := N.lxor (N.land x y) (N.land (not64 x) z).
Definition Maj64 (x y z : N) : N := N.lxor (N.lxor (N.land x y) (N.land x z)) (N.land y z).
Definition Sigma0_512 (x : N) : N := N.lxor (N.lxor (rotr64 x 28) (rotr64 x 34)) (rotr64 x 39).
Definition Sigma1_512 (x : N) : N := N.lxor (N.lxor (rotr64 x 14) (rotr64 x 18)) (rotr64 x 41).
Definition sigma0_512 (x : N) : N := N.lxor (N.lxor (rotr64 x 1) (rotr64 x 8)) (shr64 x 7).
Definition sigma1_512 (x : N) : N := N.lxor (N.lxor (rotr64 x 19) (rotr64 x 61)) (shr64 x 6).

(* section 4.2.3 *)
Definition K512 : list N :=
  [
   0x428a2f98d728ae22; 0x7137449123ef65cd; 0xb5c0fbcfec4d3b2f; 0xe9b5dba58189dbbc;
   0x3956c25bf348b538; 0x59f111f1b605d019; 0x923f82a4af194f9b; 0xab1c5ed5da6d8118;
   0xd807aa98a3030242; 0x12835b0145706fbe; 0x243185be4ee4b28c; 0x550c7dc3d5ffb4e2;
   0x72be5d74f27b896f; 0x80deb1fe3b1696b1; 0x9bdc06a725c71235; 0xc19bf174cf692694;
   0xe49b69c19ef14ad2; 0xefbe4786384f25e3; 0x0fc19dc68b8cd5b5; 0x240ca1cc77ac9c65;
   0x2de92c6f592b0275; 0x4a7484aa6ea6e483; 0x5cb0a9dcbd41fbd4; 0x76f988da831153b5;
   0x983e5152ee66dfab; 0xa831c66d2db43210; 0xb00327c898fb213f; 0xbf597fc7beef0ee4;
   0xc6e00bf33da88fc2; 0xd5a79147930aa725; 0x06ca6351e003826f; 0x142929670a0e6e70;
   0x27b70a8546d22ffc; 0x2e1b21385c26c926; 0x4d2c6dfc5ac42aed; 0x53380d139d95b3df;
   0x650a73548baf63de; 0x766a0abb3c77b2a8; 0x81c2c92e47edaee6; 0x92722c851482353b;
   0xa2bfe8a14cf10364; 0xa81a664bbc423001; 0xc24b8b70d0f89791; 0xc76c51a30654be30;
   0xd192e819d6ef5218; 0xd69906245565a910; 0xf40e35855771202a; 0x106aa07032bbd1b8;
   0x19a4c116b8d2d0c8; 0x1e376c085141ab53; 0x2748774cdf8eeb99; 0x34b0bcb5e19b48a8;
   0x391c0cb3c5c95a63; 0x4ed8aa4ae3418acb; 0x5b9cca4f7763e373; 0x682e6ff3d6b2b8a3;
   0x748f82ee5defb2fc; 0x78a5636f43172f60; 0x84c87814a1f0ab72; 0x8cc702081a6439ec;
   0x90befffa23631e28; 0xa4506cebde82bde9; 0xbef9a3f7b2c67915; 0xc67178f2e372532b;
   0xca273eceea26619c; 0xd186b8c721c0c207; 0xeada7dd6cde0eb1e; 0xf57d4f7fee6ed178;
   0x06f067aa72176fba; 0x0a637dc5a2c898a6; 0x113f9804bef90dae; 0x1b710b35131c471b;
   0x28db77f523047d84; 0x32caab7b40c72493; 0x3c9ebe0a15c9bebc; 0x431d67c49c100d4c;
   0x4cc5d4becb3e42b6; 0x597f299cfc657e2a; 0x5fcb6fab3ad6faec; 0x6c44198c4a475817].

Inductive st8N := St8N (a b c d e f g h : N).

(* section 5.3.5 / 5.3.4 *)
Definition H512_init : st8N :=
  St8N 0x6a09e667f3bcc908 0xbb67ae8584caa73b 0x3c6ef372fe94f82b 0xa54ff53a5f1d36f1
       0x510e527fade682d1 0x9b05688c2b3e6c1f 0x1f83d9abfb41bd6b 0x5be0cd19137e2179.
Definition H384_init : st8N :=
  St8N 0xcbbb9d5dc1059ed8 0x629a292a367cd507 0x9159015a3070dd17 0x152fecd8f70e5939
       0x67332667ffc00b31 0x8eb44a8768581511 0xdb0c2e0d64f98fa7 0x47b5481dbefa4fa4.

(* Section 6.4.2 steps 1-3, fused: [w] is the sliding window W[t..t+15]. *)
Fixpoint sha512_rounds (ks : list N) (w : list N) (s : st8N) : st8N :=
  match ks with
  | [] => s
  | k :: ks' =>
      match w with
      | w0 :: w1 :: w2 :: w3 :: w4 :: w5 :: w6 :: w7 :: w8 :: w9 :: w10 :: w11 :: w12 :: w13
           :: w14 :: w15 :: _ =>
          let '(St8N a b c d e f g h) := s in
          let t1 := N.land (h + Sigma1_512 e + Ch64 e f g + k + w0) mask64 in
          let t2 := add64 (Sigma0_512 a) (Maj64 a b c) in
          let wn := N.land (sigma1_512 w14 + w9 + sigma0_512 w1 + w0) mask64 in
          sha512_rounds ks'
            [w1; w2; w3; w4; w5; w6; w7; w8; w9; w10; w11; w12; w13; w14; w15; wn]
            (St8N (add64 t1 t2) a b c (add64 d t1) e f g)
      | _ => s
      end
  end.

Definition sha512_compress (H : st8N) (block : list N) : st8N :=
  let '(St8N a b c d e f g h) := sha512_rounds K512 block H in
  let '(St8N a0 b0 c0 d0 e0 f0 g0 h0) := H in
  St8N (add64 a a0) (add64 b b0) (add64 c c0) (add64 d d0)
       (add64 e e0) (add64 f f0) (add64 g g0) (add64 h h0).

(* section 5.1.2: 0x80, zeros up to 112 mod 128, then the bit length on 128 bits *)
Definition sha512_pad (msg : list N) : list N :=
  let len := length msg in
  msg ++ [128] ++ zeros ((128 - (len + 17) mod 128) mod 128)
      ++ be64 (N.shiftr (lenN msg) 61) ++ be64 (N.shiftl (lenN msg) 3).

Definition sha512_from (H0 : st8N) (msg : list N) : st8N :=
  fold_left sha512_compress
            (chunks 16 (map N_of_be (chunks 8 (sha512_pad msg)))) H0.

Definition st8N_bytes (s : st8N) : list N :=
  let '(St8N a b c d e f g h) := s in
  be64 a ++ be64 b ++ be64 c ++ be64 d ++ be64 e ++ be64 f ++ be64 g ++ be64 h.

Definition sha512 (msg : list N) : list N := st8N_bytes (sha512_from H512_init msg).
Definition sha384 (msg : list N) : list N := firstn 48 (st8N_bytes (sha512_from H384_init msg)).

Lemma sha512_length msg : length (sha512 msg) = 64%nat.
Proof. unfold sha512. destruct (sha512_from H512_init msg). reflexivity. Qed.

Lemma sha384_length msg : length (sha384 msg) = 48%nat.
Proof. unfold sha384. destruct (sha512_from H384_init msg). reflexivity. Qed.
