(* SHA-512 and SHA-384, written from FIPS 180-4 (sections 4.1.3, 4.2.3, 5.1.2, 5.3.4, 5.3.5,
   6.4, 6.5).  A 64-bit word is a pair of 32-bit halves held in primitive integers (a
   primitive integer has only 63 bits). *)
From Kit Require Import Lib.Base.
From Kit Require Import Crypto.Words.
From Coq Require Import Uint63.

Local Open Scope uint63_scope.

Inductive w64 := W64 (hi lo : int).

Definition xor64 (x y : w64) : w64 :=
  let '(W64 a b) := x in let '(W64 c d) := y in W64 (a lxor c) (b lxor d).
Definition and64 (x y : w64) : w64 :=
  let '(W64 a b) := x in let '(W64 c d) := y in W64 (a land c) (b land d).
Definition not64 (x : w64) : w64 := let '(W64 a b) := x in W64 (not32 a) (not32 b).
Definition add64 (x y : w64) : w64 :=
  let '(W64 a b) := x in let '(W64 c d) := y in
  let lo := b + d in W64 ((a + c + (lo >> 32)) land mask32) (lo land mask32).

(* right rotation / shift by 0 <= n < 64 *)
Definition rotr64 (x : w64) (n : int) : w64 :=
  let '(W64 a b) := x in
  let '(a, b, n) := if n <? 32 then (a, b, n) else (b, a, n - 32) in
  W64 (((a >> n) lor (b << (32 - n))) land mask32) (((b >> n) lor (a << (32 - n))) land mask32).
Definition shr64 (x : w64) (n : int) : w64 :=      (* n < 32 *)
  let '(W64 a b) := x in W64 (a >> n) (((b >> n) lor (a << (32 - n))) land mask32).

(* section 4.1.3 *)
Definition Ch64 (x y z : w64) : w64 := xor64 (and64 x y) (and64 (not64 x) z).
Definition Maj64 (x y z : w64) : w64 := xor64 (xor64 (and64 x y) (and64 x z)) (and64 y z).
Definition Sigma0_512 (x : w64) : w64 := xor64 (xor64 (rotr64 x 28) (rotr64 x 34)) (rotr64 x 39).
Definition Sigma1_512 (x : w64) : w64 := xor64 (xor64 (rotr64 x 14) (rotr64 x 18)) (rotr64 x 41).
Definition sigma0_512 (x : w64) : w64 := xor64 (xor64 (rotr64 x 1) (rotr64 x 8)) (shr64 x 7).
Definition sigma1_512 (x : w64) : w64 := xor64 (xor64 (rotr64 x 19) (rotr64 x 61)) (shr64 x 6).

(* section 4.2.3 *)
Definition K512 : list w64 :=
  [
   W64 0x428a2f98 0xd728ae22; W64 0x71374491 0x23ef65cd;
   W64 0xb5c0fbcf 0xec4d3b2f; W64 0xe9b5dba5 0x8189dbbc;
   W64 0x3956c25b 0xf348b538; W64 0x59f111f1 0xb605d019;
   W64 0x923f82a4 0xaf194f9b; W64 0xab1c5ed5 0xda6d8118;
   W64 0xd807aa98 0xa3030242; W64 0x12835b01 0x45706fbe;
   W64 0x243185be 0x4ee4b28c; W64 0x550c7dc3 0xd5ffb4e2;
   W64 0x72be5d74 0xf27b896f; W64 0x80deb1fe 0x3b1696b1;
   W64 0x9bdc06a7 0x25c71235; W64 0xc19bf174 0xcf692694;
   W64 0xe49b69c1 0x9ef14ad2; W64 0xefbe4786 0x384f25e3;
   W64 0x0fc19dc6 0x8b8cd5b5; W64 0x240ca1cc 0x77ac9c65;
   W64 0x2de92c6f 0x592b0275; W64 0x4a7484aa 0x6ea6e483;
   W64 0x5cb0a9dc 0xbd41fbd4; W64 0x76f988da 0x831153b5;
   W64 0x983e5152 0xee66dfab; W64 0xa831c66d 0x2db43210;
   W64 0xb00327c8 0x98fb213f; W64 0xbf597fc7 0xbeef0ee4;
   W64 0xc6e00bf3 0x3da88fc2; W64 0xd5a79147 0x930aa725;
   W64 0x06ca6351 0xe003826f; W64 0x14292967 0x0a0e6e70;
   W64 0x27b70a85 0x46d22ffc; W64 0x2e1b2138 0x5c26c926;
   W64 0x4d2c6dfc 0x5ac42aed; W64 0x53380d13 0x9d95b3df;
   W64 0x650a7354 0x8baf63de; W64 0x766a0abb 0x3c77b2a8;
   W64 0x81c2c92e 0x47edaee6; W64 0x92722c85 0x1482353b;
   W64 0xa2bfe8a1 0x4cf10364; W64 0xa81a664b 0xbc423001;
   W64 0xc24b8b70 0xd0f89791; W64 0xc76c51a3 0x0654be30;
   W64 0xd192e819 0xd6ef5218; W64 0xd6990624 0x5565a910;
   W64 0xf40e3585 0x5771202a; W64 0x106aa070 0x32bbd1b8;
   W64 0x19a4c116 0xb8d2d0c8; W64 0x1e376c08 0x5141ab53;
   W64 0x2748774c 0xdf8eeb99; W64 0x34b0bcb5 0xe19b48a8;
   W64 0x391c0cb3 0xc5c95a63; W64 0x4ed8aa4a 0xe3418acb;
   W64 0x5b9cca4f 0x7763e373; W64 0x682e6ff3 0xd6b2b8a3;
   W64 0x748f82ee 0x5defb2fc; W64 0x78a5636f 0x43172f60;
   W64 0x84c87814 0xa1f0ab72; W64 0x8cc70208 0x1a6439ec;
   W64 0x90befffa 0x23631e28; W64 0xa4506ceb 0xde82bde9;
   W64 0xbef9a3f7 0xb2c67915; W64 0xc67178f2 0xe372532b;
   W64 0xca273ece 0xea26619c; W64 0xd186b8c7 0x21c0c207;
   W64 0xeada7dd6 0xcde0eb1e; W64 0xf57d4f7f 0xee6ed178;
   W64 0x06f067aa 0x72176fba; W64 0x0a637dc5 0xa2c898a6;
   W64 0x113f9804 0xbef90dae; W64 0x1b710b35 0x131c471b;
   W64 0x28db77f5 0x23047d84; W64 0x32caab7b 0x40c72493;
   W64 0x3c9ebe0a 0x15c9bebc; W64 0x431d67c4 0x9c100d4c;
   W64 0x4cc5d4be 0xcb3e42b6; W64 0x597f299c 0xfc657e2a;
   W64 0x5fcb6fab 0x3ad6faec; W64 0x6c44198c 0x4a475817].

Inductive st8w := St8w (a b c d e f g h : w64).

(* section 5.3.5 / 5.3.4 *)
Definition H512_init : st8w :=
  St8w (W64 0x6a09e667 0xf3bcc908)
       (W64 0xbb67ae85 0x84caa73b)
       (W64 0x3c6ef372 0xfe94f82b)
       (W64 0xa54ff53a 0x5f1d36f1)
       (W64 0x510e527f 0xade682d1)
       (W64 0x9b05688c 0x2b3e6c1f)
       (W64 0x1f83d9ab 0xfb41bd6b)
       (W64 0x5be0cd19 0x137e2179).
Definition H384_init : st8w :=
  St8w (W64 0xcbbb9d5d 0xc1059ed8)
       (W64 0x629a292a 0x367cd507)
       (W64 0x9159015a 0x3070dd17)
       (W64 0x152fecd8 0xf70e5939)
       (W64 0x67332667 0xffc00b31)
       (W64 0x8eb44a87 0x68581511)
       (W64 0xdb0c2e0d 0x64f98fa7)
       (W64 0x47b5481d 0xbefa4fa4).

(* Section 6.4.2 steps 1-3, fused: [w] is the sliding window W[t..t+15]. *)
Fixpoint sha512_rounds (ks : list w64) (w : list w64) (s : st8w) : st8w :=
  match ks with
  | [] => s
  | k :: ks' =>
      match w with
      | w0 :: w1 :: w2 :: w3 :: w4 :: w5 :: w6 :: w7 :: w8 :: w9 :: w10 :: w11 :: w12 :: w13
           :: w14 :: w15 :: _ =>
          let '(St8w a b c d e f g h) := s in
          let t1 := add64 (add64 (add64 (add64 h (Sigma1_512 e)) (Ch64 e f g)) k) w0 in
          let t2 := add64 (Sigma0_512 a) (Maj64 a b c) in
          let wn := add64 (add64 (add64 (sigma1_512 w14) w9) (sigma0_512 w1)) w0 in
          sha512_rounds ks'
            [w1; w2; w3; w4; w5; w6; w7; w8; w9; w10; w11; w12; w13; w14; w15; wn]
            (St8w (add64 t1 t2) a b c (add64 d t1) e f g)
      | _ => s
      end
  end.

Definition sha512_compress (H : st8w) (block : list w64) : st8w :=
  let '(St8w a b c d e f g h) := sha512_rounds K512 block H in
  let '(St8w a0 b0 c0 d0 e0 f0 g0 h0) := H in
  St8w (add64 a a0) (add64 b b0) (add64 c c0) (add64 d d0)
       (add64 e e0) (add64 f f0) (add64 g g0) (add64 h h0).

(* section 5.1.2: 0x80, zeros up to 112 mod 128, then the bit length on 128 bits *)
Definition sha512_pad (msg : list N) : list N :=
  let len := length msg in
  msg ++ [128%N] ++ zeros ((128 - (len + 17) mod 128) mod 128)
      ++ be64 (N.shiftr (lenN msg) 61) ++ be64 (N.shiftl (lenN msg) 3).

Fixpoint w64s_of_bytes (bs : list N) : list w64 :=
  match bs with
  | a :: b :: c :: d :: e :: f :: g :: h :: rest =>
      W64 (word_be a b c d) (word_be e f g h) :: w64s_of_bytes rest
  | _ => []
  end.

Definition sha512_from (H0 : st8w) (msg : list N) : st8w :=
  fold_left sha512_compress (chunks 16 (w64s_of_bytes (sha512_pad msg))) H0.

Definition w64_bytes (x : w64) : list N :=
  let '(W64 a b) := x in word_be_bytes a ++ word_be_bytes b.

Definition st8w_bytes (s : st8w) : list N :=
  let '(St8w a b c d e f g h) := s in
  w64_bytes a ++ w64_bytes b ++ w64_bytes c ++ w64_bytes d
    ++ w64_bytes e ++ w64_bytes f ++ w64_bytes g ++ w64_bytes h.

Definition sha512 (msg : list N) : list N := st8w_bytes (sha512_from H512_init msg).
Definition sha384 (msg : list N) : list N := firstn 48 (st8w_bytes (sha512_from H384_init msg)).

Lemma sha512_length msg : length (sha512 msg) = 64%nat.
Proof.
  unfold sha512. destruct (sha512_from H512_init msg) as [[] [] [] [] [] [] [] []]. reflexivity.
Qed.

Lemma sha384_length msg : length (sha384 msg) = 48%nat.
Proof.
  unfold sha384. destruct (sha512_from H384_init msg) as [[] [] [] [] [] [] [] []]. reflexivity.
Qed.
