(* Base64 (RFC 4648 sections 4 and 5), with and without padding, and the decode-encode
   round trip.  Text is a list of ASCII codes.

   The decoders accept exactly what Go's [base64.{Std,RawStd,URL,RawURL}Encoding
   .DecodeString] accept on input that contains no CR/LF: only alphabet characters, complete
   and correct padding (padded variants) or none at all (raw variants), nothing after the
   padding.  Like Go's default (non-[Strict]) mode they do not insist that the unused low
   bits of the last character are zero.  Go additionally skips CR and LF anywhere in the
   input; [b64_decode_nl] does that too. *)
From Kit Require Import Lib.Base.
From Coq Require Import ZifyBool ZifyN.
Ltac Zify.zify_post_hook ::= Z.div_mod_to_equations.

Local Open Scope N_scope.

Definition pad_char : N := 61.   (* '=' *)

Section Alphabet.
  Variable enc : N -> N.            (* 6-bit value -> character *)
  Variable dec : N -> option N.     (* character -> 6-bit value *)

  (* 3 bytes -> 4 characters; a final group of 1 or 2 bytes gives 2 or 3 characters *)
  Fixpoint b64_encode_gen (pad : bool) (bs : list N) : list N :=
    match bs with
    | a :: b :: c :: rest =>
        enc (a / 4) :: enc ((a mod 4) * 16 + b / 16) :: enc ((b mod 16) * 4 + c / 64)
            :: enc (c mod 64) :: b64_encode_gen pad rest
    | [a; b] =>
        enc (a / 4) :: enc ((a mod 4) * 16 + b / 16) :: enc ((b mod 16) * 4)
            :: (if pad then [pad_char] else [])
    | [a] =>
        enc (a / 4) :: enc ((a mod 4) * 16) :: (if pad then [pad_char; pad_char] else [])
    | [] => []
    end.

  Definition byte0 (s0 s1 : N) : N := s0 * 4 + s1 / 16.
  Definition byte1 (s1 s2 : N) : N := (s1 mod 16) * 16 + s2 / 4.
  Definition byte2 (s2 s3 : N) : N := (s2 mod 4) * 64 + s3.

  Definition is_nil {A} (l : list A) : bool := match l with [] => true | _ => false end.

  Fixpoint b64_decode_gen (pad : bool) (cs : list N) : option (list N) :=
    match cs with
    | [] => Some []
    | c0 :: c1 :: c2 :: c3 :: rest =>
        match dec c0, dec c1 with
        | Some s0, Some s1 =>
            match dec c2 with
            | Some s2 =>
                match dec c3 with
                | Some s3 =>
                    match b64_decode_gen pad rest with
                    | Some out => Some (byte0 s0 s1 :: byte1 s1 s2 :: byte2 s2 s3 :: out)
                    | None => None
                    end
                | None =>
                    if pad && (c3 =? pad_char) && is_nil rest
                    then Some [byte0 s0 s1; byte1 s1 s2] else None
                end
            | None =>
                if pad && (c2 =? pad_char) && (c3 =? pad_char) && is_nil rest
                then Some [byte0 s0 s1] else None
            end
        | _, _ => None
        end
    | [c0; c1; c2] =>
        if pad then None else
          match dec c0, dec c1, dec c2 with
          | Some s0, Some s1, Some s2 => Some [byte0 s0 s1; byte1 s1 s2]
          | _, _, _ => None
          end
    | [c0; c1] =>
        if pad then None else
          match dec c0, dec c1 with
          | Some s0, Some s1 => Some [byte0 s0 s1]
          | _, _ => None
          end
    | [_] => None
    end.

  Hypothesis dec_enc : forall s, s < 64 -> dec (enc s) = Some s.
  Hypothesis dec_pad : dec pad_char = None.

  Lemma triple_ind (P : list N -> Prop) :
    P [] -> (forall a, P [a]) -> (forall a b, P [a; b]) ->
    (forall a b c rest, P rest -> P (a :: b :: c :: rest)) ->
    forall l, P l.
  Proof.
    intros H0 H1 H2 H3.
    fix IH 1. intros [|a [|b [|c rest]]]; [apply H0 | apply H1 | apply H2 | apply H3; apply IH].
  Qed.

  Lemma b64_decode_encode_gen pad bs :
    bytes_ok bs = true -> b64_decode_gen pad (b64_encode_gen pad bs) = Some bs.
  Proof.
    induction bs as [|a|a b|a b c rest IH] using triple_ind; intro Hok.
    - reflexivity.
    - cbn [bytes_ok forallb] in Hok. unfold byte_ok in Hok.
      assert (Ha : a < 256) by lia.
      cbn [b64_encode_gen].
      destruct pad; cbn [b64_decode_gen app].
      + rewrite !dec_enc by lia. rewrite dec_pad.
        cbn [andb is_nil]. rewrite N.eqb_refl. cbn [andb].
        unfold byte0. do 2 f_equal. lia.
      + rewrite !dec_enc by lia. unfold byte0. do 2 f_equal. lia.
    - cbn [bytes_ok forallb] in Hok. unfold byte_ok in Hok.
      assert (Ha : a < 256) by lia. assert (Hb : b < 256) by lia.
      cbn [b64_encode_gen].
      destruct pad; cbn [b64_decode_gen app].
      + rewrite !dec_enc by lia. rewrite dec_pad.
        cbn [andb is_nil]. rewrite N.eqb_refl. cbn [andb].
        unfold byte0, byte1. do 2 f_equal; [lia | f_equal; lia].
      + rewrite !dec_enc by lia. unfold byte0, byte1. do 2 f_equal; [lia | f_equal; lia].
    - cbn [bytes_ok forallb] in Hok.
      apply andb_true_iff in Hok as [Ha Hok]. apply andb_true_iff in Hok as [Hb Hok].
      apply andb_true_iff in Hok as [Hc Hrest]. unfold byte_ok in Ha, Hb, Hc.
      apply N.ltb_lt in Ha, Hb, Hc.
      cbn [b64_encode_gen b64_decode_gen].
      rewrite !dec_enc by lia.
      rewrite (IH Hrest).
      unfold byte0, byte1, byte2.
      do 2 f_equal; [lia | f_equal; [lia | f_equal; lia]].
  Qed.
End Alphabet.

(* RFC 4648 Table 1 *)
Definition b64_std_char (s : N) : N :=
  if s <? 26 then s + 65          (* A-Z *)
  else if s <? 52 then s + 71     (* a-z *)
  else if s <? 62 then s - 4      (* 0-9 *)
  else if s =? 62 then 43         (* + *)
  else 47.                        (* / *)

Definition b64_std_val (c : N) : option N :=
  if (65 <=? c) && (c <=? 90) then Some (c - 65)
  else if (97 <=? c) && (c <=? 122) then Some (c - 71)
  else if (48 <=? c) && (c <=? 57) then Some (c + 4)
  else if c =? 43 then Some 62
  else if c =? 47 then Some 63
  else None.

(* RFC 4648 Table 2 ("URL and filename safe"): 62 is '-', 63 is '_' *)
Definition b64_url_char (s : N) : N :=
  if s <? 62 then b64_std_char s else if s =? 62 then 45 else 95.

Definition b64_url_val (c : N) : option N :=
  if c =? 45 then Some 62
  else if c =? 95 then Some 63
  else if (c =? 43) || (c =? 47) then None
  else b64_std_val c.

Definition b64_encode : list N -> list N := b64_encode_gen b64_std_char true.
Definition b64_decode : list N -> option (list N) := b64_decode_gen b64_std_val true.
Definition b64raw_encode : list N -> list N := b64_encode_gen b64_std_char false.
Definition b64raw_decode : list N -> option (list N) := b64_decode_gen b64_std_val false.
Definition b64url_encode : list N -> list N := b64_encode_gen b64_url_char true.
Definition b64url_decode : list N -> option (list N) := b64_decode_gen b64_url_val true.
Definition b64rawurl_encode : list N -> list N := b64_encode_gen b64_url_char false.
Definition b64rawurl_decode : list N -> option (list N) := b64_decode_gen b64_url_val false.

(* Go's decoders skip '\r' and '\n' wherever they occur. *)
Definition strip_crlf (cs : list N) : list N :=
  filter (fun c => negb ((c =? 10) || (c =? 13))) cs.
Definition b64_decode_nl (cs : list N) : option (list N) := b64_decode (strip_crlf cs).
Definition b64raw_decode_nl (cs : list N) : option (list N) := b64raw_decode (strip_crlf cs).
Definition b64url_decode_nl (cs : list N) : option (list N) := b64url_decode (strip_crlf cs).
Definition b64rawurl_decode_nl (cs : list N) : option (list N) :=
  b64rawurl_decode (strip_crlf cs).

(* the alphabets are inverse on 0..63: checked value by value *)
Definition sextets : list N := map N.of_nat (seq 0 64).

Lemma below_64 (f : N -> bool) :
  forallb f sextets = true -> forall s, s < 64 -> f s = true.
Proof.
  intros Hall s Hs. rewrite forallb_forall in Hall. apply Hall.
  unfold sextets. rewrite <- (N2Nat.id s). apply in_map. apply in_seq. lia.
Qed.

Definition inverse_at (enc : N -> N) (dec : N -> option N) (s : N) : bool :=
  match dec (enc s) with Some s' => s' =? s | None => false end.

Lemma inverse_at_spec enc dec s : inverse_at enc dec s = true -> dec (enc s) = Some s.
Proof.
  unfold inverse_at. destruct (dec (enc s)) as [s'|]; [|discriminate].
  intro H. apply N.eqb_eq in H. now subst.
Qed.

Lemma b64_std_val_char s : s < 64 -> b64_std_val (b64_std_char s) = Some s.
Proof.
  intro Hs. apply inverse_at_spec. revert s Hs. apply below_64. vm_compute. reflexivity.
Qed.

Lemma b64_url_val_char s : s < 64 -> b64_url_val (b64_url_char s) = Some s.
Proof.
  intro Hs. apply inverse_at_spec. revert s Hs. apply below_64. vm_compute. reflexivity.
Qed.

Theorem b64_decode_encode bs : bytes_ok bs = true -> b64_decode (b64_encode bs) = Some bs.
Proof. apply b64_decode_encode_gen; [exact b64_std_val_char | reflexivity]. Qed.

Theorem b64raw_decode_encode bs :
  bytes_ok bs = true -> b64raw_decode (b64raw_encode bs) = Some bs.
Proof. apply b64_decode_encode_gen; [exact b64_std_val_char | reflexivity]. Qed.

Theorem b64url_decode_encode bs :
  bytes_ok bs = true -> b64url_decode (b64url_encode bs) = Some bs.
Proof. apply b64_decode_encode_gen; [exact b64_url_val_char | reflexivity]. Qed.

Theorem b64rawurl_decode_encode bs :
  bytes_ok bs = true -> b64rawurl_decode (b64rawurl_encode bs) = Some bs.
Proof. apply b64_decode_encode_gen; [exact b64_url_val_char | reflexivity]. Qed.

(* non-vacuity *)
Example b64_decode_encode_ex :
  bytes_ok [102; 111; 111; 98] = true /\
  b64_encode [102; 111; 111; 98] = [90; 109; 57; 118; 89; 103; 61; 61].   (* "Zm9vYg==" *)
Proof. split; reflexivity. Qed.

Print Assumptions b64_decode_encode.
