(* CBC mode (NIST SP 800-38A section 6.2) over an abstract 16-byte block cipher, the
   round-trip theorem, and the AES instances.  No padding here: the plaintext must be a
   multiple of 16 bytes (a trailing partial block is processed as it stands, which is only
   meaningful to callers that pad first). *)
From Kit Require Import Lib.Base.
From Kit Require Import Crypto.Words Crypto.AES.

Section CBC.
  Variables E D : list N -> list N.     (* forward / inverse cipher under a fixed key *)

  (* C_j = E (P_j xor C_{j-1}), C_0 = IV *)
  Fixpoint cbc_enc_blocks (prev : list N) (blocks : list (list N)) : list (list N) :=
    match blocks with
    | [] => []
    | b :: rest => let c := E (xor_bytes b prev) in c :: cbc_enc_blocks c rest
    end.

  (* P_j = D (C_j) xor C_{j-1} *)
  Fixpoint cbc_dec_blocks (prev : list N) (blocks : list (list N)) : list (list N) :=
    match blocks with
    | [] => []
    | c :: rest => xor_bytes (D c) prev :: cbc_dec_blocks c rest
    end.

  Definition cbc_encrypt_with (iv pt : list N) : list N :=
    concat (cbc_enc_blocks iv (chunks 16 pt)).
  Definition cbc_decrypt_with (iv ct : list N) : list N :=
    concat (cbc_dec_blocks iv (chunks 16 ct)).

  Hypothesis DE : forall b, length b = 16 -> D (E b) = b.
  Hypothesis E_length : forall b, length (E b) = 16.

  Lemma cbc_enc_blocks_Forall prev blocks :
    Forall (fun c => length c = 16) (cbc_enc_blocks prev blocks).
  Proof.
    revert prev; induction blocks as [|b rest IH]; intro prev; cbn [cbc_enc_blocks];
      constructor; [apply E_length | apply IH].
  Qed.

  Lemma cbc_blocks_roundtrip prev blocks :
    length prev = 16 -> Forall (fun b => length b = 16) blocks ->
    cbc_dec_blocks prev (cbc_enc_blocks prev blocks) = blocks.
  Proof.
    intros Hprev Hall; revert prev Hprev.
    induction Hall as [|b rest Hb Hall IH]; intros prev Hprev;
      cbn [cbc_enc_blocks cbc_dec_blocks]; [reflexivity|].
    rewrite DE by (rewrite xor_bytes_length; lia).
    rewrite xor_bytes_involutive by lia.
    rewrite IH by apply E_length. reflexivity.
  Qed.

  Theorem cbc_roundtrip iv pt :
    length iv = 16 -> length pt mod 16 = 0 ->
    cbc_decrypt_with iv (cbc_encrypt_with iv pt) = pt.
  Proof.
    intros Hiv Hpt. unfold cbc_decrypt_with, cbc_encrypt_with.
    rewrite chunks_of_concat; [| lia | apply cbc_enc_blocks_Forall].
    rewrite cbc_blocks_roundtrip; [| assumption | apply chunks_Forall; [lia | assumption]].
    apply chunks_concat. lia.
  Qed.

  Lemma cbc_encrypt_with_length iv pt :
    length pt mod 16 = 0 -> length (cbc_encrypt_with iv pt) = length pt.
  Proof.
    intro Hpt. unfold cbc_encrypt_with.
    rewrite <- (chunks_concat 16 pt) at 2 by lia.
    pose proof (chunks_Forall 16 pt ltac:(lia) Hpt) as Hall.
    revert iv; induction Hall as [|b rest Hb Hall IH]; intro iv;
      cbn [cbc_enc_blocks concat]; [reflexivity|].
    rewrite !app_length, E_length, Hb, IH. reflexivity.
  Qed.
End CBC.

Definition aes_cbc_encrypt (key iv pt : list N) : list N :=
  let ks := aes_expand key in cbc_encrypt_with (aes_encrypt_block_ks ks) iv pt.
Definition aes_cbc_decrypt (key iv ct : list N) : list N :=
  let ks := aes_expand key in cbc_decrypt_with (aes_decrypt_block_ks ks) iv ct.

(* The AES instance of [cbc_roundtrip], conditional on AES decryption inverting AES
   encryption under this key (not proved here; the length hypothesis is discharged). *)
Corollary aes_cbc_roundtrip key iv pt :
  (forall b, length b = 16 ->
             aes_decrypt_block_ks (aes_expand key) (aes_encrypt_block_ks (aes_expand key) b) = b) ->
  length iv = 16 -> length pt mod 16 = 0 ->
  aes_cbc_decrypt key iv (aes_cbc_encrypt key iv pt) = pt.
Proof.
  intros HDE Hiv Hpt. unfold aes_cbc_decrypt, aes_cbc_encrypt.
  apply cbc_roundtrip; auto using aes_encrypt_block_ks_length.
Qed.

(* non-vacuity of [cbc_roundtrip]: the hypotheses hold for E = D = identity on 16-byte
   blocks padded/truncated to 16 *)
Example cbc_roundtrip_nonvacuous :
  let E := take_pad 16 in
  (forall b, length b = 16 -> E (E b) = b) /\ (forall b, length (E b) = 16) /\
  cbc_encrypt_with E (zeros 16) (ramp 32) <> ramp 32.
Proof.
  split; [|split].
  - intros b Hb. rewrite <- Hb. now rewrite !take_pad_exact.
  - intro b. apply take_pad_length.
  - vm_compute. discriminate.
Qed.

Print Assumptions cbc_roundtrip.
