(* CBC mode (NIST SP 800-38A section 6.2) over an abstract 16-byte block cipher, the
   round-trip theorems, and the AES instances.  No padding here: the plaintext must be a
   multiple of 16 bytes (a trailing partial block is processed as it stands, which is only
   meaningful to callers that pad first).

   Two forms of the theorem: [cbc_roundtrip] assumes [D (E b) = b] for every 16-element
   block; [cbc_roundtrip_bytes] assumes it only for blocks of bytes (< 256), which is all a
   real cipher such as AES can satisfy on [list N], and asks for byte inputs in return. *)
From Kit Require Import Lib.Base.
From Kit Require Import Crypto.Words Crypto.AES.

Section CBC.
  Variables E D : list N -> list N.     (* forward / inverse cipher under a fixed key *)

  (* C_j = E (P_j xor C_{j-1}), C_0 = IV *)
  Fixpoint cbc_enc_blocks (prev : list N) (blocks : list (list N)) : list (list N) :=
    match blocks with
    | [] => []
    | b :: rest => let c := E (xor_bytes b prev) in c :: cbc_enc_blocks c rest
    end.

  (* P_j = D (C_j) xor C_{j-1} *)
  Fixpoint cbc_dec_blocks (prev : list N) (blocks : list (list N)) : list (list N) :=
    match blocks with
    | [] => []
    | c :: rest => xor_bytes (D c) prev :: cbc_dec_blocks c rest
    end.

  Definition cbc_encrypt_with (iv pt : list N) : list N :=
    concat (cbc_enc_blocks iv (chunks 16 pt)).
  Definition cbc_decrypt_with (iv ct : list N) : list N :=
    concat (cbc_dec_blocks iv (chunks 16 ct)).

  (* One proof for both forms: [okb] says which list elements are valid ([byte_ok], or
     everything). *)
  Section Generic.
    Variable okb : N -> bool.
    Let ok (l : list N) : Prop := forallb okb l = true.

    Hypothesis okb_xor : forall x y, okb x = true -> okb y = true -> okb (N.lxor x y) = true.
    Hypothesis DE : forall b, length b = 16 -> ok b -> D (E b) = b.
    Hypothesis E_length : forall b, length (E b) = 16.
    Hypothesis E_ok : forall b, ok (E b).

    Lemma cbc_enc_blocks_Forall prev blocks :
      Forall (fun c => length c = 16) (cbc_enc_blocks prev blocks).
    Proof.
      revert prev; induction blocks as [|b rest IH]; intro prev; cbn [cbc_enc_blocks];
        constructor; [apply E_length | apply IH].
    Qed.

    Lemma cbc_blocks_roundtrip prev blocks :
      length prev = 16 -> ok prev -> Forall (fun b => length b = 16 /\ ok b) blocks ->
      cbc_dec_blocks prev (cbc_enc_blocks prev blocks) = blocks.
    Proof.
      intros Hprev Hokp Hall; revert prev Hprev Hokp.
      induction Hall as [|b rest [Hb Hokb] Hall IH]; intros prev Hprev Hokp;
        cbn [cbc_enc_blocks cbc_dec_blocks]; [reflexivity|].
      rewrite DE.
      - rewrite xor_bytes_involutive by lia.
        rewrite IH; [reflexivity | apply E_length | apply E_ok].
      - rewrite xor_bytes_length; lia.
      - now apply forallb_xor_bytes.
    Qed.

    Theorem cbc_roundtrip_gen iv pt :
      length iv = 16 -> ok iv -> length pt mod 16 = 0 -> ok pt ->
      cbc_decrypt_with iv (cbc_encrypt_with iv pt) = pt.
    Proof.
      intros Hiv Hokiv Hpt Hokpt. unfold cbc_decrypt_with, cbc_encrypt_with.
      rewrite chunks_of_concat; [| lia | apply cbc_enc_blocks_Forall].
      rewrite cbc_blocks_roundtrip; [apply chunks_concat; lia | assumption | assumption |].
      apply Forall_and; [apply chunks_Forall; [lia | assumption] | now apply forallb_chunks].
    Qed.
  End Generic.

  Theorem cbc_roundtrip iv pt :
    (forall b, length b = 16 -> D (E b) = b) -> (forall b, length (E b) = 16) ->
    length iv = 16 -> length pt mod 16 = 0 ->
    cbc_decrypt_with iv (cbc_encrypt_with iv pt) = pt.
  Proof.
    intros DE E_length Hiv Hpt.
    apply (cbc_roundtrip_gen (fun _ => true)); auto using forallb_true.
  Qed.

  Theorem cbc_roundtrip_bytes iv pt :
    (forall b, length b = 16 -> bytes_ok b = true -> D (E b) = b) ->
    (forall b, length (E b) = 16) -> (forall b, bytes_ok (E b) = true) ->
    length iv = 16 -> bytes_ok iv = true -> length pt mod 16 = 0 -> bytes_ok pt = true ->
    cbc_decrypt_with iv (cbc_encrypt_with iv pt) = pt.
  Proof.
    intros DE E_length E_ok Hiv Hokiv Hpt Hokpt.
    apply (cbc_roundtrip_gen byte_ok); auto using byte_ok_lxor.
  Qed.

  Lemma cbc_encrypt_with_length iv pt :
    (forall b, length (E b) = 16) ->
    length pt mod 16 = 0 -> length (cbc_encrypt_with iv pt) = length pt.
  Proof.
    intros E_length Hpt. unfold cbc_encrypt_with.
    rewrite <- (chunks_concat 16 pt) at 2 by lia.
    pose proof (chunks_Forall 16 pt ltac:(lia) Hpt) as Hall.
    revert iv; induction Hall as [|b rest Hb Hall IH]; intro iv;
      cbn [cbc_enc_blocks concat]; [reflexivity|].
    rewrite !app_length, E_length, Hb, IH. reflexivity.
  Qed.
End CBC.

Definition aes_cbc_encrypt (key iv pt : list N) : list N :=
  let ks := aes_expand key in cbc_encrypt_with (aes_encrypt_block_ks ks) iv pt.
Definition aes_cbc_decrypt (key iv ct : list N) : list N :=
  let ks := aes_expand key in cbc_decrypt_with (aes_decrypt_block_ks ks) iv ct.

(* The AES instance of [cbc_roundtrip_bytes], conditional on AES decryption inverting AES
   encryption on byte blocks under this key.  That premise is not proved in this
   development (the KATs and the differential runs against Go test it); the length and
   byte-range premises about AES are discharged. *)
Corollary aes_cbc_roundtrip key iv pt :
  (forall b, length b = 16 -> bytes_ok b = true ->
             aes_decrypt_block_ks (aes_expand key) (aes_encrypt_block_ks (aes_expand key) b) = b) ->
  length iv = 16 -> bytes_ok iv = true -> length pt mod 16 = 0 -> bytes_ok pt = true ->
  aes_cbc_decrypt key iv (aes_cbc_encrypt key iv pt) = pt.
Proof.
  intros HDE Hiv Hokiv Hpt Hokpt. unfold aes_cbc_decrypt, aes_cbc_encrypt.
  apply cbc_roundtrip_bytes; auto using aes_encrypt_block_ks_length, aes_encrypt_block_ks_ok.
Qed.

(* non-vacuity: the hypotheses of [cbc_roundtrip] hold for E = D = "pad/cut to 16", those
   of [cbc_roundtrip_bytes] for E = D = [toy_block]; neither makes CBC the identity *)
Example cbc_roundtrip_nonvacuous :
  let E := take_pad 16 in
  (forall b, length b = 16 -> E (E b) = b) /\ (forall b, length (E b) = 16) /\
  cbc_encrypt_with E (zeros 16) (ramp 32) <> ramp 32.
Proof.
  split; [|split].
  - intros b Hb. rewrite <- Hb. now rewrite !take_pad_exact.
  - intro b. apply take_pad_length.
  - vm_compute. discriminate.
Qed.

Example cbc_roundtrip_bytes_nonvacuous :
  let E := toy_block in
  (forall b, length b = 16 -> bytes_ok b = true -> E (E b) = b) /\
  (forall b, length (E b) = 16) /\ (forall b, bytes_ok (E b) = true) /\
  cbc_encrypt_with E (zeros 16) (ramp 32) <> ramp 32.
Proof.
  repeat split.
  - apply toy_block_involutive.
  - apply toy_block_length.
  - apply toy_block_ok.
  - vm_compute. discriminate.
Qed.

Print Assumptions cbc_roundtrip.
Print Assumptions cbc_roundtrip_bytes.
