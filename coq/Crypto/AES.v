(* AES-128/192/256 block cipher, written from FIPS 197 (cipher: section 5.1, key
   expansion: 5.2, inverse cipher: 5.3).

   The state is a [st16] of bytes (primitive integers < 256) in the order of the input
   block, i.e. column-major: index r + 4c holds row r, column c.  The S-box is computed
   from its definition (multiplicative inverse in GF(2^8), then the affine map; section
   5.1.1) once, into a binary tree, so that nothing but [Uint63] primitives is involved. *)
From Kit Require Import Lib.Base.
From Kit Require Import Crypto.Words.
From Coq Require Import Uint63.

Local Open Scope uint63_scope.

(* ------------------------------------------------------------------------------------- *)
(** * GF(2^8), section 4.2 *)

(* multiplication by x modulo x^8 + x^4 + x^3 + x + 1 *)
Definition xtime (a : int) : int := ((a << 1) lxor ((a >> 7) * 0x1b)) land 0xff.

Fixpoint gf_mul_loop (n : nat) (a b acc : int) : int :=
  match n with
  | O => acc
  | S n' => gf_mul_loop n' (xtime a) (b >> 1) (if is_even b then acc else acc lxor a)
  end.
Definition gf_mul (a b : int) : int := gf_mul_loop 8 a b 0.

(* a^254 = a^-1 for a <> 0, and 0 for a = 0 *)
Definition gf_inv (a : int) : int :=
  let a2 := gf_mul a a in let a4 := gf_mul a2 a2 in let a8 := gf_mul a4 a4 in
  let a16 := gf_mul a8 a8 in let a32 := gf_mul a16 a16 in let a64 := gf_mul a32 a32 in
  let a128 := gf_mul a64 a64 in
  gf_mul a128 (gf_mul a64 (gf_mul a32 (gf_mul a16 (gf_mul a8 (gf_mul a4 a2))))).

(* ------------------------------------------------------------------------------------- *)
(** * S-box, section 5.1.1 *)

Definition rotl8 (b n : int) : int := ((b << n) lor (b >> (8 - n))) land 0xff.

(* b'_i = b_i + b_(i+4) + b_(i+5) + b_(i+6) + b_(i+7) + c_i, c = 0x63 *)
Definition sbox_affine (b : int) : int :=
  b lxor rotl8 b 1 lxor rotl8 b 2 lxor rotl8 b 3 lxor rotl8 b 4 lxor 0x63.

Definition sbox_value (a : int) : int := sbox_affine (gf_inv a).

Fixpoint int_range (n : nat) (from : int) : list int :=
  match n with O => [] | S n' => from :: int_range n' (from + 1) end.

Definition sbox_list : list int := map sbox_value (int_range 256 0).

(* position of [y] in [l] (the inverse S-box is the S-box read backwards) *)
Fixpoint index_of (y : int) (l : list int) (i : int) : int :=
  match l with
  | [] => 0
  | x :: l' => if x =? y then i else index_of y l' (i + 1)
  end.
Definition inv_sbox_list : list int := map (fun y => index_of y sbox_list 0) (int_range 256 0).

(* A 256-entry table as a complete binary tree of depth 8, indexed by the bits of the byte
   from the top one down: a look-up is 8 steps and needs only [Uint63] primitives. *)
Inductive table := Leaf (v : int) | Node (zero one : table).

Fixpoint table_build (depth : nat) (l : list int) : table :=
  match depth with
  | O => Leaf (hd 0 l)
  | S d => let half := Nat.pow 2 d in
           Node (table_build d (firstn half l)) (table_build d (skipn half l))
  end.

Fixpoint table_get (t : table) (x : int) : int :=
  match t with
  | Leaf v => v
  | Node zero one =>
      if (x land 0x80) =? 0 then table_get zero (x << 1) else table_get one (x << 1)
  end.

Definition sbox_tab : table := table_build 8 sbox_list.
Definition inv_sbox_tab : table := table_build 8 inv_sbox_list.

Definition sbox (a : int) : int := table_get sbox_tab a.
Definition inv_sbox (a : int) : int := table_get inv_sbox_tab a.

(* ------------------------------------------------------------------------------------- *)
(** * Round transformations on the state *)

(* SubBytes followed by ShiftRows (sections 5.1.1, 5.1.2): row r rotates left by r *)
Definition sub_shift (s : st16) : st16 :=
  let '(St16 s0 s1 s2 s3 s4 s5 s6 s7 s8 s9 s10 s11 s12 s13 s14 s15) := s in
  St16 (sbox s0) (sbox s5) (sbox s10) (sbox s15)
       (sbox s4) (sbox s9) (sbox s14) (sbox s3)
       (sbox s8) (sbox s13) (sbox s2) (sbox s7)
       (sbox s12) (sbox s1) (sbox s6) (sbox s11).

(* InvShiftRows followed by InvSubBytes (sections 5.3.1, 5.3.2) *)
Definition inv_shift_sub (s : st16) : st16 :=
  let '(St16 s0 s1 s2 s3 s4 s5 s6 s7 s8 s9 s10 s11 s12 s13 s14 s15) := s in
  St16 (inv_sbox s0) (inv_sbox s13) (inv_sbox s10) (inv_sbox s7)
       (inv_sbox s4) (inv_sbox s1) (inv_sbox s14) (inv_sbox s11)
       (inv_sbox s8) (inv_sbox s5) (inv_sbox s2) (inv_sbox s15)
       (inv_sbox s12) (inv_sbox s9) (inv_sbox s6) (inv_sbox s3).

(* MixColumns, section 5.1.3 *)
Definition mix_column (a0 a1 a2 a3 : int) : int * int * int * int :=
  let x0 := xtime a0 in let x1 := xtime a1 in let x2 := xtime a2 in let x3 := xtime a3 in
  (x0 lxor (x1 lxor a1) lxor a2 lxor a3,
   a0 lxor x1 lxor (x2 lxor a2) lxor a3,
   a0 lxor a1 lxor x2 lxor (x3 lxor a3),
   (x0 lxor a0) lxor a1 lxor a2 lxor x3).

Definition mix_columns (s : st16) : st16 :=
  let '(St16 s0 s1 s2 s3 s4 s5 s6 s7 s8 s9 s10 s11 s12 s13 s14 s15) := s in
  let '(t0, t1, t2, t3) := mix_column s0 s1 s2 s3 in
  let '(t4, t5, t6, t7) := mix_column s4 s5 s6 s7 in
  let '(t8, t9, t10, t11) := mix_column s8 s9 s10 s11 in
  let '(t12, t13, t14, t15) := mix_column s12 s13 s14 s15 in
  St16 t0 t1 t2 t3 t4 t5 t6 t7 t8 t9 t10 t11 t12 t13 t14 t15.

(* InvMixColumns, section 5.3.3: multiplication by 0e 0b 0d 09 *)
Definition inv_mix_column (a0 a1 a2 a3 : int) : int * int * int * int :=
  let m9 a := let a2 := xtime a in let a4 := xtime a2 in let a8 := xtime a4 in a8 lxor a in
  let mb a := let a2 := xtime a in let a4 := xtime a2 in let a8 := xtime a4 in
              a8 lxor a2 lxor a in
  let md a := let a2 := xtime a in let a4 := xtime a2 in let a8 := xtime a4 in
              a8 lxor a4 lxor a in
  let me a := let a2 := xtime a in let a4 := xtime a2 in let a8 := xtime a4 in
              a8 lxor a4 lxor a2 in
  (me a0 lxor mb a1 lxor md a2 lxor m9 a3,
   m9 a0 lxor me a1 lxor mb a2 lxor md a3,
   md a0 lxor m9 a1 lxor me a2 lxor mb a3,
   mb a0 lxor md a1 lxor m9 a2 lxor me a3).

Definition inv_mix_columns (s : st16) : st16 :=
  let '(St16 s0 s1 s2 s3 s4 s5 s6 s7 s8 s9 s10 s11 s12 s13 s14 s15) := s in
  let '(t0, t1, t2, t3) := inv_mix_column s0 s1 s2 s3 in
  let '(t4, t5, t6, t7) := inv_mix_column s4 s5 s6 s7 in
  let '(t8, t9, t10, t11) := inv_mix_column s8 s9 s10 s11 in
  let '(t12, t13, t14, t15) := inv_mix_column s12 s13 s14 s15 in
  St16 t0 t1 t2 t3 t4 t5 t6 t7 t8 t9 t10 t11 t12 t13 t14 t15.

Definition add_round_key (s k : st16) : st16 := st16_map2 Uint63.lxor s k.

(* ------------------------------------------------------------------------------------- *)
(** * Key expansion, section 5.2 *)

Definition sub_word (w : int) : int :=
  (sbox (w >> 24) << 24) lor (sbox ((w >> 16) land 0xff) << 16)
    lor (sbox ((w >> 8) land 0xff) << 8) lor sbox (w land 0xff).
Definition rot_word (w : int) : int := rotl32 w 8.

(* [acc] holds w[i-1], w[i-2], ... (most recent first); [rcon] is Rcon[i/Nk]'s top byte *)
Fixpoint key_expansion_loop (fuel nk i : nat) (rcon : int) (acc : list int) : list int :=
  match fuel with
  | O => rev acc
  | S fuel' =>
      let temp := hd 0 acc in
      let back := nth (nk - 1)%nat acc 0 in
      let r := Nat.modulo i nk in
      if Nat.eqb r 0 then
        key_expansion_loop fuel' nk (S i) (xtime rcon)
          ((back lxor (sub_word (rot_word temp) lxor (rcon << 24))) :: acc)
      else if Nat.ltb 6 nk && Nat.eqb r 4 then
        key_expansion_loop fuel' nk (S i) rcon ((back lxor sub_word temp) :: acc)
      else
        key_expansion_loop fuel' nk (S i) rcon ((back lxor temp) :: acc)
  end.

(* the key schedule: Nr + 1 round keys, each 16 bytes in state order *)
Definition aes_ks := list st16.

Definition round_key_of_words (ws : list int) : st16 :=
  st16_of_list (ints_of_bytes (bytes_of_words_be ws)).

Definition aes_key_ok (key : list N) : bool :=
  let n := length key in Nat.eqb n 16 || Nat.eqb n 24 || Nat.eqb n 32.

(* A key whose length is not 16, 24 or 32 bytes has no schedule ([]): the block functions
   then degenerate to the identity on the (16-byte, zero-padded) block.  Callers that must
   reject bad keys test [aes_key_ok]. *)
Definition aes_expand (key : list N) : aes_ks :=
  if aes_key_ok key then
    let nk := Nat.div (length key) 4 in
    let total := (4 * (nk + 7))%nat in
    let w := key_expansion_loop (total - nk)%nat nk nk 1 (rev (words_be key)) in
    map round_key_of_words (chunks 4 w)
  else [].

(* ------------------------------------------------------------------------------------- *)
(** * Cipher and inverse cipher *)

(* rounds 1..Nr; the last one has no MixColumns *)
Fixpoint aes_rounds (s : st16) (ks : list st16) : st16 :=
  match ks with
  | [] => s
  | [k] => add_round_key (sub_shift s) k
  | k :: ks' => aes_rounds (add_round_key (mix_columns (sub_shift s)) k) ks'
  end.

Definition aes_encrypt_st (ks : aes_ks) (s : st16) : st16 :=
  match ks with
  | [] => s
  | k0 :: ks' => aes_rounds (add_round_key s k0) ks'
  end.

(* inverse rounds over the round keys in reverse order *)
Fixpoint aes_inv_rounds (s : st16) (rks : list st16) : st16 :=
  match rks with
  | [] => s
  | [k0] => add_round_key (inv_shift_sub s) k0
  | k :: rks' => aes_inv_rounds (inv_mix_columns (add_round_key (inv_shift_sub s) k)) rks'
  end.

Definition aes_decrypt_st (ks : aes_ks) (s : st16) : st16 :=
  match rev ks with
  | [] => s
  | kn :: rks' => aes_inv_rounds (add_round_key s kn) rks'
  end.

Definition st16_of_bytes (b : list N) : st16 := st16_of_list (ints_of_bytes b).
Definition bytes_of_st16 (s : st16) : list N := bytes_of_ints (st16_to_list s).

Lemma bytes_of_st16_length s : length (bytes_of_st16 s) = 16%nat.
Proof. unfold bytes_of_st16, bytes_of_ints. now rewrite map_length, st16_to_list_length. Qed.

Definition aes_encrypt_block_ks (ks : aes_ks) (blk : list N) : list N :=
  bytes_of_st16 (aes_encrypt_st ks (st16_of_bytes blk)).
Definition aes_decrypt_block_ks (ks : aes_ks) (blk : list N) : list N :=
  bytes_of_st16 (aes_decrypt_st ks (st16_of_bytes blk)).

Definition aes_encrypt_block (key blk : list N) : list N :=
  aes_encrypt_block_ks (aes_expand key) blk.
Definition aes_decrypt_block (key blk : list N) : list N :=
  aes_decrypt_block_ks (aes_expand key) blk.

Lemma aes_encrypt_block_ks_length ks blk : length (aes_encrypt_block_ks ks blk) = 16%nat.
Proof. apply bytes_of_st16_length. Qed.
Lemma aes_decrypt_block_ks_length ks blk : length (aes_decrypt_block_ks ks blk) = 16%nat.
Proof. apply bytes_of_st16_length. Qed.
Lemma aes_encrypt_block_length key blk : length (aes_encrypt_block key blk) = 16%nat.
Proof. apply bytes_of_st16_length. Qed.
Lemma aes_decrypt_block_length key blk : length (aes_decrypt_block key blk) = 16%nat.
Proof. apply bytes_of_st16_length. Qed.

Lemma bytes_of_st16_ok s : bytes_ok (bytes_of_st16 s) = true.
Proof. apply bytes_of_ints_ok. Qed.
Lemma aes_encrypt_block_ks_ok ks blk : bytes_ok (aes_encrypt_block_ks ks blk) = true.
Proof. apply bytes_of_ints_ok. Qed.
Lemma aes_decrypt_block_ks_ok ks blk : bytes_ok (aes_decrypt_block_ks ks blk) = true.
Proof. apply bytes_of_ints_ok. Qed.
