(* AES-GCM, written from NIST SP 800-38D (GHASH: 6.4, GCTR: 6.5, GCM-AE/AD: 7.1, 7.2),
   with 16-byte tags, and the round-trip theorem.

   A 128-bit block is four 32-bit words, most significant first: bit 0 of the standard's
   bit string (the coefficient of x^0) is the top bit of the first word. *)
From Kit Require Import Lib.Base.
From Kit Require Import Crypto.Words Crypto.AES.
From Coq Require Import Uint63.

Local Open Scope uint63_scope.

Inductive w4 := W4 (a b c d : int).

Definition w4_zero : w4 := W4 0 0 0 0.
Definition w4_xor (x y : w4) : w4 :=
  let '(W4 a b c d) := x in let '(W4 a' b' c' d') := y in
  W4 (a lxor a') (b lxor b') (c lxor c') (d lxor d').

Definition w4_bytes (x : w4) : list N :=
  let '(W4 a b c d) := x in bytes_of_words_be [a; b; c; d].

Lemma w4_bytes_length x : length (w4_bytes x) = 16%nat.
Proof. destruct x; reflexivity. Qed.

(* 16 bytes (zero-padded if fewer) -> block *)
Definition w4_of_bytes (bs : list N) : w4 :=
  match words_be (take_pad 16 bs) with
  | [a; b; c; d] => W4 a b c d
  | _ => w4_zero
  end.

(* Section 6.3, one iteration of Algorithm 1: V := V >> 1, xor R = 11100001 || 0^120 when
   the bit shifted out was 1. *)
Definition gf128_shift (v : w4) : w4 :=
  let '(W4 a b c d) := v in
  W4 ((a >> 1) lxor ((d land 1) * 0xE1000000))
     ((b >> 1) lor ((a land 1) << 31))
     ((c >> 1) lor ((b land 1) << 31))
     ((d >> 1) lor ((c land 1) << 31)).

(* the 32 bits of [xw], top bit first: Z := Z xor V when the bit is set; V := V * x *)
Fixpoint gf128_mul_word (n : nat) (xw : int) (z v : w4) : w4 * w4 :=
  match n with
  | O => (z, v)
  | S n' =>
      gf128_mul_word n' ((xw << 1) land mask32)
                     (if (xw land 0x80000000) =? 0 then z else w4_xor z v)
                     (gf128_shift v)
  end.

(* X * Y in GF(2^128) (Algorithm 1) *)
Definition gf128_mul (x y : w4) : w4 :=
  let '(W4 x0 x1 x2 x3) := x in
  let '(z, v) := gf128_mul_word 32 x0 w4_zero y in
  let '(z, v) := gf128_mul_word 32 x1 z v in
  let '(z, v) := gf128_mul_word 32 x2 z v in
  let '(z, v) := gf128_mul_word 32 x3 z v in
  z.

(* Algorithm 2 over a byte string that is implicitly zero-padded to a multiple of 16:
   Y := (Y xor X_i) * H for each block.  Tail recursive. *)
Fixpoint ghash_update (h y : w4) (data : list N) : w4 :=
  match data with
  | b0 :: b1 :: b2 :: b3 :: b4 :: b5 :: b6 :: b7 :: b8 :: b9 :: b10 :: b11 :: b12 :: b13
       :: b14 :: b15 :: rest =>
      let x := W4 (word_be b0 b1 b2 b3) (word_be b4 b5 b6 b7)
                  (word_be b8 b9 b10 b11) (word_be b12 b13 b14 b15) in
      ghash_update h (gf128_mul (w4_xor y x) h) rest
  | [] => y
  | tail => gf128_mul (w4_xor y (w4_of_bytes tail)) h
  end.

(* GHASH_H (A || 0* || C || 0* || [len A]_64 || [len C]_64), lengths in bits (7.1 step 5) *)
Definition ghash (h : w4) (aad ct : list N) : w4 :=
  let y := ghash_update h (ghash_update h w4_zero aad) ct in
  let lens := w4_of_bytes (be64 (8 * lenN aad) ++ be64 (8 * lenN ct)) in
  gf128_mul (w4_xor y lens) h.

(* 7.1 step 2: J0 = IV || 0^31 || 1 for a 96-bit IV, otherwise
   GHASH_H (IV || 0* || 0^64 || [len IV]_64), which is [ghash h [] iv]. *)
Definition gcm_j0 (h : w4) (nonce : list N) : w4 :=
  if Nat.eqb (length nonce) 12
  then w4_of_bytes (nonce ++ [0; 0; 0; 1]%N)
  else ghash h [] nonce.

(* inc_32 applied [i] times (section 6.2) *)
Definition w4_inc32 (cb : w4) (i : int) : w4 :=
  let '(W4 a b c d) := cb in W4 a b c ((d + i) land mask32).

Definition aes_encrypt_w4 (ks : aes_ks) (x : w4) : list N := aes_encrypt_block_ks ks (w4_bytes x).

(* GCTR key stream (section 6.5): E(CB), E(inc CB), ... *)
Fixpoint gctr_blocks (ks : aes_ks) (cb : w4) (i : int) (nblocks : nat) : list N :=
  match nblocks with
  | O => []
  | S k => aes_encrypt_w4 ks (w4_inc32 cb i) ++ gctr_blocks ks cb (i + 1) k
  end.

Definition gctr_keystream (ks : aes_ks) (cb : w4) (n : nat) : list N :=
  firstn n (gctr_blocks ks cb 0 (Nat.div (n + 15) 16)).

Lemma gctr_blocks_length ks cb i k : length (gctr_blocks ks cb i k) = (16 * k)%nat.
Proof.
  revert i; induction k as [|k IH]; intro i; cbn [gctr_blocks].
  - reflexivity.
  - unfold aes_encrypt_w4. rewrite app_length, aes_encrypt_block_ks_length, IH. lia.
Qed.

Lemma gctr_keystream_length ks cb n : length (gctr_keystream ks cb n) = n.
Proof.
  unfold gctr_keystream. rewrite firstn_length, gctr_blocks_length.
  pose proof (Nat.div_mod (n + 15) 16 ltac:(lia)) as Hdm.
  pose proof (Nat.mod_upper_bound (n + 15) 16 ltac:(lia)) as Hlt.
  lia.
Qed.

Definition gctr (ks : aes_ks) (cb : w4) (data : list N) : list N :=
  xor_bytes data (gctr_keystream ks cb (length data)).

Lemma gctr_length ks cb data : length (gctr ks cb data) = length data.
Proof. unfold gctr. rewrite xor_bytes_length, gctr_keystream_length. lia. Qed.

Lemma gctr_involutive ks cb data : gctr ks cb (gctr ks cb data) = data.
Proof.
  unfold gctr at 1. rewrite gctr_length. unfold gctr.
  apply xor_bytes_involutive. rewrite gctr_keystream_length. lia.
Qed.

(* the parts of GCM-AE / GCM-AD that seal and open share *)
Definition gcm_hash_key (ks : aes_ks) : w4 := w4_of_bytes (aes_encrypt_block_ks ks (zeros 16)).

Definition gcm_tag (ks : aes_ks) (h j0 : w4) (aad ct : list N) : list N :=
  xor_bytes (w4_bytes (ghash h aad ct)) (aes_encrypt_w4 ks j0).

Lemma gcm_tag_length ks h j0 aad ct : length (gcm_tag ks h j0 aad ct) = 16%nat.
Proof.
  unfold gcm_tag, aes_encrypt_w4.
  now rewrite xor_bytes_length, w4_bytes_length, aes_encrypt_block_ks_length.
Qed.

Definition gcm_seal_ks (ks : aes_ks) (nonce aad pt : list N) : list N :=
  let h := gcm_hash_key ks in
  let j0 := gcm_j0 h nonce in
  let ct := gctr ks (w4_inc32 j0 1) pt in
  ct ++ gcm_tag ks h j0 aad ct.

Definition gcm_open_ks (ks : aes_ks) (nonce aad ct : list N) : option (list N) :=
  let n := length ct in
  if Nat.ltb n 16 then None
  else
    let h := gcm_hash_key ks in
    let j0 := gcm_j0 h nonce in
    let c := firstn (n - 16) ct in
    let tag := skipn (n - 16) ct in
    if eqb_listN tag (gcm_tag ks h j0 aad c)
    then Some (gctr ks (w4_inc32 j0 1) c)
    else None.

Definition gcm_seal (key nonce aad pt : list N) : list N :=
  gcm_seal_ks (aes_expand key) nonce aad pt.
Definition gcm_open (key nonce aad ct : list N) : option (list N) :=
  gcm_open_ks (aes_expand key) nonce aad ct.

Theorem gcm_open_seal_ks (ks : aes_ks) (n a p : list N) :
  gcm_open_ks ks n a (gcm_seal_ks ks n a p) = Some p.
Proof.
  unfold gcm_open_ks, gcm_seal_ks.
  set (h := gcm_hash_key ks). set (j0 := gcm_j0 h n).
  set (c := gctr ks (w4_inc32 j0 1) p).
  set (t := gcm_tag ks h j0 a c).
  assert (Ht : length t = 16%nat) by apply gcm_tag_length.
  rewrite app_length, Ht.
  replace (length c + 16 - 16)%nat with (length c) by lia.
  destruct (Nat.ltb_spec (length c + 16) 16) as [Hlt|_]; [lia|].
  rewrite firstn_app, Nat.sub_diag, firstn_all, firstn_O, app_nil_r.
  rewrite skipn_app, Nat.sub_diag, skipn_all, skipn_O. cbn [app].
  fold t.
  replace (eqb_listN t t) with true by (symmetry; apply eqb_listN_spec; reflexivity).
  unfold c. rewrite gctr_involutive. reflexivity.
Qed.

Theorem gcm_open_seal (k n a p : list N) : gcm_open k n a (gcm_seal k n a p) = Some p.
Proof. unfold gcm_open, gcm_seal. apply gcm_open_seal_ks. Qed.

Lemma gcm_seal_length k n a p : length (gcm_seal k n a p) = (length p + 16)%nat.
Proof.
  unfold gcm_seal, gcm_seal_ks. rewrite app_length, gcm_tag_length, gctr_length. reflexivity.
Qed.

Print Assumptions gcm_open_seal.
