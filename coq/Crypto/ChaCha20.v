(* ChaCha20 (RFC 8439 sections 2.1-2.4) and HChaCha20 (draft-irtf-cfrg-xchacha-03
   section 2.2).  The 16-word state is a [st16]; words are primitive integers < 2^32. *)
From Kit Require Import Lib.Base.
From Kit Require Import Crypto.Words.
From Coq Require Import Uint63.

Local Open Scope uint63_scope.

(* RFC 8439 section 2.1 *)
Definition quarter_round (a b c d : int) : int * int * int * int :=
  let a := add32 a b in let d := rotl32 (d lxor a) 16 in
  let c := add32 c d in let b := rotl32 (b lxor c) 12 in
  let a := add32 a b in let d := rotl32 (d lxor a) 8 in
  let c := add32 c d in let b := rotl32 (b lxor c) 7 in
  (a, b, c, d).

(* section 2.3: a column round followed by a diagonal round *)
Definition double_round (s : st16) : st16 :=
  let '(St16 x0 x1 x2 x3 x4 x5 x6 x7 x8 x9 x10 x11 x12 x13 x14 x15) := s in
  let '(x0, x4, x8, x12) := quarter_round x0 x4 x8 x12 in
  let '(x1, x5, x9, x13) := quarter_round x1 x5 x9 x13 in
  let '(x2, x6, x10, x14) := quarter_round x2 x6 x10 x14 in
  let '(x3, x7, x11, x15) := quarter_round x3 x7 x11 x15 in
  let '(x0, x5, x10, x15) := quarter_round x0 x5 x10 x15 in
  let '(x1, x6, x11, x12) := quarter_round x1 x6 x11 x12 in
  let '(x2, x7, x8, x13) := quarter_round x2 x7 x8 x13 in
  let '(x3, x4, x9, x14) := quarter_round x3 x4 x9 x14 in
  St16 x0 x1 x2 x3 x4 x5 x6 x7 x8 x9 x10 x11 x12 x13 x14 x15.

Fixpoint iterate {A} (n : nat) (f : A -> A) (x : A) : A :=
  match n with O => x | S n' => iterate n' f (f x) end.

Definition chacha_rounds (s : st16) : st16 := iterate 10 double_round s.

(* "expand 32-byte k" *)
Definition chacha_constants : list int := [0x61707865; 0x3320646e; 0x79622d32; 0x6b206574].

(* section 2.3: constants | key (8 LE words) | counter | nonce (3 LE words).
   Total: a short key or nonce is read as if zero-padded, a long one is truncated. *)
Definition chacha20_init (key : list N) (counter : N) (nonce : list N) : st16 :=
  st16_of_list (chacha_constants ++ words_le (take_pad 32 key)
                  ++ [int_of_N (N.land counter 0xFFFFFFFF)] ++ words_le (take_pad 12 nonce)).

Definition chacha20_block (key : list N) (counter : N) (nonce : list N) : list N :=
  let s0 := chacha20_init key counter nonce in
  bytes_of_words_le (st16_to_list (st16_map2 add32 (chacha_rounds s0) s0)).

Lemma chacha20_block_length key counter nonce :
  length (chacha20_block key counter nonce) = 64%nat.
Proof.
  unfold chacha20_block.
  destruct (st16_map2 add32 _ _). reflexivity.
Qed.

(* [n] bytes of key stream starting at block [counter] (section 2.4).  The block counter
   wraps modulo 2^32 (irrelevant below 256 GiB). *)
Fixpoint chacha20_blocks (key : list N) (counter : N) (nonce : list N) (nblocks : nat) : list N :=
  match nblocks with
  | O => []
  | S k => chacha20_block key counter nonce ++ chacha20_blocks key (counter + 1)%N nonce k
  end.

Definition chacha20_keystream (key : list N) (counter : N) (nonce : list N) (n : nat) : list N :=
  firstn n (chacha20_blocks key counter nonce ((n + 63) / 64)).

Lemma chacha20_blocks_length key counter nonce k :
  length (chacha20_blocks key counter nonce k) = (64 * k)%nat.
Proof.
  revert counter; induction k as [|k IH]; intro counter; cbn [chacha20_blocks].
  - reflexivity.
  - rewrite app_length, chacha20_block_length, IH. lia.
Qed.

Lemma chacha20_keystream_length key counter nonce n :
  length (chacha20_keystream key counter nonce n) = n.
Proof.
  unfold chacha20_keystream. rewrite firstn_length, chacha20_blocks_length.
  pose proof (Nat.div_mod (n + 63) 64 ltac:(lia)) as Hdm.
  pose proof (Nat.mod_upper_bound (n + 63) 64 ltac:(lia)) as Hlt.
  lia.
Qed.

Definition chacha20_xor (key : list N) (counter : N) (nonce data : list N) : list N :=
  xor_bytes data (chacha20_keystream key counter nonce (length data)).

Lemma chacha20_xor_length key counter nonce data :
  length (chacha20_xor key counter nonce data) = length data.
Proof.
  unfold chacha20_xor. rewrite xor_bytes_length, chacha20_keystream_length. lia.
Qed.

Lemma chacha20_xor_involutive key counter nonce data :
  chacha20_xor key counter nonce (chacha20_xor key counter nonce data) = data.
Proof.
  unfold chacha20_xor at 1. rewrite chacha20_xor_length. unfold chacha20_xor.
  apply xor_bytes_involutive. rewrite chacha20_keystream_length. lia.
Qed.

(* HChaCha20: same rounds on constants | key | 16-byte nonce, no final addition; the
   output is words 0..3 and 12..15. *)
Definition hchacha20 (key nonce16 : list N) : list N :=
  let s0 := st16_of_list (chacha_constants ++ words_le (take_pad 32 key)
                            ++ words_le (take_pad 16 nonce16)) in
  let '(St16 x0 x1 x2 x3 _ _ _ _ _ _ _ _ x12 x13 x14 x15) := chacha_rounds s0 in
  bytes_of_words_le [x0; x1; x2; x3; x12; x13; x14; x15].

Lemma hchacha20_length key nonce16 : length (hchacha20 key nonce16) = 32%nat.
Proof. unfold hchacha20. destruct (chacha_rounds _). reflexivity. Qed.
