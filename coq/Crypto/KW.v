(* AES Key Wrap (RFC 3394 section 2.2, index-based description) over an abstract
   16-byte block cipher, the round-trip theorem, and the AES instances.

   The registers R[1..n] are kept as a queue: processing R[i] takes it from the front and
   puts the new value at the back, so after n steps the queue is R[1..n] again and the
   step counter t = n*j + i simply runs 1, 2, ..., 6n.  Unwrapping runs the inverse steps
   with t = 6n, ..., 1, taking from the back and putting at the front.

   Two forms of the theorem: [kw_roundtrip] assumes [D (E b) = b] for every 16-element
   block; [kw_roundtrip_bytes] assumes it only for blocks of bytes (< 256), which is all a
   real cipher such as AES can satisfy on [list N], and asks for a byte-string key in
   return. *)
From Kit Require Import Lib.Base.
From Kit Require Import Crypto.Words Crypto.AES.

Definition kw_iv : list N := repeat 0xA6%N 8.      (* section 2.2.3.1 *)

Section KW.
  Variables E D : list N -> list N.     (* forward / inverse cipher under the KEK *)

  Definition kw_state : Type := list N * list (list N).    (* A, queue of R blocks *)

  (* B = AES(K, A | R[i]); A = MSB(64, B) ^ t; R[i] = LSB(64, B) *)
  Definition kw_step (st : kw_state) (t : N) : kw_state :=
    let '(a, rs) := st in
    match rs with
    | [] => st
    | r :: rest =>
        let b := E (a ++ r) in
        (xor_bytes (firstn 8 b) (be64 t), rest ++ [skipn 8 b])
    end.

  (* B = AES-1(K, (A ^ t) | R[i]); A = MSB(64, B); R[i] = LSB(64, B) *)
  Definition kw_unstep (st : kw_state) (t : N) : kw_state :=
    let '(a, rs) := st in
    match rev rs with
    | [] => st
    | r :: front_rev =>
        let b := D (xor_bytes a (be64 t) ++ r) in
        (firstn 8 b, skipn 8 b :: rev front_rev)
    end.

  Definition kw_counters (n : nat) : list N := map N.of_nat (seq 1 (6 * n)).

  Definition kw_wrap_with (cek : list N) : list N :=
    let rs := chunks 8 cek in
    let '(a, rs') := fold_left kw_step (kw_counters (length rs)) (kw_iv, rs) in
    a ++ concat rs'.

  (* [None]: not a whole number (at least 2) of 8-byte blocks, or the integrity check of
     section 2.2.3 fails *)
  Definition kw_unwrap_with (c : list N) : option (list N) :=
    if Nat.eqb (length c mod 8) 0 && Nat.leb 16 (length c) then
      match chunks 8 c with
      | [] => None
      | a :: rs =>
          let '(a', rs') := fold_left kw_unstep (rev (kw_counters (length rs))) (a, rs) in
          if eqb_listN a' kw_iv then Some (concat rs') else None
      end
    else None.

  (* One proof for both forms of the theorem: [okb] says which list elements are valid
     ([byte_ok], or everything). *)
  Section Generic.
    Variable okb : N -> bool.
    Let ok (l : list N) : Prop := forallb okb l = true.

    Hypothesis okb_xor : forall x y, okb x = true -> okb y = true -> okb (N.lxor x y) = true.
    Hypothesis ok_counter : forall t, ok (be64 t).
    Hypothesis ok_iv : ok kw_iv.
    Hypothesis DE : forall b, length b = 16 -> ok b -> D (E b) = b.
    Hypothesis E_length : forall b, length (E b) = 16.
    Hypothesis E_ok : forall b, ok (E b).

    Definition kw_inv (n : nat) (st : kw_state) : Prop :=
      (length (fst st) = 8 /\ ok (fst st)) /\
      Forall (fun r => length r = 8 /\ ok r) (snd st) /\ length (snd st) = n.

    Lemma be64_length t : length (be64 t) = 8.
    Proof. reflexivity. Qed.

    Lemma kw_step_inv n st t : kw_inv n st -> kw_inv n (kw_step st t).
    Proof.
      destruct st as [a [|r rest]]; intros ((Ha & Hoka) & Hrs & Hn); cbn [kw_step fst snd] in *.
      - repeat split; assumption.
      - pose proof (E_length (a ++ r)) as Hb. pose proof (E_ok (a ++ r)) as Hokb.
        repeat split; cbn [fst snd].
        + rewrite xor_bytes_length, firstn_length, be64_length. lia.
        + apply forallb_xor_bytes; [assumption | now apply forallb_firstn | apply ok_counter].
        + apply Forall_app; split; [now inversion Hrs|].
          constructor; [|constructor].
          split; [rewrite skipn_length; lia | now apply forallb_skipn].
        + rewrite app_length. cbn [length] in *. lia.
    Qed.

    Lemma kw_unstep_step n st t : kw_inv n st -> kw_unstep (kw_step st t) t = st.
    Proof.
      destruct st as [a [|r rest]]; intros ((Ha & Hoka) & Hrs & Hn); cbn [kw_step fst snd] in *.
      - reflexivity.
      - cbn [kw_unstep]. rewrite rev_unit.
        rewrite xor_bytes_involutive by (rewrite firstn_length, be64_length; lia).
        rewrite firstn_skipn.
        assert (Hr : length r = 8 /\ ok r) by now inversion Hrs.
        destruct Hr as [Hr Hokr].
        rewrite DE.
        + rewrite <- Ha at 1. rewrite firstn_app, Nat.sub_diag, firstn_all, firstn_O, app_nil_r.
          rewrite <- Ha at 1. rewrite skipn_app, Nat.sub_diag, skipn_all, skipn_O. cbn [app].
          rewrite rev_involutive. reflexivity.
        + rewrite app_length; lia.
        + unfold ok. rewrite forallb_app. unfold ok in Hoka, Hokr. now rewrite Hoka, Hokr.
    Qed.

    Lemma kw_steps_inv n ts st : kw_inv n st -> kw_inv n (fold_left kw_step ts st).
    Proof.
      revert st; induction ts as [|t ts IH]; intros st Hst; cbn [fold_left]; [assumption|].
      apply IH. now apply kw_step_inv.
    Qed.

    Lemma kw_unsteps_steps n ts st :
      kw_inv n st -> fold_left kw_unstep (rev ts) (fold_left kw_step ts st) = st.
    Proof.
      revert st; induction ts as [|t ts IH]; intros st Hst; cbn [fold_left rev]; [reflexivity|].
      rewrite fold_left_app. rewrite IH by now apply kw_step_inv.
      cbn [fold_left]. now apply kw_unstep_step with (n := n).
    Qed.

    Theorem kw_roundtrip_gen cek :
      length cek mod 8 = 0 -> 8 <= length cek -> ok cek ->
      kw_unwrap_with (kw_wrap_with cek) = Some cek.
    Proof.
      intros Hmod Hlen Hokc. unfold kw_wrap_with.
      set (rs := chunks 8 cek). set (n := length rs).
      assert (Hrs : Forall (fun r => length r = 8) rs) by (apply chunks_Forall; [lia | assumption]).
      assert (Hokrs : Forall (fun r => ok r) rs) by now apply forallb_chunks.
      assert (Hcat : concat rs = cek) by (apply chunks_concat; lia).
      assert (Hn : length cek = 8 * n).
      { rewrite <- Hcat. now apply concat_length_const. }
      assert (Hinv0 : kw_inv n (kw_iv, rs)).
      { repeat split; [exact ok_iv | now apply Forall_and]. }
      pose proof (kw_steps_inv n (kw_counters n) _ Hinv0) as Hinv.
      pose proof (kw_unsteps_steps n (kw_counters n) _ Hinv0) as Hback.
      destruct (fold_left kw_step (kw_counters n) (kw_iv, rs)) as [a rs'] eqn:Hfold.
      destruct Hinv as ((Ha & _) & Hrs' & Hn'). cbn [fst snd] in Ha, Hrs', Hn'.
      assert (Hrs'8 : Forall (fun r => length r = 8) rs').
      { eapply Forall_impl; [|exact Hrs']. now intros r [Hr _]. }
      unfold kw_unwrap_with.
      assert (Hlen' : length (a ++ concat rs') = 8 + 8 * n).
      { rewrite app_length, (concat_length_const 8) by assumption. lia. }
      rewrite Hlen'.
      replace ((8 + 8 * n) mod 8) with 0
        by (symmetry; replace (8 + 8 * n) with ((1 + n) * 8) by lia; apply Nat.mod_mul; lia).
      replace (Nat.leb 16 (8 + 8 * n)) with true by (symmetry; apply Nat.leb_le; lia).
      cbn [Nat.eqb andb].
      change (a ++ concat rs') with (concat (a :: rs')).
      rewrite chunks_of_concat by (try lia; constructor; assumption).
      rewrite Hn', Hback.
      replace (eqb_listN kw_iv kw_iv) with true by (symmetry; apply eqb_listN_spec; reflexivity).
      now rewrite Hcat.
    Qed.
  End Generic.

  Theorem kw_roundtrip cek :
    (forall b, length b = 16 -> D (E b) = b) -> (forall b, length (E b) = 16) ->
    length cek mod 8 = 0 -> 8 <= length cek ->
    kw_unwrap_with (kw_wrap_with cek) = Some cek.
  Proof.
    intros DE E_length Hmod Hlen.
    apply (kw_roundtrip_gen (fun _ => true)); auto using forallb_true.
  Qed.

  Theorem kw_roundtrip_bytes cek :
    (forall b, length b = 16 -> bytes_ok b = true -> D (E b) = b) ->
    (forall b, length (E b) = 16) -> (forall b, bytes_ok (E b) = true) ->
    length cek mod 8 = 0 -> 8 <= length cek -> bytes_ok cek = true ->
    kw_unwrap_with (kw_wrap_with cek) = Some cek.
  Proof.
    intros DE E_length E_ok Hmod Hlen Hokc.
    apply (kw_roundtrip_gen byte_ok); auto using byte_ok_lxor, be64_ok.
  Qed.
End KW.

Definition aes_kw_wrap (key cek : list N) : list N :=
  let ks := aes_expand key in kw_wrap_with (aes_encrypt_block_ks ks) cek.
Definition aes_kw_unwrap (key c : list N) : option (list N) :=
  let ks := aes_expand key in kw_unwrap_with (aes_decrypt_block_ks ks) c.

(* The AES instance of [kw_roundtrip_bytes], conditional on AES decryption inverting AES
   encryption on byte blocks under this key.  That premise is not proved in this
   development (the KATs and the differential runs against Go test it); the length and
   byte-range premises about AES are discharged. *)
Corollary aes_kw_roundtrip key cek :
  (forall b, length b = 16 -> bytes_ok b = true ->
             aes_decrypt_block_ks (aes_expand key) (aes_encrypt_block_ks (aes_expand key) b) = b) ->
  length cek mod 8 = 0 -> 8 <= length cek -> bytes_ok cek = true ->
  aes_kw_unwrap key (aes_kw_wrap key cek) = Some cek.
Proof.
  intros HDE Hmod Hlen Hokc. unfold aes_kw_unwrap, aes_kw_wrap.
  apply kw_roundtrip_bytes; auto using aes_encrypt_block_ks_length, aes_encrypt_block_ks_ok.
Qed.

(* non-vacuity: the hypotheses of [kw_roundtrip] hold for E = D = "pad/cut to 16", those
   of [kw_roundtrip_bytes] for E = D = [toy_block] *)
Example kw_roundtrip_nonvacuous :
  let E := take_pad 16 in
  (forall b, length b = 16 -> E (E b) = b) /\ (forall b, length (E b) = 16) /\
  kw_wrap_with E (ramp 16) <> kw_iv ++ ramp 16.
Proof.
  split; [|split].
  - intros b Hb. rewrite <- Hb. now rewrite !take_pad_exact.
  - intro b. apply take_pad_length.
  - vm_compute. discriminate.
Qed.

Example kw_roundtrip_bytes_nonvacuous :
  let E := toy_block in
  (forall b, length b = 16 -> bytes_ok b = true -> E (E b) = b) /\
  (forall b, length (E b) = 16) /\ (forall b, bytes_ok (E b) = true) /\
  kw_wrap_with E (ramp 16) <> kw_iv ++ ramp 16.
Proof.
  repeat split.
  - apply toy_block_involutive.
  - apply toy_block_length.
  - apply toy_block_ok.
  - vm_compute. discriminate.
Qed.

Print Assumptions kw_roundtrip.
Print Assumptions kw_roundtrip_bytes.
