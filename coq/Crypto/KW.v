(* AES Key Wrap (RFC 3394 section 2.2, index-based description) over an abstract
   16-byte block cipher, the round-trip theorem, and the AES instances.

   The registers R[1..n] are kept as a queue: processing R[i] takes it from the front and
   puts the new value at the back, so after n steps the queue is R[1..n] again and the
   step counter t = n*j + i simply runs 1, 2, ..., 6n.  Unwrapping runs the inverse steps
   with t = 6n, ..., 1, taking from the back and putting at the front. *)
From Kit Require Import Lib.Base.
From Kit Require Import Crypto.Words Crypto.AES.

Definition kw_iv : list N := repeat 0xA6%N 8.      (* section 2.2.3.1 *)

Section KW.
  Variables E D : list N -> list N.     (* forward / inverse cipher under the KEK *)

  Definition kw_state : Type := list N * list (list N).    (* A, queue of R blocks *)

  (* B = AES(K, A | R[i]); A = MSB(64, B) ^ t; R[i] = LSB(64, B) *)
  Definition kw_step (st : kw_state) (t : N) : kw_state :=
    let '(a, rs) := st in
    match rs with
    | [] => st
    | r :: rest =>
        let b := E (a ++ r) in
        (xor_bytes (firstn 8 b) (be64 t), rest ++ [skipn 8 b])
    end.

  (* B = AES-1(K, (A ^ t) | R[i]); A = MSB(64, B); R[i] = LSB(64, B) *)
  Definition kw_unstep (st : kw_state) (t : N) : kw_state :=
    let '(a, rs) := st in
    match rev rs with
    | [] => st
    | r :: front_rev =>
        let b := D (xor_bytes a (be64 t) ++ r) in
        (firstn 8 b, skipn 8 b :: rev front_rev)
    end.

  Definition kw_counters (n : nat) : list N := map N.of_nat (seq 1 (6 * n)).

  Definition kw_wrap_with (cek : list N) : list N :=
    let rs := chunks 8 cek in
    let '(a, rs') := fold_left kw_step (kw_counters (length rs)) (kw_iv, rs) in
    a ++ concat rs'.

  (* [None]: not a whole number (at least 2) of 8-byte blocks, or the integrity check of
     section 2.2.3 fails *)
  Definition kw_unwrap_with (c : list N) : option (list N) :=
    if Nat.eqb (length c mod 8) 0 && Nat.leb 16 (length c) then
      match chunks 8 c with
      | [] => None
      | a :: rs =>
          let '(a', rs') := fold_left kw_unstep (rev (kw_counters (length rs))) (a, rs) in
          if eqb_listN a' kw_iv then Some (concat rs') else None
      end
    else None.

  Hypothesis DE : forall b, length b = 16 -> D (E b) = b.
  Hypothesis E_length : forall b, length (E b) = 16.

  Definition kw_inv (n : nat) (st : kw_state) : Prop :=
    length (fst st) = 8 /\ Forall (fun r => length r = 8) (snd st) /\ length (snd st) = n.

  Lemma be64_length t : length (be64 t) = 8.
  Proof. reflexivity. Qed.

  Lemma kw_step_inv n st t : kw_inv n st -> kw_inv n (kw_step st t).
  Proof.
    destruct st as [a [|r rest]]; intros (Ha & Hrs & Hn); cbn [kw_step fst snd] in *.
    - repeat split; assumption.
    - pose proof (E_length (a ++ r)) as Hb.
      repeat split; cbn [fst snd].
      + rewrite xor_bytes_length, firstn_length, be64_length. lia.
      + apply Forall_app; split; [now inversion Hrs|].
        constructor; [|constructor]. rewrite skipn_length. lia.
      + rewrite app_length. cbn [length] in *. lia.
  Qed.

  Lemma kw_unstep_step n st t : kw_inv n st -> kw_unstep (kw_step st t) t = st.
  Proof.
    destruct st as [a [|r rest]]; intros (Ha & Hrs & Hn); cbn [kw_step fst snd] in *.
    - reflexivity.
    - cbn [kw_unstep]. rewrite rev_unit.
      rewrite xor_bytes_involutive by (rewrite firstn_length, be64_length; lia).
      rewrite firstn_skipn.
      assert (Hr : length r = 8) by now inversion Hrs.
      rewrite DE by (rewrite app_length; lia).
      rewrite <- Ha at 1. rewrite firstn_app, Nat.sub_diag, firstn_all, firstn_O, app_nil_r.
      rewrite <- Ha at 1. rewrite skipn_app, Nat.sub_diag, skipn_all, skipn_O. cbn [app].
      rewrite rev_involutive. reflexivity.
  Qed.

  Lemma kw_steps_inv n ts st : kw_inv n st -> kw_inv n (fold_left kw_step ts st).
  Proof.
    revert st; induction ts as [|t ts IH]; intros st Hst; cbn [fold_left]; [assumption|].
    apply IH. now apply kw_step_inv.
  Qed.

  Lemma kw_unsteps_steps n ts st :
    kw_inv n st -> fold_left kw_unstep (rev ts) (fold_left kw_step ts st) = st.
  Proof.
    revert st; induction ts as [|t ts IH]; intros st Hst; cbn [fold_left rev]; [reflexivity|].
    rewrite fold_left_app. rewrite IH by now apply kw_step_inv.
    cbn [fold_left]. now apply kw_unstep_step with (n := n).
  Qed.

  Theorem kw_roundtrip cek :
    length cek mod 8 = 0 -> 8 <= length cek ->
    kw_unwrap_with (kw_wrap_with cek) = Some cek.
  Proof.
    intros Hmod Hlen. unfold kw_wrap_with.
    set (rs := chunks 8 cek). set (n := length rs).
    assert (Hrs : Forall (fun r => length r = 8) rs) by (apply chunks_Forall; [lia | assumption]).
    assert (Hcat : concat rs = cek) by (apply chunks_concat; lia).
    assert (Hn : length cek = 8 * n).
    { rewrite <- Hcat. now apply concat_length_const. }
    assert (Hinv0 : kw_inv n (kw_iv, rs)) by (repeat split; [exact Hrs]).
    pose proof (kw_steps_inv n (kw_counters n) _ Hinv0) as Hinv.
    pose proof (kw_unsteps_steps n (kw_counters n) _ Hinv0) as Hback.
    destruct (fold_left kw_step (kw_counters n) (kw_iv, rs)) as [a rs'] eqn:Hfold.
    destruct Hinv as (Ha & Hrs' & Hn'). cbn [fst snd] in Ha, Hrs', Hn'.
    unfold kw_unwrap_with.
    assert (Hlen' : length (a ++ concat rs') = 8 + 8 * n).
    { rewrite app_length, (concat_length_const 8) by assumption. lia. }
    rewrite Hlen'.
    replace ((8 + 8 * n) mod 8) with 0
      by (symmetry; replace (8 + 8 * n) with ((1 + n) * 8) by lia; apply Nat.mod_mul; lia).
    replace (Nat.leb 16 (8 + 8 * n)) with true by (symmetry; apply Nat.leb_le; lia).
    cbn [Nat.eqb andb].
    change (a ++ concat rs') with (concat (a :: rs')).
    rewrite chunks_of_concat by (try lia; constructor; assumption).
    rewrite Hn', Hback.
    replace (eqb_listN kw_iv kw_iv) with true by (symmetry; apply eqb_listN_spec; reflexivity).
    now rewrite Hcat.
  Qed.
End KW.

Definition aes_kw_wrap (key cek : list N) : list N :=
  let ks := aes_expand key in kw_wrap_with (aes_encrypt_block_ks ks) cek.
Definition aes_kw_unwrap (key c : list N) : option (list N) :=
  let ks := aes_expand key in kw_unwrap_with (aes_decrypt_block_ks ks) c.

(* The AES instance, conditional on AES decryption inverting AES encryption under this key
   (not proved here; the length hypothesis is discharged). *)
Corollary aes_kw_roundtrip key cek :
  (forall b, length b = 16 ->
             aes_decrypt_block_ks (aes_expand key) (aes_encrypt_block_ks (aes_expand key) b) = b) ->
  length cek mod 8 = 0 -> 8 <= length cek ->
  aes_kw_unwrap key (aes_kw_wrap key cek) = Some cek.
Proof.
  intros HDE Hmod Hlen. unfold aes_kw_unwrap, aes_kw_wrap.
  apply kw_roundtrip; auto using aes_encrypt_block_ks_length.
Qed.

(* non-vacuity of [kw_roundtrip]: the hypotheses hold for E = D = "pad/cut to 16 bytes" *)
Example kw_roundtrip_nonvacuous :
  let E := take_pad 16 in
  (forall b, length b = 16 -> E (E b) = b) /\ (forall b, length (E b) = 16) /\
  kw_wrap_with E (ramp 16) <> kw_iv ++ ramp 16.
Proof.
  split; [|split].
  - intros b Hb. rewrite <- Hb. now rewrite !take_pad_exact.
  - intro b. apply take_pad_length.
  - vm_compute. discriminate.
Qed.

Print Assumptions kw_roundtrip.
