(* C11 — events/broadcaster.Broadcaster as an event system (definitions only).

   Faithful to /repo/events/broadcaster/broadcaster.go (line numbers of that file):

     Subscribe 49-55 / subscribe 57-105
        b.lock.Lock(); if closed: return (silently dropped); else append an eventCh
        {bufferedCh (cap 10), closeEventCh} to b.eventChs; wg.Add(1); go forwarder; Unlock.
     forwarder 73-104
        for { select { <-ctx.Done(): return | <-b.closeCh: return
                     | val := <-bufferedCh:
                         select { <-ctx.Done(): return | <-b.closeCh: return | ch <- val: } } }
        deferred: close(closeEventCh)            -- BEFORE asking for the lock
                  b.lock.Lock(); remove own entry from b.eventChs; b.lock.Unlock(); wg.Done()
     Broadcast 108-121
        b.lock.Lock(); if closed: return;
        for each ev in b.eventChs: select { <-ev.closeEventCh | ev.ch <- value | <-b.closeCh }
        b.lock.Unlock()
     Close 125-132
        Original: b.lock.Lock(); if CAS(closed): close(closeCh); b.lock.Unlock(); wg.Wait()
        Fixed:    if CAS(closed): close(closeCh); b.lock.Lock(); b.lock.Unlock(); wg.Wait()

   Goroutines and where they block (= where events are split):
   * Broadcast callers: waiting for b.lock ([bq]); the one holding it is at subscriber index
     [idx] of its loop ([lock] = Held v idx) and blocks in the select while that subscriber's
     buffer is full and neither exit channel is closed;
   * Subscribe callers waiting for b.lock ([pend_subs]); the critical section cannot block, so
     it is one event;
   * one forwarder per subscriber: [fwd] = Idle (outer select) | Holding v (inner select, blocked
     on the user's channel) | ExitWantLock (returned; closeEventCh already closed; the deferred
     function waits for b.lock) | Exited;
   * Close callers: [cl] = CWantLock | CWaitFwd (wg.Wait) | CReturned, and [cl2] for a SECOND,
     overlapping Close call (the same code: in Fixed its CAS fails if the other came first, then
     the same barrier and wait).
   * a Subscribe call's context may already have ended when the call gets the lock
     ([CancelPending id] marks it): the subscription is registered all the same and its
     forwarder leaves at its first select.
   [closed] stands for both the atomic flag and closeCh: they are set by adjacent statements of
   Close with no blocking operation between them, and every behaviour inside that window (flag
   set, channel still open) is also a behaviour of the model just before or just after the
   single event.

   The consumer behind a subscriber's channel is part of the environment: it receives whenever
   something is offered ([prompt]) or once per command ([wants] = receive commands not yet
   served); a subscriber that is never told to read is a stalled reader.

   A value passed to Broadcast identifies the call: [BcCall v] is only enabled for a [v] not
   used before ([issued]).  (Go values may repeat; the calls are distinct.  The harness uses the
   script position as the value.)

   Ghost fields (never read by the code part of [step]): [fanout] = the values for which a
   Broadcast call took the lock on an open broadcaster, in that order; [issued]; [bret]/[sret] =
   Broadcast / Subscribe calls that have returned, in order of return; per subscriber [start] =
   length of [fanout] when its Subscribe held the lock.

   [variant]: Original = Close as in the pinned tree; Fixed = closeCh closed before the lock. *)
From Kit Require Export Lib.Base.

Definition val := Z.

(* make(chan T, bufferSize) *)
Definition bufcap : nat := 10.

Inductive fwdst := Idle | Holding (v : val) | ExitWantLock | Exited.
Inductive lockst := Free | Held (v : val) (idx : nat).
Inductive closepc := CNone | CWantLock | CWaitFwd | CReturned.

Record sub := mkSub {
  prompt : bool;        (* consumer: receives whenever something is offered *)
  wants : nat;          (* consumer on command: outstanding receive commands *)
  buf : list val;       (* bufferedCh *)
  fwd : fwdst;
  ctx_done : bool;
  exit_closed : bool;   (* closeEventCh has been closed *)
  registered : bool;    (* member of b.eventChs *)
  received : list val;  (* what the consumer got, in order *)
  start : nat           (* ghost *)
}.

Record st := mkSt {
  subs : list sub;               (* every subscriber ever, in order of lock acquisition *)
  lock : lockst;                 (* b.lock: Free, or held by a Broadcast in its loop *)
  closed : bool;                 (* b.closed / closeCh closed *)
  cl : closepc;
  cl2 : closepc;                 (* a second, overlapping Close call *)
  bq : list val;                 (* Broadcast calls waiting for the lock *)
  pend_subs : list (Z * bool);   (* Subscribe calls waiting for the lock: call id, prompt consumer *)
  pend_dead : list Z;            (* ids of Subscribe calls whose context has already ended *)
  (* ghost *)
  fanout : list val;
  issued : list val;
  bret : list val;
  sret : list Z
}.

Definition init : st := mkSt [] Free false CNone CNone [] [] [] [] [] [] [].

(* ---------------------------------------------------------------------------------------- *)
(* setters *)

Definition set_subs (s : st) (x : list sub) : st :=
  mkSt x (lock s) (closed s) (cl s) (cl2 s) (bq s) (pend_subs s) (pend_dead s) (fanout s) (issued s) (bret s) (sret s).
Definition set_lock (s : st) (x : lockst) : st :=
  mkSt (subs s) x (closed s) (cl s) (cl2 s) (bq s) (pend_subs s) (pend_dead s) (fanout s) (issued s) (bret s) (sret s).
Definition set_closed (s : st) (x : bool) : st :=
  mkSt (subs s) (lock s) x (cl s) (cl2 s) (bq s) (pend_subs s) (pend_dead s) (fanout s) (issued s) (bret s) (sret s).
Definition set_cl (s : st) (x : closepc) : st :=
  mkSt (subs s) (lock s) (closed s) x (cl2 s) (bq s) (pend_subs s) (pend_dead s) (fanout s) (issued s) (bret s) (sret s).
Definition set_cl2 (s : st) (x : closepc) : st :=
  mkSt (subs s) (lock s) (closed s) (cl s) x (bq s) (pend_subs s) (pend_dead s) (fanout s) (issued s) (bret s) (sret s).
Definition set_bq (s : st) (x : list val) : st :=
  mkSt (subs s) (lock s) (closed s) (cl s) (cl2 s) x (pend_subs s) (pend_dead s) (fanout s) (issued s) (bret s) (sret s).
Definition set_pend_subs (s : st) (x : list (Z * bool)) : st :=
  mkSt (subs s) (lock s) (closed s) (cl s) (cl2 s) (bq s) x (pend_dead s) (fanout s) (issued s) (bret s) (sret s).
Definition set_pend_dead (s : st) (x : list Z) : st :=
  mkSt (subs s) (lock s) (closed s) (cl s) (cl2 s) (bq s) (pend_subs s) x (fanout s) (issued s) (bret s) (sret s).
Definition set_fanout (s : st) (x : list val) : st :=
  mkSt (subs s) (lock s) (closed s) (cl s) (cl2 s) (bq s) (pend_subs s) (pend_dead s) x (issued s) (bret s) (sret s).
Definition set_issued (s : st) (x : list val) : st :=
  mkSt (subs s) (lock s) (closed s) (cl s) (cl2 s) (bq s) (pend_subs s) (pend_dead s) (fanout s) x (bret s) (sret s).
Definition set_bret (s : st) (x : list val) : st :=
  mkSt (subs s) (lock s) (closed s) (cl s) (cl2 s) (bq s) (pend_subs s) (pend_dead s) (fanout s) (issued s) x (sret s).
Definition set_sret (s : st) (x : list Z) : st :=
  mkSt (subs s) (lock s) (closed s) (cl s) (cl2 s) (bq s) (pend_subs s) (pend_dead s) (fanout s) (issued s) (bret s) x.

Definition sb_prompt (b : sub) (x : bool) : sub :=
  mkSub x (wants b) (buf b) (fwd b) (ctx_done b) (exit_closed b) (registered b) (received b) (start b).
Definition sb_wants (b : sub) (x : nat) : sub :=
  mkSub (prompt b) x (buf b) (fwd b) (ctx_done b) (exit_closed b) (registered b) (received b) (start b).
Definition sb_buf (b : sub) (x : list val) : sub :=
  mkSub (prompt b) (wants b) x (fwd b) (ctx_done b) (exit_closed b) (registered b) (received b) (start b).
Definition sb_fwd (b : sub) (x : fwdst) : sub :=
  mkSub (prompt b) (wants b) (buf b) x (ctx_done b) (exit_closed b) (registered b) (received b) (start b).
Definition sb_ctx_done (b : sub) (x : bool) : sub :=
  mkSub (prompt b) (wants b) (buf b) (fwd b) x (exit_closed b) (registered b) (received b) (start b).
Definition sb_exit_closed (b : sub) (x : bool) : sub :=
  mkSub (prompt b) (wants b) (buf b) (fwd b) (ctx_done b) x (registered b) (received b) (start b).
Definition sb_registered (b : sub) (x : bool) : sub :=
  mkSub (prompt b) (wants b) (buf b) (fwd b) (ctx_done b) (exit_closed b) x (received b) (start b).
Definition sb_received (b : sub) (x : list val) : sub :=
  mkSub (prompt b) (wants b) (buf b) (fwd b) (ctx_done b) (exit_closed b) (registered b) x (start b).

(* a subscription that took effect while open / one dropped because the broadcaster was closed
   (no channels, no forwarder, not in b.eventChs) *)
Definition new_sub (p : bool) (st0 : nat) (dead : bool) : sub := mkSub p 0 [] Idle dead false true [] st0.
Definition dropped_sub (p : bool) (st0 : nat) : sub := mkSub p 0 [] Exited false true false [] st0.

Fixpoint upd_nth {A} (i : nat) (x : A) (l : list A) : list A :=
  match l, i with
  | [], _ => []
  | _ :: t, O => x :: t
  | h :: t, S j => h :: upd_nth j x t
  end.

Fixpoint remove_nth {A} (i : nat) (l : list A) : list A :=
  match l, i with
  | [], _ => []
  | _ :: t, O => t
  | h :: t, S j => h :: remove_nth j t
  end.

Definition memz (x : Z) (l : list Z) : bool := existsb (Z.eqb x) l.

(* ---------------------------------------------------------------------------------------- *)
(* events *)

Inductive ev :=
(* environment: API calls being issued, the subscribers' contexts and consumers *)
| BcCall (v : val)
| SubCall (id : Z) (p : bool)
| Cancel (i : nat)
| Want (i : nat)
| WantAll (i : nat)
| CloseCall
| Close2Call              (* a second Close call, overlapping the first *)
| CancelPending (id : Z)  (* the context passed to Subscribe call [id] ends (before that call got the lock) *)
(* internal: steps of calls in progress and of the broadcaster's own goroutines *)
| BcLock (j : nat) | BcSend | BcSkip | BcEnd
| FwdTake (i : nat) | FwdDeliver (i : nat) | FwdSeeDone (i : nat) | FwdExitLocked (i : nat)
| SubLocked (j : nat)
| CloseLock | CloseWait
| Close2Lock | Close2Wait.

Definition internal (e : ev) : bool :=
  match e with
  | BcCall _ | SubCall _ _ | Cancel _ | Want _ | WantAll _ | CloseCall | Close2Call
  | CancelPending _ => false
  | _ => true
  end.

Definition with_sub (s : st) (i : nat) (g : sub -> option sub) : option st :=
  match nth_error (subs s) i with
  | Some b => match g b with
              | Some b' => Some (set_subs s (upd_nth i b' (subs s)))
              | None => None
              end
  | None => None
  end.

Definition departing (s : st) (b : sub) : bool := ctx_done b || closed s.
Definition consumer_ready (b : sub) : bool := prompt b || (0 <? wants b)%nat.
Definition is_exited (f : fwdst) : bool := match f with Exited => true | _ => false end.
Definition has_room (b : sub) : bool := (length (buf b) <? bufcap)%nat.

Definition step (vr : variant) (s : st) (e : ev) : option st :=
  match e with
  (* a Broadcast call is issued: it queues for the lock *)
  | BcCall v =>
      if memz v (issued s) then None
      else Some (set_issued (set_bq s (bq s ++ [v])) (issued s ++ [v]))
  | SubCall id p => Some (set_pend_subs s (pend_subs s ++ [(id, p)]))
  | Cancel i => with_sub s i (fun b => Some (sb_ctx_done b true))
  | Want i => with_sub s i (fun b => Some (sb_wants b (S (wants b))))
  | WantAll i => with_sub s i (fun b => Some (sb_prompt b true))
  (* Close is called.  Fixed: CAS + close(closeCh) happen here, before the lock is asked for *)
  | CloseCall =>
      match cl s with
      | CNone => Some (set_closed (set_cl s CWantLock) (is_fixed vr || closed s))
      | _ => None
      end
  (* a second Close call runs the same code: in Fixed its CAS fails if the first came earlier *)
  | Close2Call =>
      match cl2 s with
      | CNone => Some (set_closed (set_cl2 s CWantLock) (is_fixed vr || closed s))
      | _ => None
      end
  | CancelPending id => Some (set_pend_dead s (id :: pend_dead s))
  (* Broadcast: b.lock.Lock(); if b.closed.Load() { return } *)
  | BcLock j =>
      match lock s, nth_error (bq s) j with
      | Free, Some v =>
          if closed s
          then Some (set_bret (set_bq s (remove_nth j (bq s))) (bret s ++ [v]))
          else Some (set_fanout (set_lock (set_bq s (remove_nth j (bq s))) (Held v 0))
                                (fanout s ++ [v]))
      | _, _ => None
      end
  (* select: case ev.ch <- value (ready while the buffer has room) *)
  | BcSend =>
      match lock s with
      | Held v idx =>
          match nth_error (subs s) idx with
          | Some b =>
              if registered b && has_room b
              then Some (set_lock (set_subs s (upd_nth idx (sb_buf b (buf b ++ [v])) (subs s)))
                                  (Held v (S idx)))
              else None
          | None => None
          end
      | Free => None
      end
  (* select: case <-ev.closeEventCh / case <-b.closeCh; subscribers that have deregistered are
     not in b.eventChs: the loop does not see them *)
  | BcSkip =>
      match lock s with
      | Held v idx =>
          match nth_error (subs s) idx with
          | Some b =>
              if negb (registered b) || exit_closed b || closed s
              then Some (set_lock s (Held v (S idx)))
              else None
          | None => None
          end
      | Free => None
      end
  (* end of the loop: deferred Unlock, return *)
  | BcEnd =>
      match lock s with
      | Held v idx =>
          match nth_error (subs s) idx with
          | Some _ => None
          | None => Some (set_bret (set_lock s Free) (bret s ++ [v]))
          end
      | Free => None
      end
  (* forwarder, outer select: case val := <-bufferedCh (ready whenever the buffer is non-empty,
     also when ctx.Done()/closeCh are ready: select chooses at random) *)
  | FwdTake i =>
      with_sub s i (fun b =>
        match fwd b, buf b with
        | Idle, v :: r => Some (sb_fwd (sb_buf b r) (Holding v))
        | _, _ => None
        end)
  (* inner select: case ch <- val *)
  | FwdDeliver i =>
      with_sub s i (fun b =>
        match fwd b with
        | Holding v =>
            if consumer_ready b
            then Some (sb_fwd (sb_received (sb_wants b (if prompt b then wants b else pred (wants b)))
                                           (received b ++ [v])) Idle)
            else None
        | _ => None
        end)
  (* either select: case <-ctx.Done() / case <-b.closeCh: return; the deferred function starts
     and closes closeEventCh; then it waits for b.lock *)
  | FwdSeeDone i =>
      with_sub s i (fun b =>
        match fwd b with
        | Idle | Holding _ =>
            if departing s b then Some (sb_exit_closed (sb_fwd b ExitWantLock) true) else None
        | _ => None
        end)
  (* deferred function under the lock: remove from eventChs; Unlock; wg.Done *)
  | FwdExitLocked i =>
      match lock s with
      | Free =>
          with_sub s i (fun b =>
            match fwd b with
            | ExitWantLock => Some (sb_registered (sb_fwd b Exited) false)
            | _ => None
            end)
      | _ => None
      end
  (* Subscribe under the lock: dropped silently when closed, else appended with its forwarder *)
  | SubLocked j =>
      match lock s, nth_error (pend_subs s) j with
      | Free, Some (id, p) =>
          Some (set_sret (set_subs (set_pend_subs s (remove_nth j (pend_subs s)))
                                   (subs s ++ [if closed s then dropped_sub p (length (fanout s))
                                               else new_sub p (length (fanout s))
                                                            (memz id (pend_dead s))]))
                         (sret s ++ [id]))
      | _, _ => None
      end
  (* Original: Lock; CAS; close(closeCh); Unlock.  Fixed: Lock; Unlock (barrier only) *)
  | CloseLock =>
      match cl s, lock s with
      | CWantLock, Free => Some (set_closed (set_cl s CWaitFwd) true)
      | _, _ => None
      end
  (* deferred b.wg.Wait() *)
  | CloseWait =>
      match cl s with
      | CWaitFwd => if forallb (fun b => is_exited (fwd b)) (subs s)
                    then Some (set_cl s CReturned) else None
      | _ => None
      end
  | Close2Lock =>
      match cl2 s, lock s with
      | CWantLock, Free => Some (set_closed (set_cl2 s CWaitFwd) true)
      | _, _ => None
      end
  | Close2Wait =>
      match cl2 s with
      | CWaitFwd => if forallb (fun b => is_exited (fwd b)) (subs s)
                    then Some (set_cl2 s CReturned) else None
      | _ => None
      end
  end.

Fixpoint run (vr : variant) (s : st) (es : list ev) : option st :=
  match es with
  | [] => Some s
  | e :: r => match step vr s e with Some s' => run vr s' r | None => None end
  end.

(* a state of some execution: any schedule from the initial state *)
Definition reachable (vr : variant) (s : st) : Prop := exists es, run vr init es = Some s.

(* ---------------------------------------------------------------------------------------- *)
(* accounting vocabulary (ghost): where the values on their way to subscriber i are *)

(* the value its forwarder holds *)
Definition hold (b : sub) : list val := match fwd b with Holding v => [v] | _ => [] end.
(* the value of the Broadcast in progress, while its loop has not reached subscriber i yet *)
Definition to_come (s : st) (i : nat) : list val :=
  match lock s with
  | Held v idx => if (idx <=? i)%nat then [v] else []
  | Free => []
  end.
(* everything on its way to subscriber i (index i of [subs s]), oldest first *)
Definition in_flight (s : st) (i : nat) (b : sub) : list val := hold b ++ buf b ++ to_come s i.

(* ---------------------------------------------------------------------------------------- *)
(* progress vocabulary *)

(* no internal event is enabled: nothing more happens unless the environment acts *)
Definition stuck (vr : variant) (s : st) : Prop :=
  forall e, internal e = true -> step vr s e = None.

(* some call has been issued and has not returned *)
Definition call_pending (s : st) : Prop :=
  (exists v idx, lock s = Held v idx) \/ bq s <> [] \/ pend_subs s <> []
  \/ cl s = CWantLock \/ cl s = CWaitFwd \/ cl2 s = CWantLock \/ cl2 s = CWaitFwd.

(* back-pressure, the one legitimate reason for a call to wait: the Broadcast that holds the lock
   is at a subscriber that is ALIVE (context not done), whose 10-slot buffer is full and whose
   forwarder holds an eleventh value that the consumer is not taking *)
Definition backpressure (s : st) : Prop :=
  exists v idx b h,
    lock s = Held v idx /\ nth_error (subs s) idx = Some b /\
    ctx_done b = false /\ registered b = true /\ exit_closed b = false /\
    length (buf b) = bufcap /\ fwd b = Holding h /\ consumer_ready b = false.

(* ---------------------------------------------------------------------------------------- *)
(* quiescence: run internal events until none is enabled; executable through a complete
   candidate list (candidates_complete in Proofs) *)

Definition sub_cands (i : nat) : list ev := [FwdDeliver i; FwdSeeDone i; FwdTake i].

(* priority order of the run-to-quiescence scheduler of Check.v *)
Definition candidates (s : st) : list ev :=
  [BcSkip; BcSend; BcEnd]
  ++ flat_map sub_cands (seq 0 (length (subs s)))
  ++ map FwdExitLocked (seq 0 (length (subs s)))
  ++ map BcLock (seq 0 (length (bq s)))
  ++ map SubLocked (seq 0 (length (pend_subs s)))
  ++ [CloseLock; CloseWait; Close2Lock; Close2Wait].

Definition enabledb (vr : variant) (s : st) (e : ev) : bool :=
  match step vr s e with Some _ => true | None => false end.

Definition first_enabled (vr : variant) (s : st) : option ev :=
  find (enabledb vr s) (candidates s).

(* termination measure of internal activity (internal_decreases in Proofs) *)
Definition fwd_cost (f : fwdst) : nat :=
  match f with Idle => 2 | Holding _ => 3 | ExitWantLock => 1 | Exited => 0 end.
Definition sub_cost (b : sub) : nat := 2 * length (buf b) + fwd_cost (fwd b).
Definition total_subs (s : st) : nat := length (subs s) + length (pend_subs s).
Definition lock_cost (s : st) : nat :=
  match lock s with
  | Held _ idx => 3 * (length (subs s) - idx) + 1
  | Free => 0
  end.
Definition close_cost (c : closepc) : nat :=
  match c with CNone => 0 | CWantLock => 2 | CWaitFwd => 1 | CReturned => 0 end.
Definition measure (s : st) : nat :=
  length (bq s) * (3 * total_subs s + 3) + lock_cost s
  + list_sum (map sub_cost (subs s)) + 4 * length (pend_subs s) + close_cost (cl s)
  + close_cost (cl2 s).

Fixpoint quiesce_fuel (fuel : nat) (vr : variant) (s : st) : st :=
  match fuel with
  | O => s
  | S f => match first_enabled vr s with
           | Some e => match step vr s e with
                       | Some s' => quiesce_fuel f vr s'
                       | None => s
                       end
           | None => s
           end
  end.

Definition quiesce (vr : variant) (s : st) : st := quiesce_fuel (measure s) vr s.

(* ---------------------------------------------------------------------------------------- *)
(* The defect (DESIGN §6 row 14) as a schedule: one subscriber that never reads, twelve
   Broadcasts (1 held by the forwarder + 10 buffered + the twelfth blocked in the select holding
   the lock), then Close. *)

Local Open Scope Z_scope.
Definition bc_all (v : val) : list ev := [BcCall v; BcLock 0%nat; BcSend; BcEnd].

Definition wedge_schedule : list ev :=
  [SubCall 0 false; SubLocked 0%nat]
  ++ bc_all 1 ++ [FwdTake 0%nat]
  ++ flat_map bc_all [2;3;4;5;6;7;8;9;10;11]
  ++ [BcCall 12; BcLock 0%nat]       (* the twelfth: buffer full, forwarder holding 1: blocked *)
  ++ [CloseCall].

(* the same, and then the stalled subscriber's context ends: departure releases everything *)
Definition departure_schedule : list ev :=
  [SubCall 0 false; SubLocked 0%nat]
  ++ bc_all 1 ++ [FwdTake 0%nat]
  ++ flat_map bc_all [2;3;4;5;6;7;8;9;10;11]
  ++ [BcCall 12; BcLock 0%nat; Cancel 0%nat].

(* the defect with a SECOND Close piled on top: both Close calls wait for the lock for ever *)
Definition wedge2_schedule : list ev := wedge_schedule ++ [Close2Call].
