(* C11 — the defect at the level of the scripted observation: what the checker predicts for the
   witness script on the two variants, and what the spec oracle says about it. *)
From Kit Require Import C11.Check.
From Coq Require Import List ZArith Bool.
Import ListNotations.
Open Scope Z_scope.

(* Original: after "one stalled subscriber, 12 Broadcasts, Close" the 12th Broadcast (step 12) and
   Close (step 13) are never seen to return; no common order [w] can make the oracle accept. *)
Lemma wedge_script_refuted :
  model_obs Original wedge_script
  = map (fun c => (c, EDone c)) [0;1;2;3;4;5;6;7;8;9;10;11] /\
  forall w, Spec.oracle wedge_script (model_obs Original wedge_script) w = false.
Proof.
  split; [vm_compute; reflexivity|].
  intro w. unfold Spec.oracle.
  assert (H : o_no_wedge wedge_script (model_obs Original wedge_script) = false)
    by (vm_compute; reflexivity).
  rewrite H. rewrite andb_false_r. reflexivity.
Qed.

(* Fixed: both return at the Close step, and the oracle accepts. *)
Lemma wedge_script_fixed_ok :
  model_obs Fixed wedge_script
  = map (fun c => (c, EDone c)) [0;1;2;3;4;5;6;7;8;9;10;11] ++ [(13, EDone 12); (13, EDone 13)] /\
  Spec.oracle wedge_script (model_obs Fixed wedge_script) [1;2;3;4;5;6;7;8;9;10;11;12] = true.
Proof. split; vm_compute; reflexivity. Qed.

(* ---------------------------------------------------------------------------------------- *)
(* The checker's run-to-quiescence is a run of the model: [quiesce vr s] is reached from [s] by a
   schedule of internal events, each enabled when taken, and is at rest.  So every prediction of
   [drive] is the observation of one schedule of the event system whose theorems are in
   Properties/C11.v. *)
From Kit Require Import C11.Proofs_live.
From Coq Require Import Lia.

Lemma quiesce_fuel_run vr n : forall s, (Model.measure s <= n)%nat ->
  exists es, Forall (fun e => internal e = true) es /\
             run vr s es = Some (quiesce_fuel n vr s) /\ stuck vr (quiesce_fuel n vr s).
Proof.
  induction n as [|n IH]; intros s Hm.
  - cbn [quiesce_fuel]. exists []. split; [constructor|]. split; [reflexivity|].
    intros e He. destruct (step vr s e) as [s1|] eqn:E; [|reflexivity].
    pose proof (main_internal_decreases _ _ _ _ He E). lia.
  - cbn [quiesce_fuel]. destruct (first_enabled vr s) as [e|] eqn:Ef.
    + destruct (first_enabled_some _ _ _ Ef) as (Hi & s1 & Es). rewrite Es.
      pose proof (main_internal_decreases _ _ _ _ Hi Es) as Hd.
      destruct (IH s1) as (es & Hall & Hrun & Hst); [lia|].
      exists (e :: es). split; [constructor; assumption|]. split; [|exact Hst].
      cbn [run]. rewrite Es. exact Hrun.
    + exists []. split; [constructor|]. split; [reflexivity|].
      apply first_enabled_none. exact Ef.
Qed.

Lemma quiesce_is_run : forall vr s,
  exists es, Forall (fun e => internal e = true) es /\
             run vr s es = Some (quiesce vr s) /\ stuck vr (quiesce vr s).
Proof. intros vr s. apply quiesce_fuel_run. apply Nat.le_refl. Qed.
