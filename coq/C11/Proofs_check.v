(* C11 — the defect at the level of the scripted observation: what the checker predicts for the
   witness script on the two variants, and what the spec oracle says about it. *)
From Kit Require Import C11.Check.
From Coq Require Import List ZArith Bool.
Import ListNotations.
Open Scope Z_scope.

(* Original: after "one stalled subscriber, 12 Broadcasts, Close" the 12th Broadcast (step 12) and
   Close (step 13) are never seen to return; no common order [w] can make the oracle accept. *)
Lemma wedge_script_refuted :
  model_obs Original wedge_script
  = map (fun c => (c, EDone c)) [0;1;2;3;4;5;6;7;8;9;10;11] /\
  forall w, Spec.oracle wedge_script (model_obs Original wedge_script) w = false.
Proof.
  split; [vm_compute; reflexivity|].
  intro w. unfold Spec.oracle.
  assert (H : o_no_wedge wedge_script (model_obs Original wedge_script) = false)
    by (vm_compute; reflexivity).
  rewrite H. rewrite andb_false_r. reflexivity.
Qed.

(* Fixed: both return at the Close step, and the oracle accepts. *)
Lemma wedge_script_fixed_ok :
  model_obs Fixed wedge_script
  = map (fun c => (c, EDone c)) [0;1;2;3;4;5;6;7;8;9;10;11] ++ [(13, EDone 12); (13, EDone 13)] /\
  Spec.oracle wedge_script (model_obs Fixed wedge_script) [1;2;3;4;5;6;7;8;9;10;11;12] = true.
Proof. split; vm_compute; reflexivity. Qed.
