(* C11 — the boolean oracles of Spec.v decide the spec predicates. *)
From Kit Require Import C11.Spec.
From Coq Require Import List ZArith Bool Lia.
Import ListNotations.
Open Scope Z_scope.

Lemma memZ_In x l : memZ x l = true <-> In x l.
Proof.
  unfold memZ. rewrite existsb_exists. split.
  - intros [y [Hy He]]. apply Z.eqb_eq in He. subst. exact Hy.
  - intro H. exists x. split; [exact H | apply Z.eqb_refl].
Qed.

Lemma memZ_false x l : memZ x l = false <-> ~ In x l.
Proof.
  rewrite <- memZ_In. destruct (memZ x l); split; intro H.
  - discriminate.
  - exfalso. apply H. reflexivity.
  - intro H'. discriminate.
  - reflexivity.
Qed.

Lemma nodupb_spec l : nodupb l = true <-> NoDup l.
Proof.
  induction l as [|x l IH]; cbn [nodupb].
  - split; [constructor | reflexivity].
  - rewrite andb_true_iff, negb_true_iff, memZ_false, IH. split.
    + intros [H1 H2]. constructor; assumption.
    + intro H. inversion H; subst. split; assumption.
Qed.

Lemma eqb_lz_spec a b : eqb_lz a b = true <-> a = b.
Proof.
  revert b; induction a as [|x a IH]; intros [|y b]; cbn [eqb_lz]; split; intro H;
    try reflexivity; try discriminate.
  - apply andb_true_iff in H as [H1 H2]. apply Z.eqb_eq in H1. apply IH in H2. congruence.
  - inversion H; subst. apply andb_true_iff; split; [apply Z.eqb_refl | apply IH; reflexivity].
Qed.

Lemma subseqb_tail x a b : subseqb (x :: a) b = true -> subseqb a b = true.
Proof.
  revert x a. induction b as [|y b IH]; intros x a H; cbn [subseqb] in H.
  - discriminate.
  - destruct a as [|x' a']; [reflexivity|].
    cbn [subseqb]. destruct (x =? y) eqn:E.
    + destruct (x' =? y); [apply (IH _ _ H) | exact H].
    + destruct (x' =? y) eqn:E'.
      * apply (IH x'). apply (IH x). exact H.
      * apply (IH x). exact H.
Qed.

Lemma subseqb_spec a b : subseqb a b = true <-> subseq a b.
Proof.
  split.
  - revert a. induction b as [|y b IH]; intros a H.
    + destruct a; [constructor | discriminate].
    + destruct a as [|x a]; [constructor|].
      cbn [subseqb] in H. destruct (x =? y) eqn:E.
      * apply Z.eqb_eq in E. subst. apply subseq_take. apply IH. exact H.
      * apply subseq_drop. apply IH. exact H.
  - intro H. induction H as [b | x a b H IH | y a b H IH].
    + destruct b; reflexivity.
    + cbn [subseqb]. rewrite Z.eqb_refl. exact IH.
    + destruct a as [|x a]; [reflexivity|].
      cbn [subseqb]. destruct (x =? y); [apply (subseqb_tail x); exact IH | exact IH].
Qed.

(* ---------------------------------------------------------------------------------------- *)
(* scripted runs *)

Section Script.
Variable sc : list op.
Variable ob : obs.

Lemma o_valid_sound : o_valid sc ob = true <-> s_valid sc ob.
Proof. unfold o_valid, s_valid. apply forallb_forall. Qed.

Lemma o_once_sound : o_once sc ob = true <-> s_once sc ob.
Proof.
  unfold o_once, s_once. rewrite forallb_forall.
  split; intros H e He; specialize (H e He); apply nodupb_spec; exact H.
Qed.

Lemma o_order_sound w : o_order sc ob w = true <-> order_ok sc ob w.
Proof.
  unfold o_order, order_ok. rewrite !andb_true_iff, nodupb_spec, !forallb_forall.
  split.
  - intros [[H1 H2] H3]. split; [exact H1|]. split.
    + intros e He. apply subseqb_spec. apply H2. exact He.
    + intros a b Ha Hb Hr. specialize (H3 a Ha). unfold returned_before in Hr.
      destruct (done_step ob a) as [d|]; [|discriminate].
      rewrite forallb_forall in H3. specialize (H3 b Hb). rewrite Hr in H3. exact H3.
  - intros [H1 [H2 H3]]. split; [split; [exact H1|]|].
    + intros e He. apply subseqb_spec. apply H2. exact He.
    + intros a Ha. destruct (done_step ob a) as [d|] eqn:Ed; [|reflexivity].
      apply forallb_forall. intros b Hb. destruct (d <? b) eqn:E; [|reflexivity].
      apply H3; try assumption. unfold returned_before. rewrite Ed. exact E.
Qed.

Lemma o_exactly_sound : o_exactly sc ob = true <-> s_exactly sc ob.
Proof.
  unfold o_exactly, s_exactly. rewrite forallb_forall. split.
  - intros H r Hr Hex e He Hst Hrs b Hb How.
    specialize (H r Hr). rewrite Hex in H. rewrite forallb_forall in H.
    specialize (H e He). rewrite Hst, Hrs in H. cbv zeta in H. rewrite forallb_forall in H.
    specialize (H b Hb). rewrite How in H. exact H.
  - intros H r Hr. destruct (excused sc ob r) eqn:Hex; [reflexivity|].
    apply forallb_forall. intros e He.
    destruct (staying sc (fst e) r) eqn:Hst; [|reflexivity].
    destruct (reader_satisfied sc ob e r) eqn:Hrs; [reflexivity|].
    cbv zeta. apply forallb_forall. intros b Hb.
    destruct (owed ob e r b) eqn:How; [|reflexivity].
    apply (H r Hr Hex e He Hst Hrs b Hb How).
Qed.

Lemma o_no_wedge_sound : o_no_wedge sc ob = true <-> s_no_wedge sc ob.
Proof.
  unfold o_no_wedge, s_no_wedge. rewrite forallb_forall. split.
  - intros H c Hc Hcall r Hr Hle Hnd.
    specialize (H c Hc). rewrite Hcall in H. rewrite forallb_forall in H.
    specialize (H r Hr). apply Z.leb_le in Hle. rewrite Hle, Hnd in H. exact H.
  - intros H c Hc. destruct (is_call sc c) eqn:Hcall; [|reflexivity].
    apply forallb_forall. intros r Hr.
    destruct (c <=? r) eqn:Hle; [|reflexivity].
    destruct (done_by ob c r) eqn:Hnd; [reflexivity|].
    apply Z.leb_le in Hle. apply (H c Hc Hcall r Hr Hle Hnd).
Qed.

Lemma o_after_close_sound : o_after_close sc ob = true <-> s_after_close sc ob.
Proof.
  unfold o_after_close, s_after_close. rewrite forallb_forall. split.
  - intros H c d Hc Hd e He Hre. specialize (H c Hc). rewrite Hd in H.
    rewrite forallb_forall in H. specialize (H e He). rewrite Hre in H.
    cbn [negb orb] in H. apply Z.leb_le. exact H.
  - intros H c Hc. destruct (done_step ob c) as [d|] eqn:Ed; [|reflexivity].
    apply forallb_forall. intros e He.
    destruct (is_recv (snd e)) eqn:Hre; [|reflexivity].
    cbn [negb orb]. apply Z.leb_le. apply (H c d Hc Ed e He Hre).
Qed.

Theorem script_oracle_sound_w : forall w,
  oracle sc ob w = true <->
  s_valid sc ob /\ s_once sc ob /\ order_ok sc ob w /\ s_exactly sc ob /\ s_no_wedge sc ob
  /\ s_after_close sc ob.
Proof.
  intro w. unfold oracle.
  rewrite !andb_true_iff, o_valid_sound, o_once_sound, o_order_sound, o_exactly_sound,
          o_no_wedge_sound, o_after_close_sound.
  tauto.
Qed.

Theorem script_oracle_sound : (exists w, oracle sc ob w = true) <-> spec sc ob.
Proof.
  unfold spec, s_order. split.
  - intros [w H]. apply script_oracle_sound_w in H. destruct H as (H1 & H2 & H3 & H4 & H5 & H6).
    repeat split; try assumption. exists w. exact H3.
  - intros (H1 & H2 & [w H3] & H4 & H5 & H6). exists w. apply script_oracle_sound_w. tauto.
Qed.

End Script.

(* ---------------------------------------------------------------------------------------- *)
(* concurrent runs *)

Section Conc.
Variable calls : list call.
Variable stay : list (list Z).
Variable leaver : option (list Z).
Variable late : option (Z * list Z).

Lemma same_elements_spec a b : same_elements a b = true <-> (forall x, In x a <-> In x b).
Proof.
  unfold same_elements. rewrite andb_true_iff, !forallb_forall. split.
  - intros [H1 H2] x. split; intro H; [apply memZ_In, H1, H | apply memZ_In, H2, H].
  - intro H. split; intros x Hx; apply memZ_In; apply H; exact Hx.
Qed.

Lemma o_stamps_spec w : o_stamps calls w = true <->
  (forall a b, In a calls -> In b calls -> c_end a < c_start b ->
     precedesb (c_val a) (c_val b) w = true).
Proof.
  unfold o_stamps. rewrite forallb_forall. split.
  - intros H a b Ha Hb Hlt. specialize (H a Ha). rewrite forallb_forall in H.
    specialize (H b Hb). apply Z.ltb_lt in Hlt. rewrite Hlt in H. exact H.
  - intros H a Ha. apply forallb_forall. intros b Hb.
    destruct (c_end a <? c_start b) eqn:E; [|reflexivity].
    cbn [negb orb]. apply H; try assumption. apply Z.ltb_lt. exact E.
Qed.

Theorem conc_oracle_sound_w : forall w,
  conc_oracle calls stay leaver late w = true <-> conc_ok calls stay leaver late w.
Proof.
  intro w. unfold conc_oracle, conc_ok.
  rewrite !andb_true_iff, !nodupb_spec, same_elements_spec, o_stamps_spec, forallb_forall.
  split.
  - intros [[[[[[H1 H2] H3] H4] H5] H6] H7].
    split; [exact H1|]. split; [exact H2|]. split; [exact H3|]. split.
    { intros s Hs. apply eqb_lz_spec. apply H4. exact Hs. }
    split; [exact H5|]. split.
    { intros s Hs. rewrite Hs in H6. apply subseqb_spec. exact H6. }
    intros t s Hl. rewrite Hl in H7. apply andb_true_iff in H7 as [H7a H7b].
    split; [apply subseqb_spec; exact H7a|].
    intros c Hc Hlt. rewrite forallb_forall in H7b. specialize (H7b c Hc).
    apply Z.ltb_lt in Hlt. rewrite Hlt in H7b. apply memZ_In. exact H7b.
  - intros (H1 & H2 & H3 & H4 & H5 & H6 & H7).
    split; [split; [split; [split; [split; [split; [exact H1 | exact H2] | exact H3] | ] | exact H5] | ] | ].
    + intros s Hs. apply eqb_lz_spec. apply H4. exact Hs.
    + destruct leaver as [s|]; [|reflexivity]. apply subseqb_spec. apply H6. reflexivity.
    + destruct late as [[t s]|]; [|reflexivity].
      destruct (H7 t s eq_refl) as [H7a H7b].
      apply andb_true_iff. split; [apply subseqb_spec; exact H7a|].
      apply forallb_forall. intros c Hc.
      destruct (t <? c_start c) eqn:E; [|reflexivity].
      cbn [negb orb]. apply memZ_In. apply H7b; [exact Hc | apply Z.ltb_lt; exact E].
Qed.

Theorem conc_oracle_sound :
  (exists w, conc_oracle calls stay leaver late w = true) <-> conc_spec calls stay leaver late.
Proof.
  unfold conc_spec. split; intros [w H]; exists w; apply conc_oracle_sound_w; exact H.
Qed.

End Conc.

(* ---------------------------------------------------------------------------------------- *)
(* rushed runs *)

Theorem rush_oracle_sound : forall late, rush_oracle late = true <-> rush_spec late.
Proof.
  intro late. unfold rush_oracle, rush_spec. rewrite forallb_forall.
  split; intros H l Hl; specialize (H l Hl); destruct l; try reflexivity; discriminate.
Qed.

(* ---------------------------------------------------------------------------------------- *)
(* concurrent runs with Close *)

Theorem cc_oracle_sound_w : forall calls seqs closes w,
  cc_oracle calls seqs closes w = true <-> cc_ok calls seqs closes w.
Proof.
  intros calls seqs closes w. unfold cc_oracle, cc_ok.
  rewrite !andb_true_iff, !nodupb_spec, !forallb_forall. split.
  - intros [[[[[H1 H2] H3] H4] H5] H6].
    split; [exact H1|]. split; [exact H2|]. split.
    { intros x Hx. apply memZ_In. apply H3. exact Hx. }
    split. { intros s Hs. apply subseqb_spec. apply H4. exact Hs. }
    split.
    { intros a b Ha Hb Hlt Hia Hib. specialize (H5 a Ha). rewrite forallb_forall in H5.
      specialize (H5 b Hb). apply Z.ltb_lt in Hlt. apply memZ_In in Hia, Hib.
      rewrite Hlt, Hia, Hib in H5. exact H5. }
    intros s c Hs Hc Hl Hin. specialize (H6 s Hs). rewrite forallb_forall in H6.
    specialize (H6 c Hc). rewrite Hl in H6. apply memZ_In in Hin. rewrite Hin in H6. discriminate.
  - intros (H1 & H2 & H3 & H4 & H5 & H6).
    split; [split; [split; [split; [split; [exact H1 | exact H2] | ] | ] | ] | ].
    + intros x Hx. apply memZ_In. apply H3. exact Hx.
    + intros s Hs. apply subseqb_spec. apply H4. exact Hs.
    + intros a Ha. apply forallb_forall. intros b Hb.
      destruct (c_end a <? c_start b) eqn:E1; [|reflexivity].
      destruct (memZ (c_val a) w) eqn:E2; [|reflexivity].
      destruct (memZ (c_val b) w) eqn:E3; [|reflexivity].
      cbn [andb]. apply H5; try assumption; [apply Z.ltb_lt; exact E1 | apply memZ_In; exact E2
                                             | apply memZ_In; exact E3].
    + intros s Hs. apply forallb_forall. intros c Hc.
      destruct (late_started closes c) eqn:El; [|reflexivity].
      apply negb_true_iff. apply memZ_false. apply (H6 s c Hs Hc El).
Qed.

Theorem cc_oracle_sound : forall calls seqs closes,
  (exists w, cc_oracle calls seqs closes w = true) <-> cc_spec calls seqs closes.
Proof.
  intros. unfold cc_spec. split; intros [w H]; exists w; apply cc_oracle_sound_w; exact H.
Qed.

(* ---------------------------------------------------------------------------------------- *)
(* one channel subscribed several times *)

Theorem dup_oracle_sound : forall k nb leave shared other,
  dup_oracle k nb leave shared other = true <-> dup_spec k nb leave shared other.
Proof.
  intros. unfold dup_oracle, dup_spec. rewrite andb_true_iff, eqb_lz_spec, forallb_forall.
  split; intros [H1 H2]; (split; [exact H1|]).
  - intros r Hr. apply eqb_lz_spec. apply H2. apply in_seq. lia.
  - intros r Hr. apply eqb_lz_spec. apply H2. apply in_seq in Hr. lia.
Qed.
