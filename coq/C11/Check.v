(* C11 — executable correspondence interface.

   script cases: the harness runs a script (Spec.op list) against the real broadcaster, waiting
   after every step until every goroutine is parked, and reports what was observed after each
   step.  The model's prediction for the same script is obtained from the event system of
   Model.v itself: the step's environment event, then internal events (in the priority order of
   [candidates]) until none is enabled ([quiesce]).  Observations are read off the model state by
   comparing it before and after the step.  Where the outcome depends on an order the Go runtime
   does not fix (two callers contending for the mutex with an observable difference; a select
   with a data case and an exit case both ready) the run is flagged and only the spec oracle is
   applied.

   conc cases: Broadcast from several goroutines.  The observation fixes the schedule to try (the
   acceptor): the common order [w] the harness read off the subscribers is taken as the order in
   which the calls got the lock, the leaver leaves after as many values as it received, the late
   joiner joins before as many values as it received; the model run along that schedule must
   reproduce every subscriber's sequence, and the spec oracle (Spec.conc_oracle) checks [w]
   against the calls' start/return stamps. *)
From Kit Require Export C11.Model C11.Spec Lib.CheckLib.

Inductive case :=
| CScript (script : list op) (observed : obs) (order : list Z)
| CConc (nstay : Z) (calls : list call) (stay : list (list Z))
        (leaver : option (list Z)) (late : option (Z * list Z)) (order : list Z)
| CRush (nsub nb : Z) (late : list (list Z))
| CConcClose (calls : list call) (seqs : list (list Z)) (closes : list (Z * Z)) (order : list Z)
| CDup (k nb : Z) (leave : option Z) (shared other : list Z).

(* ---------------------------------------------------------------------------------------- *)
(* run to quiescence, noting order-dependent choices *)

Definition fwd_alive (f : fwdst) : bool :=
  match f with Idle | Holding _ => true | _ => false end.

Definition order_dependent (s : st) (e : ev) : bool :=
  match e with
  | BcLock _ | SubLocked _ =>
      negb (closed s) && (2 <=? length (bq s) + length (pend_subs s))%nat
  | BcSkip =>
      match lock s with
      | Held _ idx =>
          match nth_error (subs s) idx with
          | Some b => registered b && has_room b && fwd_alive (fwd b) && consumer_ready b
          | None => false
          end
      | Free => false
      end
  | FwdDeliver i =>
      match nth_error (subs s) i with Some b => departing s b | None => false end
  | _ => false
  end.

Fixpoint quiesce_amb (fuel : nat) (vr : variant) (s : st) (amb : bool) : st * bool :=
  match fuel with
  | O => (s, amb)
  | S f => match first_enabled vr s with
           | Some e => match step vr s e with
                       | Some s' => quiesce_amb f vr s' (amb || order_dependent s e)
                       | None => (s, amb)
                       end
           | None => (s, amb)
           end
  end.

(* ---------------------------------------------------------------------------------------- *)
(* one script step *)

(* the environment events of one script step; [second] = a Close call was issued before *)
Definition env_events (second : bool) (n : Z) (o : op) : list ev :=
  match o with
  | OSub p => [SubCall n p]
  | OSubDead p => [SubCall n p; CancelPending n]
  | OBcast => [BcCall n]
  | ORead i => [Want (Z.to_nat i)]
  | OReadAll i => [WantAll (Z.to_nat i)]
  | OCancel i => [Cancel (Z.to_nat i)]
  | OClose => [if second then Close2Call else CloseCall]
  | ONop => []
  end.

Definition op_ok (o : op) : bool :=
  match o with
  | ORead i | OReadAll i | OCancel i => (0 <=? i)%Z
  | _ => true
  end.

Fixpoint insertZ (x : Z) (l : list Z) : list Z :=
  match l with
  | [] => [x]
  | y :: r => if (y <=? x)%Z then y :: insertZ x r else x :: l
  end.
Definition sortZ (l : list Z) : list Z := fold_left (fun acc x => insertZ x acc) l [].

(* what the consumers received between two states, subscriber by subscriber *)
Definition sub_events (n : Z) (before after : list sub) : list (Z * oev) :=
  flat_map (fun ib : nat * sub =>
     let i := Z.of_nat (fst ib) in
     let old_n := match nth_error before (fst ib) with
                  | Some b0 => length (received b0)
                  | None => O
                  end in
     map (fun v => (n, ERecv i v)) (skipn old_n (received (snd ib))))
   (combine (seq 0 (length after)) after).

Definition is_returned (c : closepc) : bool := match c with CReturned => true | _ => false end.

(* calls that returned between two states, by increasing id *)
Definition done_events (n : Z) (close_id close2_id : option Z) (s0 s1 : st) : list (Z * oev) :=
  let b_done := skipn (length (bret s0)) (bret s1) in
  let s_done := skipn (length (sret s0)) (sret s1) in
  let c_done := match close_id with
                | Some c => if is_returned (cl s1) && negb (is_returned (cl s0)) then [c] else []
                | None => [] end in
  let c2_done := match close2_id with
                 | Some c => if is_returned (cl2 s1) && negb (is_returned (cl2 s0)) then [c] else []
                 | None => [] end in
  map (fun c => (n, EDone c)) (sortZ (b_done ++ s_done ++ c_done ++ c2_done)).

(* ---------------------------------------------------------------------------------------- *)
(* what must hold of a state AT REST (no internal event enabled), executable.  Proofs_rest.v:
   [rest_ok (quiesce vr s) = true] for every reachable [s] (C11_rest_ok), i.e. after the internal
   activity has died down (a) a call is still pending only under back-pressure from a live
   stalled subscriber, and (b) unless there is such back-pressure, every subscriber that stays
   (context alive, broadcaster open) and reads promptly HAS received everything fanned out since
   it subscribed.  The checker evaluates it on every state it predicts. *)

Definition pc_pending (c : closepc) : bool :=
  match c with CWantLock | CWaitFwd => true | _ => false end.

Definition call_pendingb (s : st) : bool :=
  match lock s with Held _ _ => true | Free => false end
  || negb (match bq s with [] => true | _ => false end)
  || negb (match pend_subs s with [] => true | _ => false end)
  || pc_pending (cl s) || pc_pending (cl2 s).

Definition backpressureb (s : st) : bool :=
  match lock s with
  | Held _ idx =>
      match nth_error (subs s) idx with
      | Some b => negb (ctx_done b) && registered b && negb (exit_closed b)
                  && Nat.eqb (length (buf b)) bufcap
                  && match fwd b with Holding _ => true | _ => false end
                  && negb (consumer_ready b)
      | None => false
      end
  | Free => false
  end.

Definition delivered_allb (s : st) : bool :=
  forallb (fun b => ctx_done b || closed s || negb (prompt b)
                    || eqb_lz (received b) (skipn (start b) (fanout s))) (subs s).

Definition rest_ok (s : st) : bool :=
  (negb (call_pendingb s) || backpressureb s) && (backpressureb s || delivered_allb s).

Record drv := mkDrv {
  d_st : st;
  d_close : option Z;       (* step of the first Close call *)
  d_close2 : option Z;      (* step of the second Close call *)
  d_amb : bool;             (* an order-dependent choice was met *)
  d_bad : bool;             (* the script left the model's domain (touches a subscriber that does
                               not exist yet, calls Close a third time) *)
  d_rest : bool;            (* [rest_ok] held of every predicted state so far (always: C11_drive_rest_ok) *)
  d_obs : list (Z * oev)
}.

Definition is_close (o : op) : bool := match o with OClose => true | _ => false end.

Definition drive_step (vr : variant) (d : drv) (n : Z) (o : op) : drv :=
  let s0 := d_st d in
  let second := match d_close d with Some _ => true | None => false end in
  match (if op_ok o then run vr s0 (env_events second n o) else None) with
  | None => mkDrv s0 (d_close d) (d_close2 d) (d_amb d) true (d_rest d) (d_obs d)
  | Some s_env =>
      let close_id := if is_close o && negb second then Some n else d_close d in
      let close2_id := if is_close o && second then Some n else d_close2 d in
      let '(s1, amb) := quiesce_amb (measure s_env) vr s_env (d_amb d) in
      mkDrv s1 close_id close2_id amb (d_bad d) (d_rest d && rest_ok s1)
            (d_obs d ++ sub_events n (subs s0) (subs s1)
                     ++ done_events n close_id close2_id s0 s1)
  end.

Definition drive (vr : variant) (sc : list op) : drv :=
  fold_left (fun d no => drive_step vr d (fst no) (snd no)) (zindex sc)
            (mkDrv init None None false false true []).

Definition oev_eqb (a b : oev) : bool :=
  match a, b with
  | ERecv i v, ERecv j w => (i =? j)%Z && (v =? w)%Z
  | EDone c, EDone d => (c =? d)%Z
  | _, _ => false
  end.

Fixpoint obs_eqb (a b : list (Z * oev)) : bool :=
  match a, b with
  | [], [] => true
  | x :: a', y :: b' => (fst x =? fst y)%Z && oev_eqb (snd x) (snd y) && obs_eqb a' b'
  | _, _ => false
  end.

Definition model_obs (vr : variant) (sc : list op) : obs := d_obs (drive vr sc).

(* ---------------------------------------------------------------------------------------- *)
(* concurrent runs: the schedule is read off the observation, the model is run along it *)

Definition do_env (vr : variant) (s : st) (e : ev) : st :=
  match step vr s e with Some s' => quiesce vr s' | None => s end.

Definition at_pos (k : option nat) (pos : nat) : bool :=
  match k with Some p => Nat.eqb p pos | None => false end.

(* [leave]: (index of the leaver, number of values after which it leaves); [join]: number of
   values before which the late joiner subscribes *)
Definition conc_hooks (vr : variant) (s : st) (pos : nat)
           (leave : option (nat * nat)) (join : option nat) : st :=
  let s1 := if at_pos join pos then do_env vr s (SubCall (-1) true) else s in
  match leave with
  | Some (li, p) => if Nat.eqb p pos then do_env vr s1 (Cancel li) else s1
  | None => s1
  end.

Fixpoint conc_run (vr : variant) (s : st) (w : list Z) (pos : nat)
         (leave : option (nat * nat)) (join : option nat) : st :=
  let s1 := conc_hooks vr s pos leave join in
  match w with
  | [] => s1
  | v :: r => conc_run vr (do_env vr s1 (BcCall v)) r (S pos) leave join
  end.

Definition conc_init (vr : variant) (n : nat) : st :=
  fold_left (fun s k => do_env vr s (SubCall (- Z.of_nat k - 2) true)) (seq 0 n) init.

Definition conc_model (vr : variant) (nstay : nat) (w : list Z)
           (leaver : option (list Z)) (late : option (Z * list Z)) : list (list Z) :=
  let nfirst := match leaver with Some _ => S nstay | None => nstay end in
  let leave := match leaver with Some s => Some (nstay, length s) | None => None end in
  let join := match late with Some (_, s) => Some (length w - length s)%nat | None => None end in
  map received (subs (conc_run vr (conc_init vr nfirst) w 0 leave join)).

Fixpoint eqb_llz (a b : list (list Z)) : bool :=
  match a, b with
  | [], [] => true
  | x :: a', y :: b' => eqb_lz x y && eqb_llz a' b'
  | _, _ => false
  end.

Definition conc_observed (stay : list (list Z)) (leaver : option (list Z))
           (late : option (Z * list Z)) : list (list Z) :=
  stay ++ (match leaver with Some s => [s] | None => [] end)
       ++ (match late with Some (_, s) => [s] | None => [] end).

(* ---------------------------------------------------------------------------------------- *)
(* rushed runs: [nsub] subscribers whose consumers do not read, [nb] Broadcasts (at most the
   buffer's worth, so nothing blocks), Close; only then the consumers start reading everything.
   The model's answer (one schedule; C11_no_delivery_after_close covers every other one): what
   each consumer received. *)
Definition rush_model (vr : variant) (nsub nb : nat) : list (list Z) :=
  let s0 := fold_left (fun s k => do_env vr s (SubCall (- Z.of_nat k - 2) false)) (seq 0 nsub) init in
  let s1 := fold_left (fun s k => do_env vr s (BcCall (Z.of_nat k))) (seq 1 nb) s0 in
  let s2 := do_env vr s1 CloseCall in
  let s3 := fold_left (fun s i => do_env vr s (WantAll i)) (seq 0 nsub) s2 in
  map received (subs s3).

(* one channel subscribed [k] times + one ordinary subscriber (all consumers prompt): in the model
   these are k + 1 subscribers; the shared consumer sees the merge of the k sequences, whose r-th
   occurrences are the sequence of the r-th subscription (the leaving one is the last).  Answer:
   the k sequences, [] (nothing a (k+1)-th time), the ordinary subscriber's sequence. *)
Definition dup_model (vr : variant) (k nb : nat) (leave : option nat) : list (list Z) :=
  let s0 := conc_init vr (S k) in
  let s1 := conc_run vr s0 (zs nb) 0
                     (match leave with Some m => Some (pred k, m) | None => None end) None in
  map received (firstn k (subs s1)) ++ [[]] ++ map received (skipn k (subs s1)).

(* ---------------------------------------------------------------------------------------- *)

Definition oracle (c : case) : bool :=
  match c with
  | CScript sc ob w => Spec.oracle sc ob w
  | CConc n calls stay leaver late w =>
      (Z.of_nat (length stay) =? n)%Z && (1 <=? n)%Z && conc_oracle calls stay leaver late w
  | CRush nsub _ late => (Z.of_nat (length late) =? nsub)%Z && rush_oracle late
  | CConcClose calls seqs closes w => cc_oracle calls seqs closes w
  | CDup k nb leave shared other =>
      (2 <=? k)%Z && dup_oracle (Z.to_nat k) (Z.to_nat nb) (option_map Z.to_nat leave) shared other
  end.

Definition model_agrees (c : case) : bool :=
  match c with
  | CScript sc ob _ =>
      let d := drive Fixed sc in
      if negb (d_rest d) then false (* never: C11_drive_rest_ok *)
      else if d_amb d then true     (* an order the runtime does not fix was met: oracle only *)
      else if d_bad d then false
      else obs_eqb (d_obs d) ob
  | CConc n calls stay leaver late w =>
      eqb_llz (conc_model Fixed (Z.to_nat n) w leaver late) (conc_observed stay leaver late)
  | CRush nsub nb late => eqb_llz (rush_model Fixed (Z.to_nat nsub) (Z.to_nat nb)) late
  | CConcClose _ _ _ _ => true   (* which buffered values survive a racing Close is not fixed: oracle only *)
  | CDup k nb leave shared other =>
      let m := dup_model Fixed (Z.to_nat k) (Z.to_nat nb) (option_map Z.to_nat leave) in
      eqb_llz (map (fun r => rank_seq r shared) (seq 0 (S (Z.to_nat k))) ++ [other]) m
  end.

(* 0 = agree and the oracle holds; 1 = model and implementation differ (or the script is outside
   the model's domain); 2 = the implementation's observed behaviour violates the spec. *)
Definition check_case (c : case) : Z :=
  if negb (oracle c) then 2 else if negb (model_agrees c) then 1 else 0.

Definition run_cases (cs : list (Z * case)) : list (Z * Z) := failures check_case cs.

(* the defect's script: one stalled subscriber, twelve Broadcasts, Close.  On the Original model
   neither the twelfth Broadcast nor Close return; on the Fixed model both do. *)
Definition wedge_script : list op :=
  OSub false :: repeat OBcast 12 ++ [OClose].
