(* C11 — progress ("no wedge") proofs over ALL schedules of the event system of C11/Model.v:
   the candidate list is complete, internal activity terminates, departure / close no-wedge,
   the Original Close wedge as a refutation.  Stdlib only, no axioms. *)
From Kit Require Import C11.Model.
From Coq Require Import List ZArith Bool Lia.
Import ListNotations.

Local Arguments Nat.mul : simpl never.
Local Arguments Nat.sub : simpl never.

(* ===================================================================================== *)
(* List facts                                                                              *)

Lemma nth_error_lt {A} (l : list A) i x : nth_error l i = Some x -> (i < length l)%nat.
Proof. intro H. apply nth_error_Some. rewrite H. discriminate. Qed.

Lemma nth_error_upd_nth {A} i (x : A) l j :
  nth_error (upd_nth i x l) j =
  if Nat.eqb i j then (match nth_error l i with Some _ => Some x | None => None end)
  else nth_error l j.
Proof.
  revert i j. induction l as [|h t IH]; intros i j.
  - cbn. destruct (Nat.eqb i j); destruct i, j; reflexivity.
  - destruct i as [|i], j as [|j]; cbn; try reflexivity. apply IH.
Qed.

Lemma length_upd_nth {A} i (x : A) l : length (upd_nth i x l) = length l.
Proof.
  revert i. induction l as [|h t IH]; intros [|i]; cbn; try reflexivity. rewrite IH. reflexivity.
Qed.

Lemma length_remove_nth {A} j (l : list A) :
  (j < length l)%nat -> S (length (remove_nth j l)) = length l.
Proof.
  revert j. induction l as [|h t IH]; intros [|j] H; cbn in *; try lia.
  rewrite IH by lia. reflexivity.
Qed.

Lemma sum_upd_nth (f : sub -> nat) i b b' l :
  nth_error l i = Some b ->
  (list_sum (map f (upd_nth i b' l)) + f b = list_sum (map f l) + f b')%nat.
Proof.
  unfold list_sum. revert i. induction l as [|h t IH]; intros [|i] H; cbn in *; try discriminate H.
  - injection H as ->. cbn. lia.
  - specialize (IH i H). lia.
Qed.

Lemma sum_app_one (f : sub -> nat) l x :
  list_sum (map f (l ++ [x])) = (list_sum (map f l) + f x)%nat.
Proof. rewrite map_app, list_sum_app. cbn. lia. Qed.

Lemma Forall_upd_nth {A} (P : A -> Prop) i x l : Forall P l -> P x -> Forall P (upd_nth i x l).
Proof.
  intros Hl Hx. revert i. induction Hl as [|h t Hh Ht IH]; intros [|i]; cbn; constructor; auto.
Qed.

Lemma Forall_nth_error {A} (P : A -> Prop) l i x : Forall P l -> nth_error l i = Some x -> P x.
Proof. intros H E. rewrite Forall_forall in H. apply H. eapply nth_error_In. exact E. Qed.

Lemma forallb_false_nth {A} (p : A -> bool) l :
  forallb p l = false -> exists i x, nth_error l i = Some x /\ p x = false.
Proof.
  induction l as [|h t IH]; cbn; [discriminate|].
  destruct (p h) eqn:E; cbn.
  - intro H. destruct (IH H) as (i & x & Hn & Hx). exists (S i), x. split; assumption.
  - intros _. exists 0%nat, h. split; [reflexivity | exact E].
Qed.

Lemma run_app vr s es1 es2 :
  run vr s (es1 ++ es2) = match run vr s es1 with Some s' => run vr s' es2 | None => None end.
Proof.
  revert s. induction es1 as [|e es1 IH]; intro s; cbn [run app]; [reflexivity|].
  destruct (step vr s e) as [s'|]; [apply IH | reflexivity].
Qed.

(* inversion of one step: split on every match the step function makes *)
Ltac step_inv H :=
  unfold step, with_sub in H;
  repeat (match type of H with
          | context[match ?x with _ => _ end] =>
              lazymatch x with
              | context[match _ with _ => _ end] => fail
              | _ => destruct x eqn:?
              end
          end; cbv beta iota in H; try discriminate H);
  try (injection H as <-).

(* ===================================================================================== *)
(* The candidate list is complete                                                          *)

Lemma with_sub_lt s i g : with_sub s i g <> None -> (i < length (subs s))%nat.
Proof.
  unfold with_sub. destruct (nth_error (subs s) i) eqn:E; [|congruence].
  intros _. eapply nth_error_lt. exact E.
Qed.

Lemma in_seq0 j n : (j < n)%nat -> In j (seq 0 n).
Proof. intro H. apply in_seq. lia. Qed.

Lemma candidates_complete : forall vr s e,
  internal e = true -> step vr s e <> None -> In e (candidates s).
Proof.
  intros vr s e Hi Hs. unfold candidates. rewrite !in_app_iff.
  destruct e; try discriminate Hi.
  - (* BcLock *)
    assert (L : (j < length (bq s))%nat).
    { unfold step in Hs. destruct (lock s); [|congruence].
      destruct (nth_error (bq s) j) eqn:E; [|congruence]. eapply nth_error_lt. exact E. }
    do 3 right. left. apply in_map. apply in_seq0. exact L.
  - left. cbn. auto.
  - left. cbn. auto.
  - left. cbn. auto.
  - (* FwdTake *)
    right. left. apply in_flat_map. exists i. split.
    + apply in_seq0. eapply with_sub_lt. exact Hs.
    + cbn. auto.
  - right. left. apply in_flat_map. exists i. split.
    + apply in_seq0. eapply with_sub_lt. exact Hs.
    + cbn. auto.
  - right. left. apply in_flat_map. exists i. split.
    + apply in_seq0. eapply with_sub_lt. exact Hs.
    + cbn. auto.
  - (* FwdExitLocked *)
    do 2 right. left. apply in_map. apply in_seq0.
    unfold step in Hs. destruct (lock s); [|congruence]. eapply with_sub_lt. exact Hs.
  - (* SubLocked *)
    assert (L : (j < length (pend_subs s))%nat).
    { unfold step in Hs. destruct (lock s); [|congruence].
      destruct (nth_error (pend_subs s) j) eqn:E; [|congruence]. eapply nth_error_lt. exact E. }
    do 4 right. left. apply in_map. apply in_seq0. exact L.
  - do 5 right. cbn. auto 10.
  - do 5 right. cbn. auto 10.
  - do 5 right. cbn. auto 10.
  - do 5 right. cbn. auto 10.
Qed.

Lemma candidates_internal s e : In e (candidates s) -> internal e = true.
Proof.
  unfold candidates. rewrite !in_app_iff, in_flat_map, !in_map_iff. cbn.
  intros [H|[H|[H|[H|[H|H]]]]].
  - destruct H as [<-|[<-|[<-|[]]]]; reflexivity.
  - destruct H as (i & _ & [<-|[<-|[<-|[]]]]); reflexivity.
  - destruct H as (i & <- & _). reflexivity.
  - destruct H as (i & <- & _). reflexivity.
  - destruct H as (i & <- & _). reflexivity.
  - destruct H as [<-|[<-|[<-|[<-|[]]]]]; reflexivity.
Qed.

Lemma stuck_iff_candidates : forall vr s,
  stuck vr s <-> forallb (fun e => negb (enabledb vr s e)) (candidates s) = true.
Proof.
  intros vr s. split.
  - intro Hst. apply forallb_forall. intros e He. unfold enabledb.
    rewrite (Hst e (candidates_internal s e He)). reflexivity.
  - intros H e Hi. destruct (step vr s e) as [s'|] eqn:E; [|reflexivity]. exfalso.
    assert (Hin : In e (candidates s)).
    { eapply candidates_complete; [exact Hi | rewrite E; discriminate]. }
    rewrite forallb_forall in H. specialize (H e Hin). unfold enabledb in H.
    rewrite E in H. discriminate H.
Qed.

(* ===================================================================================== *)
(* Internal activity terminates                                                            *)

Ltac simp_st :=
  cbn [subs lock closed cl cl2 bq pend_subs pend_dead fanout issued bret sret
       set_subs set_lock set_closed set_cl set_cl2 set_bq set_pend_subs set_pend_dead
       set_fanout set_issued set_bret set_sret] in *.
Ltac simp_sb :=
  cbn [prompt wants buf fwd ctx_done exit_closed registered received start
       sb_prompt sb_wants sb_buf sb_fwd sb_ctx_done sb_exit_closed sb_registered sb_received
       new_sub dropped_sub] in *.

Theorem main_internal_decreases : forall vr s e s',
  internal e = true -> step vr s e = Some s' -> (measure s' < measure s)%nat.
Proof.
  intros vr s e s' Hi H.
  destruct e; try discriminate Hi; step_inv H;
    unfold measure, total_subs, lock_cost; simp_st.
  all: repeat match goal with
       | E : lock _ = _ |- _ => rewrite E
       | E : cl _ = _ |- _ => rewrite E
       | E : cl2 _ = _ |- _ => rewrite E
       end.
  all: try match goal with
       | E : nth_error (bq ?s) ?j = Some _ |- _ =>
           pose proof (length_remove_nth j (bq s) (nth_error_lt _ _ _ E)) as L
       | E : nth_error (pend_subs ?s) ?j = Some _ |- _ =>
           pose proof (length_remove_nth j (pend_subs s) (nth_error_lt _ _ _ E)) as L
       end.
  all: try match goal with
       | E : nth_error (subs ?s) ?i = Some ?b |- context[upd_nth ?i ?b' (subs ?s)] =>
           pose proof (sum_upd_nth sub_cost i b b' (subs s) E) as U;
           pose proof (nth_error_lt _ _ _ E) as Li;
           rewrite ?length_upd_nth
       end.
  all: try match goal with
       | E : nth_error (subs ?s) ?i = Some _ |- _ => pose proof (nth_error_lt _ _ _ E) as Li'
       | E : nth_error (subs ?s) ?i = None |- _ => apply nth_error_None in E
       end.
  all: rewrite ?sum_app_one; unfold sub_cost in *; simp_sb; rewrite ?app_length in *; cbn [length fwd_cost close_cost] in *.
  all: try match goal with
       | E : fwd ?b = _, U : context[fwd ?b] |- _ => rewrite E in U
       end.
  all: try match goal with
       | E : buf ?b = _, U : context[buf ?b] |- _ => rewrite E in U
       end.
  all: cbn [length fwd_cost] in *.
  all: lia.
Qed.

(* ===================================================================================== *)
(* Invariants for progress                                                                 *)

Definition gone (f : fwdst) : bool :=
  match f with ExitWantLock | Exited => true | _ => false end.

(* (J1) a forwarder that has returned has closed its closeEventCh; (J4) buffers respect cap *)
Definition sub_ok (b : sub) : Prop :=
  (gone (fwd b) = true -> exit_closed b = true) /\ (length (buf b) <= bufcap)%nat.

(* (J3) closeCh is closed once a Close is past the lock; on Fixed as soon as Close is called *)
Definition inv (vr : variant) (s : st) : Prop :=
  Forall sub_ok (subs s) /\
  (cl s = CWaitFwd \/ cl s = CReturned \/ cl2 s = CWaitFwd \/ cl2 s = CReturned -> closed s = true) /\
  (vr = Fixed -> cl s <> CNone \/ cl2 s <> CNone -> closed s = true).

Lemma inv_init vr : inv vr init.
Proof.
  split; [constructor|]. split; cbn.
  - intros [H|[H|[H|H]]]; discriminate H.
  - intros _ [H|H]; congruence.
Qed.

Lemma inv_step vr s e s' : inv vr s -> step vr s e = Some s' -> inv vr s'.
Proof.
  intros (IF & I3 & I4) H.
  destruct e; step_inv H; unfold inv; simp_st;
    (split; [|split;
       [ try assumption; clear I4; destruct vr; cbn [is_fixed orb]; intuition (try congruence)
       | try assumption; intros ->; specialize (I4 eq_refl); clear I3; cbn [is_fixed orb];
         intuition (try congruence) ]]);
    try assumption.
  all: try match goal with
       | E : nth_error (subs _) _ = Some ?b |- Forall _ (upd_nth _ _ _) =>
           apply Forall_upd_nth; [assumption|];
           destruct (Forall_nth_error _ _ _ _ IF E) as [Ob1 Ob2];
           split; simp_sb; try assumption
       end.
  all: try solve [intro X; first [reflexivity | discriminate X]].
  all: try solve [apply Forall_app; split; [assumption|]; constructor; [|constructor];
                  split; cbn; [first [discriminate | reflexivity] | apply Nat.le_0_l]].
  - apply andb_true_iff in Heqb as [_ Hr]. unfold has_room in Hr. apply Nat.ltb_lt in Hr.
    rewrite app_length. cbn [length]. lia.
  - match goal with E : buf _ = _ :: _ |- _ => rewrite E in Ob2 end. cbn [length] in Ob2. lia.
  - intros _. apply Ob1. match goal with E : fwd _ = _ |- _ => rewrite E end. reflexivity.
Qed.

Lemma inv_run vr es : forall s s', inv vr s -> run vr s es = Some s' -> inv vr s'.
Proof.
  induction es as [|e es IH]; intros s s' I H; cbn [run] in H.
  - injection H as <-. exact I.
  - destruct (step vr s e) as [s1|] eqn:E; [|discriminate H].
    eapply IH; [eapply inv_step; eassumption | exact H].
Qed.

Lemma inv_reachable vr es s : run vr init es = Some s -> inv vr s.
Proof. apply inv_run. apply inv_init. Qed.

(* ===================================================================================== *)
(* Progress                                                                                *)

Definition can_move (vr : variant) (s : st) : Prop :=
  exists e, internal e = true /\ step vr s e <> None.

(* a Broadcast holds the lock: either something internal can happen, or it is blocked on an
   alive, registered, open subscriber whose buffer is full and whose consumer is not taking *)
Lemma held_cases vr s v idx :
  inv vr s -> lock s = Held v idx ->
  can_move vr s \/
  (exists b h, nth_error (subs s) idx = Some b /\ ctx_done b = false /\ registered b = true /\
               exit_closed b = false /\ closed s = false /\ length (buf b) = bufcap /\
               fwd b = Holding h /\ consumer_ready b = false).
Proof.
  intros (IF & I3 & I4) Hl. unfold can_move.
  destruct (nth_error (subs s) idx) as [b|] eqn:En.
  2:{ left. exists BcEnd. split; [reflexivity|]. unfold step. rewrite Hl, En. discriminate. }
  destruct (negb (registered b) || exit_closed b || closed s) eqn:Esk.
  { left. exists BcSkip. split; [reflexivity|]. unfold step. rewrite Hl, En, Esk. discriminate. }
  apply orb_false_iff in Esk as [Esk Hcl]. apply orb_false_iff in Esk as [Hreg Hex].
  apply negb_false_iff in Hreg.
  destruct (has_room b) eqn:Er.
  { left. exists BcSend. split; [reflexivity|]. unfold step. rewrite Hl, En, Hreg, Er.
    cbn [andb]. discriminate. }
  destruct (Forall_nth_error _ _ _ _ IF En) as [O1 O2].
  assert (Hfull : length (buf b) = bufcap).
  { unfold has_room in Er. apply Nat.ltb_ge in Er. lia. }
  assert (Hdone : ctx_done b = true -> (fwd b = Idle \/ exists h, fwd b = Holding h) ->
                  exists e, internal e = true /\ step vr s e <> None).
  { intros Ec Hf. exists (FwdSeeDone idx). split; [reflexivity|].
    unfold step, with_sub, departing. rewrite En, Ec.
    destruct Hf as [->|[h ->]]; cbn [orb]; discriminate. }
  destruct (fwd b) as [|h| |] eqn:Ef.
  - (* Idle *)
    destruct (ctx_done b) eqn:Ec; [left; apply Hdone; auto|].
    left. exists (FwdTake idx). split; [reflexivity|].
    unfold step, with_sub. rewrite En, Ef.
    destruct (buf b) as [|x r] eqn:Eb; [cbn in Hfull; discriminate Hfull | discriminate].
  - (* Holding *)
    destruct (ctx_done b) eqn:Ec; [left; apply Hdone; eauto|].
    destruct (consumer_ready b) eqn:Ecr.
    + left. exists (FwdDeliver idx). split; [reflexivity|].
      unfold step, with_sub. rewrite En, Ef, Ecr. discriminate.
    + right. exists b, h. repeat split; assumption.
  - rewrite O1 in Hex by reflexivity. discriminate Hex.
  - rewrite O1 in Hex by reflexivity. discriminate Hex.
Qed.

(* closeCh closed and the lock free: a forwarder that has not exited can move *)
Lemma fwd_progress vr s :
  lock s = Free -> closed s = true ->
  forallb (fun b => is_exited (fwd b)) (subs s) = false -> can_move vr s.
Proof.
  intros Hl Hcl Ea. unfold can_move.
  apply forallb_false_nth in Ea as (i & b & En & Eb).
  destruct (fwd b) as [|h| |] eqn:Ef; cbn in Eb; try discriminate Eb.
  - exists (FwdSeeDone i). split; [reflexivity|].
    unfold step, with_sub, departing. rewrite En, Ef, Hcl, orb_true_r. discriminate.
  - exists (FwdSeeDone i). split; [reflexivity|].
    unfold step, with_sub, departing. rewrite En, Ef, Hcl, orb_true_r. discriminate.
  - exists (FwdExitLocked i). split; [reflexivity|].
    unfold step, with_sub. rewrite Hl, En, Ef. discriminate.
Qed.

(* the lock is free: any pending call can move *)
Lemma free_progress vr s :
  inv vr s -> lock s = Free -> call_pending s -> can_move vr s.
Proof.
  intros (IF & I3 & I4) Hl Hp.
  destruct Hp as [(v & idx & Hh)|[Hb|[Hs|[Hc|[Hc|[Hc|Hc]]]]]].
  - congruence.
  - destruct (bq s) as [|v r] eqn:Eb; [congruence|].
    exists (BcLock 0). split; [reflexivity|]. unfold step. rewrite Hl, Eb. cbn [nth_error].
    destruct (closed s); discriminate.
  - destruct (pend_subs s) as [|[id p] r] eqn:Eb; [congruence|].
    exists (SubLocked 0). split; [reflexivity|]. unfold step. rewrite Hl, Eb. cbn [nth_error].
    discriminate.
  - exists CloseLock. split; [reflexivity|]. unfold step. rewrite Hc, Hl. discriminate.
  - destruct (forallb (fun b => is_exited (fwd b)) (subs s)) eqn:Ea.
    + exists CloseWait. split; [reflexivity|]. unfold step. rewrite Hc, Ea. discriminate.
    + apply fwd_progress; [exact Hl | apply I3; auto | exact Ea].
  - exists Close2Lock. split; [reflexivity|]. unfold step. rewrite Hc, Hl. discriminate.
  - destruct (forallb (fun b => is_exited (fwd b)) (subs s)) eqn:Ea.
    + exists Close2Wait. split; [reflexivity|]. unfold step. rewrite Hc, Ea. discriminate.
    + apply fwd_progress; [exact Hl | apply I3; auto | exact Ea].
Qed.

Lemma stuck_cannot_move vr s : stuck vr s -> can_move vr s -> False.
Proof. intros Hst (e & Hi & He). apply He. apply Hst. exact Hi. Qed.

(* DEPARTURE / GENERAL NO-WEDGE *)
Theorem main_departure_no_wedge : forall vr es s, run vr init es = Some s ->
  call_pending s -> stuck vr s -> backpressure s.
Proof.
  intros vr es s Hr Hp Hst. pose proof (inv_reachable vr es s Hr) as I.
  destruct (lock s) as [|v idx] eqn:Hl.
  - exfalso. eapply stuck_cannot_move; [exact Hst|]. apply free_progress; assumption.
  - destruct (held_cases vr s v idx I Hl) as [Hm|(b & h & En & Ec & Hreg & Hex & Hcl & Hfull & Hf & Hcr)].
    + exfalso. eapply stuck_cannot_move; eassumption.
    + exists v, idx, b, h. repeat split; assumption.
Qed.

Theorem main_departed_not_blocking : forall vr es s v idx b, run vr init es = Some s ->
  lock s = Held v idx -> nth_error (subs s) idx = Some b -> ctx_done b = true ->
  exists e, internal e = true /\ step vr s e <> None.
Proof.
  intros vr es s v idx b Hr Hl En Ec. pose proof (inv_reachable vr es s Hr) as I.
  destruct (held_cases vr s v idx I Hl) as [Hm|(b' & h & En' & Ec' & _)]; [exact Hm|].
  rewrite En in En'. injection En' as <-. rewrite Ec in Ec'. discriminate Ec'.
Qed.

(* CLOSE NO-WEDGE on the Fixed variant *)
Lemma close_no_wedge_inv s :
  inv Fixed s -> cl s <> CNone \/ cl2 s <> CNone -> call_pending s -> can_move Fixed s.
Proof.
  intros I Hc Hp. destruct (lock s) as [|v idx] eqn:Hl.
  - apply free_progress; assumption.
  - destruct (held_cases Fixed s v idx I Hl) as [Hm|(b & h & _ & _ & _ & _ & Hcl & _)]; [exact Hm|].
    destruct I as (_ & _ & I4). rewrite (I4 eq_refl Hc) in Hcl. discriminate Hcl.
Qed.

Theorem main_close_no_wedge : forall es s, run Fixed init es = Some s ->
  cl s <> CNone \/ cl2 s <> CNone -> call_pending s ->
  exists e, internal e = true /\ step Fixed s e <> None.
Proof.
  intros es s Hr Hc Hp. apply close_no_wedge_inv; [eapply inv_reachable; exact Hr | exact Hc | exact Hp].
Qed.

(* ---- Close completes: run the scheduler of Check.v to quiescence ---- *)

Lemma first_enabled_some vr s e :
  first_enabled vr s = Some e -> internal e = true /\ exists s', step vr s e = Some s'.
Proof.
  unfold first_enabled. intro H. apply find_some in H as [Hin He]. split.
  - eapply candidates_internal. exact Hin.
  - unfold enabledb in He. destruct (step vr s e) as [s'|]; [eauto | discriminate He].
Qed.

Lemma first_enabled_none vr s : first_enabled vr s = None -> stuck vr s.
Proof.
  unfold first_enabled. intro H. apply stuck_iff_candidates. apply forallb_forall.
  intros e He. rewrite (find_none _ _ H e He). reflexivity.
Qed.

(* internal events never reset a Close slot to CNone, and never start one *)
Lemma cl_called_preserved vr s e s' :
  internal e = true -> step vr s e = Some s' ->
  (cl s <> CNone -> cl s' <> CNone) /\ (cl2 s <> CNone -> cl2 s' <> CNone).
Proof.
  intros Hi H. destruct e; try discriminate Hi; step_inv H; simp_st;
    split; intro; congruence.
Qed.

Lemma returned_of_not_pending s :
  ~ call_pending s ->
  (cl s <> CNone -> cl s = CReturned) /\ (cl2 s <> CNone -> cl2 s = CReturned).
Proof.
  intro Hnp. unfold call_pending in Hnp. split; intro Hc.
  - destruct (cl s); [congruence | exfalso; apply Hnp; auto 10 | exfalso; apply Hnp; auto 10 | reflexivity].
  - destruct (cl2 s); [congruence | exfalso; apply Hnp; auto 10 | exfalso; apply Hnp; auto 10 | reflexivity].
Qed.

Lemma close_quiesce n : forall s,
  inv Fixed s -> cl s <> CNone \/ cl2 s <> CNone -> (measure s <= n)%nat ->
  ~ call_pending (quiesce_fuel n Fixed s) /\
  (cl s <> CNone -> cl (quiesce_fuel n Fixed s) <> CNone) /\
  (cl2 s <> CNone -> cl2 (quiesce_fuel n Fixed s) <> CNone).
Proof.
  induction n as [|n IH]; intros s I Hc Hm.
  - cbn [quiesce_fuel]. split; [|split; auto]. intro Hp.
    destruct (close_no_wedge_inv s I Hc Hp) as (e & Hi & He).
    destruct (step Fixed s e) as [s1|] eqn:E; [|congruence].
    pose proof (main_internal_decreases _ _ _ _ Hi E). lia.
  - cbn [quiesce_fuel]. destruct (first_enabled Fixed s) as [e|] eqn:Ef.
    + destruct (first_enabled_some _ _ _ Ef) as (Hi & s1 & Es). rewrite Es.
      pose proof (main_internal_decreases _ _ _ _ Hi Es) as Hd.
      destruct (cl_called_preserved _ _ _ _ Hi Es) as [P1 P2].
      assert (Hc1 : cl s1 <> CNone \/ cl2 s1 <> CNone) by (destruct Hc; auto).
      destruct (IH s1 (inv_step _ _ _ _ I Es) Hc1 ltac:(lia)) as (Q0 & Q1 & Q2).
      split; [exact Q0|]. split; auto.
    + split; [|split; auto]. intro Hp.
      eapply stuck_cannot_move; [apply first_enabled_none; exact Ef|].
      apply close_no_wedge_inv; assumption.
Qed.

Theorem main_close_completes : forall es s, run Fixed init es = Some s ->
  cl s <> CNone \/ cl2 s <> CNone ->
  exists k s', (k <= measure s)%nat /\ s' = quiesce_fuel k Fixed s /\ ~ call_pending s' /\
               (cl s <> CNone -> cl s' = CReturned) /\ (cl2 s <> CNone -> cl2 s' = CReturned).
Proof.
  intros es s Hr Hc. exists (measure s), (quiesce_fuel (measure s) Fixed s).
  split; [apply Nat.le_refl|]. split; [reflexivity|].
  destruct (close_quiesce (measure s) s (inv_reachable _ _ _ Hr) Hc (Nat.le_refl _)) as (Hnp & Q1 & Q2).
  destruct (returned_of_not_pending _ Hnp) as [R1 R2].
  split; [exact Hnp|]. split; auto.
Qed.

(* the same, phrased with [quiesce] *)
Corollary close_completes_quiesce : forall es s, run Fixed init es = Some s ->
  cl s <> CNone \/ cl2 s <> CNone ->
  ~ call_pending (quiesce Fixed s) /\
  (cl s <> CNone -> cl (quiesce Fixed s) = CReturned) /\
  (cl2 s <> CNone -> cl2 (quiesce Fixed s) = CReturned).
Proof.
  intros es s Hr Hc. unfold quiesce.
  destruct (close_quiesce (measure s) s (inv_reachable _ _ _ Hr) Hc (Nat.le_refl _)) as (Hnp & Q1 & Q2).
  destruct (returned_of_not_pending _ Hnp) as [R1 R2].
  split; [exact Hnp|]. split; auto.
Qed.

(* ===================================================================================== *)
(* The Original variant: Close wedges behind a Broadcast blocked on a stalled reader       *)

Definition wedged_sub : sub :=
  mkSub false 0 [2; 3; 4; 5; 6; 7; 8; 9; 10; 11]%Z (Holding 1%Z) false false true [] 0.

(* what stays true of the wedged state as long as nobody reads or cancels; a second Close may
   be called, it queues for the lock as well *)
Definition wedged (s : st) : Prop :=
  subs s = [wedged_sub] /\ lock s = Held 12%Z 0 /\ closed s = false /\ cl s = CWantLock /\
  (cl2 s = CNone \/ cl2 s = CWantLock).

Definition quiet (e : ev) : Prop :=
  match e with BcCall _ | SubCall _ _ | Close2Call | CancelPending _ => True
  | _ => internal e = true end.

Lemma wedged_step s e s' : wedged s -> quiet e -> step Original s e = Some s' -> wedged s'.
Proof.
  intros (Hs & Hl & Hcl & Hc & Hc2) Ha H. unfold wedged.
  destruct e; cbn in Ha; try discriminate Ha.
  - (* BcCall *)
    unfold step in H. destruct (memz v (issued s)); [discriminate H|]. injection H as <-.
    simp_st. auto.
  - (* SubCall *)
    unfold step in H. injection H as <-. simp_st. auto.
  - (* Close2Call *)
    unfold step in H. destruct (cl2 s); try discriminate H. injection H as <-.
    simp_st. cbn [is_fixed orb]. auto 10.
  - (* CancelPending *)
    unfold step in H. injection H as <-. simp_st. auto.
  - unfold step in H. rewrite Hl in H. discriminate H.
  - unfold step in H. rewrite Hl, Hs in H. cbn in H. discriminate H.
  - unfold step in H. rewrite Hl, Hs, Hcl in H. cbn in H. discriminate H.
  - unfold step in H. rewrite Hl, Hs in H. cbn in H. discriminate H.
  - unfold step, with_sub in H. rewrite Hs in H. destruct i as [|[|i]]; cbn in H; discriminate H.
  - unfold step, with_sub in H. rewrite Hs in H. destruct i as [|[|i]]; cbn in H; discriminate H.
  - unfold step, with_sub, departing in H. rewrite Hs, Hcl in H.
    destruct i as [|[|i]]; cbn in H; discriminate H.
  - unfold step in H. rewrite Hl in H. discriminate H.
  - unfold step in H. rewrite Hl in H. discriminate H.
  - unfold step in H. rewrite Hc, Hl in H. discriminate H.
  - unfold step in H. rewrite Hc in H. discriminate H.
  - unfold step in H. rewrite Hl in H. destruct (cl2 s); discriminate H.
  - unfold step in H. destruct Hc2 as [E|E]; rewrite E in H; discriminate H.
Qed.

Lemma wedged_run es : forall s s', wedged s -> Forall quiet es -> run Original s es = Some s' -> wedged s'.
Proof.
  induction es as [|e es IH]; intros s s' W Hq H; cbn [run] in H.
  - injection H as <-. exact W.
  - inversion Hq as [|e0 es0 Hq1 Hq2]; subst.
    destruct (step Original s e) as [s1|] eqn:E; [|discriminate H].
    eapply IH; [eapply wedged_step; eassumption | exact Hq2 | exact H].
Qed.

Theorem main_close_wedge_refuted : exists s, run Original init wedge_schedule = Some s /\
  cl s = CWantLock /\ (exists v idx, lock s = Held v idx) /\ closed s = false /\ stuck Original s /\
  (* and it stays wedged whatever calls are issued later (Broadcast, Subscribe, a second Close), as long as
     nobody reads or cancels *)
  (forall es' s', Forall (fun e => match e with BcCall _ | SubCall _ _ | Close2Call | CancelPending _ => True
                                   | _ => internal e = true end) es' ->
                  run Original s es' = Some s' ->
                  cl s' = CWantLock /\ cl2 s' <> CReturned /\ (exists v idx, lock s' = Held v idx)).
Proof.
  eexists. split; [vm_compute; reflexivity|].
  split; [reflexivity|]. split; [do 2 eexists; reflexivity|]. split; [reflexivity|].
  split; [apply stuck_iff_candidates; vm_compute; reflexivity|].
  intros es' s' Hq Hr.
  assert (W : wedged s').
  { eapply wedged_run; [|exact Hq|exact Hr]. unfold wedged. cbn. auto 10. }
  destruct W as (_ & Hl & _ & Hc & Hc2). split; [exact Hc|]. split.
  - destruct Hc2 as [E|E]; rewrite E; discriminate.
  - do 2 eexists. exact Hl.
Qed.

(* two overlapping Close calls on Original: both wait for the lock for ever *)
Theorem main_close2_wedge_refuted : exists s, run Original init wedge2_schedule = Some s /\
  cl s = CWantLock /\ cl2 s = CWantLock /\ (exists v idx, lock s = Held v idx) /\ stuck Original s.
Proof.
  eexists. split; [vm_compute; reflexivity|].
  split; [reflexivity|]. split; [reflexivity|]. split; [do 2 eexists; reflexivity|].
  apply stuck_iff_candidates. vm_compute. reflexivity.
Qed.

Example fixed_close2_completes : exists s, run Fixed init wedge2_schedule = Some s /\
  cl (quiesce Fixed s) = CReturned /\ cl2 (quiesce Fixed s) = CReturned /\ lock (quiesce Fixed s) = Free.
Proof. eexists. split; [vm_compute; reflexivity|]. repeat split; vm_compute; reflexivity. Qed.

(* by the letter the wedged state is back-pressure: the stalled subscriber is alive *)
Example wedge_is_backpressure : exists s, run Original init wedge_schedule = Some s /\ backpressure s.
Proof.
  eexists. split; [vm_compute; reflexivity|].
  do 4 eexists. repeat split.
Qed.

(* the same schedule on the Fixed variant is not stuck and Close returns *)
Example fixed_not_wedged : exists s, run Fixed init wedge_schedule = Some s /\
  cl (quiesce Fixed s) = CReturned /\ lock (quiesce Fixed s) = Free.
Proof. eexists. split; [vm_compute; reflexivity|]. split; vm_compute; reflexivity. Qed.

(* departure on Original: everything returns *)
Example departure_releases : exists s, run Original init departure_schedule = Some s /\
  lock (quiesce Original s) = Free /\ bq (quiesce Original s) = [] .
Proof. eexists. split; [vm_compute; reflexivity|]. split; vm_compute; reflexivity. Qed.

(* ===================================================================================== *)
(* Non-vacuity of the implication-shaped theorems                                          *)

(* candidates_complete / main_internal_decreases: an enabled internal event *)
Example internal_enabled_nonvacuous :
  exists s s', run Original init [SubCall 0%Z false; BcCall 1%Z] = Some s /\
               internal (SubLocked 0) = true /\ step Original s (SubLocked 0) = Some s' /\
               In (SubLocked 0) (candidates s) /\ (measure s' < measure s)%nat.
Proof.
  do 2 eexists. split; [vm_compute; reflexivity|]. split; [reflexivity|].
  split; [vm_compute; reflexivity|]. split; [vm_compute; auto 10 | vm_compute; lia].
Qed.

(* main_departure_no_wedge: reachable, a call pending, stuck (both variants: before Close is
   called the variants agree) *)
Example departure_no_wedge_nonvacuous : forall vr,
  exists s, run vr init (removelast wedge_schedule) = Some s /\ call_pending s /\ stuck vr s.
Proof.
  intro vr. destruct vr; (eexists; split; [vm_compute; reflexivity|]; split;
    [left; do 2 eexists; reflexivity | apply stuck_iff_candidates; vm_compute; reflexivity]).
Qed.

(* main_departed_not_blocking: the loop is at a subscriber whose context has ended *)
Example departed_not_blocking_nonvacuous : forall vr,
  exists s v idx b, run vr init departure_schedule = Some s /\ lock s = Held v idx /\
                    nth_error (subs s) idx = Some b /\ ctx_done b = true.
Proof.
  intro vr. destruct vr; (do 4 eexists; split; [vm_compute; reflexivity|]; repeat split).
Qed.

(* main_close_no_wedge / main_close_completes: Close called, calls pending *)
Example close_no_wedge_nonvacuous :
  exists s, run Fixed init wedge_schedule = Some s /\ (cl s <> CNone \/ cl2 s <> CNone) /\ call_pending s.
Proof.
  eexists. split; [vm_compute; reflexivity|]. split; [left; discriminate|].
  left. do 2 eexists. reflexivity.
Qed.

(* ... and with both Close slots in use *)
Example close2_no_wedge_nonvacuous :
  exists s, run Fixed init wedge2_schedule = Some s /\ cl s <> CNone /\ cl2 s <> CNone /\ call_pending s.
Proof.
  eexists. split; [vm_compute; reflexivity|]. split; [discriminate|]. split; [discriminate|].
  left. do 2 eexists. reflexivity.
Qed.
