(* C11 — source-table tie: harness/srctab11 regenerates, from the text of
   /repo/events/broadcaster/broadcaster.go, `const bufferSize = 10` and the capacity argument of
   `bufferedCh := make(chan T, bufferSize)` in subscribe; both must be the [bufcap] of Model.v. *)
From Kit Require Import Lib.SrcTab C11.Model.
From Coq Require Import String.
Local Open Scope string_scope.

Definition table : list entry :=
  [ ("broadcaster.bufferSize", eqv (tnat bufcap));
    ("broadcaster.subscribe.bufferSize", eqv (tnat bufcap)) ].

Definition run_cases := run_tab table.
