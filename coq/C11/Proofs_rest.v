(* C11 — the liveness half: what holds once the internal activity has died down, for EVERY
   reachable state and both variants; the constant 12 of the specification's back-pressure
   excuse derived from the model; the executable [rest_ok] of Check.v proved of every state the
   checker predicts, for every script. *)
From Kit Require Import C11.Check C11.Proofs_safety C11.Proofs_live C11.Proofs_check C11.Proofs_spec.
From Coq Require Import List ZArith Bool Lia.
Import ListNotations.

(* ---------------------------------------------------------------------------------------- *)
(* run-to-quiescence with a step bound *)

Lemma quiesce_fuel_run_len vr n : forall s, (Model.measure s <= n)%nat ->
  exists es, Forall (fun e => internal e = true) es /\ (length es <= Model.measure s)%nat /\
             run vr s es = Some (quiesce_fuel n vr s) /\ stuck vr (quiesce_fuel n vr s).
Proof.
  induction n as [|n IH]; intros s Hm.
  - cbn [quiesce_fuel]. exists []. split; [constructor|]. split; [cbn; lia|]. split; [reflexivity|].
    intros e He. destruct (step vr s e) as [s1|] eqn:E; [|reflexivity].
    pose proof (main_internal_decreases _ _ _ _ He E). lia.
  - cbn [quiesce_fuel]. destruct (first_enabled vr s) as [e|] eqn:Ef.
    + destruct (first_enabled_some _ _ _ Ef) as (Hi & s1 & Es). rewrite Es.
      pose proof (main_internal_decreases _ _ _ _ Hi Es) as Hd.
      destruct (IH s1) as (es & Hall & Hlen & Hrun & Hst); [lia|].
      exists (e :: es). split; [constructor; assumption|]. split; [cbn [length]; lia|].
      split; [|exact Hst]. cbn [run]. rewrite Es. exact Hrun.
    + exists []. split; [constructor|]. split; [cbn; lia|]. split; [reflexivity|].
      apply first_enabled_none. exact Ef.
Qed.

Lemma reach_app vr es s es' s' :
  run vr init es = Some s -> run vr s es' = Some s' -> run vr init (es ++ es') = Some s'.
Proof. intros H1 H2. rewrite run_app, H1. exact H2. Qed.

(* ---------------------------------------------------------------------------------------- *)
(* EVERY CALL RETURNS (both variants): from any reachable state, at most [measure s] internal
   steps, each enabled when taken, lead to a state at rest, and there a call is pending only
   under back-pressure from a live stalled subscriber. *)

Theorem main_calls_complete : forall vr es s, run vr init es = Some s ->
  exists es', Forall (fun e => internal e = true) es' /\ (length es' <= Model.measure s)%nat /\
              run vr s es' = Some (quiesce vr s) /\ stuck vr (quiesce vr s) /\
              (call_pending (quiesce vr s) -> backpressure (quiesce vr s)).
Proof.
  intros vr es s Hr.
  destruct (quiesce_fuel_run_len vr (Model.measure s) s (Nat.le_refl _)) as (es' & Hall & Hlen & Hrun & Hst).
  exists es'. repeat split; try assumption.
  intro Hp. eapply main_departure_no_wedge; [eapply reach_app; eassumption | exact Hp | exact Hst].
Qed.

(* EXACTLY ONCE, EVENTUALLY: at that state at rest, unless there is such back-pressure, every
   subscriber whose context is alive, with the broadcaster open and a promptly reading consumer,
   HAS received exactly the values fanned out since it subscribed, in order. *)
Theorem main_delivery_complete : forall vr es s, run vr init es = Some s ->
  ~ backpressure (quiesce vr s) ->
  forall i b, nth_error (subs (quiesce vr s)) i = Some b ->
    ctx_done b = false -> closed (quiesce vr s) = false -> prompt b = true ->
    received b = skipn (start b) (fanout (quiesce vr s)).
Proof.
  intros vr es s Hr Hnb i b Hb Hc Hcl Hp.
  destruct (main_calls_complete vr es s Hr) as (es' & _ & _ & Hrun & Hst & Hpend).
  eapply main_exactly_once_at_rest; try eassumption.
  - eapply reach_app; eassumption.
  - destruct (lock (quiesce vr s)) as [|v idx] eqn:El; [reflexivity|].
    exfalso. apply Hnb. apply Hpend. left. exists v, idx. exact El.
Qed.

Example calls_complete_nonvacuous : forall vr,
  exists s, run vr init departure_schedule = Some s /\
            call_pending s /\ ~ call_pending (quiesce vr s).
Proof.
  intros []; eexists; (split; [vm_compute; reflexivity|]); split.
  - left. do 2 eexists. vm_compute. reflexivity.
  - intros [(v & idx & H) | [H | [H | [H | [H | [H | H]]]]]]; vm_compute in H;
      try discriminate; apply H; reflexivity.
  - left. do 2 eexists. vm_compute. reflexivity.
  - intros [(v & idx & H) | [H | [H | [H | [H | [H | H]]]]]]; vm_compute in H;
      try discriminate; apply H; reflexivity.
Qed.

(* ---------------------------------------------------------------------------------------- *)
(* WHY 12.  Whenever a Broadcast sits at a subscriber that is alive (broadcaster open) with a full
   buffer and a value in its forwarder's hand — the only situation in which it can be blocked —
   that subscriber has EXACTLY 12 values outstanding: 1 held + 10 buffered + the one being
   handed over.  This is the constant of Spec.excused, derived from the model. *)

Theorem main_backpressure_12 : forall vr es s v idx b h, run vr init es = Some s ->
  lock s = Held v idx -> nth_error (subs s) idx = Some b ->
  ctx_done b = false -> closed s = false ->
  length (buf b) = bufcap -> fwd b = Holding h ->
  length (skipn (start b) (fanout s)) = (length (received b) + 12)%nat.
Proof.
  intros vr es s v idx b h Hr Hl Hb Hc Hcl Hbuf Hf.
  rewrite (main_exactly_once vr es s idx b Hr Hb Hc Hcl).
  unfold in_flight, hold, to_come. rewrite Hf, Hl, Nat.leb_refl.
  rewrite !app_length, Hbuf. cbn [length]. unfold bufcap. lia.
Qed.

Example backpressure_12_nonvacuous : forall vr,
  exists s b, run vr init (removelast wedge_schedule) = Some s /\
              lock s = Held 12%Z 0 /\ nth_error (subs s) 0 = Some b /\ ctx_done b = false /\
              closed s = false /\ length (buf b) = bufcap /\ fwd b = Holding 1%Z.
Proof.
  intros []; eexists; eexists; (split; [vm_compute; reflexivity|]);
    (split; [vm_compute; reflexivity|]); (split; [vm_compute; reflexivity|]);
    repeat split; vm_compute; reflexivity.
Qed.

(* ---------------------------------------------------------------------------------------- *)
(* the executable predicates of Check.v *)

Lemma call_pendingb_spec s : call_pendingb s = true <-> call_pending s.
Proof.
  unfold call_pendingb, call_pending, pc_pending.
  destruct (lock s) as [|v0 idx0]; destruct (bq s) as [|x1 l1]; destruct (pend_subs s) as [|x2 l2];
    destruct (cl s); destruct (cl2 s); cbn; split; intro H; try reflexivity; try discriminate H;
    try (first [ left; do 2 eexists; reflexivity
               | right; left; discriminate
               | right; right; left; discriminate
               | right; right; right; left; reflexivity
               | right; right; right; right; left; reflexivity
               | right; right; right; right; right; left; reflexivity
               | right; right; right; right; right; right; reflexivity ]);
    destruct H as [(v & idx & H) | [H | [H | [H | [H | [H | H]]]]]];
    first [discriminate H | contradiction H; reflexivity].
Qed.

Lemma backpressureb_spec s : backpressureb s = true <-> backpressure s.
Proof.
  unfold backpressureb, backpressure. split.
  - intro H. destruct (lock s) as [|v idx] eqn:El; [discriminate|].
    destruct (nth_error (subs s) idx) as [b|] eqn:Eb; [|discriminate].
    repeat (apply andb_true_iff in H; destruct H as [H ?]).
    destruct (fwd b) as [| h | |] eqn:Ef; try discriminate.
    exists v, idx, b, h. repeat split; try assumption.
    + apply negb_true_iff. assumption.
    + apply negb_true_iff. assumption.
    + apply Nat.eqb_eq. assumption.
    + apply negb_true_iff. assumption.
  - intros (v & idx & b & h & Hl & Hb & H1 & H2 & H3 & H4 & H5 & H6).
    rewrite Hl, Hb, H1, H2, H3, H4, H5, H6. reflexivity.
Qed.

Lemma delivered_allb_spec s : delivered_allb s = true <->
  (forall i b, nth_error (subs s) i = Some b -> ctx_done b = false -> closed s = false ->
               prompt b = true -> received b = skipn (start b) (fanout s)).
Proof.
  unfold delivered_allb. rewrite forallb_forall. split.
  - intros H i b Hb Hc Hcl Hp. specialize (H b (nth_error_In _ _ Hb)).
    rewrite Hc, Hcl, Hp in H. cbn in H. apply eqb_lz_spec. exact H.
  - intros H b Hin. apply In_nth_error in Hin as [i Hi].
    destruct (ctx_done b) eqn:Hc; [reflexivity|]. destruct (closed s) eqn:Hcl; [reflexivity|].
    destruct (prompt b) eqn:Hp; [|reflexivity]. cbn. apply eqb_lz_spec. apply (H i b Hi Hc eq_refl Hp).
Qed.

(* [rest_ok] holds of the state at rest reached from ANY reachable state *)
Theorem main_rest_ok : forall vr es s, run vr init es = Some s -> rest_ok (quiesce vr s) = true.
Proof.
  intros vr es s Hr. unfold rest_ok.
  destruct (main_calls_complete vr es s Hr) as (es' & _ & _ & _ & _ & Hpend).
  apply andb_true_iff. split.
  - destruct (call_pendingb (quiesce vr s)) eqn:Ep; [|reflexivity].
    cbn. apply backpressureb_spec. apply Hpend. apply call_pendingb_spec. exact Ep.
  - destruct (backpressureb (quiesce vr s)) eqn:Eb; [reflexivity|].
    cbn. apply delivered_allb_spec. intros i b Hb Hc Hcl Hp.
    eapply main_delivery_complete; try eassumption.
    intro Hbp. apply backpressureb_spec in Hbp. congruence.
Qed.

(* ---------------------------------------------------------------------------------------- *)
(* ... hence of every state the checker predicts, for EVERY script *)

Lemma quiesce_amb_fst vr n : forall s a, fst (quiesce_amb n vr s a) = quiesce_fuel n vr s.
Proof.
  induction n as [|n IH]; intros s a; cbn [quiesce_amb quiesce_fuel]; [reflexivity|].
  destruct (first_enabled vr s) as [e|]; [|reflexivity].
  destruct (step vr s e) as [s'|]; [apply IH | reflexivity].
Qed.

Definition drv_ok (vr : variant) (d : drv) : Prop :=
  (exists es, run vr init es = Some (d_st d)) /\ d_rest d = true.

Lemma drive_step_ok vr d n o : drv_ok vr d -> drv_ok vr (drive_step vr d n o).
Proof.
  intros [[es Hr] Hrest]. unfold drive_step.
  destruct (if op_ok o then run vr (d_st d) (env_events _ n o) else None) as [s_env|] eqn:E.
  - assert (Hre : run vr init (es ++ env_events
                     (match d_close d with Some _ => true | None => false end) n o) = Some s_env).
    { destruct (op_ok o); [|discriminate]. eapply reach_app; eassumption. }
    pose proof (quiesce_amb_fst vr (Model.measure s_env) s_env (d_amb d)) as Hq.
    destruct (quiesce_amb (Model.measure s_env) vr s_env (d_amb d)) as [s1 amb] eqn:Eq.
    cbn [fst] in Hq. subst s1. split; cbn [d_st d_rest].
    + destruct (quiesce_is_run vr s_env) as (es' & _ & Hrun & _).
      eexists. eapply reach_app; eassumption.
    + rewrite Hrest. cbn. apply (main_rest_ok vr _ s_env Hre).
  - split; cbn [d_st d_rest]; [exists es; exact Hr | exact Hrest].
Qed.

Theorem main_drive_rest_ok : forall vr sc, d_rest (drive vr sc) = true.
Proof.
  intros vr sc. unfold drive.
  assert (H : forall l d, drv_ok vr d ->
            drv_ok vr (fold_left (fun d no => drive_step vr d (fst no) (snd no)) l d)).
  { induction l as [|x l IH]; intros d Hd; cbn [fold_left]; [exact Hd|].
    apply IH. apply drive_step_ok. exact Hd. }
  apply (H (zindex sc)). split; [exists []; reflexivity | reflexivity].
Qed.
