(* C11 — the property, written from its text (properties.jsonl, id C11) and the package docs
   ("Broadcast sends the given value to all subscribers", "Close ... blocks until all events have
   been sent ... The Broadcaster will be a no-op after this call", "If the [broadcaster] is
   closed, the subscriber is silently dropped"), NOT from the code:

     "Every value passed to Broadcast is received exactly once by each subscriber that subscribed
      before the call and stays subscribed while the broadcaster is open (at most once
      otherwise), and all subscribers receive values in one common order that respects the order
      of Broadcast calls. Subscribers leaving or the Broadcaster closing at any moment never
      deadlock Broadcast, Subscribe or Close, and nothing is delivered after Close returns."

   Part 1: vocabulary on sequences.  Part 2: the property over what an observer of a SCRIPTED run
   sees (a script of environment steps; per step, the events observed once the broadcaster has
   come to rest).  Part 3: the property over a CONCURRENT run (Broadcast from several goroutines,
   each call stamped at its start and its return by one logical clock).
   Nothing here mentions locks, forwarders or program counters.  The only number taken from the
   implementation's documentation is the 10-slot buffer per subscriber: a subscriber that is
   alive, does not read and has 12 or more values outstanding (1 being handed over + 10 buffered
   + 1 more) may legitimately hold up the broadcaster (back-pressure); nothing else may — in
   particular not a subscriber that has left, and nothing at all once Close has been called. *)
From Coq Require Import List ZArith Bool Lia.
Import ListNotations.
Open Scope Z_scope.

(* ======================================================================================== *)
(* 1. sequences *)

Definition memZ (x : Z) (l : list Z) : bool := existsb (Z.eqb x) l.

(* [a] is [b] with some elements left out *)
Inductive subseq : list Z -> list Z -> Prop :=
| subseq_nil : forall b, subseq [] b
| subseq_take : forall x a b, subseq a b -> subseq (x :: a) (x :: b)
| subseq_drop : forall y a b, subseq a b -> subseq a (y :: b).

Fixpoint subseqb (a b : list Z) : bool :=
  match a, b with
  | [], _ => true
  | _ :: _, [] => false
  | x :: a', y :: b' => if x =? y then subseqb a' b' else subseqb a b'
  end.

Fixpoint nodupb (l : list Z) : bool :=
  match l with [] => true | x :: r => negb (memZ x r) && nodupb r end.

(* [a] occurs in [w] and [b] occurs somewhere after that occurrence *)
Fixpoint precedesb (a b : Z) (w : list Z) : bool :=
  match w with
  | [] => false
  | x :: r => if x =? a then memZ b r else precedesb a b r
  end.

Fixpoint eqb_lz (a b : list Z) : bool :=
  match a, b with
  | [], [] => true
  | x :: a', y :: b' => (x =? y) && eqb_lz a' b'
  | _, _ => false
  end.

(* ======================================================================================== *)
(* 2. scripted runs *)

Inductive op :=
| OSub (p : bool)     (* Subscribe a new channel; its consumer reads promptly (true) or on command *)
| OBcast              (* Broadcast(v) where v = the step number of this op *)
| ORead (i : Z)       (* the consumer of subscriber i is told to receive one value *)
| OReadAll (i : Z)    (* ... to receive everything from now on *)
| OCancel (i : Z)     (* subscriber i's context ends *)
| OClose              (* Close() — a script may call it more than once, also while an earlier call has not returned *)
| OSubDead (p : bool) (* Subscribe with a context that has ALREADY ended *)
| ONop.               (* nothing (a step the harness could not carry out: its subscriber's Subscribe had not returned) *)

Inductive oev :=
| ERecv (i v : Z)     (* subscriber i's consumer received v *)
| EDone (c : Z).      (* the call issued at step c (Subscribe / Broadcast / Close) returned *)

(* (step after which it was observed, event) *)
Definition obs := list (Z * oev).

Definition zindex {A} (l : list A) : list (Z * A) :=
  combine (map Z.of_nat (seq 0 (length l))) l.

Section Script.
Variable sc : list op.          (* the script *)
Variable ob : obs.              (* the observation *)

Definition isc : list (Z * op) := zindex sc.
Definition nsteps : Z := Z.of_nat (length sc).
Definition steps : list Z := map Z.of_nat (seq 0 (length sc)).

(* Broadcast calls = their values = their steps *)
Definition bcasts : list Z :=
  flat_map (fun e => match snd e with OBcast => [fst e] | _ => [] end) isc.

(* subscribers, in the order of the Subscribe calls: (step of the call, prompt consumer) *)
Definition subscribers : list (Z * bool) :=
  flat_map (fun e => match snd e with OSub p | OSubDead p => [(fst e, p)] | _ => [] end) isc.
Definition isubs : list (Z * (Z * bool)) := zindex subscribers.

Definition first_step (f : op -> bool) : option Z :=
  match find (fun e => f (snd e)) isc with Some e => Some (fst e) | None => None end.

(* a subscriber whose context had already ended when it subscribed has left from the start *)
Definition born_dead (i : Z) : option Z :=
  match find (fun e => fst e =? i) isubs with
  | Some e => match nth_error sc (Z.to_nat (fst (snd e))) with
              | Some (OSubDead _) => Some (fst (snd e))
              | _ => None
              end
  | None => None
  end.
Definition cancel_step (i : Z) : option Z :=
  match born_dead i with
  | Some p => Some p
  | None => first_step (fun o => match o with OCancel j => j =? i | _ => false end)
  end.
Definition readall_step (i : Z) : option Z :=
  first_step (fun o => match o with OReadAll j => j =? i | _ => false end).
(* the FIRST Close call (from then on the broadcaster is closing) and all Close calls *)
Definition close_step : option Z :=
  first_step (fun o => match o with OClose => true | _ => false end).
Definition close_steps : list Z :=
  flat_map (fun e => match snd e with OClose => [fst e] | _ => [] end) isc.

Definition before (o : option Z) (r : Z) : bool :=   (* happened at a step <= r *)
  match o with Some x => x <=? r | None => false end.

(* observations *)
Definition recvs (i : Z) : list (Z * Z) :=           (* (step, value) received by subscriber i *)
  flat_map (fun e => match snd e with
                     | ERecv j v => if j =? i then [(fst e, v)] else []
                     | _ => [] end) ob.
Definition vals (i : Z) : list Z := map snd (recvs i).
Definition vals_upto (i r : Z) : list Z := map snd (filter (fun e => fst e <=? r) (recvs i)).
Definition recv_count_upto (i r : Z) : Z := Z.of_nat (length (vals_upto i r)).
Definition done_step (c : Z) : option Z :=
  match find (fun e => match snd e with EDone c' => c' =? c | _ => false end) ob with
  | Some e => Some (fst e) | None => None end.

Definition is_call (c : Z) : bool :=
  match nth_error sc (Z.to_nat c) with
  | Some (OSub _) | Some (OSubDead _) | Some OBcast | Some OClose => (0 <=? c)
  | _ => false
  end.

(* ---------------------------------------------------------------------------------------- *)
(* 0. the observation is about this script *)

Definition sub_exists_by (i r : Z) : bool :=
  existsb (fun e => (fst e =? i) && (fst (snd e) <=? r)) isubs.

Definition ev_valid (e : Z * oev) : bool :=
  let r := fst e in
  (0 <=? r) && (r <? nsteps) &&
  match snd e with
  | ERecv i v => sub_exists_by i r && (v <=? r) && memZ v bcasts
  | EDone c => is_call c && (c <=? r)
  end.
Definition o_valid : bool := forallb ev_valid ob.
Definition s_valid : Prop := forall e, In e ob -> ev_valid e = true.

(* ---------------------------------------------------------------------------------------- *)
(* 1. "at most once": no subscriber receives the value of one Broadcast call twice *)

Definition o_once : bool := forallb (fun e => nodupb (vals (fst e))) isubs.
Definition s_once : Prop := forall e, In e isubs -> NoDup (vals (fst e)).

(* ---------------------------------------------------------------------------------------- *)
(* 2. "one common order that respects the order of Broadcast calls": there is ONE sequence [w]
      without repetitions such that what each subscriber received is [w] with some elements left
      out, and in which call a comes before call b whenever a was seen to have returned before b
      was issued. *)

Definition returned_before (a b : Z) : bool :=
  match done_step a with Some d => d <? b | None => false end.

Definition o_order (w : list Z) : bool :=
  nodupb w
  && forallb (fun e => subseqb (vals (fst e)) w) isubs
  && forallb (fun a => match done_step a with
                       | Some d => forallb (fun b => if d <? b then precedesb a b w else true) w
                       | None => true
                       end) w.
Definition order_ok (w : list Z) : Prop :=
  NoDup w /\
  (forall e, In e isubs -> subseq (vals (fst e)) w) /\
  (forall a b, In a w -> In b w -> returned_before a b = true -> precedesb a b w = true).
Definition s_order : Prop := exists w, order_ok w.

(* ---------------------------------------------------------------------------------------- *)
(* back-pressure: after step r some subscriber that is alive and reads only on command has 12
   or more values outstanding (an over-approximation: every Broadcast issued since its Subscribe
   was issued counts) — and Close has not been called. *)

Definition bcasts_between (p r : Z) : Z :=
  Z.of_nat (length (filter (fun b => (p <? b) && (b <=? r)) bcasts)).
Definition prompt_by (e : Z * (Z * bool)) (r : Z) : bool :=
  snd (snd e) || before (readall_step (fst e)) r.
Definition excused (r : Z) : bool :=
  negb (before close_step r) &&
  existsb (fun e => let i := fst e in let p := fst (snd e) in
     (p <=? r) && negb (before (cancel_step i) r) && negb (prompt_by e r)
     && (12 <=? bcasts_between p r - recv_count_upto i r)) isubs.

(* ---------------------------------------------------------------------------------------- *)
(* 3. "received exactly once by each subscriber that subscribed before the call and stays
      subscribed while the broadcaster is open": at every step r at which back-pressure is
      impossible, a subscriber whose context has not ended, with Close not called so far, has
      received every value b <= r whose Broadcast was issued after its Subscribe was seen to
      return — unless its consumer reads on command and every command has been served. *)

Definition staying (i r : Z) : bool :=
  negb (before (cancel_step i) r) && negb (before close_step r).
Definition sub_done_before (p b : Z) : bool :=
  match done_step p with Some q => q <? b | None => false end.
Definition reads_upto (i r : Z) : Z :=
  Z.of_nat (length (filter (fun e => (fst e <=? r) &&
                              match snd e with ORead j => j =? i | _ => false end) isc)).
Definition reader_satisfied (e : Z * (Z * bool)) (r : Z) : bool :=
  negb (prompt_by e r) && (reads_upto (fst e) r <=? recv_count_upto (fst e) r).

Definition owed (e : Z * (Z * bool)) (r b : Z) : bool :=
  (b <=? r) && sub_done_before (fst (snd e)) b.

Definition o_exactly : bool :=
  forallb (fun r => if excused r then true else
    forallb (fun e => if staying (fst e) r then
                        if reader_satisfied e r then true else
                        let vs := vals_upto (fst e) r in
                        forallb (fun b => if owed e r b then memZ b vs else true) bcasts
                      else true) isubs) steps.
Definition s_exactly : Prop :=
  forall r, In r steps -> excused r = false ->
  forall e, In e isubs -> staying (fst e) r = true -> reader_satisfied e r = false ->
  forall b, In b bcasts -> owed e r b = true -> memZ b (vals_upto (fst e) r) = true.

(* ---------------------------------------------------------------------------------------- *)
(* 4. "Subscribers leaving or the Broadcaster closing at any moment never deadlock Broadcast,
      Subscribe or Close": while a call has not returned, back-pressure from a LIVE subscriber
      with Close not yet called is the only excuse, at every step. *)

Definition done_by (c r : Z) : bool :=
  match done_step c with Some d => d <=? r | None => false end.
Definition o_no_wedge : bool :=
  forallb (fun c => if is_call c then
     forallb (fun r => if c <=? r then (if done_by c r then true else excused r) else true) steps
     else true) steps.
Definition s_no_wedge : Prop :=
  forall c, In c steps -> is_call c = true ->
  forall r, In r steps -> c <= r -> done_by c r = false -> excused r = true.

(* ---------------------------------------------------------------------------------------- *)
(* 5. "nothing is delivered after Close returns": nothing is received after the step at which
      ANY Close call was seen to have returned. *)

Definition is_recv (e : oev) : bool := match e with ERecv _ _ => true | _ => false end.
Definition o_after_close : bool :=
  forallb (fun c => match done_step c with
                    | None => true
                    | Some d => forallb (fun e : Z * oev => negb (is_recv (snd e)) || (fst e <=? d)) ob
                    end) close_steps.
Definition s_after_close : Prop :=
  forall c d, In c close_steps -> done_step c = Some d ->
  forall e, In e ob -> is_recv (snd e) = true -> fst e <= d.

(* [w]: a candidate common order (computed by the harness; the oracle only CHECKS it) *)
Definition oracle (w : list Z) : bool :=
  o_valid && o_once && o_order w && o_exactly && o_no_wedge && o_after_close.

Definition spec : Prop :=
  s_valid /\ s_once /\ s_order /\ s_exactly /\ s_no_wedge /\ s_after_close.

End Script.

(* ======================================================================================== *)
(* 3. concurrent runs.  [n] subscribers with prompt consumers have subscribed (and Subscribe has
      returned) before anything else and stay to the end; Broadcast is then called from several
      goroutines.  A call is (value, stamp at its start, stamp at its return) — stamps from one
      logical clock, so "a returned before b started" is [end a < start b].  Optionally one more
      subscriber leaves (its context ends) at some moment, and one more joins late (Subscribe
      stamped like a call).  At the end everything has come to rest and each subscriber's
      sequence is read. *)

Definition call := (Z * (Z * Z))%type.
Definition c_val (c : call) : Z := fst c.
Definition c_start (c : call) : Z := fst (snd c).
Definition c_end (c : call) : Z := snd (snd c).

Section Conc.
Variable calls : list call.
Variable stay : list (list Z).          (* what each staying subscriber received *)
Variable leaver : option (list Z).      (* what the leaving subscriber received *)
Variable late : option (Z * list Z).    (* late joiner: stamp at which its Subscribe returned, what it received *)

Definition cvals : list Z := map c_val calls.

Definition same_elements (a b : list Z) : bool :=
  forallb (fun x => memZ x b) a && forallb (fun x => memZ x a) b.

Definition o_stamps (w : list Z) : bool :=
  forallb (fun a => forallb (fun b =>
     negb (c_end a <? c_start b) || precedesb (c_val a) (c_val b) w) calls) calls.

Definition conc_oracle (w : list Z) : bool :=
  nodupb cvals && nodupb w && same_elements w cvals
  && forallb (fun s => eqb_lz s w) stay
  && o_stamps w
  && match leaver with Some s => subseqb s w | None => true end
  && match late with
     | Some (t, s) => subseqb s w
                      && forallb (fun c => negb (t <? c_start c) || memZ (c_val c) s) calls
     | None => true
     end.

(* every staying subscriber received every value exactly once, all in the one order [w], which
   respects the real-time order of the calls; the leaver got [w] with elements left out (at most
   once each); the late joiner likewise, and every value whose Broadcast started after its
   Subscribe had returned *)
Definition conc_ok (w : list Z) : Prop :=
  NoDup cvals /\ NoDup w /\ (forall x, In x w <-> In x cvals) /\
  (forall s, In s stay -> s = w) /\
  (forall a b, In a calls -> In b calls -> c_end a < c_start b ->
     precedesb (c_val a) (c_val b) w = true) /\
  (forall s, leaver = Some s -> subseq s w) /\
  (forall t s, late = Some (t, s) ->
     subseq s w /\ forall c, In c calls -> t < c_start c -> In (c_val c) s).
Definition conc_spec : Prop := exists w, conc_ok w.

End Conc.

(* ======================================================================================== *)
(* 4. rushed runs ("nothing is delivered after Close returns", under races).  Subscribe (of
      unbuffered channels nobody reads), Broadcast and Close are called back to back by one
      goroutine, or all at once from several, Close possibly several times; only AFTER some
      Close call has returned (other calls may still be running) does a consumer start receiving
      from each channel.  Whatever such a consumer receives was handed over after a Close had
      returned.  [late] = per subscriber, what its
      consumer received (over all repetitions of the run). *)

Definition is_nil (l : list Z) : bool := match l with [] => true | _ => false end.
Definition rush_oracle (late : list (list Z)) : bool := forallb is_nil late.
Definition rush_spec (late : list (list Z)) : Prop := forall l, In l late -> l = [].

(* ======================================================================================== *)
(* 5. concurrent runs in which Close is called meanwhile (once or several times, from separate
      goroutines; [closes] = (start stamp, return stamp) of each Close call).  Once the
      broadcaster is closing nobody is promised anything any more, so what remains is: at most
      once, one common order respecting the calls' real-time order, and no value whose Broadcast
      STARTED after some Close had RETURNED.  [seqs] = what each subscriber (staying, leaving,
      joining late) received. *)

Section ConcClose.
Variable calls : list call.
Variable seqs : list (list Z).
Variable closes : list (Z * Z).

Definition late_started (c : call) : bool := existsb (fun cl => snd cl <? c_start c) closes.

Definition cc_oracle (w : list Z) : bool :=
  nodupb (cvals calls) && nodupb w
  && forallb (fun x => memZ x (cvals calls)) w
  && forallb (fun s => subseqb s w) seqs
  && forallb (fun a => forallb (fun b =>
       if (c_end a <? c_start b) && memZ (c_val a) w && memZ (c_val b) w
       then precedesb (c_val a) (c_val b) w else true) calls) calls
  && forallb (fun s => forallb (fun c => if late_started c then negb (memZ (c_val c) s) else true)
                               calls) seqs.

Definition cc_ok (w : list Z) : Prop :=
  NoDup (cvals calls) /\ NoDup w /\ (forall x, In x w -> In x (cvals calls)) /\
  (forall s, In s seqs -> subseq s w) /\
  (forall a b, In a calls -> In b calls -> c_end a < c_start b ->
     In (c_val a) w -> In (c_val b) w -> precedesb (c_val a) (c_val b) w = true) /\
  (forall s c, In s seqs -> In c calls -> late_started c = true -> ~ In (c_val c) s).
Definition cc_spec : Prop := exists w, cc_ok w.

End ConcClose.

(* ======================================================================================== *)
(* 6. one channel subscribed several times.  The same channel is passed to Subscribe [k] times
      (in one call or in several): these are [k] subscriptions, so its consumer (reading
      promptly) must see every value once PER subscription.  [nb] Broadcasts of the values
      1..nb, one after the other; optionally the context of one of the [k] subscriptions ends
      after [m] of them.  [shared] = what the consumer of the shared channel received, [other] =
      what an ordinary subscriber received.  The r-th occurrences of the values in [shared]
      (r = 0: first occurrences, ...) form the sequence of "the r-th fastest subscription". *)

Fixpoint countz (x : Z) (l : list Z) : nat :=
  match l with [] => O | y :: t => (if x =? y then 1 else 0) + countz x t end.
Fixpoint ranked (seen l : list Z) : list (nat * Z) :=
  match l with
  | [] => []
  | x :: t => (countz x seen, x) :: ranked (x :: seen) t
  end.
Definition rank_seq (r : nat) (l : list Z) : list Z :=
  map snd (filter (fun p => Nat.eqb (fst p) r) (ranked [] l)).
Definition zs (n : nat) : list Z := map Z.of_nat (seq 1 n).

Definition dup_expected (k nb : nat) (leave : option nat) (r : nat) : list Z :=
  if (S r <? k)%nat then zs nb
  else if (S r =? k)%nat then match leave with Some m => zs m | None => zs nb end
  else [].

Definition dup_oracle (k nb : nat) (leave : option nat) (shared other : list Z) : bool :=
  eqb_lz other (zs nb)
  && forallb (fun r => eqb_lz (rank_seq r shared) (dup_expected k nb leave r)) (seq 0 (S k)).

(* every subscription of the shared channel delivers every value exactly once, in order (the one
   that leaves: the first m); nothing arrives more than k times; the ordinary subscriber is
   unaffected *)
Definition dup_spec (k nb : nat) (leave : option nat) (shared other : list Z) : Prop :=
  other = zs nb /\
  forall r, (r <= k)%nat -> rank_seq r shared = dup_expected k nb leave r.
