(* C11 — safety of the Broadcaster event system of C11/Model.v, over ALL schedules and for BOTH
   variants: one common order (fanout), real-time order of calls, exactly-once for subscribers
   that stay while the broadcaster is open, at-most-once for everybody, nothing delivered after
   Close has returned.  Standard library only, no axioms. *)
From Kit Require Import C11.Model C11.Spec.
From Coq Require Import List ZArith Bool Lia Permutation.
Import ListNotations.
Local Open Scope nat_scope.

(* ======================================================================================== *)
(* lists *)

Lemma memz_In v l : memz v l = true <-> In v l.
Proof.
  unfold memz. rewrite existsb_exists. split.
  - intros (x & Hx & E). apply Z.eqb_eq in E. subst x. exact Hx.
  - intro H. exists v. split; [exact H | apply Z.eqb_refl].
Qed.

Lemma memz_false v l : memz v l = false -> ~ In v l.
Proof. intros H Hin. apply memz_In in Hin. congruence. Qed.

Lemma memZ_In v l : memZ v l = true <-> In v l.
Proof. exact (memz_In v l). Qed.

Lemma nth_error_upd_nth {A} i (x : A) l j :
  nth_error (upd_nth i x l) j =
  if i =? j then match nth_error l i with Some _ => Some x | None => None end
  else nth_error l j.
Proof.
  revert i j. induction l as [|h t IH]; intros i j.
  - cbn [upd_nth]. destruct (i =? j); destruct i, j; reflexivity.
  - destruct i as [|i]; destruct j as [|j]; cbn [upd_nth nth_error Nat.eqb]; try reflexivity.
    apply IH.
Qed.

Lemma nth_error_snoc {A} (l : list A) x i a :
  nth_error (l ++ [x]) i = Some a ->
  nth_error l i = Some a \/ (i = length l /\ a = x /\ nth_error l i = None).
Proof.
  intro H. destruct (Nat.lt_ge_cases i (length l)) as [Hlt|Hge].
  - left. rewrite nth_error_app1 in H by exact Hlt. exact H.
  - right. assert (Hn : nth_error l i = None) by (apply nth_error_None; exact Hge).
    rewrite nth_error_app2 in H by exact Hge.
    destruct (i - length l) as [|k] eqn:E.
    + cbn in H. injection H as <-. repeat split; [lia | exact Hn].
    + cbn in H. destruct k; discriminate H.
Qed.

Lemma remove_nth_split {A} (l : list A) j v :
  nth_error l j = Some v -> exists l1 l2, l = l1 ++ v :: l2 /\ remove_nth j l = l1 ++ l2.
Proof.
  revert j. induction l as [|h t IH]; intros j H.
  - destruct j; discriminate H.
  - destruct j as [|j]; cbn [nth_error remove_nth] in *.
    + injection H as ->. exists [], t. split; reflexivity.
    + destruct (IH j H) as (l1 & l2 & E1 & E2). exists (h :: l1), l2.
      cbn [app]. rewrite <- E1, E2. split; reflexivity.
Qed.

Lemma skipn_snoc {A} n (l : list A) x : n <= length l -> skipn n (l ++ [x]) = skipn n l ++ [x].
Proof.
  intro H. rewrite skipn_app. replace (n - length l) with 0 by lia. reflexivity.
Qed.

(* ---------------------------------------------------------------------------------------- *)
(* subseq *)

Lemma subseq_refl a : subseq a a.
Proof. induction a; constructor; assumption. Qed.

Lemma subseq_trans a b c : subseq a b -> subseq b c -> subseq a c.
Proof.
  intros Hab Hbc. revert a Hab. induction Hbc as [c|x b c Hbc IH|y b c Hbc IH]; intros a Hab.
  - inversion Hab; subst. constructor.
  - inversion Hab; subst.
    + constructor.
    + constructor. apply IH. assumption.
    + apply subseq_drop. apply IH. assumption.
  - apply subseq_drop. apply IH. exact Hab.
Qed.

Lemma subseq_app a a' b b' : subseq a a' -> subseq b b' -> subseq (a ++ b) (a' ++ b').
Proof.
  intros Ha Hb. induction Ha as [a'|x a a' Ha IH|y a a' Ha IH]; cbn [app].
  - induction a' as [|y a' IH]; cbn [app]; [exact Hb | apply subseq_drop; exact IH].
  - constructor. exact IH.
  - apply subseq_drop. exact IH.
Qed.

Lemma subseq_app_l a c m : subseq (a ++ c) m -> subseq a m.
Proof.
  apply subseq_trans. rewrite <- (app_nil_r a) at 1.
  apply subseq_app; [apply subseq_refl | constructor].
Qed.

Lemma subseq_drop_mid a h c m : subseq (a ++ h ++ c) m -> subseq (a ++ c) m.
Proof.
  apply subseq_trans. apply subseq_app; [apply subseq_refl|].
  change c with ([] ++ c) at 1. apply subseq_app; [constructor | apply subseq_refl].
Qed.

Lemma subseq_In a b x : subseq a b -> In x a -> In x b.
Proof.
  intro H. induction H as [b|y a b H IH|y a b H IH]; intro Hin.
  - destruct Hin.
  - destruct Hin as [->|Hin]; [left; reflexivity | right; apply IH; exact Hin].
  - right. apply IH. exact Hin.
Qed.

Lemma subseq_NoDup a b : subseq a b -> NoDup b -> NoDup a.
Proof.
  intro H. induction H as [b|y a b H IH|y a b H IH]; intro Hnd.
  - constructor.
  - inversion Hnd; subst. constructor; [|apply IH; assumption].
    intro Hin. eapply subseq_In in Hin; [|exact H]. contradiction.
  - inversion Hnd; subst. apply IH. assumption.
Qed.

Lemma subseq_skipn n b : subseq (skipn n b) b.
Proof.
  revert b. induction n as [|n IH]; intro b; [apply subseq_refl|].
  destruct b as [|x b]; cbn [skipn]; [constructor | apply subseq_drop; apply IH].
Qed.

Lemma precedesb_app a b l1 l2 : In a l1 -> In b l2 -> precedesb a b (l1 ++ l2) = true.
Proof.
  intros Ha Hb. induction l1 as [|x l1 IH]; [destruct Ha|].
  cbn [app precedesb]. destruct (Z.eqb x a) eqn:E.
  - apply memZ_In. apply in_or_app. right. exact Hb.
  - apply IH. destruct Ha as [->|Ha]; [rewrite Z.eqb_refl in E; discriminate E | exact Ha].
Qed.

(* ======================================================================================== *)
(* steps *)

Ltac simp_st :=
  cbn [set_subs set_lock set_closed set_cl set_cl2 set_bq set_pend_subs set_pend_dead set_fanout
       set_issued set_bret set_sret
       subs lock closed cl cl2 bq pend_subs pend_dead fanout issued bret sret
       sb_prompt sb_wants sb_buf sb_fwd sb_ctx_done sb_exit_closed sb_registered sb_received
       prompt wants buf fwd ctx_done exit_closed registered received start
       new_sub dropped_sub] in *.

(* decompose [H : step vr s e = Some s'] (after [destruct e]) along the guards of [step] *)
Ltac step_inv H :=
  unfold step, with_sub in H; cbv beta in H;
  repeat match type of H with
         | match ?x with _ => _ end = Some _ => destruct x eqn:?; try discriminate H
         end;
  injection H as <-;
  repeat match goal with
         | Hx : match ?x with _ => _ end = Some _ |- _ =>
             destruct x eqn:?; try discriminate Hx
         end;
  repeat match goal with Hx : Some _ = Some _ |- _ => injection Hx as <- end.

Lemma run_inv vr (P : st -> Prop) :
  (forall s e s', P s -> step vr s e = Some s' -> P s') ->
  forall es s s', P s -> run vr s es = Some s' -> P s'.
Proof.
  intros Hstep es. induction es as [|e es IH]; intros s s' Hs H; cbn [run] in H.
  - injection H as <-. exact Hs.
  - destruct (step vr s e) as [s1|] eqn:E; [|discriminate H].
    eapply IH; [eapply Hstep; eassumption | exact H].
Qed.

(* ======================================================================================== *)
(* global invariant: the ghost lists *)

Record InvG (s : st) : Prop := mkInvG {
  g_nodup : NoDup (fanout s ++ bq s);
  g_incl : forall v, In v (fanout s ++ bq s) -> In v (issued s);
  g_held : forall v idx, lock s = Held v idx -> exists pre, fanout s = pre ++ [v];
  g_bret : forall v, In v (bret s) -> In v (issued s) /\ ~ In v (bq s)
}.

Lemma InvG_init : InvG init.
Proof.
  constructor; cbn.
  - constructor.
  - intros v [].
  - intros v idx H. discriminate H.
  - intros v [].
Qed.

Lemma NoDup_app_disj {A} (a b : list A) x : NoDup (a ++ b) -> In x a -> ~ In x b.
Proof.
  induction a as [|y a IH]; intros Hnd Hin; [destruct Hin|].
  cbn [app] in Hnd. inversion Hnd; subst.
  destruct Hin as [->|Hin]; [|apply IH; assumption].
  intro Hb. apply H1. apply in_or_app. right. exact Hb.
Qed.

Lemma InvG_step vr s e s' : InvG s -> step vr s e = Some s' -> InvG s'.
Proof.
  intros [G1 G2 G3 G4] H. destruct e; step_inv H; simp_st;
    try solve [constructor; simp_st; try assumption; intros ? ? E; congruence].
  - (* BcCall *)
    apply memz_false in Heqb. constructor; simp_st; try assumption.
    + rewrite app_assoc. eapply Permutation_NoDup; [apply Permutation_cons_append|].
      constructor; [intro Hin; apply G2 in Hin; contradiction | exact G1].
    + intros v0 Hin. rewrite app_assoc in Hin.
      apply in_app_or in Hin as [Hin|[<-|[]]]; apply in_or_app;
        [left; apply G2; exact Hin | right; left; reflexivity].
    + intros v0 Hin. destruct (G4 v0 Hin) as [Hi Hq].
      split; [apply in_or_app; left; exact Hi|].
      intro Hc. apply in_app_or in Hc as [Hc|[<-|[]]]; contradiction.
  - (* BcLock, closed *)
    destruct (remove_nth_split _ _ _ Heqo) as (l1 & l2 & E1 & E2). rewrite E2, E1 in *.
    rewrite app_assoc in G1.
    constructor; simp_st.
    + rewrite app_assoc. eapply NoDup_remove_1; exact G1.
    + intros v0 Hin. apply G2. rewrite !in_app_iff in *. cbn [In]. tauto.
    + intros ? ? E; congruence.
    + intros v0 Hin. apply in_app_or in Hin as [Hin|[<-|[]]].
      * destruct (G4 v0 Hin) as [Hi Hq]. split; [exact Hi|].
        intro Hc. apply Hq. rewrite !in_app_iff in *. cbn [In]. tauto.
      * split; [apply G2; rewrite !in_app_iff; cbn [In]; tauto|].
        apply NoDup_remove_2 in G1. intro Hc. apply G1. rewrite !in_app_iff in *. tauto.
  - (* BcLock, open *)
    destruct (remove_nth_split _ _ _ Heqo) as (l1 & l2 & E1 & E2). rewrite E2, E1 in *.
    constructor; simp_st.
    + eapply Permutation_NoDup; [|exact G1].
      rewrite <- app_assoc. apply Permutation_app_head. cbn [app].
      symmetry. apply Permutation_middle.
    + intros v0 Hin. apply G2. rewrite !in_app_iff in *. cbn [In] in *. tauto.
    + intros v0 idx E. injection E as <- <-. exists (fanout s). reflexivity.
    + intros v0 Hin. destruct (G4 v0 Hin) as [Hi Hq]. split; [exact Hi|].
      intro Hc. apply Hq. rewrite !in_app_iff in *. cbn [In]. tauto.
  - (* BcSend *)
    constructor; simp_st; try assumption.
    intros v0 idx0 E. injection E as <- _. exact (G3 v idx eq_refl).
  - (* BcSkip *)
    constructor; simp_st; try assumption.
    intros v0 idx0 E. injection E as <- _. exact (G3 v idx eq_refl).
  - (* BcEnd *)
    constructor; simp_st; try assumption.
    + intros ? ? E; discriminate E.
    + intros v0 Hin. apply in_app_or in Hin as [Hin|[<-|[]]]; [apply G4; exact Hin|].
      destruct (G3 v idx eq_refl) as [pre Hpre].
      assert (Hf : In v (fanout s)) by (rewrite Hpre; apply in_or_app; right; left; reflexivity).
      split; [apply G2; apply in_or_app; left; exact Hf|].
      eapply NoDup_app_disj; eassumption.
Qed.

(* ======================================================================================== *)
(* per-subscriber invariant: the accounting *)

Definition tc (lk : lockst) (i : nat) : list val :=
  match lk with Held v idx => if idx <=? i then [v] else [] | Free => [] end.

Lemma in_flight_eq s i b : in_flight s i b = hold b ++ buf b ++ tc (lock s) i.
Proof. reflexivity. Qed.

Lemma tc_ge v idx k : idx <= k -> tc (Held v idx) k = [v].
Proof. intro H. cbn [tc]. apply Nat.leb_le in H. rewrite H. reflexivity. Qed.

Lemma tc_lt v idx k : k < idx -> tc (Held v idx) k = [].
Proof. intro H. cbn [tc]. apply Nat.leb_gt in H. rewrite H. reflexivity. Qed.

Definition subok (f : list val) (lk : lockst) (cls : bool) (i : nat) (b : sub) : Prop :=
  start b <= length f /\
  subseq (received b ++ hold b ++ buf b ++ tc lk i) (skipn (start b) f) /\
  (ctx_done b = false -> cls = false ->
   (fwd b = Idle \/ exists h, fwd b = Holding h) /\ registered b = true /\
   exit_closed b = false /\
   skipn (start b) f = received b ++ hold b ++ buf b ++ tc lk i).

Definition InvS (s : st) : Prop :=
  forall i b, nth_error (subs s) i = Some b -> subok (fanout s) (lock s) (closed s) i b.

Lemma InvS_init : InvS init.
Proof. intros i b H. destruct i; discriminate H. Qed.

Lemma InvS_upd sbs f lk cls i b b' :
  (forall k bk, nth_error sbs k = Some bk -> subok f lk cls k bk) ->
  nth_error sbs i = Some b ->
  (subok f lk cls i b -> subok f lk cls i b') ->
  forall k bk, nth_error (upd_nth i b' sbs) k = Some bk -> subok f lk cls k bk.
Proof.
  intros I Hi Hb k bk Hk. rewrite nth_error_upd_nth in Hk. destruct (i =? k) eqn:E.
  - apply Nat.eqb_eq in E. subst k. rewrite Hi in Hk. injection Hk as <-. apply Hb, I, Hi.
  - apply I, Hk.
Qed.

Ltac rw_sub :=
  repeat match goal with
         | Hf : fwd _ = _ |- _ => rewrite Hf in *
         | Hf : buf _ = _ |- _ => rewrite Hf in *
         end.

Ltac upd_case I :=
  match goal with
  | Hn : nth_error (subs _) _ = Some _ |- _ => apply (InvS_upd _ _ _ _ _ _ _ I Hn)
  end;
  unfold subok, hold; simp_st; rw_sub; cbn [app].

Lemma InvS_step vr s e s' : InvS s -> step vr s e = Some s' -> InvS s'.
Proof.
  intros I H. destruct e; step_inv H; unfold InvS in *; simp_st;
    try match goal with Hl : lock s = _ |- _ => rewrite Hl in * end;
    try match goal with Hl : closed s = _ |- _ => rewrite Hl in * end;
    try exact I.
  - (* Cancel *)
    upd_case I. intros (P1 & P2 & P3). repeat split; try assumption; discriminate.
  - (* Want *)
    upd_case I. tauto.
  - (* WantAll *)
    upd_case I. tauto.
  - (* CloseCall *)
    intros k bk Hk. destruct (I k bk Hk) as (P1 & P2 & P3). split; [|split]; try assumption.
    intros Hc Hcl. apply orb_false_iff in Hcl as [_ Hcl]. auto.
  - (* Close2Call *)
    intros k bk Hk. destruct (I k bk Hk) as (P1 & P2 & P3). split; [|split]; try assumption.
    intros Hc Hcl. apply orb_false_iff in Hcl as [_ Hcl]. auto.
  - (* BcLock, open *)
    intros k bk Hk. destruct (I k bk Hk) as (P1 & P2 & P3). unfold subok in *.
    rewrite tc_ge by lia. cbn [tc] in *. rewrite app_nil_r in *.
    rewrite skipn_snoc by exact P1. rewrite app_length. cbn [length].
    replace (received bk ++ hold bk ++ buf bk ++ [v])
      with ((received bk ++ hold bk ++ buf bk) ++ [v]) by (rewrite <- !app_assoc; reflexivity).
    split; [lia|]. split; [apply subseq_app; [exact P2 | apply subseq_refl]|].
    intros Hc Hcl. destruct (P3 Hc Hcl) as (Q1 & Q2 & Q3 & Q4).
    repeat split; try assumption. rewrite Q4. reflexivity.
  - (* BcSend *)
    intros k bk Hk. rewrite nth_error_upd_nth in Hk. destruct (idx =? k) eqn:E.
    + apply Nat.eqb_eq in E. subst k. rewrite Heqo in Hk. injection Hk as <-.
      destruct (I idx s0 Heqo) as (P1 & P2 & P3). unfold subok, hold in *. simp_st.
      rewrite tc_ge in * by lia. rewrite tc_lt by lia.
      rewrite app_nil_r. auto.
    + apply Nat.eqb_neq in E. destruct (I k bk Hk) as (P1 & P2 & P3). unfold subok in *.
      replace (tc (Held v (S idx)) k) with (tc (Held v idx) k); [auto|].
      destruct (Nat.lt_ge_cases k idx); [rewrite !tc_lt by lia | rewrite !tc_ge by lia];
        reflexivity.
  - (* BcSkip *)
    intros k bk Hk. destruct (I k bk Hk) as (P1 & P2 & P3). unfold subok in *.
    destruct (Nat.eq_dec k idx) as [->|Hne].
    + rewrite Heqo in Hk. injection Hk as <-.
      rewrite tc_ge in * by lia. rewrite tc_lt by lia. rewrite app_nil_r.
      split; [exact P1|]. split.
      * apply subseq_app_l with (c := [v]). rewrite <- !app_assoc. exact P2.
      * intros Hc Hcl. destruct (P3 Hc Hcl) as (Q1 & Q2 & Q3 & Q4).
        rewrite Q2, Q3, Hcl in Heqb. discriminate Heqb.
    + replace (tc (Held v (S idx)) k) with (tc (Held v idx) k); [auto|].
      destruct (Nat.lt_ge_cases k idx); [rewrite !tc_lt by lia | rewrite !tc_ge by lia];
        reflexivity.
  - (* BcEnd *)
    intros k bk Hk. destruct (I k bk Hk) as (P1 & P2 & P3). unfold subok in *.
    assert (Hlt : k < idx).
    { apply nth_error_None in Heqo. assert (k < length (subs s)); [|lia].
      apply nth_error_Some. rewrite Hk. discriminate. }
    rewrite tc_lt in * by exact Hlt. cbn [tc]. auto.
  - (* FwdTake *)
    upd_case I. intros (P1 & P2 & P3). split; [|split]; try assumption.
    intros Hc Hcl. destruct (P3 Hc Hcl) as (Q1 & Q2 & Q3 & Q4).
    repeat split; try assumption. right. eexists. reflexivity.
  - (* FwdDeliver *)
    upd_case I. rewrite <- !app_assoc. cbn [app].
    intros (P1 & P2 & P3). split; [|split]; try assumption.
    intros Hc Hcl. destruct (P3 Hc Hcl) as (Q1 & Q2 & Q3 & Q4).
    repeat split; try assumption. left. reflexivity.
  - (* FwdSeeDone, Idle *)
    upd_case I. intros (P1 & P2 & P3). split; [|split]; try assumption.
    intros Hc Hcl. unfold departing in *. rewrite Hc, Hcl in *. discriminate.
  - (* FwdSeeDone, Holding *)
    upd_case I. intros (P1 & P2 & P3). split; [|split]; try assumption.
    + apply (subseq_drop_mid (received s0) [v]). exact P2.
    + intros Hc Hcl. unfold departing in *. rewrite Hc, Hcl in *. discriminate.
  - (* FwdExitLocked *)
    upd_case I. intros (P1 & P2 & P3). split; [|split]; try assumption.
    intros Hc Hcl. destruct (P3 Hc Hcl) as ([Q1|[h Q1]] & _); discriminate Q1.
  - (* SubLocked *)
    intros k bk Hk. apply nth_error_snoc in Hk as [Hk|(Hk1 & -> & Hk2)]; [apply I, Hk|].
    unfold subok, hold. cbn [tc]. destruct (closed s); simp_st; rewrite skipn_all;
      (split; [lia|]); (split; [constructor|]); intros; repeat split; auto; discriminate.
  - (* CloseLock *)
    intros k bk Hk. destruct (I k bk Hk) as (P1 & P2 & P3). split; [|split]; try assumption.
    intros _ Hcl. discriminate Hcl.
  - (* Close2Lock *)
    intros k bk Hk. destruct (I k bk Hk) as (P1 & P2 & P3). split; [|split]; try assumption.
    intros _ Hcl. discriminate Hcl.
Qed.

Lemma reach_inv vr es s : run vr init es = Some s -> InvG s /\ InvS s.
Proof.
  apply (run_inv vr (fun s => InvG s /\ InvS s)).
  - intros s0 e s1 [HG HS] Hst. split; [eapply InvG_step | eapply InvS_step]; eassumption.
  - split; [apply InvG_init | apply InvS_init].
Qed.

(* ======================================================================================== *)
(* T1: one common order *)

(* closing a conjunction of concrete computations (left to right: the first conjunct determines
   the state) without ever asking the unifier to evaluate [run] *)
Ltac ex_conj := repeat (split; [vm_compute; reflexivity|]); vm_compute; reflexivity.

Definition ex_sched : list ev :=
  [SubCall 0 true; SubLocked 0; BcCall 1%Z; BcLock 0; BcSend; BcEnd; FwdTake 0; FwdDeliver 0;
   BcCall 2%Z; BcLock 0; BcSend; BcEnd; BcCall 3%Z; BcLock 0].

Theorem main_total_order : forall vr es s, run vr init es = Some s ->
  NoDup (fanout s) /\
  forall i b, nth_error (subs s) i = Some b ->
    subseq (received b ++ in_flight s i b) (skipn (start b) (fanout s)).
Proof.
  intros vr es s Hr. destruct (reach_inv _ _ _ Hr) as [HG HS]. split.
  - eapply subseq_NoDup; [|apply (g_nodup s HG)].
    eapply subseq_app_l. apply subseq_refl.
  - intros i b Hb. rewrite in_flight_eq. apply (HS i b Hb).
Qed.

(* non-vacuity: one subscriber; 1 delivered, 2 buffered, 3 in progress *)
Example main_total_order_nonvacuous : forall vr, exists s b,
  run vr init ex_sched = Some s /\ nth_error (subs s) 0 = Some b /\
  fanout s = [1; 2; 3]%Z /\ received b = [1]%Z /\ in_flight s 0 b = [2; 3]%Z.
Proof. intros []; eexists; eexists; ex_conj. Qed.

(* ======================================================================================== *)
(* T2: exactly once while staying and open *)

Theorem main_exactly_once : forall vr es s i b, run vr init es = Some s ->
  nth_error (subs s) i = Some b -> ctx_done b = false -> closed s = false ->
  skipn (start b) (fanout s) = received b ++ in_flight s i b.
Proof.
  intros vr es s i b Hr Hb Hc Hcl. destruct (reach_inv _ _ _ Hr) as [HG HS].
  rewrite in_flight_eq. apply (HS i b Hb); assumption.
Qed.

Example main_exactly_once_nonvacuous : forall vr, exists s b,
  run vr init ex_sched = Some s /\ nth_error (subs s) 0 = Some b /\
  ctx_done b = false /\ closed s = false /\ skipn (start b) (fanout s) = [1; 2; 3]%Z.
Proof. intros []; eexists; eexists; ex_conj. Qed.

Theorem main_exactly_once_at_rest : forall vr es s i b, run vr init es = Some s ->
  nth_error (subs s) i = Some b -> ctx_done b = false -> closed s = false ->
  stuck vr s -> prompt b = true -> lock s = Free ->
  received b = skipn (start b) (fanout s).
Proof.
  intros vr es s i b Hr Hb Hc Hcl Hst Hp Hl. destruct (reach_inv _ _ _ Hr) as [HG HS].
  destruct (HS i b Hb) as (P1 & P2 & P3). destruct (P3 Hc Hcl) as (Q1 & Q2 & Q3 & Q4).
  rewrite Q4, Hl. cbn [tc]. unfold hold. destruct Q1 as [Q1|[h Q1]]; rewrite Q1.
  - destruct (buf b) as [|v r] eqn:Hbuf; [rewrite !app_nil_r; reflexivity|].
    exfalso. specialize (Hst (FwdTake i) eq_refl). unfold step, with_sub in Hst.
    rewrite Hb, Q1, Hbuf in Hst. discriminate Hst.
  - exfalso. specialize (Hst (FwdDeliver i) eq_refl). unfold step, with_sub in Hst.
    rewrite Hb, Q1 in Hst. unfold consumer_ready in Hst. rewrite Hp in Hst.
    cbn [orb] in Hst. discriminate Hst.
Qed.

(* non-vacuity: a prompt subscriber, two complete Broadcasts, everything delivered, at rest *)
Definition rest_sched : list ev :=
  [SubCall 0 true; SubLocked 0; BcCall 1%Z; BcLock 0; BcSend; BcEnd; FwdTake 0; FwdDeliver 0;
   BcCall 2%Z; BcLock 0; BcSend; BcEnd; FwdTake 0; FwdDeliver 0].
Definition rest_st : st :=
  mkSt [mkSub true 0 [] Idle false false true [1; 2]%Z 0] Free false CNone CNone [] [] []
       [1; 2]%Z [1; 2]%Z [1; 2]%Z [0%Z].

Lemma rest_st_stuck vr : stuck vr rest_st.
Proof.
  intros e He. destruct e; try discriminate He; try reflexivity;
    match goal with |- step _ _ (_ ?n) = None => destruct n as [|[|?]]; reflexivity end.
Qed.

Example main_exactly_once_at_rest_nonvacuous : forall vr, exists s b,
  run vr init rest_sched = Some s /\ nth_error (subs s) 0 = Some b /\
  ctx_done b = false /\ closed s = false /\ stuck vr s /\ prompt b = true /\ lock s = Free /\
  received b = [1; 2]%Z.
Proof.
  intro vr. exists rest_st. eexists.
  split; [destruct vr; vm_compute; reflexivity|].
  split; [vm_compute; reflexivity|].
  split; [vm_compute; reflexivity|].
  split; [vm_compute; reflexivity|].
  split; [apply rest_st_stuck|].
  ex_conj.
Qed.

(* ======================================================================================== *)
(* T3: at most once, for every subscriber *)

Theorem main_at_most_once : forall vr es s i b, run vr init es = Some s ->
  nth_error (subs s) i = Some b -> NoDup (received b).
Proof.
  intros vr es s i b Hr Hb. destruct (main_total_order vr es s Hr) as [Hnd Hsub].
  specialize (Hsub i b Hb). eapply subseq_NoDup; [|exact Hnd].
  eapply subseq_trans; [|apply subseq_skipn]. eapply subseq_app_l. exact Hsub.
Qed.

Example main_at_most_once_nonvacuous : forall vr, exists s b,
  run vr init rest_sched = Some s /\ nth_error (subs s) 0 = Some b /\ received b = [1; 2]%Z.
Proof. intros []; eexists; eexists; ex_conj. Qed.

(* ======================================================================================== *)
(* T1b: the common order respects the real-time order of Broadcast calls *)

Lemma remove_nth_In {A} j (l : list A) x : In x (remove_nth j l) -> In x l.
Proof.
  revert j. induction l as [|h t IH]; intros j H; [destruct j; exact H|].
  destruct j as [|j]; cbn [remove_nth] in H; [right; exact H|].
  destruct H as [->|H]; [left; reflexivity | right; eapply IH; exact H].
Qed.

(* one step: fanout grows by values taken from bq; bq grows by fresh values; issued grows *)
Lemma step_fan vr s e s' : step vr s e = Some s' ->
  exists d, fanout s' = fanout s ++ d /\
    (forall v, In v d -> In v (bq s)) /\
    (forall v, In v (bq s') -> In v (bq s) \/ ~ In v (issued s)) /\
    (forall v, In v (issued s) -> In v (issued s')).
Proof.
  intro H. destruct e; step_inv H; simp_st;
    try solve [exists []; rewrite app_nil_r; repeat split; auto; intros v0 []].
  - (* BcCall *)
    exists []. rewrite app_nil_r. apply memz_false in Heqb. repeat split.
    + intros v0 [].
    + intros v0 Hin. apply in_app_or in Hin as [Hin|[<-|[]]]; [left; exact Hin | right; exact Heqb].
    + intros v0 Hin. apply in_or_app. left. exact Hin.
  - (* BcLock, closed *)
    exists []. rewrite app_nil_r. repeat split; auto.
    + intros v0 [].
    + intros v0 Hin. left. eapply remove_nth_In. exact Hin.
  - (* BcLock, open *)
    exists [v]. repeat split; auto.
    + intros v0 [<-|[]]. eapply nth_error_In. exact Heqo.
    + intros v0 Hin. left. eapply remove_nth_In. exact Hin.
Qed.

Lemma run_fan vr es : forall s1 s2, run vr s1 es = Some s2 ->
  exists ext, fanout s2 = fanout s1 ++ ext /\
    forall v, In v ext -> In v (bq s1) \/ ~ In v (issued s1).
Proof.
  induction es as [|e es IH]; intros s1 s2 H; cbn [run] in H.
  - injection H as <-. exists []. rewrite app_nil_r. split; [reflexivity | intros v []].
  - destruct (step vr s1 e) as [s1'|] eqn:E; [|discriminate H].
    destruct (step_fan _ _ _ _ E) as (d & F1 & F2 & F3 & F4).
    destruct (IH _ _ H) as (ext & X1 & X2).
    exists (d ++ ext). split; [rewrite X1, F1, app_assoc; reflexivity|].
    intros v Hin. apply in_app_or in Hin as [Hin|Hin]; [left; apply F2; exact Hin|].
    destruct (X2 v Hin) as [Hq|Hi]; [apply F3; exact Hq | right; intro Hc; apply Hi, F4, Hc].
Qed.

Theorem main_call_order : forall vr es1 s1 vB s1' es2 s2 vA,
  run vr init es1 = Some s1 -> step vr s1 (BcCall vB) = Some s1' -> run vr s1' es2 = Some s2 ->
  In vA (bret s1) -> In vA (fanout s2) -> In vB (fanout s2) ->
  precedesb vA vB (fanout s2) = true.
Proof.
  intros vr es1 s1 vB s1' es2 s2 vA Hr1 Hst Hr2 HA HAf HBf.
  destruct (reach_inv _ _ _ Hr1) as [HG _].
  unfold step in Hst. destruct (memz vB (issued s1)) eqn:E; [discriminate Hst|].
  injection Hst as <-. apply memz_false in E.
  destruct (run_fan _ _ _ _ Hr2) as (ext & X1 & X2). simp_st.
  destruct (g_bret s1 HG vA HA) as [HAi HAq].
  rewrite X1 in *. apply precedesb_app.
  - apply in_app_or in HAf as [HAf|HAf]; [exact HAf|]. exfalso.
    destruct (X2 vA HAf) as [Hq|Hi].
    + apply in_app_or in Hq as [Hq|[<-|[]]]; contradiction.
    + apply Hi. apply in_or_app. left. exact HAi.
  - apply in_app_or in HBf as [HBf|HBf]; [|exact HBf]. exfalso.
    apply E. apply (g_incl s1 HG). apply in_or_app. left. exact HBf.
Qed.

Example main_call_order_nonvacuous : forall vr, exists s1 s1' s2,
  run vr init [SubCall 0 true; SubLocked 0; BcCall 1%Z; BcLock 0; BcSend; BcEnd] = Some s1 /\
  step vr s1 (BcCall 2%Z) = Some s1' /\ run vr s1' [BcLock 0; BcSend; BcEnd] = Some s2 /\
  In 1%Z (bret s1) /\ In 1%Z (fanout s2) /\ In 2%Z (fanout s2).
Proof.
  intros []; eexists; eexists; eexists;
    (split; [vm_compute; reflexivity|]); (split; [vm_compute; reflexivity|]);
    (split; [vm_compute; reflexivity|]); vm_compute; auto.
Qed.

(* ======================================================================================== *)
(* T4: nothing is delivered after Close has returned *)

Definition closing (s : st) : Prop :=
  cl s = CWaitFwd \/ cl s = CReturned \/ cl2 s = CWaitFwd \/ cl2 s = CReturned.
Definition returned (s : st) : Prop := cl s = CReturned \/ cl2 s = CReturned.

Definition InvC (s : st) : Prop :=
  (closing s -> closed s = true) /\
  (returned s -> forall i b, nth_error (subs s) i = Some b -> fwd b = Exited).

Lemma InvC_init : InvC init.
Proof.
  split; cbn.
  - intros [H|[H|[H|H]]]; discriminate H.
  - intros [H|H]; discriminate H.
Qed.

Lemma exited_upd sbs i (b b' : sub) :
  (forall k bk, nth_error sbs k = Some bk -> fwd bk = Exited) ->
  nth_error sbs i = Some b -> (fwd b = Exited -> fwd b' = Exited) ->
  forall k bk, nth_error (upd_nth i b' sbs) k = Some bk -> fwd bk = Exited.
Proof.
  intros I Hi Hb k bk Hk. rewrite nth_error_upd_nth in Hk. destruct (i =? k) eqn:E.
  - apply Nat.eqb_eq in E. subst k. rewrite Hi in Hk. injection Hk as <-. eapply Hb, I, Hi.
  - eapply I, Hk.
Qed.

(* a disjunction of equations between program counters, some of them absurd *)
Ltac pick_disj :=
  first [ assumption | reflexivity
        | left; pick_disj | right; pick_disj ].

Ltac c1_solve C1 :=
  let E := fresh "E" in
  intro E;
  first [ reflexivity | assumption
        | let X := fresh "X" in
          assert (X := C1); lapply X;
          [ clear X; intro X;
            first [ discriminate X | exact X | rewrite X; apply orb_true_r ]
          | destruct E as [E|[E|[E|E]]]; try discriminate E; pick_disj ] ].

Ltac c2_solve C2 :=
  let E := fresh "E" in
  intro E; apply C2; destruct E as [E|E]; try discriminate E; pick_disj.

Lemma all_exited sbs :
  forallb (fun b => is_exited (fwd b)) sbs = true ->
  forall i b, nth_error sbs i = Some b -> fwd b = Exited.
Proof.
  intros Hf k bk Hk. rewrite forallb_forall in Hf.
  specialize (Hf bk (nth_error_In _ _ Hk)). destruct (fwd bk); try discriminate Hf.
  reflexivity.
Qed.

Lemma InvC_step vr s e s' : InvC s -> step vr s e = Some s' -> InvC s'.
Proof.
  intros [C1 C2] H. unfold closing, returned in *.
  destruct e; step_inv H; unfold InvC, closing, returned; (split; simp_st); try assumption.
  - (* Cancel *)
    intros Hcl. eapply exited_upd; [apply C2, Hcl | exact Heqo | simp_st; auto].
  - (* Want *)
    intros Hcl. eapply exited_upd; [apply C2, Hcl | exact Heqo | simp_st; auto].
  - (* WantAll *)
    intros Hcl. eapply exited_upd; [apply C2, Hcl | exact Heqo | simp_st; auto].
  - (* CloseCall *) c1_solve C1.
  - c2_solve C2.
  - (* Close2Call *) c1_solve C1.
  - c2_solve C2.
  - (* BcLock, closed *) c1_solve C1.
  - (* BcLock, open *) c1_solve C1.
  - (* BcSend *)
    intros Hcl. eapply exited_upd; [apply C2, Hcl | exact Heqo | simp_st; auto].
  - (* FwdTake *)
    intros Hcl. specialize (C2 Hcl _ _ Heqo). congruence.
  - (* FwdDeliver *)
    intros Hcl. specialize (C2 Hcl _ _ Heqo). congruence.
  - (* FwdSeeDone *)
    intros Hcl. specialize (C2 Hcl _ _ Heqo). congruence.
  - intros Hcl. specialize (C2 Hcl _ _ Heqo). congruence.
  - (* FwdExitLocked *)
    intros Hcl. specialize (C2 Hcl _ _ Heqo). congruence.
  - (* SubLocked *)
    intros Hcl k bk Hk. apply nth_error_snoc in Hk as [Hk|(_ & -> & _)]; [eapply C2; eassumption|].
    rewrite C1; [reflexivity|]. destruct Hcl as [E|E]; pick_disj.
  - (* CloseLock *) c1_solve C1.
  - c2_solve C2.
  - (* CloseWait *) c1_solve C1.
  - intros _. apply all_exited. exact Heqb.
  - (* Close2Lock *) c1_solve C1.
  - c2_solve C2.
  - (* Close2Wait *) c1_solve C1.
  - intros _. apply all_exited. exact Heqb.
Qed.

Lemma reach_invC vr es s : run vr init es = Some s -> InvC s.
Proof. apply (run_inv vr InvC); [apply InvC_step | apply InvC_init]. Qed.

(* what every subscriber has received is unchanged; later subscribers have received nothing *)
Definition recv_pres (sbs sbs' : list sub) : Prop :=
  (forall i b', nth_error sbs' i = Some b' ->
     received b' = match nth_error sbs i with Some b => received b | None => [] end) /\
  (forall i, nth_error sbs' i = None -> nth_error sbs i = None).

Lemma recv_pres_refl sbs : recv_pres sbs sbs.
Proof. split; [intros i b' H; rewrite H; reflexivity | auto]. Qed.

Lemma recv_pres_trans a b c : recv_pres a b -> recv_pres b c -> recv_pres a c.
Proof.
  intros [A1 A2] [B1 B2]. split.
  - intros i b' H. rewrite (B1 i b' H). destruct (nth_error b i) as [b1|] eqn:E.
    + apply A1. exact E.
    + rewrite (A2 i E). reflexivity.
  - intros i H. apply A2, B2, H.
Qed.

Lemma recv_pres_upd sbs i (b b' : sub) :
  nth_error sbs i = Some b -> received b' = received b -> recv_pres sbs (upd_nth i b' sbs).
Proof.
  intros Hi Hr. split; intros k; rewrite nth_error_upd_nth; destruct (i =? k) eqn:E.
  - apply Nat.eqb_eq in E. subst k. rewrite Hi. intros b0 H. injection H as <-. exact Hr.
  - intros b0 H. rewrite H. reflexivity.
  - apply Nat.eqb_eq in E. subst k. rewrite Hi. intro H. discriminate H.
  - auto.
Qed.

Lemma recv_pres_snoc sbs (nb : sub) : received nb = [] -> recv_pres sbs (sbs ++ [nb]).
Proof.
  intro Hr. split.
  - intros k b' H. apply nth_error_snoc in H as [H|(_ & -> & H)]; rewrite H; [reflexivity | exact Hr].
  - intros k H. apply nth_error_None in H. apply nth_error_None.
    rewrite app_length in H. cbn [length] in H. lia.
Qed.

Lemma after_close_step vr s e s' :
  InvC s -> returned s -> step vr s e = Some s' ->
  returned s' /\ recv_pres (subs s) (subs s').
Proof.
  intros [C1 C2] Hcl H. specialize (C2 Hcl). unfold returned in *.
  destruct e; step_inv H; simp_st;
    (split; [destruct Hcl as [E|E]; try discriminate E; pick_disj|]);
    try apply recv_pres_refl.
  - apply (recv_pres_upd _ _ _ _ Heqo); reflexivity.
  - apply (recv_pres_upd _ _ _ _ Heqo); reflexivity.
  - apply (recv_pres_upd _ _ _ _ Heqo); reflexivity.
  - apply (recv_pres_upd _ _ _ _ Heqo); reflexivity.
  - apply (recv_pres_upd _ _ _ _ Heqo); reflexivity.
  - (* FwdDeliver: the forwarder has exited *)
    specialize (C2 _ _ Heqo). congruence.
  - apply (recv_pres_upd _ _ _ _ Heqo); reflexivity.
  - apply (recv_pres_upd _ _ _ _ Heqo); reflexivity.
  - apply (recv_pres_upd _ _ _ _ Heqo); reflexivity.
  - apply recv_pres_snoc. destruct (closed s); reflexivity.
Qed.

Lemma after_close_run vr es' : forall s s',
  InvC s -> returned s -> run vr s es' = Some s' -> recv_pres (subs s) (subs s').
Proof.
  induction es' as [|e es' IH]; intros s s' HC Hcl H; cbn [run] in H.
  - injection H as <-. apply recv_pres_refl.
  - destruct (step vr s e) as [s1|] eqn:E; [|discriminate H].
    destruct (after_close_step _ _ _ _ HC Hcl E) as [Hcl1 Hp].
    eapply recv_pres_trans; [exact Hp|].
    apply IH; [eapply InvC_step; eassumption | exact Hcl1 | exact H].
Qed.

(* once either Close call has returned, the broadcaster is closed and every forwarder is gone *)
Theorem main_close_returned_exited : forall vr es s, run vr init es = Some s ->
  cl s = CReturned \/ cl2 s = CReturned ->
  closed s = true /\ forall i b, nth_error (subs s) i = Some b -> fwd b = Exited.
Proof.
  intros vr es s Hr Hcl. destruct (reach_invC _ _ _ Hr) as [C1 C2]. split.
  - apply C1. unfold closing. destruct Hcl as [E|E]; pick_disj.
  - apply C2. exact Hcl.
Qed.

Theorem main_no_delivery_after_close : forall vr es s es' s', run vr init es = Some s ->
  cl s = CReturned \/ cl2 s = CReturned -> run vr s es' = Some s' ->
  forall i b', nth_error (subs s') i = Some b' ->
    received b' = match nth_error (subs s) i with Some b => received b | None => [] end.
Proof.
  intros vr es s es' s' Hr Hcl Hr' i b' Hb.
  apply (after_close_run vr es' s s' (reach_invC _ _ _ Hr) Hcl Hr'). exact Hb.
Qed.

(* non-vacuity: one delivery, Close returns, then a Broadcast and a Subscribe that are no-ops *)
Example main_no_delivery_after_close_nonvacuous : forall vr, exists s s' b0 b1,
  run vr init [SubCall 0 true; SubLocked 0; BcCall 1%Z; BcLock 0; BcSend; BcEnd; FwdTake 0;
               FwdDeliver 0; CloseCall; CloseLock; FwdSeeDone 0; FwdExitLocked 0; CloseWait]
    = Some s /\
  cl s = CReturned /\
  run vr s [BcCall 2%Z; BcLock 0; SubCall 1 true; SubLocked 0] = Some s' /\
  nth_error (subs s') 0 = Some b0 /\ received b0 = [1%Z] /\
  nth_error (subs s') 1 = Some b1 /\ received b1 = [] /\ bret s' = [1; 2]%Z.
Proof. intros []; eexists; eexists; eexists; eexists; ex_conj. Qed.

(* non-vacuity: two overlapping Close calls, the SECOND returns while the first still waits for
   the lock (Fixed: closeCh is closed by the first call before either has the lock); a Broadcast
   and a Subscribe issued afterwards deliver nothing *)
Example main_close2_returns_first_nonvacuous : exists s s' b0 b1,
  run Fixed init [SubCall 0 true; SubLocked 0; BcCall 1%Z; BcLock 0; BcSend; BcEnd; FwdTake 0;
                  FwdDeliver 0; CloseCall; Close2Call; FwdSeeDone 0; FwdExitLocked 0;
                  Close2Lock; Close2Wait] = Some s /\
  cl s = CWantLock /\ cl2 s = CReturned /\ closed s = true /\
  run Fixed s [BcCall 2%Z; BcLock 0; SubCall 1 true; SubLocked 0; CloseLock; CloseWait]
    = Some s' /\
  nth_error (subs s') 0 = Some b0 /\ received b0 = [1%Z] /\ fwd b0 = Exited /\
  nth_error (subs s') 1 = Some b1 /\ received b1 = [] /\ cl s' = CReturned.
Proof. eexists; eexists; eexists; eexists; ex_conj. Qed.

(* the same overlap on Original: the second Close takes the lock first and returns first *)
Example main_close2_returns_first_original_nonvacuous : exists s,
  run Original init [SubCall 0 true; SubLocked 0; CloseCall; Close2Call; Close2Lock;
                     FwdSeeDone 0; FwdExitLocked 0; Close2Wait] = Some s /\
  cl s = CWantLock /\ cl2 s = CReturned /\ closed s = true.
Proof. eexists; ex_conj. Qed.
