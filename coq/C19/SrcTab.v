(* C19 — source-table tie: harness/srctab19 regenerates, from the text of
   /repo/crypto/spiffe/spiffe.go, the wake-up cap of the rotation loop (time.Minute), the wait
   after a failed renewal (10 * time.Second) and the divisor of renewalTime (half of the
   validity); tested against [minute], [ten_s] of Model.v and against the divisor
   [renewal_time] computes with (inlined in the model: named here, the lemma shows by conversion
   that [renewal_time] uses it). *)
From Kit Require Import Lib.SrcTab C19.Model.
From Coq Require Import String.
Local Open Scope string_scope.
Local Open Scope Z_scope.

Definition renew_divisor : Z := 2.

Lemma renewal_time_divisor nb na : renewal_time nb na = nb + Z.quot (tsub na nb) renew_divisor.
Proof. reflexivity. Qed.

Definition table : list entry :=
  [ ("spiffe.runRotation.wakeupCap", eqv (TZ minute));
    ("spiffe.runRotation.retryDelay", eqv (TZ ten_s));
    ("spiffe.renewalTime.divisor", eqv (TZ renew_divisor)) ].

Definition run_cases := run_tab table.
