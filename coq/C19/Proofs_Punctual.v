(* C19 — timers that fire on time. The correspondence check drives [Model.v] with the scheduler
   [settle] (after every clock step each due timer is delivered at once, the issuer answers from
   the script). Here: [settle] with its fuel [settle_fuel] always reaches a state in which the
   loop is parked - for ANY state and ANY script (the liveness / termination half: the fuel bound
   is a theorem) - by a run of the event system; hence at EVERY observation point of EVERY
   punctual run the loop waits on a timer that is not yet due, so the clock has not reached
   half-life of the served certificate (resp. 10 s after the failed renewal) without the renewal
   having been requested. Plain stdlib style. *)
From Coq Require Import ZArith List Lia Bool.
Import ListNotations.
From Kit Require Import Lib.Base C19.Model C19.Spec C19.Check C19.Proofs_Rot.
Open Scope Z_scope.

(* the loop cannot take a step of its own and the issuer owes no answer *)
Definition parked (s : state) : Prop :=
  match s_pc s with
  | PFetch0 | PFetch => False
  | PArmed dl _ => s_cancel s = false /\ s_now s < dl
  | PInit | PStopped | PFailed => True
  end.

Lemma arm_delay_pos : forall renew now, now < renew -> 0 < arm_delay renew now.
Proof. intros renew now H. unfold arm_delay, tsub, sat, minute, maxD, minD. lia. Qed.

(* upper bound on the steps [settle] still has to take *)
Definition todo (s : state) (script : list outcome) : nat :=
  match s_pc s with
  | PFetch0 | PFetch => 2 * length script + 2
  | PArmed dl k =>
      if s_cancel s then 1
      else if dl <=? s_now s then match k with KMain => 2 * length script + 3 | KRetry => 2 * length script + 4 end
      else 0
  | _ => 0
  end.

Lemma todo_fuel : forall s script, (todo s script <= settle_fuel script)%nat.
Proof.
  intros s script. unfold todo, settle_fuel.
  destruct (s_pc s) as [| |dl [|]| | |]; try lia; destruct (s_cancel s); try lia; destruct (dl <=? s_now s); lia.
Qed.

Lemma todo_zero_parked : forall s script, todo s script = O -> parked s.
Proof.
  intros s script H. unfold todo in H. unfold parked.
  destruct (s_pc s) as [| |dl k| | |]; try exact I; try lia.
  destruct (s_cancel s); [lia|]. destruct (dl <=? s_now s) eqn:E; [destruct k; lia|].
  apply Z.leb_gt in E. auto.
Qed.

Lemma ten_s_pos : 0 < ten_s.
Proof. unfold ten_s. lia. Qed.

Local Opaque minute ten_s.

Ltac todo_bound :=
  unfold todo; cbn;
  repeat match goal with
         | |- context [if ?b then _ else _] => destruct b
         | |- context [match ?k with KMain => _ | KRetry => _ end] => destruct k
         end; cbn [length] in *; lia.

Ltac finish IH s1 script f :=
  let Ht := fresh "Ht" in
  assert (Ht : (todo s1 script <= f)%nat) by todo_bound;
  specialize (IH s1 script Ht); destruct (settle f s1 script) as [s' sc'];
  let A := fresh "A" in let B := fresh "B" in let es := fresh "es" in let C := fresh "C" in
  let k := fresh "k" in let D := fresh "D" in
  destruct IH as (A & B & (es & C) & (k & D)).

(* [settle] is a run of the event system that does not move the clock, consumes a prefix of the
   script, and with enough fuel ends parked *)
Lemma settle_spec : forall fuel s script,
  (todo s script <= fuel)%nat ->
  let '(s', script') := settle fuel s script in
  parked s' /\ s_now s' = s_now s /\ (exists es, run s es = Some s') /\
  (exists k, script' = skipn k script).
Proof.
  induction fuel as [|f IH]; intros s script Hfuel.
  - cbn [settle]. split; [apply (todo_zero_parked s script); lia|].
    split; [reflexivity|]. split; [exists []; reflexivity|exists O; reflexivity].
  - cbn [settle].
    destruct (s_pc s) as [| |dl k| | |] eqn:Epc.
    + split; [unfold parked; rewrite Epc; exact I|].
      split; [reflexivity|split; [exists []; reflexivity|exists O; reflexivity]].
    + (* PFetch0: the issuer answers *)
      assert (Hf : (2 * length script + 2 <= S f)%nat) by (unfold todo in Hfuel; rewrite Epc in Hfuel; exact Hfuel).
      destruct script as [|o script]; cbn [hd tl].
      * cbn [step]. rewrite Epc.
        set (s1 := set_pc PFailed (complete None s)).
        assert (Ht : (todo s1 [] <= f)%nat) by (unfold todo, s1; cbn; lia).
        specialize (IH s1 [] Ht). destruct (settle f s1 []) as [s' sc'].
        destruct IH as (A & B & (es & C) & (k & D)).
        split; [exact A|]. split; [rewrite B; reflexivity|]. split.
        -- exists (EFetchErr :: es). cbn [run step]. rewrite Epc. exact C.
        -- exists O. rewrite D. destruct k; reflexivity.
      * destruct o as [dnb dna|]; cbn [step]; rewrite Epc.
        -- match goal with |- context [settle f ?X script] => set (s1 := X) end.
           assert (Ht : (todo s1 script <= f)%nat) by (unfold s1; todo_bound).
           specialize (IH s1 script Ht). destruct (settle f s1 script) as [s' sc'].
           destruct IH as (A & B & (es & C) & (k & D)).
           split; [exact A|]. split; [rewrite B; reflexivity|]. split.
           ++ eexists (EFetchOk _ :: es). cbn [run step]. rewrite Epc. exact C.
           ++ exists (S k). exact D.
        -- set (s1 := set_pc PFailed (complete None s)).
           assert (Ht : (todo s1 script <= f)%nat) by (unfold todo, s1; cbn; lia).
           specialize (IH s1 script Ht). destruct (settle f s1 script) as [s' sc'].
           destruct IH as (A & B & (es & C) & (k & D)).
           split; [exact A|]. split; [rewrite B; reflexivity|]. split.
           ++ exists (EFetchErr :: es). cbn [run step]. rewrite Epc. exact C.
           ++ exists (S k). exact D.
    + (* PArmed *)
      unfold todo in Hfuel. rewrite Epc in Hfuel.
      destruct (s_cancel s) eqn:Ecan.
      * cbn [step]. rewrite Epc, Ecan.
        split; [unfold parked; cbn; exact I|]. split; [reflexivity|]. split; [|exists O; reflexivity].
        exists [EStop]. cbn [run step]. rewrite Epc, Ecan. reflexivity.
      * destruct (dl <=? s_now s) eqn:Edl.
        -- destruct k; cbn [step]; rewrite Epc, Edl.
           ++ destruct (s_now s <? s_renew s) eqn:Elt.
              ** (* before half-life: re-armed strictly ahead *)
                 pose proof Elt as Elt'. apply Z.ltb_lt in Elt'. pose proof (arm_delay_pos _ _ Elt') as Hpos.
                 set (s1 := arm_main s).
                 assert (Ht : (todo s1 script <= f)%nat).
                 { unfold todo, s1. cbn. rewrite Ecan.
                   assert ((s_now s + arm_delay (s_renew s) (s_now s) <=? s_now s) = false) as -> by (apply Z.leb_gt; lia).
                   lia. }
                 specialize (IH s1 script Ht). destruct (settle f s1 script) as [s' sc'].
                 destruct IH as (A & B & (es & C) & (k & D)).
                 split; [exact A|]. split; [rewrite B; reflexivity|]. split; [|exists k; exact D].
                 exists (EWake :: es). cbn [run step]. rewrite Epc, Edl, Elt. exact C.
              ** set (s1 := request PFetch s).
                 assert (Ht : (todo s1 script <= f)%nat) by (unfold todo, s1; cbn; lia).
                 specialize (IH s1 script Ht). destruct (settle f s1 script) as [s' sc'].
                 destruct IH as (A & B & (es & C) & (k & D)).
                 split; [exact A|]. split; [rewrite B; reflexivity|]. split; [|exists k; exact D].
                 exists (EWake :: es). cbn [run step]. rewrite Epc, Edl, Elt. exact C.
           ++ set (s1 := arm_main (set_since s)).
              assert (Ht : (todo s1 script <= f)%nat).
              { unfold todo, s1. cbn. rewrite Ecan.
                destruct (s_now s + arm_delay (s_renew s) (s_now s) <=? s_now s); lia. }
              specialize (IH s1 script Ht). destruct (settle f s1 script) as [s' sc'].
              destruct IH as (A & B & (es & C) & (k & D)).
              split; [exact A|]. split; [rewrite B; reflexivity|]. split; [|exists k; exact D].
              exists (EWake :: es). cbn [run step]. rewrite Epc, Edl. exact C.
        -- apply Z.leb_gt in Edl.
           split; [unfold parked; rewrite Epc; auto|]. split; [reflexivity|].
           split; [exists []; reflexivity|exists O; reflexivity].
    + (* PFetch: the issuer answers a renewal *)
      assert (Hf : (2 * length script + 2 <= S f)%nat) by (unfold todo in Hfuel; rewrite Epc in Hfuel; exact Hfuel).
      assert (Hretry : forall sc, (todo (arm (s_now s + ten_s) KRetry (complete None s)) sc <= 1)%nat).
      { intro sc. unfold todo. cbn. destruct (s_cancel s); [lia|].
        assert ((s_now s + ten_s <=? s_now s) = false) as -> by (apply Z.leb_gt; pose proof ten_s_pos; lia). lia. }
      destruct script as [|o script]; cbn [hd tl].
      * cbn [step]. rewrite Epc.
        set (s1 := arm (s_now s + ten_s) KRetry (complete None s)).
        assert (Ht : (todo s1 [] <= f)%nat) by (pose proof (Hretry []); cbn [length] in Hf; unfold s1; lia).
        specialize (IH s1 [] Ht). destruct (settle f s1 []) as [s' sc'].
        destruct IH as (A & B & (es & C) & (k & D)).
        split; [exact A|]. split; [rewrite B; reflexivity|]. split.
        -- exists (EFetchErr :: es). cbn [run step]. rewrite Epc. exact C.
        -- exists O. rewrite D. destruct k; reflexivity.
      * destruct o as [dnb dna|]; cbn [step]; rewrite Epc.
        -- match goal with |- context [settle f ?X script] => set (s1 := X) end.
           assert (Ht : (todo s1 script <= f)%nat) by (unfold s1; todo_bound).
           specialize (IH s1 script Ht). destruct (settle f s1 script) as [s' sc'].
           destruct IH as (A & B & (es & C) & (k & D)).
           split; [exact A|]. split; [rewrite B; reflexivity|]. split.
           ++ eexists (EFetchOk _ :: es). cbn [run step]. rewrite Epc. exact C.
           ++ exists (S k). exact D.
        -- set (s1 := arm (s_now s + ten_s) KRetry (complete None s)).
           assert (Ht : (todo s1 script <= f)%nat) by (pose proof (Hretry script); cbn [length] in Hf; unfold s1; lia).
           specialize (IH s1 script Ht). destruct (settle f s1 script) as [s' sc'].
           destruct IH as (A & B & (es & C) & (k & D)).
           split; [exact A|]. split; [rewrite B; reflexivity|]. split.
           ++ exists (EFetchErr :: es). cbn [run step]. rewrite Epc. exact C.
           ++ exists (S k). exact D.
    + split; [unfold parked; rewrite Epc; exact I|].
      split; [reflexivity|split; [exists []; reflexivity|exists O; reflexivity]].
    + split; [unfold parked; rewrite Epc; exact I|].
      split; [reflexivity|split; [exists []; reflexivity|exists O; reflexivity]].
Qed.

(* the fuel the correspondence check gives [settle] always suffices *)
Theorem settle_parks : forall s script,
  let '(s', script') := settle (settle_fuel script) s script in
  parked s' /\ s_now s' = s_now s /\ (exists es, run s es = Some s') /\ (exists k, script' = skipn k script).
Proof. intros s script. apply settle_spec. apply todo_fuel. Qed.

(* ------------------------------------------------------------------------------------- *)
(* every observation point of every punctual run                                            *)

(* the states behind the observations of [rot_drive] *)
Fixpoint rot_states (s : state) (script : list outcome) (es : list event) : list state :=
  match es with
  | [] => []
  | e :: r =>
      match step s e with
      | None => []
      | Some s1 =>
          let '(s2, script') := settle (settle_fuel script) s1 script in
          s2 :: rot_states s2 script' r
      end
  end.

Fixpoint observe_chain (prev : state) (l : list state) : list obs :=
  match l with
  | [] => []
  | x :: r => observe_rot (length (s_log prev)) (length (s_writes prev)) x :: observe_chain x r
  end.

Lemma rot_drive_states : forall es s script,
  rot_drive s script es = observe_chain s (rot_states s script es).
Proof.
  induction es as [|e es IH]; intros s script; cbn [rot_drive rot_states]; [reflexivity|].
  destruct (step s e) as [s1|]; [|reflexivity].
  destruct (settle (settle_fuel script) s1 script) as [s2 script']. cbn [observe_chain].
  rewrite IH. reflexivity.
Qed.

Lemma run_app : forall es1 es2 s s1, run s es1 = Some s1 -> run s (es1 ++ es2) = run s1 es2.
Proof.
  induction es1 as [|e es1 IH]; intros es2 s s1 H; cbn in *.
  - inversion H; reflexivity.
  - destruct (step s e) as [s'|]; [eauto|discriminate].
Qed.

Lemma rot_states_parked : forall es s script s0 x,
  (exists pre, run s0 pre = Some s) ->
  In x (rot_states s script es) -> parked x /\ exists es', run s0 es' = Some x.
Proof.
  induction es as [|e es IH]; intros s script s0 x (pre & Hpre) Hin; cbn [rot_states] in Hin; [contradiction|].
  destruct (step s e) as [s1|] eqn:Es; [|contradiction].
  pose proof (settle_parks s1 script) as Hs.
  destruct (settle (settle_fuel script) s1 script) as [s2 script'].
  destruct Hs as (Hp & _ & (es2 & Hrun2) & _).
  assert (Hreach : run s0 (pre ++ e :: es2) = Some s2).
  { rewrite (run_app _ _ _ _ Hpre). cbn [run]. rewrite Es. exact Hrun2. }
  destruct Hin as [<-|Hin].
  - split; [exact Hp|eauto].
  - eapply IH; eauto.
Qed.

(* With timers that fire on time: at EVERY observation point of EVERY run of the punctual
   scheduler (any start of the clock, any script of issuer outcomes incl. certificates already
   past half-life or not yet valid, any clock steps / trust-anchor changes / cancellation) the
   loop is parked; while it is live and waits on its main timer the clock has NOT reached half-life
   of the served certificate, and while it waits to retry, fewer than 10 s have passed since the
   failed renewal - i.e. no observation point lies at or after the instant a renewal (a retry)
   falls due without that request having been made. *)
Theorem punctual_requests_on_time : forall t0 d script ops x,
  In x (rot_states (init t0 d) script (ERun :: map op_event ops)) ->
  parked x /\
  (forall dl, s_pc x = PArmed dl KMain ->
      exists v, s_cur x = Some v /\
                s_renew x = renewal_time (c_nb (sv_cert v)) (c_na (sv_cert v)) /\
                s_now x < s_renew x) /\
  (forall dl, s_pc x = PArmed dl KRetry -> s_now x < s_at x + ten_s).
Proof.
  intros t0 d script ops x Hin.
  destruct (rot_states_parked _ _ _ (init t0 d) x (ex_intro _ [] eq_refl) Hin) as (Hp & es' & Hrun).
  split; [exact Hp|]. split.
  - intros dl Epc. destruct (renew_by_halflife _ _ _ _ _ Hrun Epc) as ((v & Hv & Hr) & _ & _ & _ & Hnd & _).
    exists v. split; [exact Hv|]. split; [exact Hr|]. apply Hnd.
    unfold parked in Hp. rewrite Epc in Hp. apply Hp.
  - intros dl Epc. destruct (retry_10s _ _ _ _ Hrun) as (_ & Hk & _). destruct (Hk dl Epc) as (Hdl & _).
    unfold parked in Hp. rewrite Epc in Hp. lia.
Qed.

(* the observations the check compares are exactly those of these states *)
Theorem rot_model_states : forall t0 d script ops,
  rot_model t0 d script ops =
  observe_chain (init t0 d) (rot_states (init t0 d) script (ERun :: map op_event ops)).
Proof. intros. unfold rot_model. apply rot_drive_states. Qed.

Local Transparent minute ten_s.

(* non-vacuity: a one-hour certificate, a step to one nanosecond before half-life (parked on the
   main timer, clock before half-life), a failure at half-life (parked on the retry timer) *)
Example punctual_nonvacuous :
  let h := 3600 * second in
  map s_pc (rot_states (init 1000 true) [OOk 0 h; OFail] (ERun :: map op_event [OpAdv (h / 2 - 1001); OpAdv 1; OpAdv 5]))
  = [PArmed 60000001000 KMain; PArmed 1800000000000 KMain; PArmed 1810000000000 KRetry;
     PArmed 1810000000000 KRetry].
Proof. vm_compute. reflexivity. Qed.

(* ------------------------------------------------------------------------------------- *)
(* the history of a punctual run follows the script                                         *)

(* request k was answered by the k-th element of the script (an exhausted script answers with
   failures): a success carries the certificate issued for THIS request's key and request instant *)
Definition rec_matches (o : outcome) (r : fetchrec) : Prop :=
  match o with
  | OOk dnb dna => fr_ok r = Some (issue (fr_key r) (fr_req r) dnb dna)
  | OFail => fr_ok r = None
  end.

Definition follows (script0 : list outcome) (s : state) : Prop :=
  forall k r, nth_error (rev (s_log s)) k = Some r -> rec_matches (outcome_at script0 k) r.

Definition synced (script0 : list outcome) (s : state) (script : list outcome) : Prop :=
  script = skipn (length (s_log s)) script0.

Lemma hd_skipn : forall (l : list outcome) n, hd OFail (skipn n l) = nth n l OFail.
Proof. induction l as [|x l IH]; intros [|n]; cbn; auto. Qed.

Lemma tl_skipn : forall (l : list outcome) n, tl (skipn n l) = skipn (S n) l.
Proof. induction l as [|x l IH]; intros [|n]; cbn [skipn tl]; auto. apply (IH n). Qed.

Lemma follows_snoc : forall script0 s r,
  follows script0 s -> rec_matches (outcome_at script0 (length (s_log s))) r ->
  forall k r', nth_error (rev (r :: s_log s)) k = Some r' -> rec_matches (outcome_at script0 k) r'.
Proof.
  intros script0 s r Hf Hr k r' Hn. cbn [rev] in Hn.
  destruct (Nat.lt_ge_cases k (length (rev (s_log s)))) as [Hlt|Hge].
  - rewrite nth_error_app1 in Hn by exact Hlt. apply Hf; exact Hn.
  - rewrite nth_error_app2 in Hn by exact Hge. rewrite rev_length in *.
    destruct (k - length (s_log s))%nat as [|j] eqn:E; cbn in Hn.
    + inversion Hn; subst r'. replace k with (length (s_log s)) by lia. exact Hr.
    + destruct j; discriminate.
Qed.

Lemma settle_follows : forall script0 fuel s script,
  follows script0 s -> synced script0 s script ->
  let '(s', script') := settle fuel s script in follows script0 s' /\ synced script0 s' script'.
Proof.
  intros script0; induction fuel as [|f IH]; intros s script Hf Hs; cbn [settle]; [auto|].
  assert (Hfetch : forall p, s_pc s = p -> (p = PFetch0 \/ p = PFetch) ->
            let '(s', script') :=
              match step s (match hd OFail script with
                            | OOk dnb dna => EFetchOk (issue (cur_key s) (s_req s) dnb dna)
                            | OFail => EFetchErr end) with
              | Some s1 => settle f s1 (tl script)
              | None => (s, script)
              end in
            follows script0 s' /\ synced script0 s' script').
  { intros p Epc Hp. unfold synced in Hs. subst script. rewrite hd_skipn, tl_skipn.
    fold (outcome_at script0 (length (s_log s))).
    destruct (outcome_at script0 (length (s_log s))) as [dnb dna|] eqn:Eo; cbn [step]; rewrite Epc.
    - destruct Hp as [-> | ->]; (apply IH; [|unfold synced; reflexivity]);
        intros k r Hn; cbn in Hn; eapply follows_snoc; eauto; rewrite Eo; reflexivity.
    - destruct Hp as [-> | ->]; (apply IH; [|unfold synced; reflexivity]);
        intros k r Hn; cbn in Hn; eapply follows_snoc; eauto; rewrite Eo; reflexivity. }
  destruct (s_pc s) as [| |dl k| | |] eqn:Epc; auto.
  - apply (Hfetch PFetch0 eq_refl). auto.
  - destruct (s_cancel s) eqn:Ecan.
    + cbn [step]. rewrite Epc, Ecan. split; [exact Hf|exact Hs].
    + destruct (dl <=? s_now s) eqn:Edl; [|auto].
      destruct k; cbn [step]; rewrite Epc, Edl.
      * destruct (s_now s <? s_renew s); apply IH; auto.
      * apply IH; auto.
  - apply (Hfetch PFetch eq_refl). auto.
Qed.

(* In every punctual run the k-th issuer request is answered by the k-th element of the script,
   at every observation point; together with C19_serves_latest: the SVID served at a point is
   the certificate the script prescribes for the newest successful request made so far. *)
Definition driver_event (e : event) : Prop :=
  match e with ERun | EAdvance _ | ETAChange | ECancel => True | _ => False end.

Lemma driver_event_log : forall s e s1, driver_event e -> step s e = Some s1 -> s_log s1 = s_log s.
Proof.
  intros s e s1 Hd Es. destruct e as [|dd| |c| | | |]; try contradiction; cbn [step] in Es.
  - destruct (s_pc s); inversion Es; reflexivity.
  - destruct (0 <=? dd); inversion Es; reflexivity.
  - inversion Es; reflexivity.
  - inversion Es; reflexivity.
Qed.

Lemma rot_states_follow : forall script0 es s sc x,
  Forall driver_event es -> follows script0 s -> synced script0 s sc ->
  In x (rot_states s sc es) -> follows script0 x.
Proof.
  intros script0; induction es as [|e es IH]; intros s sc x Hd Hf Hs Hin; cbn [rot_states] in Hin; [contradiction|].
  inversion Hd as [|? ? He Hes]; subst.
  destruct (step s e) as [s1|] eqn:Es; [|contradiction].
  pose proof (driver_event_log _ _ _ He Es) as Hlog.
  assert (Hf1 : follows script0 s1) by (unfold follows; rewrite Hlog; exact Hf).
  assert (Hs1 : synced script0 s1 sc) by (unfold synced; rewrite Hlog; exact Hs).
  pose proof (settle_follows script0 (settle_fuel sc) s1 sc Hf1 Hs1) as H.
  destruct (settle (settle_fuel sc) s1 sc) as [s2 sc']. destruct H as (Hf2 & Hs2).
  destruct Hin as [<-|Hin]; [exact Hf2|]. eapply IH; eauto.
Qed.

(* In every punctual run the k-th issuer request is answered by the k-th element of the script,
   at every observation point; together with C19_serves_latest: the SVID served at a point is
   the certificate the script prescribes for the newest successful request made so far. *)
Theorem punctual_history_follows_script : forall t0 d script ops x,
  In x (rot_states (init t0 d) script (ERun :: map op_event ops)) -> follows script x.
Proof.
  intros t0 d script ops x Hin.
  apply (rot_states_follow script (ERun :: map op_event ops) (init t0 d) script x); [| | |exact Hin].
  - constructor; [exact I|]. apply Forall_forall. intros e He. apply in_map_iff in He as (o & <- & _).
    destruct o; exact I.
  - intros k r Hn. destruct k; discriminate Hn.
  - reflexivity.
Qed.

(* non-vacuity: success, failure, success - the history has exactly these three answers *)
Example punctual_history_nonvacuous :
  let h := 3600 * second in
  let script := [OOk 0 h; OFail; OOk (-h) h] in
  exists x, In x (rot_states (init 1000 true) script (ERun :: map op_event [OpAdv (h / 2); OpAdv ten_s])) /\
            map (fun r => match fr_ok r with Some c => c_id c | None => -1 end) (rev (s_log x)) = [0; -1; 2; -1].
Proof. eexists. split; [vm_compute; right; right; left; reflexivity|vm_compute; reflexivity]. Qed.
