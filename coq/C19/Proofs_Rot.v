(* C19 — proofs about the rotation loop [Model.v]: one invariant over ALL schedules (any clock
   advances, arbitrarily late timers, any issuer answers, trust-anchor changes, cancellation),
   from which the laws of the property are read off. Plain stdlib style. *)
From Coq Require Import ZArith List Lia Bool.
Import ListNotations.
From Kit Require Import Lib.Base C19.Model.
Open Scope Z_scope.

(* ------------------------------------------------------------------------------------- *)
(* vocabulary of the statements                                                             *)

(* newest successful fetch in a history (newest first): (key, cert) *)
Fixpoint last_ok_rec (l : list fetchrec) : option (Z * cert) :=
  match l with
  | [] => None
  | r :: t => match fr_ok r with Some c => Some (fr_key r, c) | None => last_ok_rec t end
  end.

(* the file sets the successful fetches of a history must have published, newest first *)
Fixpoint writes_of (l : list fetchrec) : list fileset :=
  match l with
  | [] => []
  | r :: t => match fr_ok r with
              | Some c => (fr_key r, c_id c, fr_ta r) :: writes_of t
              | None => writes_of t
              end
  end.

(* a request that follows a failed RENEWAL (a failed record that is not the oldest, i.e. not the
   initial fetch) was made at least 10 s after that failure *)
Definition gap_ok (req : Z) (older : list fetchrec) : Prop :=
  match older with
  | r :: _ :: _ => fr_ok r = None -> fr_resp r + ten_s <= req
  | _ => True
  end.

Fixpoint retry_gaps (l : list fetchrec) : Prop :=
  match l with [] => True | r :: t => gap_ok (fr_req r) t /\ retry_gaps t end.

Definition cur_of (l : list fetchrec) : option svid :=
  option_map (fun kc => mkSvid (snd kc) (fst kc)) (last_ok_rec l).

(* ------------------------------------------------------------------------------------- *)
(* time arithmetic                                                                          *)

Lemma renewal_time_half : forall nb na, 0 <= na - nb <= maxD -> renewal_time nb na = nb + (na - nb) / 2.
Proof.
  intros nb na H. unfold renewal_time, tsub, sat, maxD, minD in *.
  rewrite Z.min_r by lia. rewrite Z.max_r by lia.
  rewrite Z.quot_div_nonneg by lia. reflexivity.
Qed.

Lemma arm_delay_le_minute : forall renew now, arm_delay renew now <= minute.
Proof. intros. unfold arm_delay. apply Z.le_min_l. Qed.

(* while the timer armed at [at_] is not due, the clock has not reached [renew] *)
Lemma not_due_before_renew : forall renew at_ now,
  at_ <= now -> now < at_ + arm_delay renew at_ -> now < renew.
Proof.
  intros renew at_ now H1 H2. unfold arm_delay, tsub, sat, minute, maxD, minD in *. lia.
Qed.

(* past [renew] the main timer is armed already due *)
Lemma arm_delay_past : forall renew now, renew <= now -> arm_delay renew now <= 0.
Proof. intros renew now H. unfold arm_delay, tsub, sat, minute, maxD, minD. lia. Qed.

Lemma gap_ok_mono : forall a b l, gap_ok a l -> a <= b -> gap_ok b l.
Proof.
  intros a b l H Hle. unfold gap_ok in *. destruct l as [|r [|r2 t]]; auto. intro Hf. specialize (H Hf). lia.
Qed.

(* ------------------------------------------------------------------------------------- *)
(* the invariant                                                                            *)

Definition fetching (p : pc) : bool := match p with PFetch0 | PFetch => true | _ => false end.

(* number of keys whose fetch has completed *)
Definition done_keys (s : state) : Z := if fetching (s_pc s) then s_nkey s - 1 else s_nkey s.

(* keys in a history are below [b] and strictly decreasing towards the past *)
Fixpoint keys_desc (b : Z) (l : list fetchrec) : Prop :=
  match l with [] => True | r :: t => 0 <= fr_key r < b /\ keys_desc (fr_key r) t end.

Definition pc_ok (s : state) : Prop :=
  match s_pc s with
  | PInit => s_log s = [] /\ s_nkey s = 0
  | PFetch0 => s_log s = []
  | PArmed dl KMain =>
      s_at s <= s_now s /\ dl = s_at s + arm_delay (s_renew s) (s_at s) /\ s_cur s <> None /\
      gap_ok (s_at s) (s_log s)
  | PArmed dl KRetry =>
      s_at s <= s_now s /\ dl = s_at s + ten_s /\ s_cur s <> None /\ s_renew s <= s_at s /\
      exists r t, s_log s = r :: t /\ t <> [] /\ fr_ok r = None /\ fr_resp r = s_at s
  | PFetch => s_renew s <= s_req s /\ s_req s <= s_now s /\ s_cur s <> None /\ gap_ok (s_req s) (s_log s)
  | PStopped | PFailed => True
  end.

Record inv (d : bool) (s : state) : Prop := mkInv {
  i_dir : s_dir s = d;
  i_writes : s_writes s = if d then writes_of (s_log s) else [];
  i_cur : s_cur s = cur_of (s_log s);
  i_renew : forall v, s_cur s = Some v -> s_renew s = renewal_time (c_nb (sv_cert v)) (c_na (sv_cert v));
  i_keys : 0 <= done_keys s /\ keys_desc (done_keys s) (s_log s);
  i_gaps : retry_gaps (s_log s);
  i_pc : pc_ok s
}.

Lemma inv_init : forall t0 d, inv d (init t0 d).
Proof. intros; constructor; cbn; auto; try discriminate. destruct d; reflexivity. lia. Qed.

Lemma cur_of_nonnil : forall l, cur_of l <> None -> l <> [].
Proof. intros l H ->. apply H. reflexivity. Qed.

Local Opaque minute ten_s arm_delay renewal_time.

(* events that touch neither the loop nor its history *)
Lemma inv_frame : forall d s s',
  inv d s ->
  s_pc s' = s_pc s -> s_now s <= s_now s' -> s_cur s' = s_cur s -> s_renew s' = s_renew s ->
  s_at s' = s_at s -> s_dir s' = s_dir s -> s_nkey s' = s_nkey s -> s_req s' = s_req s ->
  s_log s' = s_log s -> s_writes s' = s_writes s ->
  inv d s'.
Proof.
  intros d s s' [H1 H2 H3 H4 H5 H6 H7] Epc Enow Ecur Eren Eat Edir Enk Ereq Elog Ewr.
  constructor.
  - congruence.
  - rewrite Ewr, Elog. exact H2.
  - rewrite Ecur, Elog. exact H3.
  - intros v Hv. rewrite Eren. apply H4. congruence.
  - unfold done_keys in *. rewrite Epc, Enk, Elog. exact H5.
  - rewrite Elog. exact H6.
  - unfold pc_ok in *. rewrite Epc, ?Eat, ?Eren, ?Ecur, ?Elog, ?Ereq, ?Enk.
    destruct (s_pc s) as [| |dl k| | |]; auto.
    + destruct k.
      * destruct H7 as (A & B & C & D). repeat split; auto. lia.
      * destruct H7 as (A & B & C & D & E). repeat split; auto. lia.
    + destruct H7 as (A & B & C & D). repeat split; auto. lia.
Qed.

(* completion of a fetch: the history, the directory and the key counter *)
Lemma keys_after_complete : forall s, fetching (s_pc s) = true ->
  0 <= done_keys s /\ keys_desc (done_keys s) (s_log s) ->
  forall ro ta req resp,
  0 <= s_nkey s /\ keys_desc (s_nkey s) (mkFr req resp (cur_key s) ro ta :: s_log s).
Proof.
  intros s Hf (H0 & Hk) ro ta req resp. unfold done_keys in *. rewrite Hf in *.
  unfold cur_key. cbn. repeat split; try lia. exact Hk.
Qed.

Lemma inv_step : forall d s e s', inv d s -> step s e = Some s' -> inv d s'.
Proof.
  intros d s e s' Hinv Hs. pose proof Hinv as [Hdir Hwr Hcur Hren Hkeys Hgaps Hpc].
  destruct e as [|dd| |c| | | |]; cbn [step] in Hs.
  - (* ERun *)
    destruct (s_pc s) eqn:Epc; try discriminate. inversion Hs; subst s'; clear Hs.
    unfold pc_ok in Hpc; rewrite Epc in Hpc. destruct Hpc as (Hlog & Hnk).
    constructor; cbn.
    + exact Hdir.
    + exact Hwr.
    + exact Hcur.
    + exact Hren.
    + unfold done_keys; cbn. rewrite Hlog, Hnk. cbn. lia.
    + exact Hgaps.
    + unfold pc_ok; cbn. exact Hlog.
  - (* EAdvance *)
    destruct (0 <=? dd) eqn:Ed; inversion Hs; subst s'; clear Hs. apply Z.leb_le in Ed.
    eapply inv_frame; eauto; cbn; auto. lia.
  - (* EWake *)
    destruct (s_pc s) as [| |dl k| | |] eqn:Epc; try discriminate.
    unfold pc_ok in Hpc; rewrite Epc in Hpc.
    destruct k.
    + destruct (dl <=? s_now s) eqn:Edl; try discriminate. apply Z.leb_le in Edl.
      destruct Hpc as (Hat & Hdl & Hc & Hgap).
      destruct (s_now s <? s_renew s) eqn:Elt; inversion Hs; subst s'; clear Hs.
      * (* before half-life: re-arm *)
        constructor; cbn.
        -- exact Hdir.
        -- exact Hwr.
        -- exact Hcur.
        -- exact Hren.
        -- unfold done_keys in *; cbn. rewrite Epc in Hkeys; exact Hkeys.
        -- exact Hgaps.
        -- unfold pc_ok; cbn. repeat split; auto; try lia. eapply gap_ok_mono; eauto.
      * (* at or past half-life: request *)
        apply Z.ltb_ge in Elt.
        constructor; cbn.
        -- exact Hdir.
        -- exact Hwr.
        -- exact Hcur.
        -- exact Hren.
        -- unfold done_keys in *; cbn. rewrite Epc in Hkeys; cbn in Hkeys.
           replace (s_nkey s + 1 - 1) with (s_nkey s) by lia. exact Hkeys.
        -- exact Hgaps.
        -- unfold pc_ok; cbn. repeat split; auto; try lia. eapply gap_ok_mono; eauto.
    + destruct (dl <=? s_now s) eqn:Edl; inversion Hs; subst s'; clear Hs. apply Z.leb_le in Edl.
      destruct Hpc as (Hat & Hdl & Hc & Hrn & r & t & Hlog & Ht & Hfail & Hresp).
      constructor; cbn.
      * exact Hdir.
      * exact Hwr.
      * exact Hcur.
      * exact Hren.
      * unfold done_keys in *; cbn. rewrite Epc in Hkeys; exact Hkeys.
      * exact Hgaps.
      * unfold pc_ok; cbn. repeat split; auto; try lia.
        rewrite Hlog. unfold gap_ok. destruct t as [|r2 t]; [congruence|]. intros _. lia.
  - (* EFetchOk *)
    assert (Hf : fetching (s_pc s) = true /\ (s_pc s = PFetch0 \/ s_pc s = PFetch)).
    { destruct (s_pc s); try discriminate; auto. }
    destruct Hf as (Hf & Hwhich).
    assert (Hs' : s' = arm_main (store c (complete (Some c) s))).
    { destruct Hwhich as [E|E]; rewrite E in Hs; inversion Hs; reflexivity. }
    subst s'; clear Hs.
    pose proof (keys_after_complete s Hf Hkeys (Some c) (s_ta s) (s_req s) (s_now s)) as (Hk0 & Hk1).
    constructor; cbn.
    + exact Hdir.
    + rewrite Hdir, Hwr. destruct d; reflexivity.
    + reflexivity.
    + intros v Hv. inversion Hv; subst v; reflexivity.
    + unfold done_keys; cbn. split; auto.
    + split; auto. unfold pc_ok in Hpc. destruct Hwhich as [E|E]; rewrite E in Hpc.
      * rewrite Hpc. exact I.
      * destruct Hpc as (_ & _ & _ & Hg). exact Hg.
    + unfold pc_ok; cbn. repeat split; auto; try lia; try discriminate.
      unfold gap_ok. destruct (s_log s); auto. cbn. discriminate.
  - (* EFetchErr *)
    destruct (s_pc s) eqn:Epc; try discriminate; inversion Hs; subst s'; clear Hs.
    + (* initial fetch fails *)
      assert (Hf : fetching (s_pc s) = true) by (rewrite Epc; reflexivity).
      pose proof (keys_after_complete s Hf Hkeys None (s_ta s) (s_req s) (s_now s)) as (Hk0 & Hk1).
      unfold pc_ok in Hpc; rewrite Epc in Hpc.
      constructor; cbn.
      * exact Hdir.
      * exact Hwr.
      * exact Hcur.
      * exact Hren.
      * unfold done_keys; cbn. split; auto.
      * rewrite Hpc. cbn. auto.
      * unfold pc_ok; cbn. exact I.
    + (* a renewal fails *)
      assert (Hf : fetching (s_pc s) = true) by (rewrite Epc; reflexivity).
      pose proof (keys_after_complete s Hf Hkeys None (s_ta s) (s_req s) (s_now s)) as (Hk0 & Hk1).
      unfold pc_ok in Hpc; rewrite Epc in Hpc. destruct Hpc as (Hrn & Hrq & Hc & Hg).
      constructor; cbn.
      * exact Hdir.
      * exact Hwr.
      * exact Hcur.
      * exact Hren.
      * unfold done_keys; cbn. split; auto.
      * split; auto.
      * unfold pc_ok; cbn. repeat split; auto; try lia.
        eexists _, (s_log s). repeat split; auto.
        apply cur_of_nonnil. rewrite <- Hcur. exact Hc.
  - (* ETAChange *)
    inversion Hs; subst s'; clear Hs. eapply inv_frame; eauto; cbn; auto. lia.
  - (* ECancel *)
    inversion Hs; subst s'; clear Hs. eapply inv_frame; eauto; cbn; auto. lia.
  - (* EStop *)
    destruct (s_pc s) as [| |dl k| | |] eqn:Epc; try discriminate.
    destruct (s_cancel s); inversion Hs; subst s'; clear Hs.
    constructor; cbn.
    + exact Hdir.
    + exact Hwr.
    + exact Hcur.
    + exact Hren.
    + unfold done_keys in *; cbn. rewrite Epc in Hkeys; exact Hkeys.
    + exact Hgaps.
    + unfold pc_ok; cbn. exact I.
Qed.

Lemma run_inv : forall (P : state -> Prop),
  (forall s e s', P s -> step s e = Some s' -> P s') ->
  forall es s s', P s -> run s es = Some s' -> P s'.
Proof.
  intros P Hstep es; induction es as [|e es IH]; intros s s' HP Hrun; cbn in Hrun.
  - inversion Hrun; subst; auto.
  - destruct (step s e) as [s1|] eqn:E; try discriminate. eauto.
Qed.

Lemma inv_run : forall t0 d es s, run (init t0 d) es = Some s -> inv d s.
Proof. intros t0 d es s H. eapply (run_inv (inv d)); eauto using inv_step, inv_init. Qed.

(* ------------------------------------------------------------------------------------- *)
(* the laws                                                                                 *)

(* the SVID served is the newest successfully fetched one, with the key generated for it *)
Theorem serves_latest : forall t0 d es s, run (init t0 d) es = Some s ->
  s_cur s = option_map (fun kc => mkSvid (snd kc) (fst kc)) (last_ok_rec (s_log s)).
Proof. intros t0 d es s H. apply (i_cur _ _ (inv_run _ _ _ _ H)). Qed.

(* only a successful fetch changes the served SVID; a failure changes neither it nor the directory *)
Theorem failure_keeps_svid :
  (forall s e s', step s e = Some s' -> s_cur s' <> s_cur s -> exists c, e = EFetchOk c) /\
  (forall s s', step s EFetchErr = Some s' -> s_cur s' = s_cur s /\ s_writes s' = s_writes s).
Proof.
  split.
  - intros s e s' Hs Hne. destruct e as [|dd| |c| | | |]; eauto; exfalso; apply Hne; cbn [step] in Hs.
    + destruct (s_pc s); try discriminate; inversion Hs; reflexivity.
    + destruct (0 <=? dd); inversion Hs; reflexivity.
    + destruct (s_pc s) as [| |dl k| | |]; try discriminate. destruct k.
      * destruct (dl <=? s_now s); try discriminate.
        destruct (s_now s <? s_renew s); inversion Hs; reflexivity.
      * destruct (dl <=? s_now s); inversion Hs; reflexivity.
    + destruct (s_pc s); try discriminate; inversion Hs; reflexivity.
    + inversion Hs; reflexivity.
    + inversion Hs; reflexivity.
    + destruct (s_pc s); try discriminate. destruct (s_cancel s); inversion Hs; reflexivity.
  - intros s s' Hs. cbn [step] in Hs.
    destruct (s_pc s); try discriminate; inversion Hs; split; reflexivity.
Qed.

Theorem renew_by_halflife : forall t0 d es s dl,
  run (init t0 d) es = Some s -> s_pc s = PArmed dl KMain ->
  (exists v, s_cur s = Some v /\ s_renew s = renewal_time (c_nb (sv_cert v)) (c_na (sv_cert v))) /\
  s_at s <= s_now s /\
  dl = s_at s + arm_delay (s_renew s) (s_at s) /\
  dl <= s_at s + minute /\
  (s_now s < dl -> s_now s < s_renew s) /\
  (dl <= s_now s -> exists s', step s EWake = Some s' /\
     if s_now s <? s_renew s
     then s_pc s' = PArmed (s_now s + arm_delay (s_renew s) (s_now s)) KMain /\
          s_log s' = s_log s /\ s_nkey s' = s_nkey s
     else s_pc s' = PFetch /\ s_req s' = s_now s).
Proof.
  intros t0 d es s dl Hrun Epc. pose proof (inv_run _ _ _ _ Hrun) as [_ _ _ Hren _ _ Hpc].
  unfold pc_ok in Hpc; rewrite Epc in Hpc. destruct Hpc as (Hat & Hdl & Hc & _).
  split.
  { destruct (s_cur s) as [v|] eqn:Ev; [|congruence]. exists v; split; auto. }
  split; auto. split; auto.
  split. { rewrite Hdl. pose proof (arm_delay_le_minute (s_renew s) (s_at s)). lia. }
  split. { intro Hlt. rewrite Hdl in Hlt. eapply not_due_before_renew; eauto. }
  intro Hdue. cbn [step]. rewrite Epc. apply Z.leb_le in Hdue. rewrite Hdue.
  destruct (s_now s <? s_renew s); eexists; split; try reflexivity; cbn; auto.
Qed.

Theorem retry_10s : forall t0 d es s,
  run (init t0 d) es = Some s ->
  (s_pc s = PFetch -> exists s', step s EFetchErr = Some s' /\
       s_pc s' = PArmed (s_now s + ten_s) KRetry /\ s_cur s' = s_cur s) /\
  (forall dl, s_pc s = PArmed dl KRetry ->
       dl = s_at s + ten_s /\ s_at s <= s_now s /\
       (dl <= s_now s -> exists s1 s2, step s EWake = Some s1 /\ step s1 EWake = Some s2 /\
                                       s_pc s2 = PFetch /\ s_req s2 = s_now s)) /\
  retry_gaps (s_log s) /\
  (s_pc s = PFetch -> gap_ok (s_req s) (s_log s)).
Proof.
  intros t0 d es s Hrun. pose proof (inv_run _ _ _ _ Hrun) as [_ _ _ _ _ Hgaps Hpc].
  split.
  { intro Epc. cbn [step]. rewrite Epc. eexists; split; [reflexivity|]. cbn. auto. }
  split.
  { intros dl Epc. unfold pc_ok in Hpc; rewrite Epc in Hpc.
    destruct Hpc as (Hat & Hdl & Hc & Hrn & _). repeat split; auto.
    intro Hdue. cbn [step]. rewrite Epc. apply Z.leb_le in Hdue. rewrite Hdue.
    eexists; eexists; split; [reflexivity|]. cbn.
    assert (Hd : s_now s + arm_delay (s_renew s) (s_now s) <=? s_now s = true).
    { apply Z.leb_le. pose proof (arm_delay_past (s_renew s) (s_now s)). lia. }
    rewrite Hd.
    assert (Hn : s_now s <? s_renew s = false) by (apply Z.ltb_ge; lia).
    rewrite Hn. split; [reflexivity|]. cbn. auto. }
  split; auto.
  intro Epc. unfold pc_ok in Hpc; rewrite Epc in Hpc. destruct Hpc as (_ & _ & _ & Hg). exact Hg.
Qed.

(* every successful fetch with a directory configured performs exactly one Write, made of this
   fetch's key, the chain received and the trust anchors current at that moment; nothing else is
   ever written *)
Theorem fileset_atomic : forall t0 d es s, run (init t0 d) es = Some s ->
  s_dir s = d /\ s_writes s = (if d then writes_of (s_log s) else []).
Proof. intros t0 d es s H. destruct (inv_run _ _ _ _ H) as [H1 H2 _ _ _ _ _]. auto. Qed.

Lemma keys_desc_lt : forall l b r, keys_desc b l -> In r l -> 0 <= fr_key r < b.
Proof.
  induction l as [|x l IH]; intros b r H Hin; [contradiction|].
  cbn in H. destruct H as (Hx & Hl). destruct Hin as [->|Hin]; auto.
  specialize (IH _ _ Hl Hin). lia.
Qed.

Lemma keys_desc_nodup : forall l b, keys_desc b l -> NoDup (map fr_key l).
Proof.
  induction l as [|x l IH]; intros b H; cbn; constructor.
  - cbn in H. destruct H as (_ & Hl). intro Hin. apply in_map_iff in Hin as (r & Heq & Hin).
    pose proof (keys_desc_lt _ _ _ Hl Hin). lia.
  - cbn in H. destruct H as (_ & Hl). eauto.
Qed.

(* every fetch uses a key no earlier fetch used *)
Theorem fresh_keys : forall t0 d es s, run (init t0 d) es = Some s ->
  NoDup (map fr_key (s_log s)) /\
  (forall r, In r (s_log s) -> 0 <= fr_key r < s_nkey s) /\
  ((s_pc s = PFetch0 \/ s_pc s = PFetch) -> forall r, In r (s_log s) -> fr_key r < cur_key s).
Proof.
  intros t0 d es s H. destruct (inv_run _ _ _ _ H) as [_ _ _ _ (Hk0 & Hk) _ _].
  split; [eapply keys_desc_nodup; eauto|]. split.
  - intros r Hin. pose proof (keys_desc_lt _ _ _ Hk Hin) as Hlt. unfold done_keys in Hlt.
    destruct (fetching (s_pc s)); lia.
  - intros Hw r Hin. pose proof (keys_desc_lt _ _ _ Hk Hin) as Hlt. unfold done_keys, cur_key in *.
    destruct Hw as [E|E]; rewrite E in Hlt; cbn in Hlt; lia.
Qed.

(* ------------------------------------------------------------------------------------- *)
(* non-vacuity                                                                              *)

Local Transparent minute ten_s arm_delay renewal_time.

Example renew_by_halflife_nonvacuous :
  exists s dl, run (init 1000 true) [ERun; EFetchOk (mkCert 0 0 (3600 * second)); EAdvance (1800 * second)]
               = Some s /\ s_pc s = PArmed dl KMain /\ (dl <=? s_now s) = true /\ (s_renew s <=? s_now s) = true.
Proof.
  eexists; eexists. split; [vm_compute; reflexivity|].
  split; [vm_compute; reflexivity|]. split; vm_compute; reflexivity.
Qed.

Example retry_10s_nonvacuous :
  exists s dl, run (init 1000 true) [ERun; EFetchOk (mkCert 0 0 (3600 * second)); EAdvance (1800 * second);
                                     EWake; EFetchErr; EAdvance ten_s]
               = Some s /\ s_pc s = PArmed dl KRetry /\ (dl <=? s_now s) = true /\
               exists s1 s2, step s EWake = Some s1 /\ step s1 EWake = Some s2 /\ s_pc s2 = PFetch.
Proof.
  eexists; eexists. split; [vm_compute; reflexivity|]. split; [vm_compute; reflexivity|].
  split; [vm_compute; reflexivity|]. eexists; eexists.
  split; [vm_compute; reflexivity|]. split; vm_compute; reflexivity.
Qed.
