(* C19 — executable correspondence interface. The Go harness prints [case] terms holding the
   input AND what the implementation was observed to do at every quiescent point; [check_case]
   compares with the models (current tree = Fixed) driven by the same input and evaluates the
   spec oracles on the observation. *)
From Kit Require Export C19.Model C19.Spec Lib.CheckLib.
From Kit Require C19.Ready.
Open Scope Z_scope.

Inductive case :=
| CReady (acts : list act) (obs : list robs)
| CRot (t0 : Z) (usedir : bool) (script : list outcome) (ops : list op) (obs : list obs)
| CConc (script : list outcome) (nreq : Z) (ready_ok : bool) (readers : list (list seg)).

(* ------------------------------------------------------------------------------------- *)
(* readiness: drive Ready.v with the actions, run the threads' own steps to quiescence after
   each, observe.                                                                           *)

Definition act_event (a : act) : Ready.event :=
  match a with
  | ACall k => Ready.ECall k
  | ACancel i => Ready.ECancel (S i)
  | AFetch r => Ready.EFetch r
  end.

Definition asked (s : Ready.state) : bool :=
  match Ready.s_run s with
  | Ready.RNone | Ready.RWant0 | Ready.RPend0 => false
  | _ => true
  end.

Definition status (c : Ready.client) : cst :=
  match Ready.c_pc c with
  | Ready.YRetOk => CReadyOk
  | Ready.YRetCtx => CReadyCtx
  | Ready.GRet (Some id) => CGetSvid id
  | Ready.GRet None => CGetErr
  | _ => CPending
  end.

Definition observe_ready (s : Ready.state) : robs :=
  mkRobs (asked s) (map status (Ready.s_cl s)).

(* The driver stops at the first action it cannot perform (AFetch while the issuer has not been
   asked). *)
Fixpoint ready_drive (v : variant) (s : Ready.state) (acts : list act) : list robs :=
  match acts with
  | [] => []
  | a :: r =>
      match Ready.step v s (act_event a) with
      | None => []
      | Some s1 =>
          let s2 := Ready.quiesce v (Ready.quiesce_fuel s1) s1 in
          observe_ready s2 :: ready_drive v s2 r
      end
  end.

(* Scripts the driver can perform on ANY implementation: a context that is cancelled belongs to a
   call made earlier; the initial fetch is let finish at most once, and only after Run was called.
   (The harness prints only such scripts; C19_ready_model_meets_spec is stated for all of them.) *)
Definition act_ok (pre : list act) (a : act) : bool :=
  match a with
  | ACall _ => true
  | ACancel i => (i <? length (calls_of pre []))%nat
  | AFetch _ => run_called pre && match fetch_result pre with None => true | Some _ => false end
  end.

Fixpoint wf_acts (pre rest : list act) : bool :=
  match rest with
  | [] => true
  | a :: r => act_ok pre a && wf_acts (pre ++ [a]) r
  end.

Definition robs_eqb (a b : robs) : bool :=
  Bool.eqb (ro_asked a) (ro_asked b) && all2 cst_eqb (ro_cl a) (ro_cl b).

(* ------------------------------------------------------------------------------------- *)
(* rotation: drive Model.v with the ops under punctual timers ([settle]), observe.          *)

Definition op_event (o : op) : event :=
  match o with
  | OpAdv d => EAdvance d
  | OpCancel => ECancel
  | OpTA => ETAChange
  end.

Definition observe_rot (nlog nwr : nat) (s : state) : obs :=
  let newlog := rev (firstn (length (s_log s) - nlog) (s_log s)) in
  let newwr := rev (firstn (length (s_writes s) - nwr) (s_writes s)) in
  mkObs (map (fun f => (fr_req f, fr_key f)) newlog)
        (match s_cur s with Some v => (c_id (sv_cert v), sv_key v) | None => (-1, -1) end)
        newwr
        (match s_writes s with w :: _ => w | [] => no_files end)
        (match s_pc s with PStopped => 1 | PFailed => 2 | _ => 0 end).

Fixpoint rot_drive (s : state) (script : list outcome) (es : list event) : list obs :=
  match es with
  | [] => []
  | e :: r =>
      match step s e with
      | None => []
      | Some s1 =>
          let '(s2, script') := settle (settle_fuel script) s1 script in
          observe_rot (length (s_log s)) (length (s_writes s)) s2 :: rot_drive s2 script' r
      end
  end.

Definition rot_model (t0 : Z) (usedir : bool) (script : list outcome) (ops : list op) : list obs :=
  rot_drive (init t0 usedir) script (ERun :: map op_event ops).

Definition pair_eqb (a b : Z * Z) : bool := (fst a =? fst b) && (snd a =? snd b).

Definition obs_eqb (a b : obs) : bool :=
  all2 pair_eqb (o_fetch a) (o_fetch b) && pair_eqb (o_served a) (o_served b) &&
  all2 fileset_eqb (o_pub a) (o_pub b) && fileset_eqb (o_files a) (o_files b) &&
  (o_run a =? o_run b).

(* ------------------------------------------------------------------------------------- *)

Definition model_agrees (v : variant) (c : case) : bool :=
  match c with
  | CReady acts obs => wf_acts [] acts && all2 robs_eqb (ready_drive v Ready.init acts) obs
  | CRot t0 usedir script ops obs => all2 obs_eqb (rot_model t0 usedir script ops) obs
  (* readers racing with renewals: the interleaving is not determined by the input, so there is
     no single model run to compare with; what the models guarantee for EVERY interleaving is
     stated by the theorems (C19_ready_no_deadlock, C19_renewal_published, C19_get_result,
     C19_serves_latest) and demanded of the observation by the oracle *)
  | CConc _ _ _ _ => true
  end.

Definition oracle (c : case) : bool :=
  match c with
  | CReady acts obs => ready_oracle acts obs
  | CRot t0 usedir script ops obs => rot_oracle t0 usedir script ops obs
  | CConc script nreq ready_ok readers => conc_oracle script nreq ready_ok readers
  end.

(* 0 = agree and oracle holds; 1 = model and implementation differ; 2 = the implementation's
   observed behaviour violates the spec. *)
Definition check_case (c : case) : Z :=
  if negb (oracle c) then 2 else if negb (model_agrees Fixed c) then 1 else 0.

Definition run_cases (cs : list (Z * case)) : list (Z * Z) := failures check_case cs.

(* ------------------------------------------------------------------------------------- *)
(* smoke tests *)

(* Get first, then Run: the code before the fix wedges, the fixed code does not. *)
Example ready_get_first_original :
  ready_drive Original Ready.init [ACall Ready.KGet; ACall Ready.KRun; AFetch (Some 0)]
  = [mkRobs false [CPending]; mkRobs false [CPending]].
Proof. vm_compute. reflexivity. Qed.

Example ready_get_first_fixed :
  ready_drive Fixed Ready.init [ACall Ready.KGet; ACall Ready.KRun; AFetch (Some 0)]
  = [mkRobs false [CPending]; mkRobs true [CPending]; mkRobs true [CGetSvid 0]].
Proof. vm_compute. reflexivity. Qed.

Example ready_get_first_oracle :
  oracle (CReady [ACall Ready.KGet; ACall Ready.KRun; AFetch (Some 0)]
                 [mkRobs false [CPending]; mkRobs false [CPending]]) = false /\
  check_case (CReady [ACall Ready.KGet; ACall Ready.KRun; AFetch (Some 0)]
                     [mkRobs false [CPending]; mkRobs true [CPending]; mkRobs true [CGetSvid 0]]) = 0.
Proof. vm_compute. split; reflexivity. Qed.

(* a one-hour certificate, a failure at half-life, the retry 10 s later *)
Example rot_smoke :
  let h := 3600 * second in
  rot_model 1000000000000 true [OOk 0 h; OFail; OOk 0 h]
            [OpAdv (h / 2 - 1); OpAdv 1; OpAdv (10 * second - 1); OpTA; OpAdv 1; OpCancel]
  = [mkObs [(1000000000000, 0)] (0, 0) [(0, 0, 0)] (0, 0, 0) 0;
     mkObs [] (0, 0) [] (0, 0, 0) 0;
     mkObs [(2800000000000, 1)] (0, 0) [] (0, 0, 0) 0;
     mkObs [] (0, 0) [] (0, 0, 0) 0;
     mkObs [] (0, 0) [] (0, 0, 0) 0;
     mkObs [(2810000000000, 2)] (2, 2) [(2, 2, 1)] (2, 2, 1) 0;
     mkObs [] (2, 2) [] (2, 2, 1) 1].
Proof. vm_compute. reflexivity. Qed.

Example rot_smoke_oracle :
  let h := 3600 * second in
  let script := [OOk 0 h; OFail; OOk 0 h] in
  let ops := [OpAdv (h / 2 - 1); OpAdv 1; OpAdv (10 * second - 1); OpTA; OpAdv 1; OpCancel] in
  check_case (CRot 1000000000000 true script ops (rot_model 1000000000000 true script ops)) = 0.
Proof. vm_compute. reflexivity. Qed.

(* readers racing with three renewals: a hang (issuer never asked again, a call that never
   returned) or a stale / torn result is refused *)
Example conc_smoke :
  let script := [OOk (-10) 10; OOk (-10) 10; OFail; OOk (-10) 10] in
  check_case (CConc script 5 true [[mkSeg 0 2 2; mkSeg 1 3 4; mkSeg 3 5 5]; [mkSeg 1 4 3; mkSeg 3 5 5]]) = 0 /\
  check_case (CConc script 3 true [[mkSeg 0 2 2; mkSeg 1 3 3; mkSeg (-2) 3 3]]) = 2 /\
  check_case (CConc script 5 true [[mkSeg 1 3 3; mkSeg 0 4 4]]) = 2 /\
  check_case (CConc script 5 true [[mkSeg 0 2 5]]) = 2 /\
  check_case (CConc script 5 true [[mkSeg 2 5 5]]) = 2 /\
  check_case (CConc script 5 true [[mkSeg (-1) 5 5]]) = 2.
Proof. vm_compute. repeat split. Qed.
