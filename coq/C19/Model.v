(* C19 — SPIFFE, part (ii)+(iii): the rotation loop of /repo/crypto/spiffe/spiffe.go
   ([Run] after readiness, [runRotation], [fetchIdentityCertificate], [renewalTime]) as an event
   system over an injected clock. Definitions only.

   Time is [Z] nanoseconds since the Unix epoch. The loop goroutine is sequential; its program
   counter [pc] stops exactly where the Go code blocks: in the issuer callback ([PFetch0] /
   [PFetch]) and in the two [select]s on [clock.After] ([PArmed dl k]). The environment moves the
   clock ([EAdvance]), answers the issuer callback ([EFetchOk] / [EFetchErr]), changes the trust
   anchors ([ETAChange]) and cancels the context ([ECancel]); [EWake] (timer delivery + the code
   up to the next blocking point) and [EStop] (the [ctx.Done()] branch) are the loop's own steps.
   A timer may be delivered arbitrarily late: [EWake] is enabled at every instant [>=] its
   deadline. The lock-protected store of the renewed SVID is one atomic step here; the lock
   protocol itself is part (i), [Ready.v]. *)
From Kit Require Export Lib.Base.
Open Scope Z_scope.

(* ------------------------------------------------------------------------------------- *)
(* Go time arithmetic                                                                       *)

Definition minute : Z := 60000000000.
Definition ten_s : Z := 10000000000.
Definition maxD : Z := 9223372036854775807.      (* math.MaxInt64: time.maxDuration *)
Definition minD : Z := -9223372036854775808.     (* time.minDuration *)

(* time.Time.Sub saturates at the Duration range. *)
Definition sat (x : Z) : Z := Z.max minD (Z.min maxD x).
Definition tsub (a b : Z) : Z := sat (a - b).

(* func renewalTime(notBefore, notAfter) = notBefore.Add(notAfter.Sub(notBefore) / 2);
   Go's integer division truncates toward zero. *)
Definition renewal_time (nb na : Z) : Z := nb + Z.quot (tsub na nb) 2.

(* s.clock.After(min(time.Minute, renewTime.Sub(s.clock.Now()))) *)
Definition arm_delay (renew now : Z) : Z := Z.min minute (tsub renew now).

(* ------------------------------------------------------------------------------------- *)
(* State                                                                                    *)

(* The leaf certificate of an SVID as far as the loop looks at it: an identity chosen by the
   issuer (the serial number in the harness) and the validity window. *)
Record cert := mkCert { c_id : Z; c_nb : Z; c_na : Z }.

(* x509svid.SVID{Certificates, PrivateKey}: the chain received and the key generated for the
   fetch that received it. *)
Record svid := mkSvid { sv_cert : cert; sv_key : Z }.

Inductive kind := KMain | KRetry.

Inductive pc :=
| PInit                      (* Run not called yet *)
| PFetch0                    (* initial fetch: inside the issuer callback *)
| PArmed (dl : Z) (k : kind) (* blocked in select on clock.After; [dl] = deadline of the timer;
                                KMain = the loop's wake-up, KRetry = the 10 s wait after a failure *)
| PFetch                     (* renewal fetch: inside the issuer callback *)
| PStopped                   (* context done: Run returned nil *)
| PFailed.                   (* initial fetch failed: Run returned the error *)

(* A published file set {key.pem, cert.pem, ca.pem}: (key id, cert id, trust-anchor version). *)
Definition fileset := (Z * Z * Z)%type.

(* One completed fetch (ghost history). [fr_key] identifies the private key generated for this
   fetch; [fr_ok] is the certificate received, [None] when the fetch failed. *)
Record fetchrec := mkFr { fr_req : Z; fr_resp : Z; fr_key : Z; fr_ok : option cert; fr_ta : Z }.

Record state := mkSt {
  s_pc : pc;
  s_now : Z;                 (* the injected clock *)
  s_cur : option svid;       (* s.currentSVID *)
  s_renew : Z;               (* local renewTime *)
  s_since : Z;               (* ghost: instant of the last successful fetch or retry wake-up *)
  s_at : Z;                  (* ghost: instant at which the pending timer was armed *)
  s_cancel : bool;           (* ctx cancelled *)
  s_dir : bool;              (* WriteIdentityToFile configured *)
  s_ta : Z;                  (* version of the current trust anchors *)
  s_nkey : Z;                (* private keys generated so far; the next key is number [s_nkey] *)
  s_req : Z;                 (* ghost: instant of the request in progress *)
  s_log : list fetchrec;     (* ghost: completed fetches, newest first *)
  s_writes : list fileset    (* ghost: dir.Write calls, newest first; the head is what the
                                directory shows (dir.Write atomically replaces the file set) *)
}.

Definition init (t0 : Z) (usedir : bool) : state :=
  mkSt PInit t0 None 0 t0 t0 false usedir 0 0 t0 [] [].

Definition set_pc (p : pc) (s : state) : state :=
  mkSt p (s_now s) (s_cur s) (s_renew s) (s_since s) (s_at s) (s_cancel s) (s_dir s) (s_ta s)
       (s_nkey s) (s_req s) (s_log s) (s_writes s).

(* fetchIdentityCertificate, first half: a fresh P-256 key and a CSR, then the issuer callback. *)
Definition request (p : pc) (s : state) : state :=
  mkSt p (s_now s) (s_cur s) (s_renew s) (s_since s) (s_at s) (s_cancel s) (s_dir s) (s_ta s)
       (s_nkey s + 1) (s_now s) (s_log s) (s_writes s).

(* The key of the fetch in progress. *)
Definition cur_key (s : state) : Z := s_nkey s - 1.

(* fetchIdentityCertificate, second half: on success with a directory configured, ONE dir.Write
   of this fetch's key, the chain received and the trust anchors current now. *)
Definition complete (r : option cert) (s : state) : state :=
  let w := match r with
           | Some c => if s_dir s then (cur_key s, c_id c, s_ta s) :: s_writes s else s_writes s
           | None => s_writes s
           end in
  mkSt (s_pc s) (s_now s) (s_cur s) (s_renew s) (s_since s) (s_at s) (s_cancel s) (s_dir s)
       (s_ta s) (s_nkey s) (s_req s)
       (mkFr (s_req s) (s_now s) (cur_key s) r (s_ta s) :: s_log s) w.

(* s.currentSVID = svid; renewTime = renewalTime(cert.NotBefore, cert.NotAfter) *)
Definition store (c : cert) (s : state) : state :=
  mkSt (s_pc s) (s_now s) (Some (mkSvid c (cur_key s))) (renewal_time (c_nb c) (c_na c)) (s_now s) (s_at s)
       (s_cancel s) (s_dir s) (s_ta s) (s_nkey s) (s_req s) (s_log s) (s_writes s).

Definition set_since (s : state) : state :=
  mkSt (s_pc s) (s_now s) (s_cur s) (s_renew s) (s_now s) (s_at s) (s_cancel s) (s_dir s)
       (s_ta s) (s_nkey s) (s_req s) (s_log s) (s_writes s).

(* top of the for loop: arm the wake-up timer *)
Definition arm (dl : Z) (k : kind) (s : state) : state :=
  mkSt (PArmed dl k) (s_now s) (s_cur s) (s_renew s) (s_since s) (s_now s) (s_cancel s) (s_dir s)
       (s_ta s) (s_nkey s) (s_req s) (s_log s) (s_writes s).

Definition arm_main (s : state) : state :=
  arm (s_now s + arm_delay (s_renew s) (s_now s)) KMain s.

(* ------------------------------------------------------------------------------------- *)
(* Events                                                                                   *)

Inductive event :=
| ERun                       (* API: Run(ctx) *)
| EAdvance (d : Z)           (* environment: the clock moves forward by d >= 0 *)
| EWake                      (* loop: the pending timer is delivered *)
| EFetchOk (c : cert)        (* environment: the issuer returns a chain with leaf c *)
| EFetchErr                  (* environment: the fetch fails (issuer error, empty chain, no SPIFFE
                                ID, trust anchors unavailable, directory write failed) *)
| ETAChange                  (* environment: the trust anchors change *)
| ECancel                    (* environment: ctx is cancelled *)
| EStop.                     (* loop: the ctx.Done() branch of a select *)

Definition set_now (t : Z) (s : state) : state :=
  mkSt (s_pc s) t (s_cur s) (s_renew s) (s_since s) (s_at s) (s_cancel s) (s_dir s) (s_ta s)
       (s_nkey s) (s_req s) (s_log s) (s_writes s).

Definition set_ta (t : Z) (s : state) : state :=
  mkSt (s_pc s) (s_now s) (s_cur s) (s_renew s) (s_since s) (s_at s) (s_cancel s) (s_dir s) t
       (s_nkey s) (s_req s) (s_log s) (s_writes s).

Definition set_cancel (s : state) : state :=
  mkSt (s_pc s) (s_now s) (s_cur s) (s_renew s) (s_since s) (s_at s) true (s_dir s) (s_ta s)
       (s_nkey s) (s_req s) (s_log s) (s_writes s).

Definition step (s : state) (e : event) : option state :=
  match e with
  | ERun =>
      match s_pc s with
      | PInit => Some (request PFetch0 s)
      | _ => None
      end
  | EAdvance d => if 0 <=? d then Some (set_now (s_now s + d) s) else None
  | ETAChange => Some (set_ta (s_ta s + 1) s)
  | ECancel => Some (set_cancel s)
  | EFetchOk c =>
      match s_pc s with
      | PFetch0 | PFetch => Some (arm_main (store c (complete (Some c) s)))
      | _ => None
      end
  | EFetchErr =>
      match s_pc s with
      | PFetch0 => Some (set_pc PFailed (complete None s))
      | PFetch => Some (arm (s_now s + ten_s) KRetry (complete None s))
      | _ => None
      end
  | EWake =>
      match s_pc s with
      | PArmed dl KMain =>
          if dl <=? s_now s then
            if s_now s <? s_renew s then Some (arm_main s)   (* Now().Before(renewTime): continue *)
            else Some (request PFetch s)
          else None
      | PArmed dl KRetry =>
          if dl <=? s_now s then Some (arm_main (set_since s)) else None   (* continue *)
      | _ => None
      end
  | EStop =>
      match s_pc s with
      | PArmed _ _ => if s_cancel s then Some (set_pc PStopped s) else None
      | _ => None
      end
  end.

Fixpoint run (s : state) (es : list event) : option state :=
  match es with
  | [] => Some s
  | e :: es' => match step s e with Some s' => run s' es' | None => None end
  end.

Definition reachable (t0 : Z) (usedir : bool) (s : state) : Prop :=
  exists es, run (init t0 usedir) es = Some s.

(* What the x509 source serves (GetX509SVID after readiness): the identity of the current
   certificate, or an error. *)
Definition served (s : state) : option Z := option_map (fun v => c_id (sv_cert v)) (s_cur s).

(* What the configured directory shows. *)
Definition published (s : state) : option fileset := hd_error (s_writes s).

(* ------------------------------------------------------------------------------------- *)
(* A scheduler with punctual timers, used by the correspondence check: after every clock step
   each due timer is delivered at once and the issuer answers from a script. *)

Inductive outcome :=
| OOk (dnb dna : Z)          (* issue a certificate valid from request+dnb to request+dna (ns),
                                truncated to whole seconds as X.509 does *)
| OFail.                     (* any failure of the fetch *)

Definition second : Z := 1000000000.
Definition floor_sec (t : Z) : Z := t - t mod second.

Definition issue (id req dnb dna : Z) : cert :=
  mkCert id (floor_sec (req + dnb)) (floor_sec (req + dna)).

(* Runs the loop's own steps until it blocks with nothing due. The issuer's k-th answer is the
   k-th element of the script; an exhausted script answers with failures. *)
Fixpoint settle (fuel : nat) (s : state) (script : list outcome) : state * list outcome :=
  match fuel with
  | O => (s, script)
  | S f =>
      match s_pc s with
      | PFetch0 | PFetch =>
          let o := hd OFail script in
          let e := match o with
                   | OOk dnb dna => EFetchOk (issue (cur_key s) (s_req s) dnb dna)
                   | OFail => EFetchErr
                   end in
          match step s e with
          | Some s' => settle f s' (tl script)
          | None => (s, script)
          end
      | PArmed dl _ =>
          if s_cancel s then
            match step s EStop with Some s' => (s', script) | None => (s, script) end
          else if dl <=? s_now s then
            match step s EWake with Some s' => settle f s' script | None => (s, script) end
          else (s, script)
      | _ => (s, script)
      end
  end.

Definition settle_fuel (script : list outcome) : nat := 4 * length script + 8.
