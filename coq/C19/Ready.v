(* C19 — SPIFFE, part (i): readiness. Threads [Run], [Ready], [GetX509SVID] of
   /repo/crypto/spiffe/{spiffe.go,svidsource.go} over the RWMutex [s.lock], the channel
   [s.readyCh] and the field [s.currentSVID]. Definitions only.

   Every thread has a program counter that stops exactly where the Go code blocks or
   acquires/releases the lock. The state of the RWMutex is a function of the program counters:
   a thread holds the read lock between its RLock and RUnlock, the writer ([Run]) has announced
   itself between the two halves of [sync.RWMutex.Lock] (new readers are refused from the
   announcement on, the writer proceeds when the active readers have left). [readyCh] is closed
   by [Run] while it still holds the write lock.

   [Original] = svidsource.go before the fix: RLock first, then [<-readyCh].
   [Fixed]    = after the fix: [<-readyCh] first, then RLock. *)
From Kit Require Export Lib.Base.

(* Program counter of a client thread. *)
Inductive cpc :=
| YWait                 (* Ready: in select { <-ctx.Done(); <-readyCh } *)
| YRetOk                (* Ready returned nil *)
| YRetCtx               (* Ready returned ctx.Err() *)
| GWantR0               (* Get, Original: at s.lock.RLock(), readiness not looked at yet *)
| GHoldWait             (* Get, Original: holds the read lock, blocked in <-readyCh *)
| GWaitReady            (* Get, Fixed: blocked in <-readyCh, holds nothing *)
| GWantR                (* Get, Fixed: readiness seen, at s.lock.RLock() *)
| GHold                 (* Get: holds the read lock, readiness seen; next: read, RUnlock, return *)
| GRet (r : option Z).  (* Get returned: [Some id] = the SVID, [None] = "no SVID available" *)

(* A client thread: its pc and whether the context it passed to Ready has been cancelled. *)
Record client := mkCl { c_pc : cpc; c_cancelled : bool }.

(* Program counter of the Run thread. *)
Inductive rpc :=
| RNone                 (* Run not called *)
| RWant0                (* running flag set; at s.lock.Lock(), not announced yet *)
| RPend0                (* writer announced; waiting for the active readers to leave *)
| RHold0                (* holds the write lock; inside the issuer callback (initial fetch) *)
| RGot (r : option Z)   (* callback returned ([None] = failure); still holds the lock *)
| RUnl (r : option Z)   (* currentSVID stored, readyCh closed; still holds the lock *)
| RRot                  (* rotating: blocked on its timers *)
| RWant (c : Z)         (* renewal fetched c; at s.lock.Lock(), not announced yet *)
| RPend (c : Z)         (* writer announced; waiting for the active readers *)
| RHoldW (c : Z)        (* holds the write lock; next: store c, Unlock *)
| RRetErr.              (* Run returned the error of the initial fetch *)

Record state := mkSt {
  s_run : rpc;
  s_cl : list client;
  s_cur : option Z;                (* s.currentSVID *)
  s_init : option (option Z);      (* ghost: result of the initial fetch once it finished *)
  s_fetched : list Z               (* ghost: successful fetches, newest first *)
}.

Definition init : state := mkSt RNone [] None None [].

(* ---- the lock and the channel as functions of the program counters ---- *)

Definition wheld (s : state) : bool :=
  match s_run s with RHold0 | RGot _ | RUnl _ | RHoldW _ => true | _ => false end.

Definition wpend (s : state) : bool :=
  match s_run s with RPend0 | RPend _ => true | _ => false end.

Definition holds_r (c : client) : bool :=
  match c_pc c with GHoldWait | GHold => true | _ => false end.

Definition readers (s : state) : bool := existsb holds_r (s_cl s).

(* close(s.readyCh) has happened *)
Definition ready (s : state) : bool :=
  match s_run s with
  | RUnl _ | RRot | RWant _ | RPend _ | RHoldW _ | RRetErr => true
  | _ => false
  end.

(* sync.RWMutex.RLock proceeds iff no writer holds the lock or has announced itself *)
Definition rlock_ok (s : state) : bool := negb (wheld s) && negb (wpend s).

(* ---- events ---- *)

Inductive ckind := KRun | KReady | KGet.

Inductive event :=
| ECall (k : ckind)          (* API call from a new goroutine *)
| EStep (tid : nat)          (* own step of a thread: 0 = Run, S i = client i *)
| EStepCtx (tid : nat)       (* Ready takes the ctx.Done() branch of its select *)
| ECancel (tid : nat)        (* environment: the context passed by client tid is cancelled *)
| EFetch (r : option Z)      (* environment: the issuer callback of the initial fetch returns *)
| ERenew (c : Z).            (* environment: the rotation loop has fetched a renewed SVID *)

Definition set_run (r : rpc) (s : state) : state :=
  mkSt r (s_cl s) (s_cur s) (s_init s) (s_fetched s).

Definition set_cl (l : list client) (s : state) : state :=
  mkSt (s_run s) l (s_cur s) (s_init s) (s_fetched s).

Fixpoint upd {A} (i : nat) (a : A) (l : list A) : list A :=
  match l, i with
  | [], _ => []
  | _ :: t, O => a :: t
  | x :: t, S j => x :: upd j a t
  end.

Definition set_cpc (i : nat) (c : client) (p : cpc) (s : state) : state :=
  set_cl (upd i (mkCl p (c_cancelled c)) (s_cl s)) s.

Definition step_run (s : state) : option state :=
  match s_run s with
  | RWant0 => Some (set_run RPend0 s)
  | RPend0 => if readers s then None else Some (set_run RHold0 s)
  | RGot r =>
      (* s.currentSVID = initialCert (success only); close(s.readyCh) *)
      Some (mkSt (RUnl r) (s_cl s) (match r with Some c => Some c | None => s_cur s end)
                 (s_init s) (s_fetched s))
  | RUnl (Some _) => Some (set_run RRot s)
  | RUnl None => Some (set_run RRetErr s)
  | RWant c => Some (set_run (RPend c) s)
  | RPend c => if readers s then None else Some (set_run (RHoldW c) s)
  | RHoldW c => Some (mkSt RRot (s_cl s) (Some c) (s_init s) (s_fetched s))
  | RNone | RHold0 | RRot | RRetErr => None
  end.

Definition step_client (s : state) (i : nat) (c : client) : option state :=
  match c_pc c with
  | YWait => if ready s then Some (set_cpc i c YRetOk s) else None
  | GWantR0 => if rlock_ok s then Some (set_cpc i c GHoldWait s) else None
  | GHoldWait => if ready s then Some (set_cpc i c GHold s) else None
  | GWaitReady => if ready s then Some (set_cpc i c GWantR s) else None
  | GWantR => if rlock_ok s then Some (set_cpc i c GHold s) else None
  | GHold => Some (set_cpc i c (GRet (s_cur s)) s)
  | YRetOk | YRetCtx | GRet _ => None
  end.

Definition step (v : variant) (s : state) (e : event) : option state :=
  match e with
  | ECall KRun =>
      match s_run s with
      | RNone => Some (set_run RWant0 s)
      | _ => Some s                       (* "already running": returns at once, no effect *)
      end
  | ECall KReady => Some (set_cl (s_cl s ++ [mkCl YWait false]) s)
  | ECall KGet =>
      Some (set_cl (s_cl s ++ [mkCl (match v with Original => GWantR0 | Fixed => GWaitReady end)
                                    false]) s)
  | EStep O => step_run s
  | EStep (S i) =>
      match nth_error (s_cl s) i with
      | Some c => step_client s i c
      | None => None
      end
  | EStepCtx (S i) =>
      match nth_error (s_cl s) i with
      | Some c => match c_pc c with
                  | YWait => if c_cancelled c then Some (set_cpc i c YRetCtx s) else None
                  | _ => None
                  end
      | None => None
      end
  | EStepCtx O => None
  | ECancel (S i) =>
      match nth_error (s_cl s) i with
      | Some c => Some (set_cl (upd i (mkCl (c_pc c) true) (s_cl s)) s)
      | None => None
      end
  | ECancel O => None
  | EFetch r =>
      match s_run s with
      | RHold0 => Some (mkSt (RGot r) (s_cl s) (s_cur s) (Some r)
                             (match r with Some c => c :: s_fetched s | None => s_fetched s end))
      | _ => None
      end
  | ERenew c =>
      match s_run s with
      | RRot => Some (mkSt (RWant c) (s_cl s) (s_cur s) (s_init s) (c :: s_fetched s))
      | _ => None
      end
  end.

Fixpoint run (v : variant) (s : state) (es : list event) : option state :=
  match es with
  | [] => Some s
  | e :: es' => match step v s e with Some s' => run v s' es' | None => None end
  end.

Definition reachable (v : variant) (s : state) : Prop := exists es, run v init es = Some s.

(* The threads' own steps (everything that needs no help from the environment). *)
Definition internal (e : event) : bool :=
  match e with EStep _ | EStepCtx _ => true | _ => false end.

(* No thread can take a step on its own. *)
Definition stuck (v : variant) (s : state) : Prop := forall e, internal e = true -> step v s e = None.

Definition returned (c : client) : bool :=
  match c_pc c with YRetOk | YRetCtx | GRet _ => true | _ => false end.

(* ---- executable scheduler for the correspondence check: run own steps (lowest thread id
   first; a cancelled Ready that is not ready takes its ctx branch) until none is enabled ---- *)

Fixpoint first_step (v : variant) (s : state) (tids : list nat) : option state :=
  match tids with
  | [] => None
  | t :: rest =>
      match step v s (EStep t) with
      | Some s' => Some s'
      | None => match step v s (EStepCtx t) with
                | Some s' => Some s'
                | None => first_step v s rest
                end
      end
  end.

Fixpoint quiesce (v : variant) (fuel : nat) (s : state) : state :=
  match fuel with
  | O => s
  | S f => match first_step v s (seq 0 (S (length (s_cl s)))) with
           | Some s' => quiesce v f s'
           | None => s
           end
  end.

(* Upper bound on the number of own steps from s (see Proofs_Ready.measure). *)
Definition quiesce_fuel (s : state) : nat := 4 + 3 * length (s_cl s).
