(* C19 — proofs about the readiness system [Ready.v]: invariants over ALL schedules (both
   variants), the no-wedge theorem for the fixed code, the deadlock witness for the code before
   the fix. Plain stdlib style. *)
From Coq Require Import ZArith List Lia Bool Arith.
Import ListNotations.
From Kit Require Import Lib.Base C19.Ready.

(* ------------------------------------------------------------------------------------- *)
(* list helpers                                                                             *)

Lemma nth_error_upd_same : forall A i (a x : A) l,
  nth_error l i = Some x -> nth_error (upd i a l) i = Some a.
Proof.
  intros A i a x l; revert i; induction l as [|y l IH]; intros [|i] H; cbn in *; try discriminate; auto.
Qed.

Lemma upd_length : forall A i (a : A) l, length (upd i a l) = length l.
Proof. intros A i a l; revert i; induction l as [|y l IH]; intros [|i]; cbn; auto. Qed.

Lemma Forall_upd : forall A (P : A -> Prop) i a l, Forall P l -> P a -> Forall P (upd i a l).
Proof.
  intros A P i a l; revert i; induction l as [|y l IH]; intros [|i] HF Ha; cbn; auto;
    inversion HF; subst; constructor; auto.
Qed.

Lemma Forall_nth : forall A (P : A -> Prop) l i x, Forall P l -> nth_error l i = Some x -> P x.
Proof.
  intros A P l i x HF Hn. apply nth_error_In in Hn. rewrite Forall_forall in HF. auto.
Qed.

Lemma existsb_upd_false : forall A (f : A -> bool) i a l,
  existsb f l = false -> f a = false -> existsb f (upd i a l) = false.
Proof.
  intros A f i a l; revert i; induction l as [|y l IH]; intros [|i] H Ha; cbn in *; auto;
    apply orb_false_iff in H as [H1 H2]; rewrite ?Ha, ?H1; cbn; auto.
Qed.

Lemma existsb_nth_false : forall A (f : A -> bool) l i x,
  existsb f l = false -> nth_error l i = Some x -> f x = false.
Proof.
  intros A f l i x H Hn. apply nth_error_In in Hn.
  destruct (f x) eqn:E; auto. assert (existsb f l = true) by (apply existsb_exists; eauto). congruence.
Qed.

Lemma existsb_app1 : forall A (f : A -> bool) l a, existsb f (l ++ [a]) = existsb f l || f a.
Proof. intros. rewrite existsb_app. cbn. rewrite orb_false_r. reflexivity. Qed.

Lemma sum_upd_lt : forall (f : client -> nat) i c c' l,
  nth_error l i = Some c -> (f c' < f c)%nat ->
  (list_sum (map f (upd i c' l)) < list_sum (map f l))%nat.
Proof.
  intros f i c c' l; revert i; induction l as [|y l IH]; intros [|i] Hn Hlt; cbn in *; try discriminate.
  - inversion Hn; subst. apply Nat.add_lt_mono_r. exact Hlt.
  - apply Nat.add_lt_mono_l. exact (IH i Hn Hlt).
Qed.

(* ------------------------------------------------------------------------------------- *)
(* schedules                                                                                *)

Lemma run_inv : forall v (P : state -> Prop),
  (forall s e s', P s -> step v s e = Some s' -> P s') ->
  forall es s s', P s -> run v s es = Some s' -> P s'.
Proof.
  intros v P Hstep es; induction es as [|e es IH]; intros s s' HP Hrun; cbn in Hrun.
  - inversion Hrun; subst; auto.
  - destruct (step v s e) as [s1|] eqn:E; try discriminate. eauto.
Qed.

(* ------------------------------------------------------------------------------------- *)
(* the invariant (both variants)                                                            *)

Definition run_asked (s : state) : bool :=
  match s_run s with RNone | RWant0 | RPend0 => false | _ => true end.

Definition fetched_of (r : option Z) : list Z := match r with Some c => [c] | None => [] end.

(* what the fields hold at each point of Run *)
Definition run_ok (s : state) : Prop :=
  match s_run s with
  | RNone | RWant0 | RPend0 | RHold0 => s_init s = None /\ s_cur s = None /\ s_fetched s = []
  | RGot r => s_init s = Some r /\ s_cur s = None /\ s_fetched s = fetched_of r
  | RUnl r => s_init s = Some r /\ s_cur s = r /\ s_fetched s = fetched_of r
  | RRot => (exists c0, s_init s = Some (Some c0)) /\ s_cur s = hd_error (s_fetched s) /\ s_fetched s <> []
  | RWant c | RPend c | RHoldW c =>
      (exists c0, s_init s = Some (Some c0)) /\
      exists rest, s_fetched s = c :: rest /\ s_cur s = hd_error rest /\ rest <> []
  | RRetErr => s_init s = Some None /\ s_cur s = None /\ s_fetched s = []
  end.

(* the result a returned Get may carry *)
Definition get_ok (s : state) (r : option Z) : Prop :=
  match s_init s with
  | None => False
  | Some None => r = None
  | Some (Some _) => exists id, r = Some id /\ In id (s_fetched s)
  end.

(* what a client's program counter implies *)
Definition cl_ok (v : variant) (s : state) (c : client) : Prop :=
  match c_pc c with
  | GWantR0 | GHoldWait => v = Original
  | GWaitReady => v = Fixed
  | GWantR | GHold | YRetOk => ready s = true
  | YRetCtx => c_cancelled c = true
  | GRet r => get_ok s r
  | YWait => True
  end.

Record inv (v : variant) (s : state) : Prop := mkInv {
  i_run : run_ok s;
  i_cl : Forall (cl_ok v s) (s_cl s);
  i_excl : wheld s = true -> readers s = false
}.

(* [s'] extends [s]: readiness, the result of the initial fetch and the fetch history only grow *)
Definition ext (s s' : state) : Prop :=
  (ready s = true -> ready s' = true) /\
  (s_init s <> None -> s_init s' = s_init s) /\
  incl (s_fetched s) (s_fetched s').

Lemma ext_refl_cl : forall s l, ext s (set_cl l s).
Proof. intros s l; repeat split; cbn; auto using incl_refl. Qed.

Lemma cl_ok_ext : forall v s s' c, ext s s' -> cl_ok v s c -> cl_ok v s' c.
Proof.
  intros v s s' c (Hr & Hi & Hf) H. unfold cl_ok in *.
  destruct (c_pc c); auto.
  unfold get_ok in *. destruct (s_init s) as [[x|]|] eqn:E; try contradiction.
  - rewrite Hi by congruence. destruct H as (id & -> & Hin). eauto.
  - rewrite Hi by congruence. assumption.
Qed.

Lemma Forall_cl_ext : forall v s s' l, ext s s' -> Forall (cl_ok v s) l -> Forall (cl_ok v s') l.
Proof. intros v s s' l He HF. eapply Forall_impl; [|exact HF]. intros c. apply cl_ok_ext; auto. Qed.

Lemma inv_init : forall v, inv v init.
Proof. intros v; constructor; cbn; auto. Qed.

Lemma ready_run_ok_cur : forall s, run_ok s -> ready s = true -> get_ok s (s_cur s).
Proof.
  intros s H Hr. unfold run_ok, ready, get_ok in *.
  destruct (s_run s) as [| | | |r|r| |c|c|c|]; try discriminate.
  - destruct H as (Hi & Hc & Hf). rewrite Hi, Hc, Hf. destruct r; cbn; eauto.
  - destruct H as ((c0 & Hi) & Hc & Hf). rewrite Hi, Hc.
    destruct (s_fetched s) as [|x l]; [congruence|]. cbn. eauto.
  - destruct H as ((c0 & Hi) & rest & Hf & Hc & Hn). rewrite Hi, Hc, Hf.
    destruct rest as [|x l]; [congruence|]. cbn. eauto.
  - destruct H as ((c0 & Hi) & rest & Hf & Hc & Hn). rewrite Hi, Hc, Hf.
    destruct rest as [|x l]; [congruence|]. cbn. eauto.
  - destruct H as ((c0 & Hi) & rest & Hf & Hc & Hn). rewrite Hi, Hc, Hf.
    destruct rest as [|x l]; [congruence|]. cbn. eauto.
  - destruct H as (Hi & Hc & Hf). rewrite Hi, Hc. reflexivity.
Qed.

(* a client's own step *)
Lemma inv_set_cpc : forall v s i c p,
  inv v s -> nth_error (s_cl s) i = Some c ->
  cl_ok v s (mkCl p (c_cancelled c)) ->
  (wheld s = true -> holds_r (mkCl p (c_cancelled c)) = false) ->
  inv v (set_cpc i c p s).
Proof.
  intros v s i c p [Hr Hc He] Hn Hok Hh. constructor.
  - exact Hr.
  - cbn. apply Forall_upd.
    + eapply Forall_cl_ext; [apply (ext_refl_cl s (upd i (mkCl p (c_cancelled c)) (s_cl s)))|exact Hc].
    + eapply cl_ok_ext; [apply (ext_refl_cl s (upd i (mkCl p (c_cancelled c)) (s_cl s)))|exact Hok].
  - intro Hw. change (wheld (set_cpc i c p s)) with (wheld s) in Hw.
    unfold readers; cbn. apply existsb_upd_false; auto.
Qed.

Lemma step_client_inv : forall v s i c s',
  inv v s -> nth_error (s_cl s) i = Some c -> step_client s i c = Some s' -> inv v s'.
Proof.
  intros v s i c s' Hinv Hn Hs. pose proof Hinv as [Hr Hc He].
  pose proof (Forall_nth _ _ _ _ _ Hc Hn) as Hok.
  unfold step_client in Hs. unfold cl_ok in Hok.
  destruct (c_pc c) eqn:Epc.
  - (* YWait *) destruct (ready s) eqn:Er; inversion Hs; subst.
    apply inv_set_cpc; [assumption|assumption|unfold cl_ok; cbn; auto|reflexivity].
  - discriminate.
  - discriminate.
  - (* GWantR0 *) destruct (rlock_ok s) eqn:Ek; inversion Hs; subst.
    apply inv_set_cpc; [assumption|assumption|unfold cl_ok; cbn; auto|].
    intro Hw. unfold rlock_ok in Ek. rewrite Hw in Ek. discriminate.
  - (* GHoldWait *) destruct (ready s) eqn:Er; inversion Hs; subst.
    apply inv_set_cpc; [assumption|assumption|unfold cl_ok; cbn; auto|].
    intro Hw. specialize (He Hw). unfold readers in He.
    pose proof (existsb_nth_false _ _ _ _ _ He Hn) as Hf. unfold holds_r in Hf. rewrite Epc in Hf. discriminate.
  - (* GWaitReady *) destruct (ready s) eqn:Er; inversion Hs; subst.
    apply inv_set_cpc; [assumption|assumption|unfold cl_ok; cbn; auto|reflexivity].
  - (* GWantR *) destruct (rlock_ok s) eqn:Ek; inversion Hs; subst.
    apply inv_set_cpc; [assumption|assumption|unfold cl_ok; cbn; auto|].
    intro Hw. unfold rlock_ok in Ek. rewrite Hw in Ek. discriminate.
  - (* GHold *) inversion Hs; subst.
    apply inv_set_cpc; [assumption|assumption| |reflexivity].
    unfold cl_ok; cbn. apply ready_run_ok_cur; auto.
  - discriminate.
Qed.

Lemma inv_step : forall v s e s', inv v s -> step v s e = Some s' -> inv v s'.
Proof.
  intros v s e s' Hinv Hs. pose proof Hinv as [Hr Hc He].
  destruct e as [k|tid|tid|tid|r|c]; cbn in Hs.
  - (* ECall *)
    destruct k.
    + (* KRun *)
      destruct (s_run s) eqn:Erun; inversion Hs; subst; auto.
      constructor.
      * unfold run_ok in *. cbn. rewrite Erun in Hr. exact Hr.
      * cbn. eapply Forall_cl_ext; [|exact Hc]. repeat split; cbn; auto using incl_refl.
        unfold ready. rewrite Erun. discriminate.
      * cbn. discriminate.
    + (* KReady *)
      inversion Hs; subst. constructor.
      * exact Hr.
      * cbn. apply Forall_app; split.
        -- eapply Forall_cl_ext; [apply ext_refl_cl|exact Hc].
        -- constructor; [exact I|constructor].
      * intro Hw. change (wheld s = true) in Hw. unfold readers; cbn.
        rewrite existsb_app1. cbn. rewrite orb_false_r. apply He; auto.
    + (* KGet *)
      inversion Hs; subst. constructor.
      * exact Hr.
      * cbn. apply Forall_app; split.
        -- eapply Forall_cl_ext; [apply ext_refl_cl|exact Hc].
        -- constructor; [|constructor]. unfold cl_ok; destruct v; cbn; reflexivity.
      * intro Hw. change (wheld s = true) in Hw. unfold readers; cbn.
        rewrite existsb_app1. destruct v; cbn; rewrite orb_false_r; apply He; auto.
  - (* EStep *)
    destruct tid as [|i].
    + (* Run's own step *)
      unfold step_run in Hs.
      destruct (s_run s) eqn:Erun; try discriminate.
      * (* RWant0 -> RPend0 *)
        inversion Hs; subst. constructor.
        -- unfold run_ok in *; cbn. rewrite Erun in Hr. exact Hr.
        -- cbn. eapply Forall_cl_ext; [|exact Hc]. repeat split; cbn; auto using incl_refl.
           unfold ready; rewrite Erun; discriminate.
        -- cbn. discriminate.
      * (* RPend0 -> RHold0 *)
        destruct (readers s) eqn:Erd; inversion Hs; subst. constructor.
        -- unfold run_ok in *; cbn. rewrite Erun in Hr. exact Hr.
        -- cbn. eapply Forall_cl_ext; [|exact Hc]. repeat split; cbn; auto using incl_refl.
           unfold ready; rewrite Erun; discriminate.
        -- intros _. exact Erd.
      * (* RGot r -> RUnl r *)
        inversion Hs; subst. unfold run_ok in Hr; rewrite Erun in Hr. destruct Hr as (Hi & Hcur & Hf).
        constructor.
        -- unfold run_ok; cbn. repeat split; auto. destruct r; auto.
        -- cbn. eapply Forall_cl_ext; [|exact Hc]. repeat split; cbn; auto using incl_refl.
        -- intros _. unfold readers; cbn. apply He. unfold wheld; rewrite Erun; reflexivity.
      * (* RUnl r -> RRot / RRetErr *)
        unfold run_ok in Hr; rewrite Erun in Hr. destruct Hr as (Hi & Hcur & Hf).
        destruct r as [c0|]; inversion Hs; subst.
        -- constructor.
           ++ unfold run_ok; cbn. rewrite Hi, Hcur, Hf. cbn. repeat split; eauto. discriminate.
           ++ cbn. eapply Forall_cl_ext; [|exact Hc]. repeat split; cbn; auto using incl_refl.
           ++ cbn. discriminate.
        -- constructor.
           ++ unfold run_ok; cbn. auto.
           ++ cbn. eapply Forall_cl_ext; [|exact Hc]. repeat split; cbn; auto using incl_refl.
           ++ cbn. discriminate.
      * (* RWant c -> RPend c *)
        inversion Hs; subst. constructor.
        -- unfold run_ok in *; cbn. rewrite Erun in Hr. exact Hr.
        -- cbn. eapply Forall_cl_ext; [|exact Hc]. repeat split; cbn; auto using incl_refl.
        -- cbn. discriminate.
      * (* RPend c -> RHoldW c *)
        destruct (readers s) eqn:Erd; inversion Hs; subst. constructor.
        -- unfold run_ok in *; cbn. rewrite Erun in Hr. exact Hr.
        -- cbn. eapply Forall_cl_ext; [|exact Hc]. repeat split; cbn; auto using incl_refl.
        -- intros _. exact Erd.
      * (* RHoldW c -> RRot, store *)
        inversion Hs; subst. unfold run_ok in Hr; rewrite Erun in Hr.
        destruct Hr as (Hi & rest & Hf & Hcur & Hn). constructor.
        -- unfold run_ok; cbn. rewrite Hf. cbn. repeat split; auto. discriminate.
        -- cbn. eapply Forall_cl_ext; [|exact Hc]. repeat split; cbn; auto using incl_refl.
        -- cbn. discriminate.
    + (* a client's own step *)
      destruct (nth_error (s_cl s) i) as [c|] eqn:En; try discriminate.
      eapply step_client_inv; eauto.
  - (* EStepCtx *)
    destruct tid as [|i]; try discriminate.
    destruct (nth_error (s_cl s) i) as [c|] eqn:En; try discriminate.
    destruct (c_pc c) eqn:Epc; try discriminate.
    destruct (c_cancelled c) eqn:Ecan; inversion Hs; subst.
    apply inv_set_cpc; [assumption|assumption|unfold cl_ok; cbn; exact Ecan|reflexivity].
  - (* ECancel *)
    destruct tid as [|i]; try discriminate.
    destruct (nth_error (s_cl s) i) as [c|] eqn:En; inversion Hs; subst.
    pose proof (Forall_nth _ _ _ _ _ Hc En) as Hok.
    constructor.
    + exact Hr.
    + cbn. apply Forall_upd.
      * eapply Forall_cl_ext; [apply ext_refl_cl|exact Hc].
      * eapply cl_ok_ext; [apply ext_refl_cl|]. unfold cl_ok in *; cbn. destruct (c_pc c); auto.
    + intro Hw. change (wheld s = true) in Hw. unfold readers; cbn.
      apply existsb_upd_false; [apply He; auto|].
      specialize (He Hw). unfold readers in He.
      pose proof (existsb_nth_false _ _ _ _ _ He En) as Hf. unfold holds_r in *; cbn. exact Hf.
  - (* EFetch *)
    destruct (s_run s) eqn:Erun; inversion Hs; subst.
    unfold run_ok in Hr; rewrite Erun in Hr. destruct Hr as (Hi & Hcur & Hf).
    constructor.
    + unfold run_ok; cbn. rewrite Hf. repeat split; auto.
    + cbn. eapply Forall_cl_ext; [|exact Hc]. repeat split; cbn.
      * unfold ready; rewrite Erun; discriminate.
      * congruence.
      * rewrite Hf. intros x [].
    + intros _. unfold readers; cbn. apply He. unfold wheld; rewrite Erun; reflexivity.
  - (* ERenew *)
    destruct (s_run s) eqn:Erun; inversion Hs; subst.
    unfold run_ok in Hr; rewrite Erun in Hr. destruct Hr as (Hi & Hcur & Hf).
    constructor.
    + unfold run_ok; cbn. split; auto. exists (s_fetched s). auto.
    + cbn. eapply Forall_cl_ext; [|exact Hc]. repeat split; cbn; auto.
      apply incl_tl, incl_refl.
    + cbn. discriminate.
Qed.

Lemma inv_run : forall v es s, run v init es = Some s -> inv v s.
Proof. intros v es s H. eapply (run_inv v (inv v)); eauto using inv_step, inv_init. Qed.

(* ------------------------------------------------------------------------------------- *)
(* results of Get / Ready, the served SVID, reader/writer exclusion (both variants)          *)

Theorem get_result : forall v es s i c r,
  run v init es = Some s -> nth_error (s_cl s) i = Some c -> c_pc c = GRet r ->
  match s_init s with
  | None => False
  | Some None => r = None
  | Some (Some _) => exists id, r = Some id /\ In id (s_fetched s)
  end.
Proof.
  intros v es s i c r Hrun Hn Hpc. destruct (inv_run _ _ _ Hrun) as [_ Hc _].
  pose proof (Forall_nth _ _ _ _ _ Hc Hn) as Hok. unfold cl_ok in Hok. rewrite Hpc in Hok. exact Hok.
Qed.

Lemma ready_init : forall s, run_ok s -> ready s = true -> s_init s <> None.
Proof.
  intros s H Hr. unfold run_ok, ready in *.
  destruct (s_run s); try discriminate;
    repeat match goal with
           | H : _ /\ _ |- _ => destruct H
           | H : exists _, _ |- _ => destruct H
           end; congruence.
Qed.

Theorem ready_result : forall v es s i c,
  run v init es = Some s -> nth_error (s_cl s) i = Some c ->
  (c_pc c = YRetOk -> s_init s <> None) /\ (c_pc c = YRetCtx -> c_cancelled c = true).
Proof.
  intros v es s i c Hrun Hn. destruct (inv_run _ _ _ Hrun) as [Hr Hc _].
  pose proof (Forall_nth _ _ _ _ _ Hc Hn) as Hok. unfold cl_ok in Hok.
  split; intro Hpc; rewrite Hpc in Hok; auto. apply ready_init; auto.
Qed.

Theorem cur_is_latest : forall v es s, run v init es = Some s ->
  match s_run s with
  | RWant c | RPend c | RHoldW c => exists rest, s_fetched s = c :: rest /\ s_cur s = hd_error rest
  | RGot (Some c) => s_fetched s = [c] /\ s_cur s = None
  | _ => s_cur s = hd_error (s_fetched s)
  end.
Proof.
  intros v es s Hrun. destruct (inv_run _ _ _ Hrun) as [Hr _ _]. unfold run_ok in Hr.
  destruct (s_run s) as [| | | |r|r| |c|c|c|].
  - destruct Hr as (_ & -> & ->); reflexivity.
  - destruct Hr as (_ & -> & ->); reflexivity.
  - destruct Hr as (_ & -> & ->); reflexivity.
  - destruct Hr as (_ & -> & ->); reflexivity.
  - destruct Hr as (_ & Hc & Hf). destruct r; cbn in Hf; rewrite Hc, Hf; auto.
  - destruct Hr as (_ & Hc & Hf). destruct r; cbn in Hf; rewrite Hc, Hf; auto.
  - destruct Hr as (_ & Hc & _); exact Hc.
  - destruct Hr as (_ & rest & Hf & Hc & _); eauto.
  - destruct Hr as (_ & rest & Hf & Hc & _); eauto.
  - destruct Hr as (_ & rest & Hf & Hc & _); eauto.
  - destruct Hr as (_ & -> & ->); reflexivity.
Qed.

Theorem rw_exclusion : forall v es s, run v init es = Some s -> wheld s = true -> readers s = false.
Proof. intros v es s Hrun. destruct (inv_run _ _ _ Hrun) as [_ _ He]. exact He. Qed.

(* ------------------------------------------------------------------------------------- *)
(* no wedge on the fixed code                                                               *)

Definition cmeasure (c : client) : nat :=
  match c_pc c with
  | YWait => 1 | GWantR0 => 3 | GHoldWait => 2 | GWaitReady => 3 | GWantR => 2 | GHold => 1
  | YRetOk | YRetCtx | GRet _ => 0
  end.

Definition rmeasure (r : rpc) : nat :=
  match r with
  | RWant0 => 2 | RPend0 => 1 | RGot _ => 2 | RUnl _ => 1 | RWant _ => 3 | RPend _ => 2 | RHoldW _ => 1
  | RNone | RHold0 | RRot | RRetErr => 0
  end.

Definition measure (s : state) : nat := rmeasure (s_run s) + list_sum (map cmeasure (s_cl s)).

(* own steps strictly decrease the measure (either variant, any state) *)
Lemma internal_decreases : forall v s e s',
  internal e = true -> step v s e = Some s' -> (measure s' < measure s)%nat.
Proof.
  intros v s e s' Hint Hs. destruct e as [k|tid|tid|tid|r|c]; try discriminate; cbn in Hs.
  - destruct tid as [|i].
    + unfold step_run in Hs. unfold measure.
      destruct (s_run s) eqn:Erun; try discriminate;
        try (destruct (readers s)); try discriminate;
        try (destruct r as [c0|]); inversion Hs; subst; cbn -[list_sum]; lia.
    + destruct (nth_error (s_cl s) i) as [c|] eqn:En; try discriminate.
      unfold step_client in Hs. unfold measure.
      destruct (c_pc c) eqn:Epc; try discriminate;
        try (destruct (ready s)); try (destruct (rlock_ok s)); try discriminate;
        inversion Hs; subst; cbn -[list_sum];
        apply Nat.add_lt_mono_l; eapply sum_upd_lt; eauto; unfold cmeasure; cbn; rewrite Epc; lia.
  - destruct tid as [|i]; try discriminate.
    destruct (nth_error (s_cl s) i) as [c|] eqn:En; try discriminate.
    destruct (c_pc c) eqn:Epc; try discriminate.
    destruct (c_cancelled c); inversion Hs; subst. unfold measure; cbn -[list_sum].
    apply Nat.add_lt_mono_l; eapply sum_upd_lt; eauto; unfold cmeasure; cbn; rewrite Epc; lia.
Qed.

(* on the fixed code nobody holds the read lock before readiness *)
Lemma fixed_no_early_readers : forall s, inv Fixed s -> ready s = false -> readers s = false.
Proof.
  intros s [_ Hc _] Hr. unfold readers.
  destruct (existsb holds_r (s_cl s)) eqn:E; auto.
  apply existsb_exists in E as (c & Hin & Hh).
  rewrite Forall_forall in Hc. specialize (Hc c Hin). unfold cl_ok in Hc. unfold holds_r in Hh.
  destruct (c_pc c); try discriminate; congruence.
Qed.

(* a state where no thread can take a step on its own *)
Lemma stuck_fixed : forall s, inv Fixed s -> stuck Fixed s ->
  (s_run s <> RNone -> run_asked s = true) /\
  (s_init s <> None -> forallb returned (s_cl s) = true /\ (s_run s = RRot \/ s_run s = RRetErr)).
Proof.
  intros s Hinv Hst. pose proof Hinv as [Hr Hc He].
  (* Run cannot move *)
  assert (Hrun : step_run s = None) by (apply (Hst (EStep 0)); reflexivity).
  (* no client can move *)
  assert (Hcl : forall i c, nth_error (s_cl s) i = Some c -> step_client s i c = None).
  { intros i c Hn. specialize (Hst (EStep (S i)) eq_refl). cbn in Hst. rewrite Hn in Hst. exact Hst. }
  (* a reader could always finish *)
  assert (Hnoread : ready s = true -> readers s = false).
  { intros Hrd. unfold readers. destruct (existsb holds_r (s_cl s)) eqn:E; auto.
    apply existsb_exists in E as (c & Hin & Hh). apply In_nth_error in Hin as (i & Hn).
    specialize (Hcl i c Hn). unfold step_client in Hcl. unfold holds_r in Hh.
    rewrite Forall_forall in Hc. pose proof (Hc c (nth_error_In _ _ Hn)) as Hok. unfold cl_ok in Hok.
    destruct (c_pc c); try discriminate. }
  split.
  - intro Hne. unfold run_asked. unfold step_run in Hrun.
    destruct (s_run s) eqn:Erun; auto; try congruence.
    rewrite (fixed_no_early_readers s Hinv) in Hrun; [discriminate|]. unfold ready; rewrite Erun; reflexivity.
  - intro Hi.
    assert (Hrr : s_run s = RRot \/ s_run s = RRetErr).
    { unfold step_run in Hrun. unfold run_ok in Hr.
      destruct (s_run s) eqn:Erun; auto; try discriminate;
        try (destruct Hr as (Hi0 & _); congruence).
      - destruct r; discriminate.
      - rewrite Hnoread in Hrun; [discriminate|]. unfold ready; rewrite Erun; reflexivity. }
    split; auto.
    assert (Hrd : ready s = true) by (unfold ready; destruct Hrr as [-> | ->]; reflexivity).
    assert (Hlk : rlock_ok s = true) by (unfold rlock_ok, wheld, wpend; destruct Hrr as [-> | ->]; reflexivity).
    apply forallb_forall. intros c Hin. apply In_nth_error in Hin as (i & Hn).
    specialize (Hcl i c Hn). unfold step_client in Hcl. rewrite Hrd, Hlk in Hcl.
    unfold returned. destruct (c_pc c); auto; discriminate.
Qed.

Theorem ready_no_deadlock : forall es s,
  run Fixed init es = Some s ->
  (stuck Fixed s ->
     (s_run s <> RNone -> run_asked s = true) /\
     (s_init s <> None -> forallb returned (s_cl s) = true /\ (s_run s = RRot \/ s_run s = RRetErr))) /\
  (forall e s', internal e = true -> step Fixed s e = Some s' -> (measure s' < measure s)%nat).
Proof.
  intros es s Hrun. split.
  - apply stuck_fixed. eapply inv_run; eauto.
  - intros e s'. apply internal_decreases.
Qed.

(* non-vacuity: Get first, then Run; the threads run to a state where nobody can move, the issuer
   answers, they run again: the Get has returned the SVID. *)
Example ready_no_deadlock_nonvacuous :
  exists s, run Fixed init [ECall KGet; ECall KRun; EStep 0; EStep 0; EFetch (Some 7%Z);
                            EStep 0; EStep 1; EStep 0; EStep 1; EStep 1] = Some s /\
            s_init s = Some (Some 7%Z) /\ s_run s = RRot /\
            map c_pc (s_cl s) = [GRet (Some 7%Z)] /\
            step Fixed s (EStep 0) = None /\ step Fixed s (EStep 1) = None.
Proof. eexists. vm_compute. repeat split. Qed.

(* ------------------------------------------------------------------------------------- *)
(* the executable scheduler reaches such a state                                            *)

Lemma first_step_sound : forall v s tids s',
  first_step v s tids = Some s' -> exists e, internal e = true /\ step v s e = Some s'.
Proof.
  intros v s tids; induction tids as [|t r IH]; intros s' H; cbn [first_step] in H; try discriminate.
  destruct (step v s (EStep t)) eqn:E1.
  - inversion H; subst. exists (EStep t); auto.
  - destruct (step v s (EStepCtx t)) eqn:E2.
    + inversion H; subst. exists (EStepCtx t); auto.
    + auto.
Qed.

Lemma first_step_none : forall v s tids t,
  first_step v s tids = None -> In t tids ->
  step v s (EStep t) = None /\ step v s (EStepCtx t) = None.
Proof.
  intros v s tids t; induction tids as [|x r IH]; intros H Hin; cbn [first_step In] in *; [contradiction|].
  destruct (step v s (EStep x)) eqn:E1; try discriminate.
  destruct (step v s (EStepCtx x)) eqn:E2; try discriminate.
  destruct Hin as [->|Hin]; auto.
Qed.

Lemma step_out_of_range : forall v s t, (length (s_cl s) < t)%nat ->
  step v s (EStep t) = None /\ step v s (EStepCtx t) = None.
Proof.
  intros v s t Hlt. destruct t as [|i]; [lia|]. cbn.
  assert (nth_error (s_cl s) i = None) as -> by (apply nth_error_None; lia). auto.
Qed.

Lemma first_step_stuck : forall v s,
  first_step v s (seq 0 (S (length (s_cl s)))) = None -> stuck v s.
Proof.
  intros v s H e Hint.
  assert (Hall : forall t, step v s (EStep t) = None /\ step v s (EStepCtx t) = None).
  { intro t. destruct (Nat.le_gt_cases t (length (s_cl s))) as [Hle|Hgt].
    - eapply first_step_none; eauto. apply in_seq. lia.
    - apply step_out_of_range; auto. }
  destruct e; try discriminate; apply Hall.
Qed.

Lemma internal_keeps : forall v s e s', internal e = true -> step v s e = Some s' ->
  s_init s' = s_init s /\ length (s_cl s') = length (s_cl s).
Proof.
  intros v s e s' Hint Hs. destruct e as [k|tid|tid|tid|r|c]; try discriminate; cbn in Hs.
  - destruct tid as [|i].
    + unfold step_run in Hs.
      destruct (s_run s); try discriminate; try (destruct (readers s)); try discriminate;
        try (destruct r as [c0|]); inversion Hs; subst; cbn; auto.
    + destruct (nth_error (s_cl s) i) as [c|] eqn:En; try discriminate.
      unfold step_client in Hs.
      destruct (c_pc c); try discriminate;
        try (destruct (ready s)); try (destruct (rlock_ok s)); try discriminate;
        inversion Hs; subst; cbn; rewrite upd_length; auto.
  - destruct tid as [|i]; try discriminate.
    destruct (nth_error (s_cl s) i) as [c|] eqn:En; try discriminate.
    destruct (c_pc c); try discriminate.
    destruct (c_cancelled c); inversion Hs; subst; cbn; rewrite upd_length; auto.
Qed.

Lemma quiesce_stuck : forall v fuel s, inv v s -> (measure s <= fuel)%nat ->
  let s' := quiesce v fuel s in
  inv v s' /\ stuck v s' /\ s_init s' = s_init s.
Proof.
  intros v fuel; induction fuel as [|f IH]; intros s Hinv Hm; cbv zeta; cbn [quiesce].
  - split; [exact Hinv|split; [|reflexivity]].
    intros e Hint. destruct (step v s e) as [s1|] eqn:E; auto.
    pose proof (internal_decreases _ _ _ _ Hint E). lia.
  - destruct (first_step v s (seq 0 (S (length (s_cl s))))) as [s1|] eqn:E.
    + apply first_step_sound in E as (e & Hint & Hs).
      pose proof (internal_decreases _ _ _ _ Hint Hs) as Hlt.
      pose proof (internal_keeps _ _ _ _ Hint Hs) as (Hi & _).
      destruct (IH s1 (inv_step _ _ _ _ Hinv Hs) ltac:(lia)) as (H1 & H2 & H3).
      split; [exact H1|split; [exact H2|congruence]].
    + split; [exact Hinv|split; [|reflexivity]]. apply first_step_stuck; auto.
Qed.

Lemma cmeasure_le3 : forall l, (list_sum (map cmeasure l) <= 3 * length l)%nat.
Proof.
  induction l as [|c l IH]; [cbn; lia|].
  change (list_sum (map cmeasure (c :: l))) with (cmeasure c + list_sum (map cmeasure l))%nat.
  change (length (c :: l)) with (S (length l)).
  assert (cmeasure c <= 3)%nat by (unfold cmeasure; destruct (c_pc c); lia). lia.
Qed.

Lemma measure_fuel : forall s, (measure s <= quiesce_fuel s)%nat.
Proof.
  intros s. unfold measure, quiesce_fuel. pose proof (cmeasure_le3 (s_cl s)).
  assert (rmeasure (s_run s) <= 3)%nat by (destruct (s_run s); cbn; lia). lia.
Qed.

Theorem ready_quiesce_returns : forall es s,
  run Fixed init es = Some s -> s_init s <> None ->
  forallb returned (s_cl (quiesce Fixed (quiesce_fuel s) s)) = true.
Proof.
  intros es s Hrun Hi. pose proof (inv_run _ _ _ Hrun) as Hinv.
  destruct (quiesce_stuck Fixed (quiesce_fuel s) s Hinv (measure_fuel s)) as (H1 & H2 & H3).
  apply stuck_fixed in H2; auto. destruct H2 as (_ & H2). apply H2. congruence.
Qed.

(* ------------------------------------------------------------------------------------- *)
(* the code before the fix: Get first, then Run                                             *)

Theorem get_before_run_refuted : exists es s,
  run Original init es = Some s /\ stuck Original s /\
  s_run s = RPend0 /\ run_asked s = false /\
  (exists c, nth_error (s_cl s) 0 = Some c /\ c_pc c = GHoldWait) /\
  (forall r, step Original s (EFetch r) = None).
Proof.
  exists [ECall KGet; EStep 1; ECall KRun; EStep 0].
  eexists. split; [vm_compute; reflexivity|].
  split.
  - intros e Hint. destruct e as [k|tid|tid|tid|r|c]; try discriminate.
    + destruct tid as [|[|n]]; try reflexivity. cbn. destruct n; reflexivity.
    + destruct tid as [|[|n]]; try reflexivity. cbn. destruct n; reflexivity.
  - repeat split; try reflexivity. eexists; split; reflexivity.
Qed.

(* ------------------------------------------------------------------------------------- *)
(* readers during rotation (ECall KGet / KReady and the clients' steps interleaved with ERenew
   and Run's lock steps are ordinary events of the system, so the theorems above already cover
   them; the two corollaries below say what that means for a renewal and for a read)          *)

(* Fixed code: whatever readers were active while renewals arrived, once no thread can move
   every call has returned, Run is back in its loop and the newest fetched SVID is the one
   served: no renewal is ever left waiting for the lock. *)
Theorem renewal_published : forall es s,
  run Fixed init es = Some s -> stuck Fixed s -> s_init s <> None ->
  forallb returned (s_cl s) = true /\ (s_run s = RRot \/ s_run s = RRetErr) /\
  s_cur s = hd_error (s_fetched s).
Proof.
  intros es s Hrun Hst Hi. pose proof (inv_run _ _ _ Hrun) as Hinv.
  destruct (stuck_fixed s Hinv Hst) as (_ & H). destruct (H Hi) as (Hret & Hrr).
  split; [exact Hret|]. split; [exact Hrr|].
  pose proof (cur_is_latest _ _ _ Hrun) as Hc. destruct Hrr as [E|E]; rewrite E in Hc; exact Hc.
Qed.

(* Either variant: the step in which a reader (holding the read lock) reads the field returns the
   newest fetched SVID, or the one before it while the newest has been fetched but Run is still
   acquiring the write lock to store it. *)
Theorem read_is_latest : forall v es s i c s',
  run v init es = Some s -> nth_error (s_cl s) i = Some c -> c_pc c = GHold ->
  step v s (EStep (S i)) = Some s' ->
  (exists c', nth_error (s_cl s') i = Some c' /\ c_pc c' = GRet (s_cur s)) /\
  (s_cur s = hd_error (s_fetched s) \/
   exists x rest, s_fetched s = x :: rest /\ s_cur s = hd_error rest /\
                  (s_run s = RWant x \/ s_run s = RPend x)).
Proof.
  intros v es s i c s' Hrun Hn Hpc Hs. cbn in Hs. rewrite Hn in Hs.
  unfold step_client in Hs. rewrite Hpc in Hs. inversion Hs; subst s'; clear Hs.
  split.
  { eexists. split; [cbn; eapply nth_error_upd_same; eauto|reflexivity]. }
  pose proof (cur_is_latest _ _ _ Hrun) as Hc.
  pose proof (rw_exclusion _ _ _ Hrun) as Hex.
  assert (Hrd : readers s = true).
  { unfold readers. apply existsb_exists. exists c. split; [eapply nth_error_In; eauto|].
    unfold holds_r. rewrite Hpc. reflexivity. }
  destruct (s_run s) as [| | | |r|r| |x|x|x|] eqn:Erun; auto.
  - (* RGot: the writer holds the lock, no reader can *)
    assert (readers s = false) by (apply Hex; unfold wheld; rewrite Erun; reflexivity). congruence.
  - destruct Hc as (rest & Hf & Hcur). right. eauto 7.
  - destruct Hc as (rest & Hf & Hcur). right. eauto 7.
  - assert (readers s = false) by (apply Hex; unfold wheld; rewrite Erun; reflexivity). congruence.
Qed.

(* non-vacuity: two readers and a Ready racing with a renewal; a reader that arrives while the
   writer is waiting queues behind it, the reader inside finishes, the writer stores, the queued
   reader gets the NEW SVID. *)
Example readers_during_renewal :
  exists s, run Fixed init [ECall KRun; EStep 0; EStep 0; EFetch (Some 1%Z); EStep 0; EStep 0;
                            ECall KGet; EStep 1; EStep 1;        (* reader 1 holds the read lock *)
                            ERenew 2%Z; EStep 0;                 (* renewal fetched; writer announced *)
                            ECall KGet; EStep 2;                 (* reader 2: ready seen, queues behind the writer *)
                            ECall KReady; EStep 3;
                            EStep 1;                             (* reader 1 reads the old SVID and leaves *)
                            EStep 0; EStep 0;                    (* writer in, store, out *)
                            EStep 2; EStep 2] = Some s /\
            map c_pc (s_cl s) = [GRet (Some 1%Z); GRet (Some 2%Z); YRetOk] /\
            s_run s = RRot /\ s_cur s = Some 2%Z.
Proof. eexists. vm_compute. repeat split. Qed.
