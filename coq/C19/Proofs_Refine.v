(* C19 — the fixed readiness model MEETS the declarative readiness spec, for every script of driver
   actions: driving [Ready.v] (Fixed) with any well-formed script and letting the threads run to
   quiescence after each action yields observations that the spec oracle accepts at every point.
   This closes the gap between the state-level theorems of Proofs_Ready.v and the trace-level
   demand the oracle makes of the implementation. Plain stdlib style. *)
From Coq Require Import ZArith List Lia Bool Arith.
Import ListNotations.
From Kit Require Import Lib.Base C19.Model C19.Spec C19.Check C19.Proofs_Oracle.
From Kit Require C19.Ready C19.Proofs_Ready.
Module R := Kit.C19.Ready.
Module P := Kit.C19.Proofs_Ready.

(* ------------------------------------------------------------------------------------- *)
(* the spec-side bookkeeping, one action at a time                                          *)

Definition calls_step (a : act) (acc : list (bool * bool)) : list (bool * bool) :=
  match a with
  | ACall R.KRun => acc
  | ACall R.KReady => acc ++ [(false, false)]
  | ACall R.KGet => acc ++ [(true, false)]
  | ACancel i => match nth_error acc i with
                 | Some (g, _) => R.upd i (g, true) acc
                 | None => acc
                 end
  | AFetch _ => acc
  end.

Lemma calls_of_cons : forall a r acc, calls_of (a :: r) acc = calls_of r (calls_step a acc).
Proof. intros [[| |]|i|x] r acc; reflexivity. Qed.

Lemma calls_of_snoc : forall pre a acc, calls_of (pre ++ [a]) acc = calls_step a (calls_of pre acc).
Proof.
  induction pre as [|b pre IH]; intros a acc.
  - cbn [app]. rewrite calls_of_cons. reflexivity.
  - cbn [app]. rewrite !calls_of_cons. apply IH.
Qed.

Lemma run_called_snoc : forall pre a,
  run_called (pre ++ [a]) = run_called pre || match a with ACall R.KRun => true | _ => false end.
Proof. intros. unfold run_called. rewrite existsb_app. cbn. rewrite orb_false_r. reflexivity. Qed.

Lemma fetch_result_snoc : forall pre a,
  fetch_result (pre ++ [a]) =
  match fetch_result pre with
  | Some r => Some r
  | None => match a with AFetch r => Some r | _ => None end
  end.
Proof.
  induction pre as [|b pre IH]; intros a.
  - destruct a as [k|i|r]; reflexivity.
  - destruct b as [k|i|r]; cbn [app fetch_result]; auto.
Qed.

(* ------------------------------------------------------------------------------------- *)
(* how the model state mirrors the script performed so far                                  *)

(* (is it a Get, was its context cancelled) of a client thread *)
Definition kind_of (c : R.client) : bool * bool :=
  (match R.c_pc c with R.YWait | R.YRetOk | R.YRetCtx => false | _ => true end, R.c_cancelled c).

Definition is_none (r : R.rpc) : bool := match r with R.RNone => true | _ => false end.

Record rel (pre : list act) (s : R.state) : Prop := mkRel {
  r_calls : map kind_of (R.s_cl s) = calls_of pre [];
  r_run : run_called pre = negb (is_none (R.s_run s));
  r_init : R.s_init s = fetch_result pre;
  r_fetched : R.s_fetched s = match R.s_init s with Some (Some c) => [c] | _ => [] end
}.

Lemma map_upd : forall A B (f : A -> B) i a l, map f (R.upd i a l) = R.upd i (f a) (map f l).
Proof. intros A B f i a l; revert i; induction l as [|x l IH]; intros [|i]; cbn; auto. rewrite IH; auto. Qed.

Lemma upd_same : forall A i (a : A) l, nth_error l i = Some a -> R.upd i a l = l.
Proof. intros A i a l; revert i; induction l as [|x l IH]; intros [|i] H; cbn in *; try discriminate; auto.
  - inversion H; reflexivity.
  - rewrite IH; auto.
Qed.

(* own steps do not touch what the script determines *)
Lemma internal_frame : forall v s e s',
  R.internal e = true -> R.step v s e = Some s' ->
  map kind_of (R.s_cl s') = map kind_of (R.s_cl s) /\ R.s_init s' = R.s_init s /\
  is_none (R.s_run s') = is_none (R.s_run s) /\ R.s_fetched s' = R.s_fetched s.
Proof.
  intros v s e s' Hint Hs. destruct e as [k|tid|tid|tid|r|c]; try discriminate; cbn in Hs.
  - destruct tid as [|i].
    + unfold R.step_run in Hs.
      destruct (R.s_run s) eqn:Erun; try discriminate; try (destruct (R.readers s)); try discriminate;
        try (destruct r as [c0|]); inversion Hs; subst; cbn; rewrite ?Erun; auto.
    + destruct (nth_error (R.s_cl s) i) as [c|] eqn:En; try discriminate.
      assert (Hk : forall p, fst (kind_of (R.mkCl p (R.c_cancelled c))) = fst (kind_of c) ->
                   map kind_of (R.upd i (R.mkCl p (R.c_cancelled c)) (R.s_cl s)) = map kind_of (R.s_cl s)).
      { intros p Hp. rewrite map_upd. apply upd_same. rewrite nth_error_map, En. cbn.
        f_equal. unfold kind_of in *. cbn in *. rewrite Hp. reflexivity. }
      unfold R.step_client in Hs.
      destruct (R.c_pc c) eqn:Epc; try discriminate;
        try (destruct (R.ready s)); try (destruct (R.rlock_ok s)); try discriminate;
        inversion Hs; subst; cbn; (split; [apply Hk; unfold kind_of; cbn; rewrite Epc; reflexivity|auto]).
  - destruct tid as [|i]; try discriminate.
    destruct (nth_error (R.s_cl s) i) as [c|] eqn:En; try discriminate.
    destruct (R.c_pc c) eqn:Epc; try discriminate.
    destruct (R.c_cancelled c) eqn:Ec; inversion Hs; subst; cbn. split; auto.
    rewrite map_upd. apply upd_same. rewrite nth_error_map, En. cbn. f_equal.
    unfold kind_of; cbn. rewrite Epc, Ec. reflexivity.
Qed.

Lemma quiesce_frame : forall v fuel s,
  let s' := R.quiesce v fuel s in
  map kind_of (R.s_cl s') = map kind_of (R.s_cl s) /\ R.s_init s' = R.s_init s /\
  is_none (R.s_run s') = is_none (R.s_run s) /\ R.s_fetched s' = R.s_fetched s.
Proof.
  intros v fuel; induction fuel as [|f IH]; intros s; cbv zeta; cbn [R.quiesce]; auto.
  destruct (R.first_step v s (seq 0 (S (length (R.s_cl s))))) as [s1|] eqn:E; auto.
  apply P.first_step_sound in E as (e & Hint & Hs).
  destruct (internal_frame _ _ _ _ Hint Hs) as (A1 & A2 & A3 & A4).
  destruct (IH s1) as (B1 & B2 & B3 & B4). repeat split; etransitivity; eassumption.
Qed.

Lemma rel_quiesce : forall v fuel pre s, rel pre s -> rel pre (R.quiesce v fuel s).
Proof.
  intros v fuel pre s [H1 H2 H3 H4]. destruct (quiesce_frame v fuel s) as (A1 & A2 & A3 & A4).
  constructor.
  - rewrite A1. exact H1.
  - rewrite A3. exact H2.
  - rewrite A2. exact H3.
  - rewrite A4, A2. exact H4.
Qed.

(* ------------------------------------------------------------------------------------- *)
(* one driver action on the fixed model                                                     *)

Lemma act_step : forall pre s a,
  P.inv Fixed s -> R.stuck Fixed s -> rel pre s -> act_ok pre a = true ->
  exists s1, R.step Fixed s (act_event a) = Some s1 /\ rel (pre ++ [a]) s1.
Proof.
  intros pre s a Hinv Hst [H1 H2 H3 H4] Hok.
  destruct a as [k|i|r]; cbn [act_event].
  - (* ACall *)
    destruct k; cbn.
    + (* KRun *)
      destruct (R.s_run s) eqn:Erun; eexists; (split; [reflexivity|]);
        (constructor; cbn; rewrite ?calls_of_snoc, ?run_called_snoc, ?fetch_result_snoc, ?Erun; cbn;
         rewrite ?orb_true_r; auto; try (rewrite <- H3; destruct (R.s_init s); auto)).
    + (* KReady *)
      eexists; split; [reflexivity|]. constructor; cbn.
      * rewrite calls_of_snoc, map_app, H1. reflexivity.
      * rewrite run_called_snoc, orb_false_r. exact H2.
      * rewrite fetch_result_snoc, <- H3. destruct (R.s_init s); reflexivity.
      * exact H4.
    + (* KGet *)
      eexists; split; [reflexivity|]. constructor; cbn.
      * rewrite calls_of_snoc, map_app, H1. reflexivity.
      * rewrite run_called_snoc, orb_false_r. exact H2.
      * rewrite fetch_result_snoc, <- H3. destruct (R.s_init s); reflexivity.
      * exact H4.
  - (* ACancel i *)
    cbn in Hok. apply Nat.ltb_lt in Hok. rewrite <- H1, map_length in Hok.
    destruct (nth_error (R.s_cl s) i) as [c|] eqn:En; [|apply nth_error_None in En; lia].
    cbn. rewrite En. eexists; split; [reflexivity|]. constructor; cbn.
    + rewrite calls_of_snoc, <- H1. cbn [calls_step]. rewrite nth_error_map, En. cbn.
      rewrite map_upd. reflexivity.
    + rewrite run_called_snoc, orb_false_r. exact H2.
    + rewrite fetch_result_snoc, <- H3. destruct (R.s_init s); reflexivity.
    + exact H4.
  - (* AFetch r: Run has reached the issuer *)
    cbn in Hok. apply andb_true_iff in Hok as (Hrun & Hnf).
    destruct (fetch_result pre) eqn:Efr; [discriminate|].
    assert (Hne : R.s_run s <> R.RNone).
    { intro E. rewrite E in H2. cbn in H2. congruence. }
    destruct (P.stuck_fixed s Hinv Hst) as (Hask & _). specialize (Hask Hne).
    pose proof (P.i_run _ _ Hinv) as Hr. unfold P.run_ok in Hr. unfold P.run_asked in Hask.
    assert (Erun : R.s_run s = R.RHold0).
    { destruct (R.s_run s); try discriminate; auto;
        repeat match goal with
               | H : _ /\ _ |- _ => destruct H
               | H : exists _, _ |- _ => destruct H
               end; congruence. }
    cbn. rewrite Erun. eexists; split; [reflexivity|]. constructor; cbn.
    + rewrite calls_of_snoc. exact H1.
    + rewrite run_called_snoc, orb_false_r, Hrun. reflexivity.
    + rewrite fetch_result_snoc, Efr. reflexivity.
    + rewrite H4, H3. destruct r; reflexivity.
Qed.

(* ------------------------------------------------------------------------------------- *)
(* a quiescent state of the fixed model passes the spec's demand for its point              *)

Lemma all2_map_same : forall A B C (f : B -> C -> bool) (g : A -> B) (h : A -> C) l,
  (forall x, In x l -> f (g x) (h x) = true) -> all2 f (map g l) (map h l) = true.
Proof.
  induction l as [|x l IH]; intros H; cbn; auto.
  rewrite H by (left; reflexivity). cbn. apply IH. intros y Hy. apply H. right; exact Hy.
Qed.

Lemma point_ok_quiescent : forall pre s,
  P.inv Fixed s -> R.stuck Fixed s -> rel pre s -> ready_point_ok pre (observe_ready s) = true.
Proof.
  intros pre s Hinv Hst [H1 H2 H3 H4].
  destruct (P.stuck_fixed s Hinv Hst) as (Hask & Hret).
  unfold ready_point_ok, observe_ready. cbn [ro_asked ro_cl]. apply andb_true_iff; split.
  - destruct (run_called pre) eqn:Erc; auto.
    assert (Hne : R.s_run s <> R.RNone) by (intro E; rewrite E in H2; discriminate).
    specialize (Hask Hne). unfold P.run_asked in Hask. unfold asked. exact Hask.
  - rewrite <- H1, <- H3. apply all2_map_same. intros c Hin.
    pose proof (P.i_cl _ _ Hinv) as Hcl. rewrite Forall_forall in Hcl. specialize (Hcl c Hin).
    unfold P.cl_ok in Hcl.
    apply In_nth_error in Hin as (i & Hn).
    (* the client cannot move *)
    assert (Hc1 : R.step_client s i c = None).
    { specialize (Hst (R.EStep (S i)) eq_refl). cbn in Hst. rewrite Hn in Hst. exact Hst. }
    assert (Hc2 : R.c_pc c = R.YWait -> R.c_cancelled c = false).
    { intro Epc. specialize (Hst (R.EStepCtx (S i)) eq_refl). cbn in Hst. rewrite Hn, Epc in Hst.
      destruct (R.c_cancelled c); [discriminate|reflexivity]. }
    unfold kind_of, status, cst_ok.
    destruct (R.s_init s) as [r|] eqn:Einit.
    + (* the initial fetch has finished: everybody has returned *)
      destruct (Hret ltac:(discriminate)) as (Hall & _).
      rewrite forallb_forall in Hall. specialize (Hall c (nth_error_In _ _ Hn)). unfold R.returned in Hall.
      destruct (R.c_pc c) eqn:Epc; try discriminate.
      * reflexivity.
      * rewrite Hcl. cbn. reflexivity.
      * unfold P.get_ok in Hcl. rewrite Einit in Hcl. destruct r as [id|].
        -- destruct Hcl as (id' & -> & Hin'). rewrite H4 in Hin'. cbn in Hin'. destruct Hin' as [<-|[]].
           cbn. apply Z.eqb_refl.
        -- subst. reflexivity.
    + (* not finished: nothing has returned, except a Ready whose context was cancelled *)
      assert (Hnr : R.ready s = false).
      { destruct (R.ready s) eqn:Er; auto. exfalso. eapply P.ready_init; eauto. apply (P.i_run _ _ Hinv). }
      destruct (R.c_pc c) eqn:Epc; cbn; try (rewrite Hnr in Hcl; discriminate); try reflexivity;
        try discriminate.
      * rewrite (Hc2 eq_refl). reflexivity.
      * rewrite Hcl. reflexivity.
      * unfold P.get_ok in Hcl. rewrite Einit in Hcl. contradiction.
Qed.

(* ------------------------------------------------------------------------------------- *)
(* the whole drive                                                                          *)

Lemma drive_ok : forall rest pre s,
  P.inv Fixed s -> R.stuck Fixed s -> rel pre s -> wf_acts pre rest = true ->
  ready_points_ok pre rest (ready_drive Fixed s rest) = true.
Proof.
  induction rest as [|a rest IH]; intros pre s Hinv Hst Hrel Hwf; [reflexivity|].
  cbn [wf_acts] in Hwf. apply andb_true_iff in Hwf as (Hok & Hwf).
  destruct (act_step pre s a Hinv Hst Hrel Hok) as (s1 & Hs1 & Hrel1).
  cbn [ready_drive]. rewrite Hs1. cbv zeta. cbn [ready_points_ok].
  pose proof (P.inv_step _ _ _ _ Hinv Hs1) as Hinv1.
  destruct (P.quiesce_stuck Fixed (R.quiesce_fuel s1) s1 Hinv1 (P.measure_fuel s1)) as (Hinv2 & Hst2 & _).
  pose proof (rel_quiesce Fixed (R.quiesce_fuel s1) _ _ Hrel1) as Hrel2.
  apply andb_true_iff; split.
  - apply point_ok_quiescent; assumption.
  - apply IH; assumption.
Qed.

Lemma init_stuck : forall v, R.stuck v R.init.
Proof. intros v e Hint. destruct e as [k|[|[|n]]|[|[|n]]|tid|r|c]; try discriminate; reflexivity. Qed.

Lemma rel_init : rel [] R.init.
Proof. constructor; reflexivity. Qed.

(* The fixed model meets the readiness spec on every script the driver can perform. *)
Theorem ready_model_meets_spec : forall acts,
  wf_acts [] acts = true ->
  ready_oracle acts (ready_drive Fixed R.init acts) = true.
Proof.
  intros acts Hwf. unfold ready_oracle.
  apply drive_ok; auto using P.inv_init, init_stuck, rel_init.
Qed.

Corollary ready_model_meets_spec_prop : forall acts,
  wf_acts [] acts = true ->
  ready_spec acts (ready_drive Fixed R.init acts) /\
  length (ready_drive Fixed R.init acts) = length acts.
Proof.
  intros acts Hwf. pose proof (ready_model_meets_spec acts Hwf) as H.
  apply ready_oracle_sound in H. split; [exact H|]. exact (proj1 H).
Qed.

(* The code before the fix does not: Get, then Run. *)
Theorem ready_model_original_refuted : exists acts,
  wf_acts [] acts = true /\ ready_oracle acts (ready_drive Original R.init acts) = false.
Proof. exists [ACall R.KGet; ACall R.KRun]. vm_compute. split; reflexivity. Qed.

(* non-vacuity: a script with every kind of action, in the deadlock order of the old code *)
Example ready_model_meets_spec_nonvacuous :
  let acts := [ACall R.KGet; ACall R.KReady; ACall R.KReady; ACancel 1; ACall R.KRun; ACall R.KGet;
               AFetch (Some 5%Z); ACall R.KGet; ACall R.KRun; ACancel 2] in
  wf_acts [] acts = true /\
  ready_drive Fixed R.init acts =
  [mkRobs false [CPending]; mkRobs false [CPending; CPending]; mkRobs false [CPending; CPending; CPending];
   mkRobs false [CPending; CReadyCtx; CPending]; mkRobs true [CPending; CReadyCtx; CPending];
   mkRobs true [CPending; CReadyCtx; CPending; CPending];
   mkRobs true [CGetSvid 5; CReadyCtx; CReadyOk; CGetSvid 5];
   mkRobs true [CGetSvid 5; CReadyCtx; CReadyOk; CGetSvid 5; CGetSvid 5];
   mkRobs true [CGetSvid 5; CReadyCtx; CReadyOk; CGetSvid 5; CGetSvid 5];
   mkRobs true [CGetSvid 5; CReadyCtx; CReadyOk; CGetSvid 5; CGetSvid 5]].
Proof. vm_compute. split; reflexivity. Qed.
