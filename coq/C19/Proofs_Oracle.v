(* C19 — the boolean oracles evaluated on the implementation's observations decide the
   declarative specs of [Spec.v]. Plain stdlib style. *)
From Coq Require Import ZArith List Lia Bool Arith.
Import ListNotations.
From Kit Require Import Lib.Base C19.Model C19.Spec.
From Kit Require C19.Ready.
Open Scope Z_scope.

(* ------------------------------------------------------------------------------------- *)
(* all2                                                                                     *)

Lemma all2_spec : forall A B (f : A -> B -> bool) a b,
  all2 f a b = true <->
  length a = length b /\
  forall i x y, nth_error a i = Some x -> nth_error b i = Some y -> f x y = true.
Proof.
  intros A B f a; induction a as [|x a IH]; intros [|y b]; cbn [all2 length].
  - split; [intros _; split; [reflexivity|]; intros [|i] ? ? H; discriminate H|reflexivity].
  - split; [discriminate|intros [H _]; discriminate H].
  - split; [discriminate|intros [H _]; discriminate H].
  - rewrite andb_true_iff, IH. split.
    + intros (Hf & Hl & Hn). split; [congruence|].
      intros [|i] x' y' Hx Hy; cbn in Hx, Hy.
      * inversion Hx; inversion Hy; subst; exact Hf.
      * eauto.
    + intros (Hl & Hn). split; [exact (Hn O x y eq_refl eq_refl)|]. split; [congruence|].
      intros i x' y' Hx Hy. exact (Hn (S i) x' y' Hx Hy).
Qed.

Lemma all2_eq : forall A (f : A -> A -> bool),
  (forall x y, f x y = true <-> x = y) -> forall a b, all2 f a b = true <-> a = b.
Proof.
  intros A f Hf a; induction a as [|x a IH]; intros [|y b]; cbn [all2]; split; intro H;
    try reflexivity; try discriminate.
  - apply andb_true_iff in H as (H1 & H2). apply Hf in H1. apply IH in H2. congruence.
  - inversion H; subst. apply andb_true_iff; split; [apply Hf; reflexivity|apply IH; reflexivity].
Qed.

Lemma fileset_eqb_eq : forall a b, fileset_eqb a b = true <-> a = b.
Proof.
  intros [[a1 a2] a3] [[b1 b2] b3]. unfold fileset_eqb.
  rewrite !andb_true_iff, !Z.eqb_eq. split.
  - intros ((-> & ->) & ->); reflexivity.
  - intros H; inversion H; auto.
Qed.

(* ------------------------------------------------------------------------------------- *)
(* readiness                                                                                *)

Definition ready_point_spec (pre : list act) (o : robs) : Prop :=
  (run_called pre = true -> ro_asked o = true) /\
  length (ro_cl o) = length (calls_of pre []) /\
  forall i call st, nth_error (calls_of pre []) i = Some call -> nth_error (ro_cl o) i = Some st ->
    cst_ok (fetch_result pre) call st = true.

Lemma ready_point_equiv : forall pre o, ready_point_ok pre o = true <-> ready_point_spec pre o.
Proof.
  intros pre o. unfold ready_point_ok, ready_point_spec.
  rewrite andb_true_iff, all2_spec. split.
  - intros (H1 & H2 & H3). split; [|split; [symmetry; exact H2|exact H3]].
    intro Hr. rewrite Hr in H1. exact H1.
  - intros (H1 & H2 & H3). split; [|split; [symmetry; exact H2|exact H3]].
    destruct (run_called pre); auto.
Qed.

Lemma ready_points_equiv : forall rest pre obs,
  ready_points_ok pre rest obs = true <->
  length obs = length rest /\
  forall n o, nth_error obs n = Some o -> ready_point_spec (pre ++ firstn (S n) rest) o.
Proof.
  induction rest as [|a rest IH]; intros pre [|o obs]; cbn [ready_points_ok length].
  - split; [intros _; split; [reflexivity|]; intros [|n] ? H; discriminate H|reflexivity].
  - split; [discriminate|intros [H _]; discriminate H].
  - split; [discriminate|intros [H _]; discriminate H].
  - rewrite andb_true_iff, ready_point_equiv, IH. split.
    + intros (H0 & Hl & Hn). split; [congruence|].
      intros [|n] o' Ho; cbn in Ho.
      * inversion Ho; subst. cbn [firstn]. exact H0.
      * cbn [firstn]. specialize (Hn n o' Ho). rewrite <- app_assoc in Hn. exact Hn.
    + intros (Hl & Hn). split; [exact (Hn O o eq_refl)|]. split; [congruence|].
      intros n o' Ho. specialize (Hn (S n) o' Ho). cbn [firstn] in Hn.
      rewrite <- app_assoc. exact Hn.
Qed.

Theorem ready_oracle_sound : forall acts obs, ready_oracle acts obs = true <-> ready_spec acts obs.
Proof.
  intros acts obs. unfold ready_oracle, ready_spec. rewrite ready_points_equiv. cbn [app].
  split.
  - intros (Hl & Hn). split; [exact Hl|]. intros n o _ Ho. exact (Hn n o Ho).
  - intros (Hl & Hn). split; [exact Hl|]. intros n o Ho. apply Hn; auto.
    rewrite <- Hl. apply nth_error_Some. congruence.
Qed.

(* ------------------------------------------------------------------------------------- *)
(* rotation                                                                                 *)

Lemma followed_by_equiv : forall fs pts k pt deadline,
  followed_by fs pts k pt deadline = true <-> followed_by_spec fs pts k pt deadline.
Proof.
  intros fs pts k pt deadline. unfold followed_by, followed_by_spec. rewrite forallb_forall. split.
  - intros H j p Hj Hlt Hlive Hd.
    assert (Hin : In j (seq 0 (length pts))).
    { apply in_seq. split; [lia|]. cbn. apply nth_error_Some. congruence. }
    specialize (H j Hin). rewrite Hj in H.
    assert (Hc : (pt <? j)%nat && p_live p && (deadline <=? p_time p) = true).
    { rewrite !andb_true_iff. repeat split; [apply Nat.ltb_lt; exact Hlt|exact Hlive|apply Z.leb_le; exact Hd]. }
    rewrite Hc in H. unfold next_by in H.
    destruct (nth_error fs (S k)) as [f'|]; [|discriminate]. exists f'. split; auto.
    apply Nat.leb_le; exact H.
  - intros H j _. destruct (nth_error pts j) as [p|] eqn:Hj; auto.
    destruct ((pt <? j)%nat && p_live p && (deadline <=? p_time p)) eqn:Hc; auto.
    rewrite !andb_true_iff in Hc. destruct Hc as ((H1 & H2) & H3).
    apply Nat.ltb_lt in H1. apply Z.leb_le in H3.
    destruct (H j p Hj H1 H2 H3) as (f' & Hf & Hle). unfold next_by. rewrite Hf. apply Nat.leb_le; exact Hle.
Qed.

Lemma fetch_equiv : forall script fs pts k f,
  fetch_ok script fs pts k f = true <-> fetch_spec script fs pts k f.
Proof.
  intros script fs pts k f. unfold fetch_ok, fetch_spec.
  rewrite !andb_true_iff, Z.eqb_eq. split.
  - intros ((H1 & H2) & H3). split; [exact H1|]. split.
    { destruct (nth_error pts (f_pt f)) as [p|]; [|discriminate]. exists p. split; auto. apply Z.eqb_eq; exact H2. }
    split.
    + intro Hok. rewrite Hok in H3. apply followed_by_equiv; exact H3.
    + intros Hno Hk. rewrite Hno in H3. apply Nat.ltb_lt in Hk. rewrite Hk in H3.
      apply andb_true_iff in H3 as (H3 & H4). split; [apply followed_by_equiv; exact H3|].
      intros f' Hf'. rewrite Hf' in H4. apply Z.leb_le; exact H4.
  - intros (H1 & (p & Hp & Ht) & H3 & H4). split; [split; [exact H1|]|].
    + rewrite Hp. apply Z.eqb_eq; exact Ht.
    + destruct (is_ok (outcome_at script k)) eqn:Hok.
      * apply followed_by_equiv. apply H3; reflexivity.
      * destruct (0 <? k)%nat eqn:Hk; auto. apply Nat.ltb_lt in Hk.
        destruct (H4 eq_refl Hk) as (H5 & H6). apply andb_true_iff; split.
        -- apply followed_by_equiv; exact H5.
        -- destruct (nth_error fs (S k)) as [f'|]; auto. apply Z.leb_le. apply H6; reflexivity.
Qed.

Lemma fetches_equiv : forall script all pts fs k,
  fetches_ok script all pts k fs = true <->
  forall j f, nth_error fs j = Some f -> fetch_spec script all pts (k + j) f.
Proof.
  intros script all pts fs; induction fs as [|f fs IH]; intros k; cbn [fetches_ok].
  - split; [intros _ [|j] ? H; discriminate H|reflexivity].
  - rewrite andb_true_iff, fetch_equiv, IH. split.
    + intros (H0 & Hn) [|j] f' Hf; cbn in Hf.
      * inversion Hf; subst. rewrite Nat.add_0_r. exact H0.
      * rewrite Nat.add_succ_r. exact (Hn j f' Hf).
    + intros H. split.
      * specialize (H O f eq_refl). rewrite Nat.add_0_r in H. exact H.
      * intros j f' Hf. specialize (H (S j) f' Hf). rewrite Nat.add_succ_r in H. exact H.
Qed.

Lemma point_equiv : forall usedir script fs i p prev o,
  point_ok usedir script fs i p prev o = true <-> point_spec usedir script fs i p prev o.
Proof.
  intros usedir script fs i p prev o. unfold point_ok, point_spec. cbv zeta.
  rewrite !andb_true_iff, !Z.eqb_eq, (all2_eq _ _ fileset_eqb_eq), fileset_eqb_eq. split.
  - intros (((H1 & H2) & H3) & H4). split; [|split; auto].
    destruct (o_served o) as [a b]; cbn in *; congruence.
  - intros (H1 & H2 & H3). rewrite H1. cbn. auto.
Qed.

(* what the directory showed at the point before [j], starting from [prev] *)
Definition prevf (prev : fileset) (os : list obs) (j : nat) : fileset :=
  match j with
  | O => prev
  | S j' => match nth_error os j' with Some o => o_files o | None => no_files end
  end.

Lemma points_equiv : forall usedir script fs pts os i prev,
  points_ok usedir script fs i prev pts os = true <->
  length os = length pts /\
  forall j p o, nth_error pts j = Some p -> nth_error os j = Some o ->
    point_spec usedir script fs (i + j) p (prevf prev os j) o.
Proof.
  intros usedir script fs pts; induction pts as [|p pts IH]; intros [|o os] i prev; cbn [points_ok length].
  - split; [intros _; split; [reflexivity|]; intros [|j] ? ? H; discriminate H|reflexivity].
  - split; [discriminate|intros [H _]; discriminate H].
  - split; [discriminate|intros [H _]; discriminate H].
  - rewrite andb_true_iff, point_equiv, IH. split.
    + intros (H0 & Hl & Hn). split; [congruence|].
      intros [|j] p' o' Hp Ho; cbn in Hp, Ho.
      * inversion Hp; inversion Ho; subst. rewrite Nat.add_0_r. exact H0.
      * specialize (Hn j p' o' Hp Ho). rewrite Nat.add_succ_r.
        destruct j as [|j]; exact Hn.
    + intros (Hl & Hn). split.
      * specialize (Hn O p o eq_refl eq_refl). rewrite Nat.add_0_r in Hn. exact Hn.
      * split; [congruence|]. intros j p' o' Hp Ho.
        specialize (Hn (S j) p' o' Hp Ho). rewrite Nat.add_succ_r in Hn.
        destruct j as [|j]; exact Hn.
Qed.

Theorem rot_oracle_sound : forall t0 usedir script ops os,
  rot_oracle t0 usedir script ops os = true <-> rot_spec t0 usedir script ops os.
Proof.
  intros t0 usedir script ops os. unfold rot_oracle, rot_spec. cbv zeta.
  rewrite andb_true_iff, points_equiv, fetches_equiv. split.
  - intros ((Hl & Hp) & Hf). split; [exact Hl|]. split.
    + intros i p o Hi Ho. exact (Hp i p o Hi Ho).
    + intros k f Hk. exact (Hf k f Hk).
  - intros (Hl & Hp & Hf). split; [split; [exact Hl|]|].
    + intros j p o Hj Ho. exact (Hp j p o Hj Ho).
    + intros j f Hj. exact (Hf j f Hj).
Qed.

(* ------------------------------------------------------------------------------------- *)
(* readers racing with renewals                                                             *)

Lemma seg_equiv : forall script s, seg_ok script s = true <-> seg_spec script s.
Proof.
  intros script s. unfold seg_ok, seg_spec. rewrite !andb_true_iff, !Z.leb_le. tauto.
Qed.

Lemma increasing_equiv : forall l prev,
  increasing prev l = true <->
  (forall a, nth_error l 0 = Some a -> prev < sg_res a) /\
  (forall i a b, nth_error l i = Some a -> nth_error l (S i) = Some b -> sg_res a < sg_res b).
Proof.
  induction l as [|s l IH]; intros prev; cbn [increasing].
  - split; [intros _; split; [intros a H|intros [|i] a b H]; discriminate H|reflexivity].
  - rewrite andb_true_iff, Z.ltb_lt, IH. split.
    + intros (H0 & H1 & H2). split.
      * intros a Ha; cbn in Ha; inversion Ha; subst; exact H0.
      * intros [|i] a b Ha Hb; cbn in Ha, Hb.
        -- inversion Ha; subst. apply H1; exact Hb.
        -- eapply H2; eauto.
    + intros (H0 & H1). split; [apply H0; reflexivity|]. split.
      * intros a Ha. apply (H1 O s a); [reflexivity|exact Ha].
      * intros i a b Ha Hb. apply (H1 (S i) a b); assumption.
Qed.

Lemma reader_equiv : forall script l,
  reader_ok script l = true <->
  (forall s, In s l -> seg_spec script s) /\
  (forall i a b, nth_error l i = Some a -> nth_error l (S i) = Some b -> sg_res a < sg_res b).
Proof.
  intros script l. unfold reader_ok. rewrite andb_true_iff, forallb_forall, increasing_equiv. split.
  - intros (H1 & _ & H3). split; [|exact H3]. intros s Hin. apply seg_equiv, H1, Hin.
  - intros (H1 & H3). split; [intros s Hin; apply seg_equiv, H1, Hin|]. split; [|exact H3].
    intros a Ha. assert (Hin : In a l) by (eapply nth_error_In; eauto).
    destruct (H1 a Hin) as (H0 & _). lia.
Qed.

Theorem conc_oracle_sound : forall script nreq ready_ok readers,
  conc_oracle script nreq ready_ok readers = true <-> conc_spec script nreq ready_ok readers.
Proof.
  intros script nreq ready_ok readers. unfold conc_oracle, conc_spec.
  rewrite !andb_true_iff, Z.eqb_eq, forallb_forall. split.
  - intros ((H1 & H2) & H3). split; [exact H1|]. split; [exact H2|].
    intros l Hin. apply reader_equiv, H3, Hin.
  - intros (H1 & H2 & H3). split; [split; assumption|]. intros l Hin. apply reader_equiv, H3, Hin.
Qed.
