(* C19 — what the property demands, written from its text (properties.jsonl, id C19) over what
   an observer of the SPIFFE object sees: which calls have returned with what at each quiescent
   point (readiness), and — on an injected clock that moves in steps — when the issuer was asked,
   which SVID the source serves and which file set the directory shows (rotation).
   Only the vocabulary of inputs ([ckind], [outcome], [issue]) is shared with the models. *)
From Kit Require Export Lib.Base C19.Model.
From Kit Require C19.Ready.
Open Scope Z_scope.

(* ===================================================================================== *)
(* Part 1 — readiness: "Ready and the SVID source never deadlock, whatever the order in which
   Run, Ready and GetX509SVID are first called: once the initial fetch finishes they return,
   GetX509SVID with the SVID if it succeeded and an error otherwise."                        *)

(* What the test driver does, one action at a time, waiting for quiescence after each. *)
Inductive act :=
| ACall (k : Ready.ckind)    (* call Run / Ready / GetX509SVID from a new goroutine *)
| ACancel (i : nat)          (* cancel the context passed by client i (matters for Ready) *)
| AFetch (id : option Z).    (* let the initial fetch finish: Some id = SVID id, None = error *)

(* Status of a client call at a quiescent point. *)
Inductive cst := CPending | CReadyOk | CReadyCtx | CGetErr | CGetSvid (id : Z).

Definition cst_eqb (a b : cst) : bool :=
  match a, b with
  | CPending, CPending | CReadyOk, CReadyOk | CReadyCtx, CReadyCtx | CGetErr, CGetErr => true
  | CGetSvid x, CGetSvid y => x =? y
  | _, _ => false
  end.

(* Observation at a quiescent point: has the issuer been asked; status of every client call
   made so far, in call order. *)
Record robs := mkRobs { ro_asked : bool; ro_cl : list cst }.

(* The calls made by a prefix of actions: (is it a Get, was its context cancelled). *)
Fixpoint calls_of (acts : list act) (acc : list (bool * bool)) : list (bool * bool) :=
  match acts with
  | [] => acc
  | ACall Ready.KRun :: r => calls_of r acc
  | ACall Ready.KReady :: r => calls_of r (acc ++ [(false, false)])
  | ACall Ready.KGet :: r => calls_of r (acc ++ [(true, false)])
  | ACancel i :: r =>
      calls_of r (match nth_error acc i with
                  | Some (g, _) => Ready.upd i (g, true) acc
                  | None => acc
                  end)
  | AFetch _ :: r => calls_of r acc
  end.

Definition run_called (acts : list act) : bool :=
  existsb (fun a => match a with ACall Ready.KRun => true | _ => false end) acts.

(* result of the initial fetch, if an AFetch action occurred *)
Fixpoint fetch_result (acts : list act) : option (option Z) :=
  match acts with
  | [] => None
  | AFetch r :: _ => Some r
  | _ :: t => fetch_result t
  end.

(* The status the text demands of one client call at a quiescent point. A Ready whose context
   was cancelled may have returned the context error instead (either is allowed once both
   branches of its select are open). *)
Definition cst_ok (fr : option (option Z)) (call : bool * bool) (st : cst) : bool :=
  let '(is_get, cancelled) := call in
  match fr with
  | None =>                           (* initial fetch not finished: nothing may have returned *)
      if is_get then cst_eqb st CPending
      else if cancelled then cst_eqb st CReadyCtx else cst_eqb st CPending
  | Some r =>                         (* finished: every call has returned *)
      if is_get then
        match r with Some id => cst_eqb st (CGetSvid id) | None => cst_eqb st CGetErr end
      else cst_eqb st CReadyOk || (cancelled && cst_eqb st CReadyCtx)
  end.

Fixpoint all2 {A B} (f : A -> B -> bool) (a : list A) (b : list B) : bool :=
  match a, b with
  | [], [] => true
  | x :: a', y :: b' => f x y && all2 f a' b'
  | _, _ => false
  end.

(* The demand at the quiescent point reached after the actions [pre]. *)
Definition ready_point_ok (pre : list act) (o : robs) : bool :=
  let fr := fetch_result pre in
  (* Run, once called, gets as far as asking the issuer (it is not blocked by readers) *)
  (if run_called pre then ro_asked o else true) &&
  all2 (cst_ok fr) (calls_of pre []) (ro_cl o).

(* All quiescent points of a run: after each action, in order; the driver can perform every
   action (in particular the issuer has been asked when AFetch is due), so there is one
   observation per action. *)
Fixpoint ready_points_ok (pre rest : list act) (obs : list robs) : bool :=
  match rest, obs with
  | [], [] => true
  | a :: rest', o :: obs' => ready_point_ok (pre ++ [a]) o && ready_points_ok (pre ++ [a]) rest' obs'
  | _, _ => false
  end.

Definition ready_oracle (acts : list act) (obs : list robs) : bool := ready_points_ok [] acts obs.

(* The same demand as a predicate. *)
Definition ready_spec (acts : list act) (obs : list robs) : Prop :=
  length obs = length acts /\
  forall n o, (n < length acts)%nat -> nth_error obs n = Some o ->
    let pre := firstn (S n) acts in
    (run_called pre = true -> ro_asked o = true) /\
    length (ro_cl o) = length (calls_of pre []) /\
    forall i call st, nth_error (calls_of pre []) i = Some call -> nth_error (ro_cl o) i = Some st ->
      cst_ok (fetch_result pre) call st = true.

(* ===================================================================================== *)
(* Part 2 — rotation: "The SVID served is always the most recently fetched one; a renewal is
   requested no later than one minute after the current certificate passes half of its
   validity, failed renewals are retried every 10 s without disturbing the served SVID, and
   every fetch uses a freshly generated private key that is published together with its
   certificate chain and the current trust anchors as one file set."                        *)

Inductive op :=
| OpAdv (d : Z)              (* step the injected clock by d ns; due timers fire at the new instant *)
| OpCancel                   (* cancel Run's context *)
| OpTA.                      (* replace the trust anchors *)

(* Observation at a quiescent point. *)
Record obs := mkObs {
  o_fetch : list (Z * Z);    (* issuer requests since the previous point: (clock reading,
                                key class = index of the first request that carried the same
                                public key) *)
  o_served : Z * Z;          (* SVID served by the x509 source: (leaf serial = index of the request
                                that issued it, index of the request whose key it holds);
                                (-1,-1) = error *)
  o_pub : list fileset;      (* file sets that became visible in the directory since the previous
                                point, in order: (request whose key is in key.pem, request that
                                issued cert.pem, trust-anchor version in ca.pem); a set whose
                                parts do not belong together or is incomplete shows as negative *)
  o_files : fileset;         (* what the directory shows now; (-1,-1,-1) = nothing *)
  o_run : Z                  (* Run: 0 = still running, 1 = returned nil, 2 = returned an error *)
}.

(* The instant, trust-anchor version and liveness (context not cancelled) at each point. *)
Record point := mkP { p_time : Z; p_ta : Z; p_live : bool }.

Fixpoint points_from (t ta : Z) (live : bool) (ops : list op) : list point :=
  match ops with
  | [] => []
  | OpAdv d :: r => mkP (t + d) ta live :: points_from (t + d) ta live r
  | OpTA :: r => mkP t (ta + 1) live :: points_from t (ta + 1) live r
  | OpCancel :: r => mkP t ta false :: points_from t ta false r
  end.

(* point 0 = after Run was started *)
Definition points (t0 : Z) (ops : list op) : list point := mkP t0 0 true :: points_from t0 0 true ops.

(* One issuer request as observed: clock reading, key class, index of the point at which it was
   observed. Request number k is the k-th element. *)
Record freq := mkF { f_time : Z; f_kc : Z; f_pt : nat }.

Fixpoint flat_fetches (i : nat) (os : list obs) : list freq :=
  match os with
  | [] => []
  | o :: r => map (fun tk : Z * Z => mkF (fst tk) (snd tk) i) (o_fetch o) ++ flat_fetches (S i) r
  end.

Definition outcome_at (script : list outcome) (k : nat) : outcome := nth k script OFail.
Definition is_ok (o : outcome) : bool := match o with OOk _ _ => true | OFail => false end.

(* Half of the validity of the certificate issued for request k at time t (exact integers). *)
Definition halflife (script : list outcome) (k : nat) (t : Z) : Z :=
  match outcome_at script k with
  | OOk dnb dna => let c := issue 0 t dnb dna in c_nb c + (c_na c - c_nb c) / 2
  | OFail => 0
  end.

(* index of the last successful request among those observed at points <= i; -1 if none *)
Fixpoint last_ok (script : list outcome) (i : nat) (k : nat) (fs : list freq) (acc : Z) : Z :=
  match fs with
  | [] => acc
  | f :: r =>
      last_ok script i (S k) r
              (if (f_pt f <=? i)%nat && is_ok (outcome_at script k) then Z.of_nat k else acc)
  end.

(* successful requests observed exactly at point i, as the file sets they must publish *)
Fixpoint pubs_at (script : list outcome) (i : nat) (ta : Z) (k : nat) (fs : list freq) : list fileset :=
  match fs with
  | [] => []
  | f :: r =>
      (if (f_pt f =? i)%nat && is_ok (outcome_at script k) then [(Z.of_nat k, Z.of_nat k, ta)] else [])
      ++ pubs_at script i ta (S k) r
  end.

Definition fileset_eqb (a b : fileset) : bool :=
  let '(a1, a2, a3) := a in let '(b1, b2, b3) := b in (a1 =? b1) && (a2 =? b2) && (a3 =? b3).

Definition no_files : fileset := (-1, -1, -1).

(* request k+1 exists and was observed no later than point j *)
Definition next_by (fs : list freq) (k j : nat) : bool :=
  match nth_error fs (S k) with
  | Some f => (f_pt f <=? j)%nat
  | None => false
  end.

(* At every live point after request k whose instant is >= deadline, request k+1 has been made. *)
Definition followed_by (fs : list freq) (pts : list point) (k : nat) (pt : nat) (deadline : Z) : bool :=
  forallb (fun j => match nth_error pts j with
                    | Some p => if (pt <? j)%nat && p_live p && (deadline <=? p_time p)
                                then next_by fs k j else true
                    | None => true
                    end) (seq 0 (length pts)).

(* the demands on request k *)
Definition fetch_ok (script : list outcome) (fs : list freq) (pts : list point) (k : nat) (f : freq) : bool :=
  (* a freshly generated key: no earlier request carried it *)
  (f_kc f =? Z.of_nat k) &&
  (* stamped with the injected clock's reading at the point where it was observed *)
  match nth_error pts (f_pt f) with Some p => f_time f =? p_time p | None => false end &&
  (if is_ok (outcome_at script k) then
     (* renewal requested no later than one minute after half of the validity (or after the
        certificate was obtained, if that is later) *)
     followed_by fs pts k (f_pt f) (Z.max (halflife script k (f_time f)) (f_time f) + minute)
   else if (0 <? k)%nat then
     (* a failed renewal is retried after 10 s: not earlier, and at the first instant >= 10 s *)
     followed_by fs pts k (f_pt f) (f_time f + ten_s) &&
     match nth_error fs (S k) with Some f' => f_time f + ten_s <=? f_time f' | None => true end
   else true).

(* what the directory shows after the publications [pub], having shown [prev] before *)
Definition expect_files (prev : fileset) (pub : list fileset) : fileset :=
  match pub with [] => prev | _ => last pub no_files end.

(* the demands at point i; [prev] = what the directory showed at the previous point *)
Definition point_ok (usedir : bool) (script : list outcome) (fs : list freq) (i : nat) (p : point)
           (prev : fileset) (o : obs) : bool :=
  let l := last_ok script i 0 fs (-1) in
  (* the most recently fetched SVID is served, with the key generated for that fetch; failures
     leave it alone *)
  (fst (o_served o) =? l) && (snd (o_served o) =? l) &&
  (* one file set per successful fetch: its key, its chain, the anchors current at that time;
     nothing else ever becomes visible *)
  all2 fileset_eqb (o_pub o) (if usedir then pubs_at script i (p_ta p) 0 fs else []) &&
  fileset_eqb (o_files o) (expect_files prev (o_pub o)).

Fixpoint points_ok (usedir : bool) (script : list outcome) (fs : list freq) (i : nat)
         (prev : fileset) (pts : list point) (os : list obs) : bool :=
  match pts, os with
  | [], [] => true
  | p :: pts', o :: os' =>
      point_ok usedir script fs i p prev o &&
      points_ok usedir script fs (S i) (o_files o) pts' os'
  | _, _ => false
  end.

Fixpoint fetches_ok (script : list outcome) (all : list freq) (pts : list point) (k : nat)
         (fs : list freq) : bool :=
  match fs with
  | [] => true
  | f :: r => fetch_ok script all pts k f && fetches_ok script all pts (S k) r
  end.

Definition rot_oracle (t0 : Z) (usedir : bool) (script : list outcome) (ops : list op)
           (os : list obs) : bool :=
  let pts := points t0 ops in
  let fs := flat_fetches 0 os in
  points_ok usedir script fs 0 no_files pts os && fetches_ok script fs pts 0 fs.

(* ---- the same demands as predicates ---- *)

Definition followed_by_spec (fs : list freq) (pts : list point) (k pt : nat) (deadline : Z) : Prop :=
  forall j p, nth_error pts j = Some p -> (pt < j)%nat -> p_live p = true -> deadline <= p_time p ->
    exists f', nth_error fs (S k) = Some f' /\ (f_pt f' <= j)%nat.

Definition fetch_spec (script : list outcome) (fs : list freq) (pts : list point) (k : nat) (f : freq) : Prop :=
  f_kc f = Z.of_nat k /\
  (exists p, nth_error pts (f_pt f) = Some p /\ f_time f = p_time p) /\
  (is_ok (outcome_at script k) = true ->
     followed_by_spec fs pts k (f_pt f) (Z.max (halflife script k (f_time f)) (f_time f) + minute)) /\
  (is_ok (outcome_at script k) = false -> (0 < k)%nat ->
     followed_by_spec fs pts k (f_pt f) (f_time f + ten_s) /\
     forall f', nth_error fs (S k) = Some f' -> f_time f + ten_s <= f_time f').

Definition point_spec (usedir : bool) (script : list outcome) (fs : list freq) (i : nat) (p : point)
           (prev : fileset) (o : obs) : Prop :=
  let l := last_ok script i 0 fs (-1) in
  o_served o = (l, l) /\
  o_pub o = (if usedir then pubs_at script i (p_ta p) 0 fs else []) /\
  o_files o = expect_files prev (o_pub o).

Definition prev_files (os : list obs) (i : nat) : fileset :=
  match i with O => no_files | S j => match nth_error os j with Some o => o_files o | None => no_files end end.

Definition rot_spec (t0 : Z) (usedir : bool) (script : list outcome) (ops : list op)
           (os : list obs) : Prop :=
  let pts := points t0 ops in
  let fs := flat_fetches 0 os in
  length os = length pts /\
  (forall i p o, nth_error pts i = Some p -> nth_error os i = Some o ->
     point_spec usedir script fs i p (prev_files os i) o) /\
  (forall k f, nth_error fs k = Some f -> fetch_spec script fs pts k f).

(* ===================================================================================== *)
(* Part 3 — consumers reading WHILE the loop renews: "Ready and the SVID source never deadlock
   ... The SVID served is always the most recently fetched one", for GetX509SVID / Ready calls
   that run concurrently with renewals (several goroutines calling in a loop while the issuer is
   asked again and again). The interleaving is not part of the input; the demands below hold for
   every interleaving.

   Vocabulary: issuer request k is answered by the k-th element of the script (an exhausted
   script answers with a failure); the loop is sequential, so when request k has STARTED the SVID
   of every successful request below k-1 has been stored, and only requests that have started can
   have been stored.                                                                          *)

(* A maximal run of consecutive calls of ONE reader goroutine that returned the same result.
   [sg_res] = leaf serial (= index of the issuer request that issued it) when the private key is
   the one generated for that request; -1 = error; -2 = a call that did not return within the
   liveness deadline; -3 = certificate and key belong to different fetches.
   [sg_hi] = issuer requests started by the time the FIRST call of the run returned;
   [sg_lo] = issuer requests started before the LAST call of the run began.                   *)
Record seg := mkSeg { sg_res : Z; sg_hi : Z; sg_lo : Z }.

(* index of the newest successful request among requests 0 .. k-1; -1 if none *)
Fixpoint last_ok_below (script : list outcome) (k : nat) : Z :=
  match k with
  | O => -1
  | S j => if is_ok (outcome_at script j) then Z.of_nat j else last_ok_below script j
  end.

(* The result is an SVID that was fetched, not older than what had certainly been stored when
   the call began and not newer than what had been requested when it returned. *)
Definition seg_ok (script : list outcome) (s : seg) : bool :=
  (0 <=? sg_res s) && is_ok (outcome_at script (Z.to_nat (sg_res s))) &&
  (last_ok_below script (Z.to_nat (sg_lo s - 1)) <=? sg_res s) &&
  (sg_res s <=? last_ok_below script (Z.to_nat (sg_hi s))).

(* a reader never sees an older SVID after a newer one *)
Fixpoint increasing (prev : Z) (l : list seg) : bool :=
  match l with
  | [] => true
  | s :: r => (prev <? sg_res s) && increasing (sg_res s) r
  end.

Definition reader_ok (script : list outcome) (l : list seg) : bool :=
  forallb (seg_ok script) l && increasing (-1) l.

(* [nreq] = issuer requests made by the end of the run (the driver delivers every timer until
   the script is used up: all scripted requests plus the first unscripted one must be made -
   the loop never stops renewing); [ready_ok] = every Ready call made during the run returned
   nil; [readers] = the runs of every reader goroutine. *)
Definition conc_oracle (script : list outcome) (nreq : Z) (ready_ok : bool)
           (readers : list (list seg)) : bool :=
  (nreq =? Z.of_nat (length script) + 1) && ready_ok && forallb (reader_ok script) readers.

Definition seg_spec (script : list outcome) (s : seg) : Prop :=
  0 <= sg_res s /\ is_ok (outcome_at script (Z.to_nat (sg_res s))) = true /\
  last_ok_below script (Z.to_nat (sg_lo s - 1)) <= sg_res s /\
  sg_res s <= last_ok_below script (Z.to_nat (sg_hi s)).

Definition conc_spec (script : list outcome) (nreq : Z) (ready_ok : bool)
           (readers : list (list seg)) : Prop :=
  nreq = Z.of_nat (length script) + 1 /\ ready_ok = true /\
  forall l, In l readers ->
    (forall s, In s l -> seg_spec script s) /\
    (forall i a b, nth_error l i = Some a -> nth_error l (S i) = Some b -> sg_res a < sg_res b).
