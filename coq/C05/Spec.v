(* C05 — the property, written from its text and from the package documentation (doc.go,
   the comments of Cron / Entry / Schedule), NOT from run():

     "A running Cron starts an entry's job once for every activation instant of its schedule
      that the clock reaches after the entry was added (once per wake-up if the clock jumps over
      several), never before that instant and never twice for the same one, whatever other
      entries are added or removed meanwhile.  After Remove returns the entry is not started
      again, after Stop returns nothing is started, the context returned by Stop completes only
      when every started job has returned, and Entries reports each live entry with the next and
      previous activation actually used."

   The reference is PER ENTRY: a live entry waits for one pending activation [enxt]
   (Schedule doc: "Next is invoked initially, and then each time the job is run"; Entry doc:
   Next is "the zero time if Cron has not been started or this entry's schedule is
   unsatisfiable", Prev "the last time this job was run, or the zero time if never").  There is
   no ordering of entries, no timer and no loop in it: every clause below looks at one entry at
   a time ([map] / [filter] / [In]).

   An observed history is a list of (event, output, jobs): the event the scheduler processed
   (or the idle-state call), what it returned / logged, and the job invocations
   (entry id, reading of the injected clock when the job began) seen before the system was
   quiescent again. *)
From Coq Require Import Permutation.
From Kit Require Export C05.Model.
Local Open Scope Z_scope.

Section Spec.

Variable sched : Type.
Variable next : sched -> Z -> option Z.

Notation entry := (entry sched).
Notation event := (event sched).

Definition obs : Type := event * output * list (Z * Z).

Record rstate := mkR {
  rents : list entry;   (* live entries, with the activation each one waits for *)
  rrun : bool;          (* started and not stopped *)
  rout : Z;             (* job invocations that have not returned *)
  rctx : list bool;     (* contexts returned by Stop: complete? *)
  rgone : list Z;       (* ids whose Remove call has returned to its caller *)
  rhalt : bool;         (* a Stop call has returned and no Start has been processed since *)
  rclk : Z;             (* the latest clock reading the history has shown *)
  rlate : bool          (* the last wake-up worked with a tick value older than the clock reading
                           (a busy host): until the next event, pending activations may be
                           reached without having been started yet *)
}.

Definition rinit : rstate := mkR [] false 0 [] [] false 0 false.

(* the entry's activation has been reached by a clock reading [w] *)
Definition due_at (w : Z) (e : entry) : bool :=
  match enxt e with Some a => a <=? w | None => false end.

(* entries whose job must start when a running Cron notices the clock reading [w] *)
Definition due (R : rstate) (w : Z) : list entry :=
  if rrun R then filter (due_at w) (rents R) else [].

(* one start per wake-up, however many activations [w] jumped over; the next activation is
   the schedule's first one after [w] *)
Definition fire (w : Z) (e : entry) : entry :=
  match enxt e with
  | Some a => if a <=? w then mkE (eid e) (esch e) (next (esch e) w) (Some a) else e
  | None => e
  end.

(* (re)start at clock reading [t]: every entry waits for its schedule's first activation
   after [t]; activations that passed while the Cron was stopped are not made up for *)
Definition restart (t : Z) (e : entry) : entry :=
  mkE (eid e) (esch e) (next (esch e) t) (eprv e).

Definition rstep (R : rstate) (o : obs) : rstate :=
  let '(ev, out, jobs) := o in
  match ev with
  | Start t => mkR (map (restart t) (rents R)) true (rout R) (rctx R) (rgone R) false t false
  | Wake w => mkR (if rrun R then map (fire w) (rents R) else rents R) (rrun R)
                  (rout R + Z.of_nat (length jobs)) (rctx R) (rgone R) (rhalt R)
                  (Z.max (rclk R) w) (w <? rclk R)
  | Added t sc =>
      match out with
      | OAdded id _ => mkR (rents R ++ [mkE id sc (next sc t) None]) (rrun R) (rout R) (rctx R)
                           (rgone R) (rhalt R) t false
      | _ => R
      end
  | ScheduleIdle sc =>
      match out with
      | OId id => mkR (rents R ++ [mkE id sc None None]) (rrun R) (rout R) (rctx R)
                      (rgone R) (rhalt R) (rclk R) (rlate R)
      | _ => R
      end
  | Removed t id =>
      mkR (remove_entry id (rents R)) (rrun R) (rout R) (rctx R) (rgone R) (rhalt R) t false
  | RemoveIdle id =>
      mkR (remove_entry id (rents R)) (rrun R) (rout R) (rctx R) (rgone R) (rhalt R)
          (rclk R) (rlate R)
  | Stop | StopIdle => mkR (rents R) false (rout R) (rctx R ++ [rout R =? 0]) (rgone R) (rhalt R)
                           (rclk R) (rlate R)
  | JobRet => let o' := rout R - 1 in
              mkR (rents R) (rrun R) o' (if o' =? 0 then map (fun _ => true) (rctx R) else rctx R)
                  (rgone R) (rhalt R) (rclk R) (rlate R)
  | RemoveRet id => mkR (rents R) (rrun R) (rout R) (rctx R) (id :: rgone R) (rhalt R)
                        (rclk R) (rlate R)
  | StopRet => mkR (rents R) (rrun R) (rout R) (rctx R) (rgone R) true (rclk R) (rlate R)
  | Tick c => mkR (rents R) (rrun R) (rout R) (rctx R) (rgone R) (rhalt R) c (rlate R)
  | Lag c => mkR (rents R) (rrun R) (rout R) (rctx R) (rgone R) (rhalt R) c true
  | Snapshot | EntriesIdle | StartNoop | CtxPoll => R
  end.

(* What the property demands of one observation in reference state [R]. *)
Definition spec_obs (R : rstate) (o : obs) : Prop :=
  let '(ev, out, jobs) := o in
  match ev with
  | Wake w =>
      (* once per due entry, none skipped, nothing else (removed entries, a stopped Cron) *)
      Permutation (map fst jobs) (map eid (due R w)) /\
      (* never early: the job begins at or after the activation it is started for *)
      (forall i c, In (i, c) jobs ->
         exists e a, In e (rents R) /\ eid e = i /\ enxt e = Some a /\ a <= c) /\
      (* after Remove(id) has returned, entry id is not started; after Stop has returned
         nothing is started (until a later Start) *)
      (forall i c, In (i, c) jobs -> ~ In i (rgone R)) /\
      (rhalt R = true -> jobs = [])
  | Tick c =>
      jobs = [] /\
      (* every activation instant the clock has reached got its start (unless the last wake-up
         was handed a tick value older than the clock: then its timer is late by that much) *)
      (rrun R = true -> rlate R = false -> forall e a, In e (rents R) -> enxt e = Some a -> c < a)
  | Snapshot | EntriesIdle =>
      jobs = [] /\
      (exists l, out = OSnap l /\ Permutation l (snapshot_of (rents R))) /\
      (* an entry whose Remove has returned is not reported *)
      (forall l i n p, out = OSnap l -> In (i, n, p) l -> ~ In i (rgone R))
  | Stop | StopIdle =>
      jobs = [] /\ out = OCtx (rout R =? 0)
  | CtxPoll =>
      jobs = [] /\ out = OCtxs (rctx R)
  | Added _ _ =>
      jobs = [] /\ exists id nx, out = OAdded id nx /\ ~ In id (map eid (rents R))
  | ScheduleIdle _ =>
      jobs = [] /\ exists id, out = OId id /\ ~ In id (map eid (rents R))
  | Start _ | Removed _ _ | RemoveIdle _ | StartNoop | JobRet | RemoveRet _ | StopRet | Lag _ =>
      jobs = []
  end.

Fixpoint spec_from (R : rstate) (tr : list obs) : Prop :=
  match tr with
  | [] => True
  | o :: tr' => spec_obs R o /\ spec_from (rstep R o) tr'
  end.

Definition spec_ok (tr : list obs) : Prop := spec_from rinit tr.

(* ------------------------------------------------------------------------------------- *)
(* The same, executable: evaluated on what the implementation was observed to do.          *)

Section Permb.
  Context {A : Type} (eqb : A -> A -> bool).
  Fixpoint remove1 (x : A) (l : list A) : option (list A) :=
    match l with
    | [] => None
    | y :: l' => if eqb x y then Some l'
                 else match remove1 x l' with Some r => Some (y :: r) | None => None end
    end.
  Fixpoint permb (l l' : list A) : bool :=
    match l with
    | [] => match l' with [] => true | _ => false end
    | x :: t => match remove1 x l' with Some r => permb t r | None => false end
    end.
End Permb.

Definition optZ_eqb (a b : option Z) : bool :=
  match a, b with
  | Some x, Some y => x =? y
  | None, None => true
  | _, _ => false
  end.

Definition trip_eqb (a b : Z * option Z * option Z) : bool :=
  (fst (fst a) =? fst (fst b)) && optZ_eqb (snd (fst a)) (snd (fst b)) && optZ_eqb (snd a) (snd b).

Fixpoint eqb_listb (a b : list bool) : bool :=
  match a, b with
  | [], [] => true
  | x :: a', y :: b' => Bool.eqb x y && eqb_listb a' b'
  | _, _ => false
  end.

Definition nil_b {A} (l : list A) : bool := match l with [] => true | _ => false end.

Definition fresh_b (id : Z) (R : rstate) : bool :=
  negb (existsb (fun e => eid e =? id) (rents R)).

Definition oracle_obs (R : rstate) (o : obs) : bool :=
  let '(ev, out, jobs) := o in
  match ev with
  | Wake w =>
      permb Z.eqb (map fst jobs) (map eid (due R w)) &&
      forallb (fun j => existsb (fun e => (eid e =? fst j) &&
                                          match enxt e with Some a => a <=? snd j | None => false end)
                                (rents R)) jobs &&
      forallb (fun j => negb (existsb (Z.eqb (fst j)) (rgone R))) jobs &&
      (negb (rhalt R) || nil_b jobs)
  | Tick c =>
      nil_b jobs &&
      (negb (rrun R) || rlate R ||
       forallb (fun e => match enxt e with Some a => c <? a | None => true end) (rents R))
  | Snapshot | EntriesIdle =>
      nil_b jobs &&
      match out with
      | OSnap l => permb trip_eqb l (snapshot_of (rents R)) &&
                   forallb (fun x => negb (existsb (Z.eqb (fst (fst x))) (rgone R))) l
      | _ => false
      end
  | Stop | StopIdle =>
      nil_b jobs && match out with OCtx d => Bool.eqb d (rout R =? 0) | _ => false end
  | CtxPoll =>
      nil_b jobs && match out with OCtxs l => eqb_listb l (rctx R) | _ => false end
  | Added _ _ =>
      nil_b jobs && match out with OAdded id _ => fresh_b id R | _ => false end
  | ScheduleIdle _ =>
      nil_b jobs && match out with OId id => fresh_b id R | _ => false end
  | Start _ | Removed _ _ | RemoveIdle _ | StartNoop | JobRet | RemoveRet _ | StopRet | Lag _ =>
      nil_b jobs
  end.

Fixpoint oracle_from (R : rstate) (tr : list obs) : bool :=
  match tr with
  | [] => true
  | o :: tr' => oracle_obs R o && oracle_from (rstep R o) tr'
  end.

Definition oracle (tr : list obs) : bool := oracle_from rinit tr.

(* ------------------------------------------------------------------------------------- *)
(* "whatever other entries are added or removed meanwhile": what one entry does is a fold    *)
(* over the wake-up and (re)start instants alone.                                            *)

Definition efire (sc : sched) (st : option Z * option Z) (ev : event) : option Z * option Z :=
  match ev with
  | Start t => (next sc t, snd st)
  | Wake w => match fst st with
              | Some a => if a <=? w then (next sc w, Some a) else st
              | None => st
              end
  | _ => st
  end.

Definition track (sc : sched) (st : option Z * option Z) (h : list event) : option Z * option Z :=
  fold_left (efire sc) h st.

End Spec.

Arguments mkR {sched}.
Arguments rents {sched}.
Arguments rrun {sched}.
Arguments rout {sched}.
Arguments rctx {sched}.
Arguments rgone {sched}.
Arguments rhalt {sched}.
Arguments rclk {sched}.
Arguments rlate {sched}.
Arguments rinit {sched}.
Arguments due_at {sched}.
Arguments due {sched}.
Arguments fire {sched}.
Arguments restart {sched}.
Arguments rstep {sched}.
Arguments spec_obs {sched}.
Arguments spec_from {sched}.
Arguments spec_ok {sched}.
Arguments oracle_obs {sched}.
Arguments oracle_from {sched}.
Arguments oracle {sched}.
Arguments fresh_b {sched}.
Arguments efire {sched}.
Arguments track {sched}.
