(* C05 — small definitions used only to STATE the theorems (projections of the ghost list of job
   starts, "the event that created an entry", one entry's starts as a fold over the wake-up /
   start instants).  Definitions only. *)
From Kit Require Export C05.Model C05.Spec.
Local Open Scope Z_scope.

(* ghost-list helpers: an element of [starts] is (entry id, activation, wake-up instant) *)
Definition sid (x : Z * Z * Z) : Z := fst (fst x).
Definition sact (x : Z * Z * Z) : Z := snd (fst x).
Definition swake (x : Z * Z * Z) : Z := snd x.
Definition of_id (i : Z) (l : list (Z * Z * Z)) : list (Z * Z * Z) := filter (fun x => sid x =? i) l.
Definition acts_of (i : Z) (l : list (Z * Z * Z)) : list Z := map sact (of_id i l).
Definition last_opt (l : list Z) : option Z :=
  match rev l with [] => None | x :: _ => Some x end.

Section Defs.

Variable sched : Type.
Variable next : sched -> Z -> option Z.

(* an event that creates an entry: its id, schedule and initial (Next, Prev) *)
Definition birth (s : state sched) (ev : event sched) : option (Z * sched * (option Z * option Z)) :=
  match ev with
  | Added t sc => Some (nextID s + 1, sc, (next sc t, None))
  | ScheduleIdle sc => Some (nextID s + 1, sc, (None, None))
  | _ => None
  end.

(* the job starts (activation, wake) of one entry as a fold over wake-up / start instants alone *)
Fixpoint tstarts (sc : sched) (st : option Z * option Z) (h : list (event sched)) : list (Z * Z) :=
  match h with
  | [] => []
  | ev :: h' =>
      (match ev, fst st with
       | Wake w, Some a => if a <=? w then [(a, w)] else []
       | _, _ => []
       end) ++ tstarts sc (efire next sc st ev) h'
  end.

Definition is_start (ev : event sched) : bool := match ev with Start _ => true | _ => false end.
Definition is_jobret (ev : event sched) : bool := match ev with JobRet => true | _ => false end.

End Defs.

Arguments birth {sched}.
Arguments tstarts {sched}.
Arguments is_start {sched}.
Arguments is_jobret {sched}.
