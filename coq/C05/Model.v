(* C05 — cron scheduler (cron/cron.go): executable model.  Definitions only.

   The scheduler goroutine ([Cron.run]) is single-threaded and every API call made while the
   Cron is running hands its argument to that goroutine through an unbuffered channel while
   holding [runningMu]; calls made while it is not running mutate the fields directly under the
   same mutex.  So the component is a deterministic machine over the EVENTS THE GOROUTINE
   PROCESSES (in the order it processes them: its own linearisation, which is what the injected
   Logger records) plus the idle-state API calls:

     Start now | Wake now | Added now sched | Removed now id | Snapshot | Stop       (running)
     ScheduleIdle sched | RemoveIdle id | EntriesIdle | StopIdle                      (idle)
     StartNoop   (Start/Run while running: returns at once, the goroutine never sees it)
     JobRet      (environment: a started job returns -> jobWaiter.Done())
     CtxPoll     (caller: looks at Done() of every context Stop has returned so far)
     Tick c      (environment: the clock reads c and the goroutine is parked in its select;
                  its timer, if any, has not fired)
     Lag c       (environment: the clock reads c, the armed timer's instant has been reached, and
                  its tick - which will carry a value that may be OLDER than c - has not been
                  consumed yet: a busy host.  The wake-up then works with the tick's value w
                  while the clock reads max(c, w): it runs what was due at w, computes Next from w,
                  and the timer it arms with NewTimer(Next - w) fires (c - w) late)
     RemoveRet id (caller: a Remove(id) call has RETURNED.  While running, Remove hands the id over
                  an unbuffered channel, so it returns only after the goroutine has taken it in its
                  select and - being single-threaded - removes the entry before anything else; while
                  idle it removes the entry itself.  Modelled for ids that Schedule has handed out:
                  enabled iff no entry has that id.)
     StopRet     (caller: a Stop() call has RETURNED: the goroutine has taken the stop request -
                  enabled iff not running)

   A schedule is abstract: [next : sched -> Z -> option Z] ([None] = the zero time.Time that
   an unsatisfiable schedule returns).  Time is Z (nanoseconds).

   cron.go, run():
       now := c.now(); for each entry: entry.Next = Schedule.Next(now)            -> [Start]
       for { sort.Sort(byTime(entries))                                           -> [arm]
             if len==0 || entries[0].Next.IsZero() { timerCh = never }
             else { timer = clk.NewTimer(entries[0].Next.Sub(now)) }
             for { select {
               case now = <-timerCh:   for e in entries { if e.Next.After(now)||IsZero {break}
                                          startJob; e.Prev = e.Next; e.Next = Next(now) } -> [Wake]
               case e := <-c.add:      now = c.now(); e.Next = Next(now); append          -> [Added]
               case r := <-c.snapshot: r <- copy; continue    (no re-sort, no re-arm)    -> [Snapshot]
               case <-c.stop:          stop timer; return                                 -> [Stop]
               case id := <-c.remove:  now = c.now(); removeEntry(id)                     -> [Removed]
             }; stop timer; break } }

   [sort.Sort] is pdqsort, which is an insertion sort (stable) up to 12 elements and not stable
   above; the model sorts stably.  Nothing the property talks about depends on the order of
   entries with equal [Next] (Proofs: a wake-up runs exactly the due SET), and the
   correspondence check compares set-like observations canonically (sorted by id). *)
From Kit Require Export Lib.Base.
Local Open Scope Z_scope.

Section Model.

Variable sched : Type.
Variable next : sched -> Z -> option Z.

(* Entry: ID, Schedule, Next (None = zero time), Prev (None = zero time). *)
Record entry := mkE { eid : Z; esch : sched; enxt : option Z; eprv : option Z }.

(* byTime.Less: zero time sorts last; two zero times are not less than each other. *)
Definition less (a b : entry) : bool :=
  match enxt a, enxt b with
  | None, _ => false
  | Some _, None => true
  | Some x, Some y => x <? y
  end.

(* stable insertion sort: [x] (which preceded every element of [l] in the input) goes before
   the first element that is not strictly less than it *)
Fixpoint insert (x : entry) (l : list entry) : list entry :=
  match l with
  | [] => [x]
  | y :: l' => if less y x then y :: insert x l' else x :: l
  end.

Definition sort_entries (l : list entry) : list entry := fold_right insert [] l.

Inductive event :=
| Start (t : Z)
| Wake (w : Z)
| Added (t : Z) (s : sched)
| Removed (t : Z) (id : Z)
| Snapshot
| Stop
| ScheduleIdle (s : sched)
| RemoveIdle (id : Z)
| EntriesIdle
| StopIdle
| StartNoop
| JobRet
| CtxPoll
| Tick (c : Z)
| RemoveRet (id : Z)
| StopRet
| Lag (c : Z).

(* what the event makes observable *)
Inductive output :=
| ONone
| OSchedule (l : list (Z * option Z))          (* "schedule" log records: (entry, next)      *)
| ORuns (l : list (Z * option Z))              (* "run" log records of one wake: (entry, next) *)
| OAdded (id : Z) (nx : option Z)              (* id returned by Schedule + "added" record    *)
| OId (id : Z)                                 (* id returned by Schedule while idle          *)
| OSnap (l : list (Z * option Z * option Z))   (* Entries(): (ID, Next, Prev) in slice order   *)
| OCtx (done : bool)                           (* is the context returned by Stop complete?   *)
| OCtxs (l : list bool).                       (* ... of every context returned so far        *)

Record state := mkS {
  entries : list entry;      (* c.entries *)
  now : Z;                   (* the local variable [now] of run() *)
  running : bool;            (* c.running *)
  nextID : Z;                (* c.nextID *)
  timer : option Z;          (* instant at which the armed timer fires; None = no timer *)
  outstanding : Z;           (* jobWaiter counter: started jobs that have not returned *)
  ctxs : list bool;          (* contexts handed out by Stop, oldest first: complete? *)
  starts : list (Z * Z * Z); (* ghost: every job start (entry id, activation, wake), in order *)
  clk : Z                    (* ghost: the clock's reading at the last timed event *)
}.

Definition init (t0 : Z) : state :=
  mkS [] t0 false 0 None 0 [] [] t0.

(* The body of the outer [for]: sort, then arm one timer for the earliest entry.
   NewTimer(d) fires at (clock reading when it is called) + d, and d = entries[0].Next - now. *)
Definition arm (s : state) : state :=
  let es := sort_entries (entries s) in
  let tm := match es with
            | e :: _ => match enxt e with
                        | Some n => Some (clk s + (n - now s))
                        | None => None
                        end
            | [] => None
            end in
  mkS es (now s) (running s) (nextID s) tm (outstanding s) (ctxs s) (starts s) (clk s).

(* the [for _, e := range c.entries] loop of the timer case; returns the entries and
   (id, activation, new next) of every job started *)
Fixpoint wake_loop (w : Z) (es : list entry) : list entry * list (Z * Z * option Z) :=
  match es with
  | [] => ([], [])
  | e :: es' =>
      match enxt e with
      | None => (es, [])                                  (* IsZero: break *)
      | Some a =>
          if w <? a then (es, [])                         (* Next.After(now): break *)
          else
            let nx := next (esch e) w in
            let '(es'', rs) := wake_loop w es' in
            (mkE (eid e) (esch e) nx (Some a) :: es'', (eid e, a, nx) :: rs)
      end
  end.

Definition snapshot_of (es : list entry) : list (Z * option Z * option Z) :=
  map (fun e => (eid e, enxt e, eprv e)) es.

Definition remove_entry (id : Z) (es : list entry) : list entry :=
  filter (fun e => negb (eid e =? id)) es.

(* [None] = the event cannot happen in this state. *)
Definition step (s : state) (ev : event) : option (state * output) :=
  match ev with
  | Start t =>
      if running s then None else
      let es := map (fun e => mkE (eid e) (esch e) (next (esch e) t) (eprv e)) (entries s) in
      Some (arm (mkS es t true (nextID s) None (outstanding s) (ctxs s) (starts s) t),
            OSchedule (map (fun e => (eid e, enxt e)) es))
  | Wake w =>
      if negb (running s) then None else
      match timer s with
      | None => None                   (* timerCh is a channel nobody sends on *)
      | Some _ =>
          let '(es, rs) := wake_loop w (entries s) in
          Some (arm (mkS es w true (nextID s) None
                         (outstanding s + Z.of_nat (length rs)) (ctxs s)
                         (starts s ++ map (fun r => (fst (fst r), snd (fst r), w)) rs)
                         (Z.max (clk s) w)),
                ORuns (map (fun r => (fst (fst r), snd r)) rs))
      end
  | Added t sc =>
      if negb (running s) then None else
      let id := nextID s + 1 in
      let e := mkE id sc (next sc t) None in
      Some (arm (mkS (entries s ++ [e]) t true id None (outstanding s) (ctxs s) (starts s) t),
            OAdded id (next sc t))
  | Removed t id =>
      if negb (running s) then None else
      Some (arm (mkS (remove_entry id (entries s)) t true (nextID s) None
                     (outstanding s) (ctxs s) (starts s) t),
            ONone)
  | Snapshot =>
      if negb (running s) then None else Some (s, OSnap (snapshot_of (entries s)))
  | Stop =>
      if negb (running s) then None else
      let d := outstanding s =? 0 in
      Some (mkS (entries s) (now s) false (nextID s) None (outstanding s) (ctxs s ++ [d])
                (starts s) (clk s),
            OCtx d)
  | ScheduleIdle sc =>
      if running s then None else
      let id := nextID s + 1 in
      Some (mkS (entries s ++ [mkE id sc None None]) (now s) false id (timer s) (outstanding s)
                (ctxs s) (starts s) (clk s),
            OId id)
  | RemoveIdle id =>
      if running s then None else
      Some (mkS (remove_entry id (entries s)) (now s) false (nextID s) (timer s) (outstanding s)
                (ctxs s) (starts s) (clk s),
            ONone)
  | EntriesIdle =>
      if running s then None else Some (s, OSnap (snapshot_of (entries s)))
  | StopIdle =>
      if running s then None else
      let d := outstanding s =? 0 in
      Some (mkS (entries s) (now s) false (nextID s) (timer s) (outstanding s) (ctxs s ++ [d])
                (starts s) (clk s),
            OCtx d)
  | StartNoop =>
      if negb (running s) then None else Some (s, ONone)
  | JobRet =>
      if outstanding s <=? 0 then None else
      let o := outstanding s - 1 in
      Some (mkS (entries s) (now s) (running s) (nextID s) (timer s) o
                (if o =? 0 then map (fun _ => true) (ctxs s) else ctxs s) (starts s) (clk s),
            ONone)
  | CtxPoll => Some (s, OCtxs (ctxs s))
  | Tick c =>
      Some (mkS (entries s) (now s) (running s) (nextID s) (timer s) (outstanding s) (ctxs s)
                (starts s) c,
            ONone)
  | RemoveRet id =>
      if (id <=? nextID s) && negb (existsb (fun e => eid e =? id) (entries s))
      then Some (s, ONone) else None
  | StopRet =>
      if running s then None else Some (s, ONone)
  | Lag c =>
      Some (mkS (entries s) (now s) (running s) (nextID s) (timer s) (outstanding s) (ctxs s)
                (starts s) c,
            ONone)
  end.

(* What the environment may do (not a property of cron.go): clocks do not run backwards, a
   timer does not fire before its instant, and a clock reading [c] with the goroutine parked
   means the armed timer's instant is still ahead. *)
Definition env_ok (s : state) (ev : event) : bool :=
  match ev with
  | Start t | Added t _ | Removed t _ => clk s <=? t
  | Wake w => match timer s with Some T => T <=? w | None => false end
  | Lag c => (clk s <=? c) && match timer s with Some T => T <=? c | None => false end
  | Tick c => (clk s <=? c) && match timer s with Some T => c <? T | None => true end
  | _ => true
  end.

Fixpoint run (s : state) (h : list event) : option state :=
  match h with
  | [] => Some s
  | ev :: h' => match step s ev with Some (s', _) => run s' h' | None => None end
  end.

(* well-formed history from [s]: every event is enabled and allowed by the environment *)
Fixpoint wf (s : state) (h : list event) : bool :=
  match h with
  | [] => true
  | ev :: h' => env_ok s ev && match step s ev with Some (s', _) => wf s' h' | None => false end
  end.

(* job invocations caused by an event: (entry id, clock reading when the job starts) *)
Definition jobs_of (ev : event) (o : output) : list (Z * Z) :=
  match ev, o with
  | Wake w, ORuns l => map (fun r => (fst r, w)) l
  | _, _ => []
  end.

(* the observable trace: event, its output, the jobs it started *)
Fixpoint trace (s : state) (h : list event) : list (event * output * list (Z * Z)) :=
  match h with
  | [] => []
  | ev :: h' => match step s ev with
                | Some (s', o) => (ev, o, jobs_of ev o) :: trace s' h'
                | None => []
                end
  end.

End Model.

Arguments mkE {sched}.
Arguments eid {sched}.
Arguments esch {sched}.
Arguments enxt {sched}.
Arguments eprv {sched}.
Arguments Start {sched}.
Arguments Wake {sched}.
Arguments Added {sched}.
Arguments Removed {sched}.
Arguments Snapshot {sched}.
Arguments Stop {sched}.
Arguments ScheduleIdle {sched}.
Arguments RemoveIdle {sched}.
Arguments EntriesIdle {sched}.
Arguments StopIdle {sched}.
Arguments StartNoop {sched}.
Arguments JobRet {sched}.
Arguments CtxPoll {sched}.
Arguments Tick {sched}.
Arguments RemoveRet {sched}.
Arguments StopRet {sched}.
Arguments Lag {sched}.
Arguments mkS {sched}.
Arguments entries {sched}.
Arguments now {sched}.
Arguments running {sched}.
Arguments nextID {sched}.
Arguments timer {sched}.
Arguments outstanding {sched}.
Arguments ctxs {sched}.
Arguments starts {sched}.
Arguments clk {sched}.
Arguments init {sched}.
Arguments less {sched}.
Arguments insert {sched}.
Arguments sort_entries {sched}.
Arguments snapshot_of {sched}.
Arguments remove_entry {sched}.
Arguments arm {sched}.
Arguments wake_loop {sched}.
Arguments step {sched}.
Arguments env_ok {sched}.
Arguments run {sched}.
Arguments wf {sched}.
Arguments trace {sched}.
Arguments jobs_of {sched}.
