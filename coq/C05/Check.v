(* C05 — executable correspondence interface.  The Go harness (harness/c05) drives a real
   cron.Cron with a virtual clock and a recording Logger and prints, per script, the events in
   the order the scheduler goroutine processed them, each with what the implementation was
   OBSERVED to do (returned ids, "schedule"/"run"/"added" log records, Entries() results,
   completion of Stop's contexts, job invocations stamped with the injected clock, the instant
   of the timer the goroutine armed, and the points at which Remove / Stop calls RETURNED to
   their callers - RemoveRet / StopRet - relative to the scheduler's events).  [check_case] replays the events on the model and
   compares, and evaluates the spec oracle on the observation. *)
From Kit Require Export C05.Model C05.Spec Lib.CheckLib.
Local Open Scope Z_scope.

(* The schedules the harness uses. *)
Inductive csched :=
| Every (d : Z)             (* cron.Every(d) / "@every <d>": d = the duration asked for, in ns *)
| Instants (l : list Z)     (* harness's own cron.Schedule: first listed instant after t, else zero *)
| Wall (off p ph : Z).      (* a parsed spec ("M * * * *": p = 1 h, ph = M min; "M H * * *": p = 24 h,
                               ph = H h + M min) with no TZ=: its fields are read on the wall clock of
                               the zone of the time it is given - the Cron's location.  off = that
                               zone's offset + the harness's time base (ns): the schedule fires at the
                               instants t with (t + off - ph) mod p = 0 *)

Definition sec : Z := 1000000000.

(* constantdelay.go, Every: below one second -> one second; sub-second part truncated *)
Definition every_delay (d : Z) : Z :=
  let d' := if d <? sec then sec else d in d' - d' mod sec.

(* constantdelay.go, Next: t.Add(Delay - t.Nanosecond()) *)
Definition cnext (s : csched) (t : Z) : option Z :=
  match s with
  | Every d => Some (t + (every_delay d - t mod sec))
  | Instants l => find (fun x => t <? x) l
  | Wall off p ph => let p' := if p <=? 0 then sec else p in
                     Some (t + (p' - (t + off - ph) mod p'))
  end.

Definition item : Type := event csched * output * list (Z * Z) * option Z.

Inductive case :=
| CScript (t0 : Z) (items : list item).

Definition pairZ_eqb (a b : Z * Z) : bool := (fst a =? fst b) && (snd a =? snd b).
Definition pairZo_eqb (a b : Z * option Z) : bool := (fst a =? fst b) && optZ_eqb (snd a) (snd b).

(* set-like observations are compared as multisets *)
Definition out_eqb (m o : output) : bool :=
  match m, o with
  | ONone, ONone => true
  | OSchedule a, OSchedule b => permb pairZo_eqb a b
  | ORuns a, ORuns b => permb pairZo_eqb a b
  | OAdded i n, OAdded j k => (i =? j) && optZ_eqb n k
  | OId i, OId j => i =? j
  | OSnap a, OSnap b => permb trip_eqb a b
  | OCtx a, OCtx b => Bool.eqb a b
  | OCtxs a, OCtxs b => eqb_listb a b
  | _, _ => false
  end.

Definition item_ok (s : state csched) (it : item) : option (state csched) :=
  let '(ev, o, jobs, tm) := it in
  if negb (env_ok s ev) then None else
  match step cnext s ev with
  | Some (s', o') =>
      (* job starts: the same entries (the clock reading a job saw is judged by the oracle; it
         exceeds the wake-up's tick value when that value lagged the clock) *)
      if out_eqb o' o && permb Z.eqb (map fst (jobs_of ev o')) (map fst jobs) &&
         optZ_eqb (timer s') tm
      then Some s' else None
  | None => None
  end.

Fixpoint replay (s : state csched) (items : list item) : bool :=
  match items with
  | [] => true
  | it :: rest => match item_ok s it with Some s' => replay s' rest | None => false end
  end.

(* index of the first item the model disagrees with (-1: none) - for diagnosis *)
Fixpoint first_bad (s : state csched) (items : list item) (k : Z) : Z :=
  match items with
  | [] => -1
  | it :: rest => match item_ok s it with Some s' => first_bad s' rest (k + 1) | None => k end
  end.

Definition obs_of (it : item) : obs csched := fst it.

(* 0 = agree and oracle holds; 1 = model and implementation differ; 2 = the implementation's
   observed behaviour violates the spec; 3 = it violates the spec AND the model does not
   reproduce it (the model meets the spec - C05_model_meets_spec - so an oracle failure always
   comes with a model difference; 3 is what a real violation yields). *)
Definition check_case (c : case) : Z :=
  match c with
  | CScript t0 items =>
      if negb (oracle cnext (map obs_of items))
      then (if replay (init t0) items then 2 else 3)
      else if negb (replay (init t0) items) then 1 else 0
  end.

Definition run_cases (cs : list (Z * case)) : list (Z * Z) := failures check_case cs.

(* The concrete schedules meet the one hypothesis of the theorems (Schedule.Next: "the next
   activation time, later than the given time"). *)
Lemma cnext_later : forall s t u, cnext s t = Some u -> t < u.
Proof.
  intros [d|l|off p ph] t u; cbn [cnext].
  - intro H; inversion H; subst; clear H.
    unfold every_delay, sec.
    destruct (d <? 1000000000) eqn:E.
    + pose proof (Z.mod_pos_bound t 1000000000 ltac:(lia)).
      change (1000000000 mod 1000000000) with 0. lia.
    + apply Z.ltb_ge in E.
      pose proof (Z.mod_pos_bound t 1000000000 ltac:(lia)).
      pose proof (Z.mod_pos_bound d 1000000000 ltac:(lia)).
      pose proof (Z.div_mod d 1000000000 ltac:(lia)).
      assert (1 <= d / 1000000000) by (apply Z.div_le_lower_bound; lia).
      nia.
  - intro H. apply find_some in H as [_ H]. apply Z.ltb_lt in H. exact H.
  - intro H; inversion H; subst; clear H.
    assert (Hp : 0 < (if p <=? 0 then sec else p)).
    { destruct (p <=? 0) eqn:E; [unfold sec; lia|apply Z.leb_gt in E; exact E]. }
    pose proof (Z.mod_pos_bound (t + off - ph) _ Hp). lia.
Qed.

(* a small script: two entries, exact activation instant, a jump over several, remove, stop *)
Example check_demo :
  check_case (CScript 500
    [ (ScheduleIdle (Every 2000000000), OId 1, [], None);
      (Start 500, OSchedule [(1, Some 2000000000)], [], Some 2000000000);
      (Added 500 (Instants [1000000000; 3000000000]), OAdded 2 (Some 1000000000), [], Some 1000000000);
      (Wake 1000000000, ORuns [(2, Some 3000000000)], [(2, 1000000000)], Some 2000000000);
      (Tick 1000000000, ONone, [], Some 2000000000);
      (Wake 7000000000, ORuns [(2, None); (1, Some 9000000000)], [(1, 7000000000); (2, 7000000000)],
         Some 9000000000);
      (Snapshot, OSnap [(1, Some 9000000000, Some 2000000000); (2, None, Some 3000000000)], [],
         Some 9000000000);
      (Removed 7000000000 1, ONone, [], None);
      (RemoveRet 1, ONone, [], None);
      (Stop, OCtx false, [], None);
      (StopRet, ONone, [], None);
      (JobRet, ONone, [], None); (JobRet, ONone, [], None); (JobRet, ONone, [], None);
      (CtxPoll, OCtxs [true], [], None) ]) = 0.
Proof. vm_compute. reflexivity. Qed.
