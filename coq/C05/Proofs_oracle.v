(* C05 — the boolean oracle of Spec.v decides the declarative specification (no hypothesis on
   the schedule is needed). *)
From Coq Require Import Permutation.
From Kit Require Import C05.Model C05.Spec.
Local Open Scope Z_scope.

Section Perm.
  Context {A : Type} (eqb : A -> A -> bool).
  Hypothesis eqb_spec : forall x y, eqb x y = true <-> x = y.

  Lemma remove1_some x l r : remove1 eqb x l = Some r -> Permutation l (x :: r).
  Proof.
    revert r. induction l as [|y l IH]; intros r H; cbn [remove1] in H; [discriminate|].
    destruct (eqb x y) eqn:E.
    - apply eqb_spec in E. subst y. inversion H; subst. apply Permutation_refl.
    - destruct (remove1 eqb x l) as [r'|] eqn:Er; [|discriminate]. inversion H; subst.
      eapply perm_trans; [apply perm_skip; apply IH; reflexivity|apply perm_swap].
  Qed.

  Lemma remove1_in x l : In x l -> exists r, remove1 eqb x l = Some r.
  Proof.
    induction l as [|y l IH]; intros Hin; [destruct Hin|]. cbn [remove1].
    destruct (eqb x y) eqn:E; [eauto|].
    destruct Hin as [->|Hin].
    - assert (Ht : eqb x x = true) by (apply eqb_spec; reflexivity). congruence.
    - destruct (IH Hin) as [r Hr]. rewrite Hr. eauto.
  Qed.

  Lemma permb_spec l l' : permb eqb l l' = true <-> Permutation l l'.
  Proof.
    revert l'. induction l as [|x l IH]; intro l'; cbn [permb].
    - destruct l' as [|y l']; split; intro H; try reflexivity; try discriminate.
      exfalso. exact (Permutation_nil_cons H).
    - split; intro H.
      + destruct (remove1 eqb x l') as [r|] eqn:Er; [|discriminate].
        apply IH in H. apply remove1_some in Er.
        eapply perm_trans; [apply perm_skip; exact H|apply Permutation_sym; exact Er].
      + assert (Hin : In x l') by (eapply Permutation_in; [exact H|left; reflexivity]).
        destruct (remove1_in _ _ Hin) as [r Er]. rewrite Er. apply IH.
        apply remove1_some in Er. apply Permutation_cons_inv with x.
        eapply perm_trans; [exact H|exact Er].
  Qed.
End Perm.

Lemma optZ_eqb_spec a b : optZ_eqb a b = true <-> a = b.
Proof.
  destruct a as [x|], b as [y|]; cbn [optZ_eqb]; split; intro H; try discriminate; try reflexivity.
  - apply Z.eqb_eq in H. congruence.
  - inversion H. apply Z.eqb_refl.
Qed.

Lemma trip_eqb_spec a b : trip_eqb a b = true <-> a = b.
Proof.
  destruct a as [[i n] p], b as [[j m] q]. unfold trip_eqb. cbn [fst snd].
  rewrite !andb_true_iff, Z.eqb_eq, !optZ_eqb_spec. split.
  - intros [[-> ->] ->]. reflexivity.
  - intro H. inversion H. auto.
Qed.

Lemma eqb_listb_spec a b : eqb_listb a b = true <-> a = b.
Proof.
  revert b. induction a as [|x a IH]; intros [|y b]; cbn [eqb_listb]; split; intro H;
    try reflexivity; try discriminate.
  - apply andb_true_iff in H as [H1 H2]. apply Bool.eqb_prop in H1. apply (proj1 (IH b)) in H2. subst. reflexivity.
  - inversion H; subst. apply andb_true_iff. split; [apply Bool.eqb_reflx|apply IH; reflexivity].
Qed.

Lemma nil_b_spec {A} (l : list A) : nil_b l = true <-> l = [].
Proof. destruct l; cbn [nil_b]; split; intro H; try reflexivity; discriminate. Qed.

Section Oracle.

Variable sched : Type.
Variable next : sched -> Z -> option Z.

Lemma fresh_b_spec id (R : rstate sched) : fresh_b id R = true <-> ~ In id (map eid (rents R)).
Proof.
  unfold fresh_b. rewrite negb_true_iff. split.
  - intros H Hin. apply in_map_iff in Hin as [e [Heq Hin]].
    assert (Ht : existsb (fun e => eid e =? id) (rents R) = true).
    { apply existsb_exists. exists e. split; [exact Hin|apply Z.eqb_eq; exact Heq]. }
    congruence.
  - intro H. destruct (existsb (fun e => eid e =? id) (rents R)) eqn:E; [|reflexivity].
    exfalso. apply H. apply existsb_exists in E as [e [Hin Heq]]. apply Z.eqb_eq in Heq.
    apply in_map_iff. eauto.
Qed.

Lemma early_spec (R : rstate sched) (jobs : list (Z * Z)) :
  forallb (fun j => existsb (fun e => (eid e =? fst j) &&
                                      match enxt e with Some a => a <=? snd j | None => false end)
                            (rents R)) jobs = true <->
  (forall i c, In (i, c) jobs ->
     exists e a, In e (rents R) /\ eid e = i /\ enxt e = Some a /\ a <= c).
Proof.
  rewrite forallb_forall. split.
  - intros H i c Hin. specialize (H _ Hin). cbn [fst snd] in H.
    apply existsb_exists in H as [e [He H]]. apply andb_true_iff in H as [H1 H2].
    apply Z.eqb_eq in H1. destruct (enxt e) as [a|] eqn:Ea; [|discriminate].
    apply Z.leb_le in H2. exists e, a. auto.
  - intros H [i c] Hin. destruct (H i c Hin) as [e [a [He [Hid [Ha Hle]]]]]. cbn [fst snd].
    apply existsb_exists. exists e. split; [exact He|]. apply andb_true_iff. rewrite Ha.
    split; [apply Z.eqb_eq; exact Hid|apply Z.leb_le; exact Hle].
Qed.

Lemma tick_spec (R : rstate sched) c :
  forallb (fun e => match enxt e with Some a => c <? a | None => true end) (rents R) = true <->
  (forall e a, In e (rents R) -> enxt e = Some a -> c < a).
Proof.
  rewrite forallb_forall. split.
  - intros H e a Hin Ha. specialize (H e Hin). rewrite Ha in H. apply Z.ltb_lt. exact H.
  - intros H e Hin. destruct (enxt e) as [a|] eqn:Ea; [|reflexivity]. apply Z.ltb_lt. eapply H; eassumption.
Qed.

Lemma gone_spec (R : rstate sched) (jobs : list (Z * Z)) :
  forallb (fun j => negb (existsb (Z.eqb (fst j)) (rgone R))) jobs = true <->
  (forall i c, In (i, c) jobs -> ~ In i (rgone R)).
Proof.
  rewrite forallb_forall. split.
  - intros H i c Hin Hg. specialize (H _ Hin). cbn [fst] in H. apply negb_true_iff in H.
    assert (Ht : existsb (Z.eqb i) (rgone R) = true).
    { apply existsb_exists. exists i. split; [exact Hg|apply Z.eqb_refl]. }
    congruence.
  - intros H [i c] Hin. cbn [fst]. apply negb_true_iff.
    destruct (existsb (Z.eqb i) (rgone R)) eqn:E; [|reflexivity].
    exfalso. apply existsb_exists in E as [x [Hx Heq]]. apply Z.eqb_eq in Heq. subst x.
    exact (H i c Hin Hx).
Qed.

Lemma snap_gone_spec (R : rstate sched) (l : list (Z * option Z * option Z)) :
  forallb (fun x => negb (existsb (Z.eqb (fst (fst x))) (rgone R))) l = true <->
  (forall i n p, In (i, n, p) l -> ~ In i (rgone R)).
Proof.
  rewrite forallb_forall. split.
  - intros H i n p Hin Hg. specialize (H _ Hin). cbn [fst] in H. apply negb_true_iff in H.
    assert (Ht : existsb (Z.eqb i) (rgone R) = true).
    { apply existsb_exists. exists i. split; [exact Hg|apply Z.eqb_refl]. }
    congruence.
  - intros H [[i n] p] Hin. cbn [fst]. apply negb_true_iff.
    destruct (existsb (Z.eqb i) (rgone R)) eqn:E; [|reflexivity].
    exfalso. apply existsb_exists in E as [x [Hx Heq]]. apply Z.eqb_eq in Heq. subst x.
    exact (H i n p Hin Hx).
Qed.

Ltac bad_out :=
  let H := fresh "H" in
  split; [intros [_ H]; discriminate H
         |intros [_ H];
          repeat match type of H with
                 | ex _ => let x := fresh in destruct H as [x H]
                 | _ /\ _ => let y := fresh in destruct H as [H y]
                 end; discriminate H].

Lemma oracle_obs_spec (R : rstate sched) (o : obs sched) : oracle_obs R o = true <-> spec_obs R o.
Proof.
  destruct o as [[ev out] jobs].
  destruct ev; cbn [oracle_obs spec_obs]; try apply nil_b_spec.
  - (* Wake *)
    rewrite !andb_true_iff, (permb_spec Z.eqb Z.eqb_eq), early_spec, gone_spec.
    destruct (rhalt R); cbn [negb orb].
    + rewrite nil_b_spec. split.
      * intros [[[H1 H2] H3] H4]. auto.
      * intros [H1 [H2 [H3 H4]]]. auto.
    + split.
      * intros [[[H1 H2] H3] _]. split; [exact H1|]. split; [exact H2|]. split; [exact H3|discriminate].
      * intros [H1 [H2 [H3 _]]]. auto.
  - (* Added *)
    rewrite andb_true_iff, nil_b_spec. destruct out; try bad_out.
    rewrite fresh_b_spec. split.
    + intros [-> H]. split; [reflexivity|]. eauto.
    + intros [-> [id' [nx' [Heq H]]]]. inversion Heq; subst. auto.
  - (* Snapshot *)
    rewrite andb_true_iff, nil_b_spec. destruct out; try bad_out.
    rewrite andb_true_iff, (permb_spec trip_eqb trip_eqb_spec), snap_gone_spec. split.
    + intros [-> [H1 H2]]. split; [reflexivity|]. split; [eauto|].
      intros l' i n p Heq. inversion Heq; subst. apply H2.
    + intros [-> [[l' [Heq H1]] H2]]. inversion Heq; subst. split; [reflexivity|].
      split; [exact H1|]. intros i n p. apply (H2 l' i n p eq_refl).
  - (* Stop *)
    rewrite andb_true_iff, nil_b_spec. destruct out; try bad_out.
    rewrite Bool.eqb_true_iff. split.
    + intros [-> ->]. auto.
    + intros [-> Heq]. inversion Heq. auto.
  - (* ScheduleIdle *)
    rewrite andb_true_iff, nil_b_spec. destruct out; try bad_out.
    rewrite fresh_b_spec. split.
    + intros [-> H]. split; [reflexivity|]. eauto.
    + intros [-> [id' [Heq H]]]. inversion Heq; subst. auto.
  - (* EntriesIdle *)
    rewrite andb_true_iff, nil_b_spec. destruct out; try bad_out.
    rewrite andb_true_iff, (permb_spec trip_eqb trip_eqb_spec), snap_gone_spec. split.
    + intros [-> [H1 H2]]. split; [reflexivity|]. split; [eauto|].
      intros l' i n p Heq. inversion Heq; subst. apply H2.
    + intros [-> [[l' [Heq H1]] H2]]. inversion Heq; subst. split; [reflexivity|].
      split; [exact H1|]. intros i n p. apply (H2 l' i n p eq_refl).
  - (* StopIdle *)
    rewrite andb_true_iff, nil_b_spec. destruct out; try bad_out.
    rewrite Bool.eqb_true_iff. split.
    + intros [-> ->]. auto.
    + intros [-> Heq]. inversion Heq. auto.
  - (* CtxPoll *)
    rewrite andb_true_iff, nil_b_spec. destruct out; try bad_out.
    rewrite eqb_listb_spec. split.
    + intros [-> ->]. auto.
    + intros [-> Heq]. inversion Heq. auto.
  - (* Tick *)
    rewrite andb_true_iff, nil_b_spec. destruct (rrun R), (rlate R); cbn [negb orb].
    + split; intros [-> H]; (split; [reflexivity|]); [discriminate|reflexivity].
    + rewrite tick_spec. split; intros [-> H]; (split; [reflexivity|]).
      * intros _ _. exact H.
      * apply H; reflexivity.
    + split; intros [-> H]; (split; [reflexivity|]); [discriminate|reflexivity].
    + split; intros [-> H]; (split; [reflexivity|]); [discriminate|reflexivity].
Qed.

Lemma oracle_from_spec (tr : list (obs sched)) : forall R,
  oracle_from next R tr = true <-> spec_from next R tr.
Proof.
  induction tr as [|o tr IH]; intro R; cbn [oracle_from spec_from]; [tauto|].
  rewrite andb_true_iff, oracle_obs_spec, IH. reflexivity.
Qed.

Theorem oracle_sound : forall tr : list (obs sched), oracle next tr = true <-> spec_ok next tr.
Proof. intro tr. apply oracle_from_spec. Qed.

End Oracle.
