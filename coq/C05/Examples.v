(* C05 — non-vacuity: the hypotheses of the theorems ([next_later] for the schedules, [wf] for a
   history, the decompositions h1 ++ ev :: h2 used by the Remove / Stop / restart theorems) are
   satisfiable on a concrete history over the harness's schedules (C05/Check.v): two entries
   (a constant-delay one added while idle, an explicit-instants one added while running), a wake-up
   exactly at an activation instant, a clock reading with the loop parked, a wake-up that jumped
   over several activations, a snapshot, a Remove, a Stop with jobs outstanding, job returns, a
   context poll, a restart and a wake-up after it. *)
From Kit Require Import C05.Model C05.Spec C05.Defs C05.Check.
Local Open Scope Z_scope.

Definition demo_h1 : list (event csched) :=
  [ ScheduleIdle (Every 2000000000); Start 500;
    Added 500 (Instants [1000000000; 3000000000]);
    Wake 1000000000; Tick 1000000000; Wake 7000000000; Snapshot ].

Definition demo_h2 : list (event csched) :=
  [ StopRet; JobRet; JobRet; JobRet; CtxPoll; Start 20000000000; Wake 22000000000 ].

Definition demo_h : list (event csched) :=
  demo_h1 ++ Removed 7000000000 2 :: RemoveRet 2 :: Stop :: demo_h2.

Example demo_wf :
  wf cnext (init 500) demo_h = true /\
  exists s, run cnext (init 500) demo_h = Some s /\
            starts s = [(2, 1000000000, 1000000000); (1, 2000000000, 7000000000);
                        (2, 3000000000, 7000000000); (1, 22000000000, 22000000000)] /\
            ctxs s = [true] /\ outstanding s = 1.
Proof. vm_compute. split; [reflexivity|]. eexists. split; [reflexivity|]. auto. Qed.

(* the id removed in [demo_h] had been handed out (hypothesis of remove_clean) *)
Example demo_remove_hyp :
  exists s1, run cnext (init 500) demo_h1 = Some s1 /\ 2 <= nextID s1.
Proof. vm_compute. eexists. split; [reflexivity|]. discriminate. Qed.

(* the second entry was born by the [Added] event (hypothesis of independent) *)
Example demo_birth :
  exists s1, run cnext (init 500) [ScheduleIdle (Every 2000000000); Start 500] = Some s1 /\
             birth cnext s1 (Added 500 (Instants [1000000000; 3000000000])) =
               Some (2, Instants [1000000000; 3000000000], (Some 1000000000, None)).
Proof. vm_compute. eexists. split; reflexivity. Qed.

(* the observable trace of the demo history passes the oracle *)
Example demo_oracle : oracle cnext (trace cnext (init 500) demo_h) = true.
Proof. vm_compute. reflexivity. Qed.
