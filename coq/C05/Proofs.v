(* C05 — proofs about the scheduler model (C05/Model.v) against the specification (C05/Spec.v).
   Everything is inside one Section over an ABSTRACT schedule [next] with the single hypothesis
   the Schedule interface documents ("Next returns the next activation time, later than the
   given time"); after the Section closes it is an explicit premise of every theorem. *)
From Coq Require Import Permutation Sorting.Sorted.
From Kit Require Import C05.Model C05.Spec.
Local Open Scope Z_scope.

Section Proofs.

Variable sched : Type.
Variable next : sched -> Z -> option Z.
Hypothesis next_later : forall s t u, next s t = Some u -> t < u.

Notation entry := (entry sched).
Notation event := (event sched).
Notation state := (state sched).
Notation step := (step next).
Notation run := (run next).
Notation wf := (wf next).
Notation trace := (trace next).

(* ghost-list helpers used in the statements *)
Definition sid (x : Z * Z * Z) : Z := fst (fst x).
Definition sact (x : Z * Z * Z) : Z := snd (fst x).
Definition swake (x : Z * Z * Z) : Z := snd x.
Definition of_id (i : Z) (l : list (Z * Z * Z)) : list (Z * Z * Z) := filter (fun x => sid x =? i) l.
Definition acts_of (i : Z) (l : list (Z * Z * Z)) : list Z := map sact (of_id i l).
Definition last_opt (l : list Z) : option Z :=
  match rev l with [] => None | x :: _ => Some x end.

(* an event that creates an entry: its id, schedule and initial (Next, Prev) *)
Definition birth (s : state) (ev : event) : option (Z * sched * (option Z * option Z)) :=
  match ev with
  | Added t sc => Some (nextID s + 1, sc, (next sc t, None))
  | ScheduleIdle sc => Some (nextID s + 1, sc, (None, None))
  | _ => None
  end.

(* the job starts of one entry as a fold over wake-up / start instants alone *)
Fixpoint tstarts (sc : sched) (st : option Z * option Z) (h : list event) : list (Z * Z) :=
  match h with
  | [] => []
  | ev :: h' =>
      (match ev, fst st with
       | Wake w, Some a => if a <=? w then [(a, w)] else []
       | _, _ => []
       end) ++ tstarts sc (efire next sc st ev) h'
  end.

Definition is_start (ev : event) : bool := match ev with Start _ => true | _ => false end.
Definition is_jobret (ev : event) : bool := match ev with JobRet => true | _ => false end.

(* STATEMENTS — see Properties/C05.v for the plain-words reading of each. *)

(* [wf] histories run to the end *)
Lemma wf_run : forall h s, wf s h = true -> exists s', run s h = Some s'.
Admitted.

(* --- never early ------------------------------------------------------------------------ *)
Theorem never_early : forall t0 h s, wf (init t0) h = true -> run (init t0) h = Some s ->
  forall i a w, In (i, a, w) (starts s) -> a <= w.
Admitted.

(* --- no duplicate: per entry the activations started are strictly increasing -------------- *)
Theorem no_duplicate : forall t0 h s, wf (init t0) h = true -> run (init t0) h = Some s ->
  forall i, StronglySorted Z.lt (acts_of i (starts s)).
Admitted.

(* --- once per wake ---------------------------------------------------------------------- *)
Theorem once_per_wake : forall t0 h w s s',
  wf (init t0) (h ++ [Wake w]) = true ->
  run (init t0) h = Some s -> run (init t0) (h ++ [Wake w]) = Some s' ->
  exists new, starts s' = starts s ++ new /\
    (forall e, In e (entries s) ->
       match enxt e with
       | Some a =>
           if a <=? w
           then of_id (eid e) new = [(eid e, a, w)] /\
                In (mkE (eid e) (esch e) (next (esch e) w) (Some a)) (entries s')
           else of_id (eid e) new = [] /\ In e (entries s')
       | None => of_id (eid e) new = [] /\ In e (entries s')
       end) /\
    (forall i a w', In (i, a, w') new ->
       w' = w /\ exists e, In e (entries s) /\ eid e = i /\ enxt e = Some a /\ a <= w).
Admitted.

(* --- none skipped ----------------------------------------------------------------------- *)
Theorem none_skipped_wake : forall t0 h w s',
  wf (init t0) (h ++ [Wake w]) = true -> run (init t0) (h ++ [Wake w]) = Some s' ->
  forall e n, In e (entries s') -> enxt e = Some n -> w < n.
Admitted.

Theorem none_skipped_tick : forall t0 h c s,
  wf (init t0) (h ++ [Tick c]) = true -> run (init t0) h = Some s -> running s = true ->
  forall e n, In e (entries s) -> enxt e = Some n -> c < n.
Admitted.

(* --- the armed timer is the minimum ------------------------------------------------------- *)
Theorem timer_is_min : forall t0 h s, wf (init t0) h = true -> run (init t0) h = Some s ->
  if running s
  then (forall e n, In e (entries s) -> enxt e = Some n -> exists T, timer s = Some T /\ T <= n) /\
       (forall T, timer s = Some T -> exists e, In e (entries s) /\ enxt e = Some T)
  else timer s = None.
Admitted.

(* --- independence ----------------------------------------------------------------------- *)
Theorem independent : forall t0 h1 ev h2 s1 s2 id sc st0,
  wf (init t0) (h1 ++ ev :: h2) = true ->
  run (init t0) h1 = Some s1 -> run (init t0) (h1 ++ ev :: h2) = Some s2 ->
  birth s1 ev = Some (id, sc, st0) ->
  forall e, In e (entries s2) -> eid e = id ->
    esch e = sc /\ (enxt e, eprv e) = track next sc st0 h2 /\
    of_id id (starts s2) = map (fun aw => (id, fst aw, snd aw)) (tstarts sc st0 h2).
Admitted.

(* --- Remove / Stop are clean -------------------------------------------------------------- *)
Theorem remove_clean : forall t0 h1 ev h2 s1 s2 id,
  wf (init t0) (h1 ++ ev :: h2) = true ->
  (ev = RemoveIdle id \/ exists t, ev = Removed t id) ->
  run (init t0) h1 = Some s1 -> run (init t0) (h1 ++ ev :: h2) = Some s2 ->
  exists new, starts s2 = starts s1 ++ new /\ of_id id new = [] /\
              forall e, In e (entries s2) -> eid e <> id.
Admitted.

Theorem stop_clean : forall t0 h1 h2 s1 s2,
  wf (init t0) (h1 ++ Stop :: h2) = true ->
  existsb is_start h2 = false ->
  run (init t0) h1 = Some s1 -> run (init t0) (h1 ++ Stop :: h2) = Some s2 ->
  starts s2 = starts s1.
Admitted.

(* --- Entries is exact --------------------------------------------------------------------- *)
Theorem entries_exact : forall t0 h ev s s' o,
  wf (init t0) h = true -> run (init t0) h = Some s ->
  (ev = Snapshot \/ ev = EntriesIdle) -> step s ev = Some (s', o) ->
  s' = s /\ exists l, o = OSnap l /\ NoDup (map (fun x => fst (fst x)) l) /\
    (forall i n p, In (i, n, p) l <->
                   exists e, In e (entries s) /\ eid e = i /\ enxt e = n /\ eprv e = p) /\
    (forall i n p, In (i, n, p) l -> p = last_opt (acts_of i (starts s))).
Admitted.

(* --- the context returned by Stop --------------------------------------------------------- *)
Theorem stop_ctx_counter : forall t0 h s, wf (init t0) h = true -> run (init t0) h = Some s ->
  outstanding s = Z.of_nat (length (starts s)) - Z.of_nat (length (filter is_jobret h)) /\
  0 <= outstanding s.
Admitted.

Theorem stop_ctx : forall t0 h1 ev h2 s1 s2,
  wf (init t0) (h1 ++ ev :: h2) = true -> (ev = Stop \/ ev = StopIdle) ->
  run (init t0) h1 = Some s1 -> run (init t0) (h1 ++ ev :: h2) = Some s2 ->
  (nth (length (ctxs s1)) (ctxs s2) false = true <->
   exists h2a h2b sa, h2 = h2a ++ h2b /\ run (init t0) (h1 ++ ev :: h2a) = Some sa /\
                      outstanding sa = 0).
Admitted.

(* --- restart ------------------------------------------------------------------------------ *)
Theorem restart_recomputes : forall t0 h t s s',
  wf (init t0) (h ++ [Start t]) = true ->
  run (init t0) h = Some s -> run (init t0) (h ++ [Start t]) = Some s' ->
  (forall e, In e (entries s) -> In (mkE (eid e) (esch e) (next (esch e) t) (eprv e)) (entries s')) /\
  (forall e', In e' (entries s') ->
     exists e, In e (entries s) /\ e' = mkE (eid e) (esch e) (next (esch e) t) (eprv e)) /\
  (forall e' n, In e' (entries s') -> enxt e' = Some n -> t < n).
Admitted.

Theorem restart_skips : forall t0 h1 t h2 s1 s2,
  wf (init t0) (h1 ++ Start t :: h2) = true ->
  run (init t0) h1 = Some s1 -> run (init t0) (h1 ++ Start t :: h2) = Some s2 ->
  exists new, starts s2 = starts s1 ++ new /\ forall i a w, In (i, a, w) new -> t < a.
Admitted.

(* --- the model meets the specification ----------------------------------------------------- *)
Theorem model_meets_spec : forall t0 h, wf (init t0) h = true ->
  spec_ok next (trace (init t0) h).
Admitted.

(* --- the boolean oracle decides the specification ------------------------------------------ *)
Theorem oracle_sound : forall tr, oracle next tr = true <-> spec_ok next tr.
Admitted.

End Proofs.
