(* C05 — proofs about the scheduler model (C05/Model.v): never early, no duplicate, once per
   wake-up, none skipped, timer = minimum, clean Remove / Stop, exact Entries, Stop's context,
   restart.  Everything is inside one Section over an ABSTRACT schedule [next] with the single
   hypothesis the Schedule interface documents ("Next returns the next activation time, later
   than the given time"); after the Section closes it is an explicit premise of every theorem.
   (The oracle's soundness is in Proofs_oracle.v.) *)
From Coq Require Import Permutation Sorting.Sorted.
From Kit Require Import C05.Model C05.Spec C05.Defs C05.ProofsBase.
Local Open Scope Z_scope.

Section Proofs.

Variable sched : Type.
Variable next : sched -> Z -> option Z.
Hypothesis next_later : forall s t u, next s t = Some u -> t < u.

Notation entry := (entry sched).
Notation event := (event sched).
Notation state := (state sched).
Notation step := (step next).
Notation run := (run next).
Notation wf := (wf next).
Notation inv1 := (inv1 sched).
Notation step_shape := (step_shape sched next).

(* ---------------------------------------------------------------------------------------- *)
(* inversion of shapes for specific events *)

Lemma shape_wake (s s' : state) w : step_shape s s' (Wake w) ->
  running s = true /\ running s' = true /\
  entries s' = sort_entries (map (fire next w) (entries s)) /\
  starts s' = starts s ++ map (srec sched w) (filter (due_at w) (entries s)) /\
  nextID s' = nextID s /\ clk s' = Z.max (clk s) w.
Proof.
  inversion 1 as [| | | |? Hd| | | | | |? ? Hd]; subst; [auto 10| |].
  - destruct Hd as [Hd|[Hd|[Hd|[Hd|[[? Hd]|Hd]]]]]; discriminate Hd.
  - destruct Hd as [Hd|Hd]; discriminate Hd.
Qed.

Lemma shape_start (s s' : state) t : step_shape s s' (Start t) ->
  running s = false /\ running s' = true /\
  entries s' = sort_entries (map (restart next t) (entries s)) /\
  starts s' = starts s /\ nextID s' = nextID s /\ clk s' = t.
Proof.
  inversion 1 as [| | | |? Hd| | | | | |? ? Hd]; subst; [auto 10| |].
  - destruct Hd as [Hd|[Hd|[Hd|[Hd|[[? Hd]|Hd]]]]]; discriminate Hd.
  - destruct Hd as [Hd|Hd]; discriminate Hd.
Qed.

Lemma split3 h1 ev h2 (s0 s1 s2 : state) :
  wf s0 (h1 ++ ev :: h2) = true -> run s0 h1 = Some s1 -> run s0 (h1 ++ ev :: h2) = Some s2 ->
  wf s0 h1 = true /\
  exists sE o, env_ok s1 ev = true /\ step s1 ev = Some (sE, o) /\ wf sE h2 = true /\ run sE h2 = Some s2.
Proof.
  intros Hw Hr1 Hr2. destruct (wf_app _ next _ _ _ _ Hw Hr1) as [Hw1 Hw2].
  split; [exact Hw1|].
  rewrite run_app, Hr1 in Hr2. cbn [Model.wf Model.run] in Hw2, Hr2.
  apply andb_true_iff in Hw2 as [He Hw2].
  destruct (step s1 ev) as [[sE o]|]; [|discriminate]. exists sE, o. auto.
Qed.

Lemma nodup_eid_inj (l : list entry) e e' : NoDup (map eid l) -> In e l -> In e' l -> eid e = eid e' -> e = e'.
Proof.
  induction l as [|z l IH]; intros Hnd Hin Hin' Heq; [destruct Hin|].
  cbn [map] in Hnd. inversion Hnd as [|? ? Hz Hnd']; subst.
  destruct Hin as [-> |Hin], Hin' as [-> |Hin'].
  - reflexivity.
  - exfalso. apply Hz. rewrite Heq. apply in_map. exact Hin'.
  - exfalso. apply Hz. rewrite <- Heq. apply in_map. exact Hin.
  - apply IH; assumption.
Qed.

(* ---------------------------------------------------------------------------------------- *)
(* second invariant: activations, wake-ups and the clock *)

Record inv2 (s : state) : Prop := {
  i2_times : forall x, In x (starts s) -> sact x <= swake x /\ swake x <= clk s;
  i2_gap : forall e x n, In e (entries s) -> In x (starts s) -> sid x = eid e ->
                         enxt e = Some n -> sact x < n;
  i2_sorted : forall i, StronglySorted Z.lt (acts_of i (starts s));
  i2_prev : forall e, In e (entries s) -> eprv e = last_opt (acts_of (eid e) (starts s))
}.

Lemma inv2_weaken (s s' : state) : inv2 s -> starts s' = starts s -> clk s <= clk s' ->
  (forall e, In e (entries s') -> In e (entries s)) -> inv2 s'.
Proof.
  intros [Ht Hg Hs Hp] Hst Hc Hsub. constructor; rewrite ?Hst.
  - intros x Hx. specialize (Ht x Hx). lia.
  - intros e x n He. apply Hg. apply Hsub. exact He.
  - exact Hs.
  - intros e He. apply Hp. apply Hsub. exact He.
Qed.

Lemma acts_none i (l : list (Z * Z * Z)) : (forall x, In x l -> sid x <= i - 1) -> acts_of i l = [].
Proof.
  intro H. unfold acts_of. replace (of_id i l) with (@nil (Z * Z * Z)); [reflexivity|].
  symmetry. apply of_id_nil_iff. intros x Hx. specialize (H x Hx). lia.
Qed.

(* a fresh entry (id = nextID + 1, Prev = zero) keeps the invariant *)
Lemma inv2_fresh (s s' : state) sc nx : inv1 s -> inv2 s -> starts s' = starts s -> clk s <= clk s' ->
  (forall e, In e (entries s') -> In e (entries s) \/ e = mkE (nextID s + 1) sc nx None) -> inv2 s'.
Proof.
  intros Hi [Ht Hg Hs Hp] Hst Hc Hsub. constructor; rewrite ?Hst.
  - intros x Hx. specialize (Ht x Hx). lia.
  - intros e x n He Hx Hid. destruct (Hsub e He) as [He'| ->]; [apply Hg; assumption|].
    cbn [eid] in Hid. pose proof (i1_sids _ _ Hi x Hx). lia.
  - exact Hs.
  - intros e He. destruct (Hsub e He) as [He'| ->]; [apply Hp; exact He'|].
    cbn [eid eprv]. rewrite acts_none; [reflexivity|].
    intros x Hx. pose proof (i1_sids _ _ Hi x Hx). lia.
Qed.

Lemma inv2_step (s s' : state) ev o : inv1 s -> inv2 s -> env_ok s ev = true ->
  step s ev = Some (s', o) -> inv2 s'.
Proof.
  intros Hi H2 Henv Hs. pose proof (shape _ next _ _ _ _ Hi Hs) as Hsh.
  destruct Hsh as [t Hr Hr' He Hst Hid Hc Ho Hcx
                  |w Hr Hr' He Hst Hid Hc Ho Hcx
                  |t sc Hr Hr' He Hst Hid Hc Ho Hcx
                  |t id Hr Hr' He Hst Hid Hc Ho Hcx
                  |ev _ ->
                  |Hr Hr' Ht He Hst Hid Hc Ho Hcx
                  |sc Hr Hr' Ht He Hst Hid Hc Ho Hcx
                  |id Hr Hr' Ht He Hst Hid Hc Ho Hcx
                  |Hr Hr' Ht He Hst Hid Hc Ho Hcx
                  |Hpos Hr' Ht He Hst Hid Hc Ho Hcx
                  |ev0 c Hev Hr' Ht He Hst Hid Hc Ho Hcx]; cbn [env_ok] in Henv.
  - (* Start *)
    apply Z.leb_le in Henv. destruct H2 as [Ht Hg Hso Hp].
    constructor; rewrite ?Hst, ?He, ?Hc.
    + intros x Hx. specialize (Ht x Hx). lia.
    + intros e x n Hin Hx Hsid Hn. apply -> sort_in in Hin.
      apply in_map_iff in Hin as [e0 [<- Hin]]. cbn [restart enxt] in Hn.
      apply next_later in Hn. specialize (Ht x Hx). lia.
    + exact Hso.
    + intros e Hin. apply -> sort_in in Hin. apply in_map_iff in Hin as [e0 [<- Hin]].
      cbn [restart eprv eid]. apply Hp. exact Hin.
  - (* Wake *)
    clear Henv.
    destruct H2 as [Ht Hg Hso Hp]. pose proof (i1_nodup _ _ Hi) as Hnd.
    constructor; rewrite ?Hst, ?He, ?Hc.
    + intros x Hx. apply in_app_or in Hx as [Hx|Hx].
      * specialize (Ht x Hx). lia.
      * apply in_map_iff in Hx as [e [<- Hin]]. apply filter_In in Hin as [_ Hd].
        destruct (due_fire _ next _ _ Hd) as [_ [_ Hle]]. cbn. lia.
    + intros e' x n Hin Hx Hsid Hn. apply -> sort_in in Hin.
      apply in_map_iff in Hin as [e0 [<- Hin]]. rewrite fire_eid in Hsid.
      destruct (due_at w e0) eqn:Hd.
      * destruct (due_fire _ next _ _ Hd) as [Hf [Hn0 Hle]]. rewrite Hf in Hn. cbn [enxt] in Hn.
        apply next_later in Hn.
        apply in_app_or in Hx as [Hx|Hx].
        -- pose proof (Hg e0 x _ Hin Hx Hsid Hn0). lia.
        -- apply in_map_iff in Hx as [e [<- Hin']]. apply filter_In in Hin' as [_ Hd'].
           destruct (due_fire _ next _ _ Hd') as [_ [_ Hle']]. cbn. lia.
      * rewrite (not_due_fire _ next _ _ Hd) in Hn.
        apply in_app_or in Hx as [Hx|Hx]; [eapply Hg; eassumption|].
        apply in_map_iff in Hx as [e [<- Hin']]. apply filter_In in Hin' as [Hin' Hd'].
        cbn in Hsid. rewrite (nodup_eid_inj _ _ _ Hnd Hin' Hin Hsid) in Hd'. congruence.
    + intro i. rewrite acts_of_app.
      destruct (in_dec Z.eq_dec i (map eid (entries s))) as [Hin|Hnin].
      * apply in_map_iff in Hin as [e [<- Hin]].
        unfold acts_of at 2. rewrite (of_id_new_in _ _ _ _ Hnd Hin).
        destruct (due_at w e) eqn:Hd; cbn [map]; [|rewrite app_nil_r; apply Hso].
        apply sorted_snoc; [apply Hso|].
        apply Forall_forall. intros y Hy. unfold acts_of in Hy.
        apply in_map_iff in Hy as [x [<- Hx]]. unfold of_id in Hx.
        apply filter_In in Hx as [Hx Hsid]. apply Z.eqb_eq in Hsid.
        destruct (due_fire _ next _ _ Hd) as [_ [Hn _]]. cbn. eapply Hg; eassumption.
      * unfold acts_of at 2. rewrite (of_id_new_notin _ _ _ _ Hnin). cbn [map].
        rewrite app_nil_r. apply Hso.
    + intros e' Hin. apply -> sort_in in Hin. apply in_map_iff in Hin as [e0 [<- Hin]].
      rewrite fire_eid, acts_of_app. unfold acts_of at 2. rewrite (of_id_new_in _ _ _ _ Hnd Hin).
      destruct (due_at w e0) eqn:Hd.
      * destruct (due_fire _ next _ _ Hd) as [Hf _]. rewrite Hf. cbn [eprv map].
        rewrite last_opt_snoc. reflexivity.
      * rewrite (not_due_fire _ next _ _ Hd). cbn [map]. rewrite app_nil_r. apply Hp. exact Hin.
  - (* Added *)
    apply Z.leb_le in Henv. eapply (inv2_fresh s s' sc (next sc t)); try eassumption; [lia|].
    intros e Hin. rewrite He in Hin. apply -> sort_in in Hin.
    apply in_app_or in Hin as [Hin|[<-|[]]]; auto.
  - (* Removed *)
    apply Z.leb_le in Henv. apply (inv2_weaken s); [assumption|assumption|lia|].
    intros e Hin. rewrite He in Hin. apply -> sort_in in Hin. apply filter_In in Hin as [Hin _]. exact Hin.
  - exact H2.
  - apply (inv2_weaken s); [assumption|assumption|lia|]. rewrite He. auto.
  - (* ScheduleIdle *)
    eapply (inv2_fresh s s' sc None); try eassumption; [lia|].
    intros e Hin. rewrite He in Hin. apply in_app_or in Hin as [Hin|[<-|[]]]; auto.
  - apply (inv2_weaken s); [assumption|assumption|lia|].
    intros e Hin. rewrite He in Hin. apply filter_In in Hin as [Hin _]. exact Hin.
  - apply (inv2_weaken s); [assumption|assumption|lia|]. rewrite He. auto.
  - apply (inv2_weaken s); [assumption|assumption|lia|]. rewrite He. auto.
  - assert (Hle : clk s <= c).
    { destruct Hev as [-> | ->]; cbn [env_ok] in Henv; apply andb_true_iff in Henv as [Henv _];
        apply Z.leb_le in Henv; exact Henv. }
    apply (inv2_weaken s); [assumption|assumption|lia|]. rewrite He. auto.
Qed.

(* third invariant: the outstanding-jobs counter and the contexts *)
Definition inv3 (s : state) : Prop :=
  0 <= outstanding s /\ (outstanding s = 0 -> Forall (fun b => b = true) (ctxs s)).

Lemma all_true_map (l : list bool) : Forall (fun b => b = true) (map (fun _ => true) l).
Proof. induction l; cbn [map]; constructor; auto. Qed.

Lemma inv3_step (s s' : state) ev o : inv1 s -> inv3 s -> step s ev = Some (s', o) -> inv3 s'.
Proof.
  intros Hi [H0 Hc0] Hs. pose proof (shape _ next _ _ _ _ Hi Hs) as Hsh. unfold inv3.
  destruct Hsh as [t Hr Hr' He Hst Hid Hc Ho Hcx
                  |w Hr Hr' He Hst Hid Hc Ho Hcx
                  |t sc Hr Hr' He Hst Hid Hc Ho Hcx
                  |t id Hr Hr' He Hst Hid Hc Ho Hcx
                  |ev _ ->
                  |Hr Hr' Ht He Hst Hid Hc Ho Hcx
                  |sc Hr Hr' Ht He Hst Hid Hc Ho Hcx
                  |id Hr Hr' Ht He Hst Hid Hc Ho Hcx
                  |Hr Hr' Ht He Hst Hid Hc Ho Hcx
                  |Hpos Hr' Ht He Hst Hid Hc Ho Hcx
                  |ev0 c Hev Hr' Ht He Hst Hid Hc Ho Hcx]; rewrite ?Ho, ?Hcx; auto.
  - split; [lia|]. intro Hz. apply Hc0. lia.
  - split; [exact H0|]. intro Hz. apply Forall_app. split; [auto|].
    constructor; [apply Z.eqb_eq; exact Hz|constructor].
  - split; [exact H0|]. intro Hz. apply Forall_app. split; [auto|].
    constructor; [apply Z.eqb_eq; exact Hz|constructor].
  - split; [lia|]. intro Hz. rewrite Hz. cbn. apply all_true_map.
Qed.

Lemma inv2_init t0 : inv2 (init t0).
Proof.
  constructor; cbn [init entries starts clk].
  - intros x [].
  - intros e x n [].
  - intro i. constructor.
  - intros e [].
Qed.

Definition inv (s : state) : Prop := inv1 s /\ inv2 s /\ inv3 s.

Lemma inv_step (s s' : state) ev o : inv s -> env_ok s ev = true -> step s ev = Some (s', o) -> inv s'.
Proof.
  intros [H1 [H2 H3]] He Hs. split; [|split].
  - eapply inv1_step; eassumption.
  - eapply inv2_step; eassumption.
  - eapply inv3_step; eassumption.
Qed.

Lemma inv_run h (s s' : state) : inv s -> wf s h = true -> run s h = Some s' -> inv s'.
Proof. apply (run_ind _ next inv). intros; eapply inv_step; eassumption. Qed.

Lemma inv_init t0 : inv (init t0).
Proof.
  split; [apply inv1_init|split; [apply inv2_init|]].
  split; cbn [init outstanding ctxs]; [lia|constructor].
Qed.

Lemma reach t0 h (s : state) : wf (init t0) h = true -> run (init t0) h = Some s -> inv s.
Proof. apply inv_run. apply inv_init. Qed.

(* ---------------------------------------------------------------------------------------- *)
(* THEOREMS — see Properties/C05.v for the plain-words reading of each. *)

(* --- never early ------------------------------------------------------------------------ *)
Theorem never_early : forall t0 h s, wf (init t0) h = true -> run (init t0) h = Some s ->
  forall i a w, In (i, a, w) (starts s) -> a <= w.
Proof.
  intros t0 h s Hw Hr i a w Hin. destruct (reach _ _ _ Hw Hr) as [_ [H2 _]].
  apply (i2_times _ H2 _ Hin).
Qed.

(* --- no duplicate: per entry the activations started are strictly increasing -------------- *)
Theorem no_duplicate : forall t0 h s, wf (init t0) h = true -> run (init t0) h = Some s ->
  forall i, StronglySorted Z.lt (acts_of i (starts s)).
Proof.
  intros t0 h s Hw Hr i. destruct (reach _ _ _ Hw Hr) as [_ [H2 _]]. apply (i2_sorted _ H2).
Qed.

(* --- once per wake ---------------------------------------------------------------------- *)
Theorem once_per_wake : forall t0 h w s s',
  wf (init t0) (h ++ [Wake w]) = true ->
  run (init t0) h = Some s -> run (init t0) (h ++ [Wake w]) = Some s' ->
  exists new, starts s' = starts s ++ new /\
    (forall e, In e (entries s) ->
       match enxt e with
       | Some a =>
           if a <=? w
           then of_id (eid e) new = [(eid e, a, w)] /\
                In (mkE (eid e) (esch e) (next (esch e) w) (Some a)) (entries s')
           else of_id (eid e) new = [] /\ In e (entries s')
       | None => of_id (eid e) new = [] /\ In e (entries s')
       end) /\
    (forall i a w', In (i, a, w') new ->
       w' = w /\ exists e, In e (entries s) /\ eid e = i /\ enxt e = Some a /\ a <= w).
Proof.
  intros t0 h w s s' Hw Hr Hr'.
  destruct (run_snoc _ next _ _ _ _ Hw Hr') as [s1 [o [Hr1 [Hw1 [Henv Hs]]]]].
  rewrite Hr in Hr1. inversion Hr1; subst s1; clear Hr1.
  destruct (reach _ _ _ Hw1 Hr) as [H1 _].
  destruct (shape_wake _ _ _ (shape _ next _ _ _ _ H1 Hs)) as [_ [_ [He [Hst _]]]].
  exists (map (srec sched w) (filter (due_at w) (entries s))). split; [exact Hst|]. split.
  - intros e Hin. pose proof (of_id_new_in _ w _ _ (i1_nodup _ _ H1) Hin) as Hof.
    assert (Hfin : In (fire next w e) (entries s')).
    { rewrite He. apply sort_in. apply in_map. exact Hin. }
    destruct (enxt e) as [a|] eqn:Ea.
    + destruct (a <=? w) eqn:Ew.
      * assert (Hd : due_at w e = true) by (unfold due_at; rewrite Ea; exact Ew).
        rewrite Hd in Hof. destruct (due_fire _ next _ _ Hd) as [Hf _].
        rewrite Hf in Hfin. unfold srec, act in Hof. unfold act in Hfin. rewrite Ea in Hof, Hfin. auto.
      * assert (Hd : due_at w e = false) by (unfold due_at; rewrite Ea; exact Ew).
        rewrite Hd in Hof. rewrite (not_due_fire _ next _ _ Hd) in Hfin. auto.
    + assert (Hd : due_at w e = false) by (unfold due_at; rewrite Ea; reflexivity).
      rewrite Hd in Hof. rewrite (not_due_fire _ next _ _ Hd) in Hfin. auto.
  - intros i a w' Hin. apply in_map_iff in Hin as [e [Heq Hin]].
    apply filter_In in Hin as [Hin Hd]. destruct (due_fire _ next _ _ Hd) as [_ [Hn Hle]].
    unfold srec in Heq. inversion Heq; subst. split; [reflexivity|].
    exists e. auto.
Qed.

(* --- none skipped ----------------------------------------------------------------------- *)
Theorem none_skipped_wake : forall t0 h w s',
  wf (init t0) (h ++ [Wake w]) = true -> run (init t0) (h ++ [Wake w]) = Some s' ->
  forall e n, In e (entries s') -> enxt e = Some n -> w < n.
Proof.
  intros t0 h w s' Hw Hr' e n Hin Hn.
  destruct (run_snoc _ next _ _ _ _ Hw Hr') as [s [o [Hr [Hw1 [Henv Hs]]]]].
  destruct (reach _ _ _ Hw1 Hr) as [H1 _].
  destruct (shape_wake _ _ _ (shape _ next _ _ _ _ H1 Hs)) as [_ [_ [He _]]].
  rewrite He in Hin. apply -> sort_in in Hin. apply in_map_iff in Hin as [e0 [<- Hin]].
  destruct (due_at w e0) eqn:Hd.
  - destruct (due_fire _ next _ _ Hd) as [Hf _]. rewrite Hf in Hn. cbn [enxt] in Hn.
    apply next_later in Hn. exact Hn.
  - rewrite (not_due_fire _ next _ _ Hd) in Hn. unfold due_at in Hd. rewrite Hn in Hd.
    apply Z.leb_gt in Hd. exact Hd.
Qed.

(* [on_time s]: the armed timer is not later than any pending activation *)
Definition on_time (s : state) : Prop :=
  forall e n, In e (entries s) -> enxt e = Some n -> exists T, timer s = Some T /\ T <= n.

Theorem none_skipped_tick : forall t0 h c s,
  wf (init t0) (h ++ [Tick c]) = true -> run (init t0) h = Some s -> on_time s ->
  forall e n, In e (entries s) -> enxt e = Some n -> c < n.
Proof.
  intros t0 h c s Hw Hr Hon e n Hin Hn.
  destruct (wf_app _ next _ _ _ _ Hw Hr) as [Hw1 Hw2].
  cbn [Model.wf env_ok] in Hw2. apply andb_true_iff in Hw2 as [Henv _].
  apply andb_true_iff in Henv as [_ Henv].
  destruct (Hon e n Hin Hn) as [T [HT Hle]]. rewrite HT in Henv. apply Z.ltb_lt in Henv. lia.
Qed.

(* --- the armed timer ---------------------------------------------------------------------- *)
Lemma exact_on_time (s : state) : sorted _ (entries s) -> exact _ s ->
  on_time s /\ (forall T, timer s = Some T -> exists e, In e (entries s) /\ enxt e = Some T).
Proof.
  unfold exact, on_time. intros Hso Htm. split.
  - intros e n Hin Hn. rewrite Htm. eapply sorted_head; eassumption.
  - intros T HT. rewrite Htm in HT. destruct (entries s) as [|e l]; [discriminate|].
    exists e. split; [left; reflexivity|exact HT].
Qed.

(* always: a timer is armed iff something is pending, and it is not earlier than the earliest
   pending activation *)
Theorem timer_is_min : forall t0 h s, wf (init t0) h = true -> run (init t0) h = Some s ->
  if running s
  then (forall e n, In e (entries s) -> enxt e = Some n -> exists T, timer s = Some T) /\
       (forall T, timer s = Some T ->
          exists e n, In e (entries s) /\ enxt e = Some n /\ n <= T /\
                      forall e' n', In e' (entries s) -> enxt e' = Some n' -> n <= n')
  else timer s = None.
Proof.
  intros t0 h s Hw Hr. destruct (reach _ _ _ Hw Hr) as [H1 _].
  destruct (running s) eqn:Hrun; [|apply (i1_idle _ _ H1 Hrun)].
  destruct (i1_run _ _ H1 Hrun) as [Hso Htm]. split.
  - intros e n Hin Hn. destruct (sorted_head _ _ _ _ Hso Hin Hn) as [H [HH _]].
    rewrite HH in Htm. destruct Htm as [T [HT _]]. eauto.
  - intros T HT. destruct (entries s) as [|e l] eqn:He; cbn [head_nxt] in Htm.
    + unfold tm_ok in Htm. congruence.
    + destruct (enxt e) as [n|] eqn:En; cbn [tm_ok] in Htm; [|congruence].
      destruct Htm as [T' [HT' Hle]]. assert (T' = T) by congruence. subst T'.
      exists e, n. split; [left; reflexivity|]. split; [exact En|]. split; [exact Hle|].
      intros e' n' Hin' Hn'. destruct (sorted_head _ _ _ _ Hso Hin' Hn') as [H [HH Hle']].
      cbn [head_nxt] in HH. rewrite En in HH. inversion HH; subst. exact Hle'.
Qed.

(* after Start / Added / Removed, and after a wake-up whose tick value is not older than the
   clock reading, the timer is EXACTLY the earliest pending activation ... *)
Theorem timer_exact : forall t0 h ev s s',
  wf (init t0) (h ++ [ev]) = true ->
  run (init t0) h = Some s -> run (init t0) (h ++ [ev]) = Some s' ->
  ((exists t, ev = Start t) \/ (exists t sc, ev = Added t sc) \/ (exists t id, ev = Removed t id) \/
   (exists w, ev = Wake w /\ clk s <= w)) ->
  on_time s' /\ (forall T, timer s' = Some T -> exists e, In e (entries s') /\ enxt e = Some T).
Proof.
  intros t0 h ev s s' Hw Hr Hr' Hev.
  destruct (run_snoc _ next _ _ _ _ Hw Hr') as [s1 [o [Hr1 [Hw1 [Henv Hs]]]]].
  rewrite Hr in Hr1. inversion Hr1; subst s1; clear Hr1.
  destruct (reach _ _ _ Hw1 Hr) as [H1 _].
  pose proof (inv1_step _ next _ _ _ _ H1 Hs) as H1'.
  pose proof (exact_step _ next _ _ _ _ H1 Hs) as Hex.
  assert (Hrun' : running s' = true).
  { pose proof (shape _ next _ _ _ _ H1 Hs) as Hsh.
    destruct Hev as [[t ->]|[[t [sc ->]]|[[t [id ->]]|[w [-> _]]]]];
      inversion Hsh as [| | | |? Hd| | | | | |? ? Hd]; subst; try assumption;
      try (destruct Hd as [Hd|[Hd|[Hd|[Hd|[[? Hd]|Hd]]]]]; discriminate Hd);
      try (destruct Hd as [Hd|Hd]; discriminate Hd). }
  apply exact_on_time; [apply (proj1 (i1_run _ _ H1' Hrun'))|].
  destruct Hev as [[t ->]|[[t [sc ->]]|[[t [id ->]]|[w [-> Hle]]]]]; auto.
Qed.

(* ... and stays what it is (with the same entries) through every event that is not Start, Wake,
   Added, Removed, Stop or an idle-state Schedule / Remove *)
Theorem timer_kept : forall t0 h ev s s' o,
  wf (init t0) h = true -> run (init t0) h = Some s -> step s ev = Some (s', o) ->
  (ev = Snapshot \/ ev = StartNoop \/ ev = CtxPoll \/ ev = JobRet \/ (exists id, ev = RemoveRet id) \/
   (exists c, ev = Tick c) \/ (exists c, ev = Lag c)) ->
  entries s' = entries s /\ timer s' = timer s.
Proof.
  intros t0 h ev s s' o Hw Hr Hs Hev. destruct (reach _ _ _ Hw Hr) as [H1 _].
  pose proof (shape _ next _ _ _ _ H1 Hs) as Hsh.
  destruct Hev as [->|[->|[->|[->|[[id ->]|[[c ->]|[c ->]]]]]]];
    inversion Hsh as [| | | |? Hd| | | | | |? ? Hd]; subst; auto;
    try (destruct Hd as [Hd|[Hd|[Hd|[Hd|[[? Hd]|Hd]]]]]; discriminate Hd);
    try (destruct Hd as [Hd|Hd]; discriminate Hd).
Qed.

(* --- Remove / Stop are clean -------------------------------------------------------------- *)
Definition absent (id : Z) (s : state) : Prop :=
  id <= nextID s /\ forall e, In e (entries s) -> eid e <> id.

Lemma absent_of_cond id (s : state) :
  (id <=? nextID s) && negb (existsb (fun e => eid e =? id) (entries s)) = true -> absent id s.
Proof.
  intro H. apply andb_true_iff in H as [H1 H2]. apply Z.leb_le in H1. apply negb_true_iff in H2.
  split; [exact H1|]. intros e Hin Heq.
  assert (Ht : existsb (fun e => eid e =? id) (entries s) = true).
  { apply existsb_exists. exists e. split; [exact Hin|apply Z.eqb_eq; exact Heq]. }
  congruence.
Qed.

Lemma absent_step id (s s' : state) ev o : inv1 s -> absent id s -> step s ev = Some (s', o) ->
  absent id s' /\ exists new, starts s' = starts s ++ new /\ of_id id new = [].
Proof.
  intros Hi [Hle Hab] Hs. pose proof (shape _ next _ _ _ _ Hi Hs) as Hsh. unfold absent.
  assert (Hnil : forall l : list (Z * Z * Z), l = l ++ [] /\ of_id id [] = []).
  { intro l. rewrite app_nil_r. auto. }
  destruct Hsh as [t Hr Hr' He Hst Hid Hc Ho Hcx
                  |w Hr Hr' He Hst Hid Hc Ho Hcx
                  |t sc Hr Hr' He Hst Hid Hc Ho Hcx
                  |t id' Hr Hr' He Hst Hid Hc Ho Hcx
                  |ev _ ->
                  |Hr Hr' Ht He Hst Hid Hc Ho Hcx
                  |sc Hr Hr' Ht He Hst Hid Hc Ho Hcx
                  |id' Hr Hr' Ht He Hst Hid Hc Ho Hcx
                  |Hr Hr' Ht He Hst Hid Hc Ho Hcx
                  |Hpos Hr' Ht He Hst Hid Hc Ho Hcx
                  |ev0 c Hev Hr' Ht He Hst Hid Hc Ho Hcx]; rewrite ?Hid, ?Hst, ?He.
  - split; [split; [exact Hle|]|exists []; apply Hnil].
    intros e Hin. apply -> sort_in in Hin. apply in_map_iff in Hin as [e0 [<- Hin]]. exact (Hab e0 Hin).
  - split; [split; [exact Hle|]|].
    + intros e Hin. apply -> sort_in in Hin. apply in_map_iff in Hin as [e0 [<- Hin]].
      rewrite fire_eid. exact (Hab e0 Hin).
    + eexists. split; [reflexivity|]. apply of_id_new_notin.
      intro Hin. apply in_map_iff in Hin as [e [Heq Hin]]. exact (Hab e Hin Heq).
  - split; [split; [lia|]|exists []; apply Hnil].
    intros e Hin. apply -> sort_in in Hin. apply in_app_or in Hin as [Hin|[<-|[]]]; [exact (Hab e Hin)|].
    cbn [eid]. lia.
  - split; [split; [exact Hle|]|exists []; apply Hnil].
    intros e Hin. apply -> sort_in in Hin. apply filter_In in Hin as [Hin _]. exact (Hab e Hin).
  - split; [split; assumption|exists []; apply Hnil].
  - split; [split; assumption|exists []; apply Hnil].
  - split; [split; [lia|]|exists []; apply Hnil].
    intros e Hin. apply in_app_or in Hin as [Hin|[<-|[]]]; [exact (Hab e Hin)|]. cbn [eid]. lia.
  - split; [split; [exact Hle|]|exists []; apply Hnil].
    intros e Hin. apply filter_In in Hin as [Hin _]. exact (Hab e Hin).
  - split; [split; assumption|exists []; apply Hnil].
  - split; [split; assumption|exists []; apply Hnil].
  - split; [split; assumption|exists []; apply Hnil].
Qed.

Lemma absent_run id h (s0 s' : state) : inv1 s0 -> absent id s0 -> wf s0 h = true -> run s0 h = Some s' ->
  absent id s' /\ exists new, starts s' = starts s0 ++ new /\ of_id id new = [].
Proof.
  intros Hi Hab Hw Hr.
  pose (P := fun s : state => inv1 s /\ absent id s /\
                              exists new, starts s = starts s0 ++ new /\ of_id id new = []).
  assert (HP : P s').
  { apply (run_ind _ next P) with (h := h) (s := s0); [|split; [exact Hi|split; [exact Hab|]]|exact Hw|exact Hr].
    - intros s ev s1 o [Hi1 [Hab1 [new [Hst Hof]]]] _ Hs.
      destruct (absent_step _ _ _ _ _ Hi1 Hab1 Hs) as [Hab2 [new' [Hst' Hof']]].
      split; [eapply inv1_step; eassumption|split; [exact Hab2|]].
      exists (new ++ new'). split; [rewrite Hst', Hst, app_assoc; reflexivity|].
      rewrite of_id_app, Hof, Hof'. reflexivity.
    - exists []. rewrite app_nil_r. auto. }
  destruct HP as [_ [H1 H2]]. auto.
Qed.

(* [id <= nextID s1]: the id is one that Schedule has handed out before (an id that has not been
   assigned yet would be given to a later entry) *)
Theorem remove_clean : forall t0 h1 ev h2 s1 s2 id,
  wf (init t0) (h1 ++ ev :: h2) = true ->
  (ev = RemoveIdle id \/ exists t, ev = Removed t id) ->
  run (init t0) h1 = Some s1 -> run (init t0) (h1 ++ ev :: h2) = Some s2 ->
  id <= nextID s1 ->
  exists new, starts s2 = starts s1 ++ new /\ of_id id new = [] /\
              forall e, In e (entries s2) -> eid e <> id.
Proof.
  intros t0 h1 ev h2 s1 s2 id Hw Hev Hr1 Hr2 Hle.
  destruct (split3 _ _ _ _ _ _ Hw Hr1 Hr2) as [Hw1 [sE [o [Henv [Hs [HwE HrE]]]]]].
  destruct (reach _ _ _ Hw1 Hr1) as [H1 _].
  pose proof (shape _ next _ _ _ _ H1 Hs) as Hsh.
  assert (HabE : absent id sE /\ starts sE = starts s1).
  { destruct Hev as [-> |[t ->]]; inversion Hsh as [| | | |? Hd| | | | | |? ? Hd]; subst;
      try (destruct Hd as [Hd|[Hd|[Hd|[Hd|[[? Hd]|Hd]]]]]; discriminate Hd);
      try (destruct Hd as [Hd|Hd]; discriminate Hd).
    - split; [split; [lia|]|assumption].
      intros e Hin. match goal with H : entries sE = _ |- _ => rewrite H in Hin end.
      apply filter_In in Hin as [_ Hne]. apply negb_true_iff in Hne. apply Z.eqb_neq. exact Hne.
    - split; [split; [lia|]|assumption].
      intros e Hin. match goal with H : entries sE = _ |- _ => rewrite H in Hin end.
      apply -> sort_in in Hin.
      apply filter_In in Hin as [_ Hne]. apply negb_true_iff in Hne. apply Z.eqb_neq. exact Hne. }
  destruct HabE as [HabE HstE].
  destruct (absent_run id h2 sE s2 (inv1_step _ next _ _ _ _ H1 Hs) HabE HwE HrE) as [[_ Hab2] [new [Hst Hof]]].
  exists new. rewrite <- HstE. auto.
Qed.

Lemma idle_run h (s s' : state) : running s = false -> existsb is_start h = false ->
  run s h = Some s' -> starts s' = starts s /\ running s' = false.
Proof.
  revert s. induction h as [|ev h IH]; intros s Hr Hns Hrun; cbn [Model.run existsb] in *.
  - inversion Hrun; subst. auto.
  - apply orb_false_iff in Hns as [Hev Hns].
    destruct (step s ev) as [[s1 o]|] eqn:Hs; [|discriminate].
    assert (H1 : starts s1 = starts s /\ running s1 = false).
    { destruct ev; cbn [is_start] in Hev; try discriminate Hev;
        cbn [Model.step] in Hs; rewrite ?Hr in Hs; cbn [negb] in Hs; try discriminate Hs;
        try (destruct (outstanding s <=? 0); [discriminate Hs|]);
        try (destruct (_ && _); [|discriminate Hs]);
        inversion Hs; subst; cbn [starts running]; auto. }
    destruct H1 as [Hst1 Hr1]. destruct (IH s1 Hr1 Hns Hrun) as [Hst Hr']. rewrite Hst, Hst1. auto.
Qed.

Theorem stop_clean : forall t0 h1 h2 s1 s2,
  wf (init t0) (h1 ++ Stop :: h2) = true ->
  existsb is_start h2 = false ->
  run (init t0) h1 = Some s1 -> run (init t0) (h1 ++ Stop :: h2) = Some s2 ->
  starts s2 = starts s1.
Proof.
  intros t0 h1 h2 s1 s2 Hw Hns Hr1 Hr2.
  destruct (split3 _ _ _ _ _ _ Hw Hr1 Hr2) as [Hw1 [sE [o [Henv [Hs [HwE HrE]]]]]].
  assert (HE : starts sE = starts s1 /\ running sE = false).
  { cbn [Model.step] in Hs. destruct (running s1); cbn [negb] in Hs; [|discriminate Hs].
    inversion Hs; subst. cbn [starts running]. auto. }
  destruct HE as [HstE HrE']. destruct (idle_run _ _ _ HrE' Hns HrE) as [Hst _]. congruence.
Qed.

(* the same, stated at the moment the CALL RETURNS to its caller *)
Theorem remove_returned_clean : forall t0 h1 id h2 s1 s2,
  wf (init t0) (h1 ++ RemoveRet id :: h2) = true ->
  run (init t0) h1 = Some s1 -> run (init t0) (h1 ++ RemoveRet id :: h2) = Some s2 ->
  exists new, starts s2 = starts s1 ++ new /\ of_id id new = [] /\
              forall e, In e (entries s2) -> eid e <> id.
Proof.
  intros t0 h1 id h2 s1 s2 Hw Hr1 Hr2.
  destruct (split3 _ _ _ _ _ _ Hw Hr1 Hr2) as [Hw1 [sE [o [Henv [Hs [HwE HrE]]]]]].
  destruct (reach _ _ _ Hw1 Hr1) as [H1 _].
  cbn [Model.step] in Hs.
  destruct ((id <=? nextID s1) && negb (existsb (fun e => eid e =? id) (entries s1))) eqn:Hc;
    [|discriminate Hs].
  inversion Hs; subst sE o; clear Hs.
  destruct (absent_run id h2 s1 s2 H1 (absent_of_cond _ _ Hc) HwE HrE) as [[_ Hab2] [new [Hst Hof]]].
  exists new. auto.
Qed.

Theorem stop_returned_clean : forall t0 h1 h2 s1 s2,
  wf (init t0) (h1 ++ StopRet :: h2) = true ->
  existsb is_start h2 = false ->
  run (init t0) h1 = Some s1 -> run (init t0) (h1 ++ StopRet :: h2) = Some s2 ->
  starts s2 = starts s1.
Proof.
  intros t0 h1 h2 s1 s2 Hw Hns Hr1 Hr2.
  destruct (split3 _ _ _ _ _ _ Hw Hr1 Hr2) as [Hw1 [sE [o [Henv [Hs [HwE HrE]]]]]].
  cbn [Model.step] in Hs. destruct (running s1) eqn:Hrun; [discriminate Hs|].
  inversion Hs; subst sE o; clear Hs.
  destruct (idle_run _ _ _ Hrun Hns HrE) as [Hst _]. exact Hst.
Qed.

(* --- Entries is exact --------------------------------------------------------------------- *)
Theorem entries_exact : forall t0 h ev s s' o,
  wf (init t0) h = true -> run (init t0) h = Some s ->
  (ev = Snapshot \/ ev = EntriesIdle) -> step s ev = Some (s', o) ->
  s' = s /\ exists l, o = OSnap l /\ NoDup (map (fun x => fst (fst x)) l) /\
    (forall i n p, In (i, n, p) l <->
                   exists e, In e (entries s) /\ eid e = i /\ enxt e = n /\ eprv e = p) /\
    (forall i n p, In (i, n, p) l -> p = last_opt (acts_of i (starts s))).
Proof.
  intros t0 h ev s s' o Hw Hr Hev Hs. destruct (reach _ _ _ Hw Hr) as [H1 [H2 _]].
  assert (Ho : s' = s /\ o = OSnap (snapshot_of (entries s))).
  { destruct Hev as [-> | ->]; cbn [Model.step] in Hs; destruct (running s); cbn [negb] in Hs;
      try discriminate Hs; inversion Hs; subst; auto. }
  destruct Ho as [-> ->]. split; [reflexivity|]. exists (snapshot_of (entries s)).
  split; [reflexivity|]. unfold snapshot_of. split; [|split].
  - rewrite map_map. cbn [fst]. apply (i1_nodup _ _ H1).
  - intros i n p. rewrite in_map_iff. split.
    + intros [e [Heq Hin]]. inversion Heq; subst. exists e. auto.
    + intros [e [Hin [<- [<- <-]]]]. exists e. auto.
  - intros i n p Hin. apply in_map_iff in Hin as [e [Heq Hin]]. inversion Heq; subst.
    apply (i2_prev _ H2 _ Hin).
Qed.

(* --- the context returned by Stop --------------------------------------------------------- *)
Lemma counter_run h : forall (s s' : state), inv1 s -> wf s h = true -> run s h = Some s' ->
  outstanding s' - Z.of_nat (length (starts s')) =
  outstanding s - Z.of_nat (length (starts s)) - Z.of_nat (length (filter is_jobret h)).
Proof.
  induction h as [|ev h IH]; intros s s' Hi Hw Hr; cbn [Model.wf Model.run] in *.
  - inversion Hr; subst. cbn. lia.
  - apply andb_true_iff in Hw as [_ Hw].
    destruct (step s ev) as [[s1 o]|] eqn:Hs; [|discriminate].
    rewrite (IH s1 s' (inv1_step _ next _ _ _ _ Hi Hs) Hw Hr).
    pose proof (shape _ next _ _ _ _ Hi Hs) as Hsh.
    destruct Hsh as [t Hr0 Hr' He Hst Hid Hc Ho Hcx
                    |w Hr0 Hr' He Hst Hid Hc Ho Hcx
                    |t sc Hr0 Hr' He Hst Hid Hc Ho Hcx
                    |t id Hr0 Hr' He Hst Hid Hc Ho Hcx
                    |ev Hd ->
                    |Hr0 Hr' Ht He Hst Hid Hc Ho Hcx
                    |sc Hr0 Hr' Ht He Hst Hid Hc Ho Hcx
                    |id Hr0 Hr' Ht He Hst Hid Hc Ho Hcx
                    |Hr0 Hr' Ht He Hst Hid Hc Ho Hcx
                    |Hpos Hr' Ht He Hst Hid Hc Ho Hcx
                    |ev0 c Hev Hr' Ht He Hst Hid Hc Ho Hcx];
      try (destruct Hd as [-> |[-> |[-> |[-> |[[? ->]| ->]]]]]); try (destruct Hev as [-> | ->]);
      cbn [filter is_jobret length]; rewrite ?Ho, ?Hst; try lia.
    rewrite app_length, map_length. lia.
Qed.

Theorem stop_ctx_counter : forall t0 h s, wf (init t0) h = true -> run (init t0) h = Some s ->
  outstanding s = Z.of_nat (length (starts s)) - Z.of_nat (length (filter is_jobret h)) /\
  0 <= outstanding s.
Proof.
  intros t0 h s Hw Hr. destruct (reach _ _ _ Hw Hr) as [_ [_ [H0 _]]]. split; [|exact H0].
  pose proof (counter_run h _ _ (inv1_init _ t0) Hw Hr) as H. cbn [init outstanding starts length] in H. lia.
Qed.

Lemma nth_all_true (l : list bool) k : (k < length l)%nat -> nth k (map (fun _ => true) l) false = true.
Proof.
  revert k. induction l as [|b l IH]; intros k Hk; cbn [length] in Hk; [lia|].
  destruct k; cbn [map nth]; [reflexivity|]. apply IH. lia.
Qed.

Lemma ctx_step (s s' : state) ev o k : inv1 s -> step s ev = Some (s', o) -> (k < length (ctxs s))%nat ->
  (k < length (ctxs s'))%nat /\
  (nth k (ctxs s) false = true -> nth k (ctxs s') false = true) /\
  (nth k (ctxs s') false = true -> nth k (ctxs s) false = true \/ outstanding s' = 0).
Proof.
  intros Hi Hs Hk. pose proof (shape _ next _ _ _ _ Hi Hs) as Hsh.
  destruct Hsh as [t Hr0 Hr' He Hst Hid Hc Ho Hcx
                  |w Hr0 Hr' He Hst Hid Hc Ho Hcx
                  |t sc Hr0 Hr' He Hst Hid Hc Ho Hcx
                  |t id Hr0 Hr' He Hst Hid Hc Ho Hcx
                  |ev Hd ->
                  |Hr0 Hr' Ht He Hst Hid Hc Ho Hcx
                  |sc Hr0 Hr' Ht He Hst Hid Hc Ho Hcx
                  |id Hr0 Hr' Ht He Hst Hid Hc Ho Hcx
                  |Hr0 Hr' Ht He Hst Hid Hc Ho Hcx
                  |Hpos Hr' Ht He Hst Hid Hc Ho Hcx
                  |ev0 c Hev Hr' Ht He Hst Hid Hc Ho Hcx]; rewrite ?Hcx; auto.
  - rewrite app_length, app_nth1 by exact Hk. cbn [length]. split; [lia|auto].
  - rewrite app_length, app_nth1 by exact Hk. cbn [length]. split; [lia|auto].
  - rewrite Ho. destruct (outstanding s - 1 =? 0) eqn:Ez; [|auto].
    rewrite map_length. split; [exact Hk|]. rewrite nth_all_true by exact Hk.
    apply Z.eqb_eq in Ez. auto.
Qed.

Lemma all_true_nth (l : list bool) k : Forall (fun b => b = true) l -> (k < length l)%nat ->
  nth k l false = true.
Proof. intros Hf Hk. rewrite Forall_forall in Hf. apply Hf. apply nth_In. exact Hk. Qed.

Lemma ctx_run h : forall (s s2 : state) k, inv1 s -> inv3 s -> (k < length (ctxs s))%nat ->
  wf s h = true -> run s h = Some s2 ->
  (nth k (ctxs s2) false = true <->
   nth k (ctxs s) false = true \/
   exists ha hb sa, h = ha ++ hb /\ run s ha = Some sa /\ outstanding sa = 0).
Proof.
  induction h as [|ev h IH]; intros s s2 k Hi H3 Hk Hw Hr; cbn [Model.wf Model.run] in *.
  - inversion Hr; subst s2. split; [auto|].
    intros [Hn|[ha [hb [sa [Hsplit [Hra Hz]]]]]]; [exact Hn|].
    symmetry in Hsplit. apply app_eq_nil in Hsplit as [-> ->]. cbn [Model.run] in Hra.
    inversion Hra; subst sa. apply all_true_nth; [apply (proj2 H3 Hz)|exact Hk].
  - apply andb_true_iff in Hw as [_ Hw].
    destruct (step s ev) as [[s1 o]|] eqn:Hs; [|discriminate].
    destruct (ctx_step _ _ _ _ k Hi Hs Hk) as [Hk1 [Hmono Hchg]].
    pose proof (inv1_step _ next _ _ _ _ Hi Hs) as Hi1.
    pose proof (inv3_step _ _ _ _ Hi H3 Hs) as H31.
    rewrite (IH s1 s2 k Hi1 H31 Hk1 Hw Hr). split.
    + intros [Hn|[ha [hb [sa [-> [Hra Hz]]]]]].
      * destruct (Hchg Hn) as [Hn0|Hz]; [left; exact Hn0|].
        right. exists [ev], h, s1. split; [reflexivity|].
        split; [cbn [Model.run]; rewrite Hs; reflexivity|exact Hz].
      * right. exists (ev :: ha), hb, sa. split; [reflexivity|].
        split; [cbn [Model.run]; rewrite Hs; exact Hra|exact Hz].
    + intros [Hn|[ha [hb [sa [Hsplit [Hra Hz]]]]]].
      * left. apply Hmono. exact Hn.
      * destruct ha as [|ev' ha].
        -- cbn [Model.run] in Hra. inversion Hra; subst sa. left. apply Hmono.
           apply all_true_nth; [apply (proj2 H3 Hz)|exact Hk].
        -- cbn [app] in Hsplit. inversion Hsplit; subst ev' h. cbn [Model.run] in Hra.
           rewrite Hs in Hra. right. exists ha, hb, sa. auto.
Qed.

Lemma run_mid h1 ev ha (s0 s1 sE : state) o : run s0 h1 = Some s1 -> step s1 ev = Some (sE, o) ->
  run s0 (h1 ++ ev :: ha) = run sE ha.
Proof. intros H1 Hs. rewrite run_app, H1. cbn [Model.run]. rewrite Hs. reflexivity. Qed.

Theorem stop_ctx : forall t0 h1 ev h2 s1 s2,
  wf (init t0) (h1 ++ ev :: h2) = true -> (ev = Stop \/ ev = StopIdle) ->
  run (init t0) h1 = Some s1 -> run (init t0) (h1 ++ ev :: h2) = Some s2 ->
  (nth (length (ctxs s1)) (ctxs s2) false = true <->
   exists h2a h2b sa, h2 = h2a ++ h2b /\ run (init t0) (h1 ++ ev :: h2a) = Some sa /\
                      outstanding sa = 0).
Proof.
  intros t0 h1 ev h2 s1 s2 Hw Hev Hr1 Hr2.
  destruct (split3 _ _ _ _ _ _ Hw Hr1 Hr2) as [Hw1 [sE [o [Henv [Hs [HwE HrE]]]]]].
  pose proof (reach _ _ _ Hw1 Hr1) as Hinv.
  destruct (inv_step _ _ _ _ Hinv Henv Hs) as [H1E [_ H3E]].
  assert (HE : ctxs sE = ctxs s1 ++ [outstanding s1 =? 0] /\ outstanding sE = outstanding s1).
  { destruct Hev as [-> | ->]; cbn [Model.step] in Hs; destruct (running s1); cbn [negb] in Hs;
      try discriminate Hs; inversion Hs; subst; cbn [ctxs outstanding]; auto. }
  destruct HE as [HcE HoE].
  assert (Hk : (length (ctxs s1) < length (ctxs sE))%nat).
  { rewrite HcE, app_length. cbn [length]. lia. }
  rewrite (ctx_run h2 sE s2 _ H1E H3E Hk HwE HrE).
  rewrite HcE at 1. rewrite nth_middle. split.
  - intros [Hz|[ha [hb [sa [-> [Hra Hz]]]]]].
    + exists [], h2, sE. split; [reflexivity|].
      split; [rewrite (run_mid _ _ _ _ _ _ _ Hr1 Hs); reflexivity|].
      apply Z.eqb_eq in Hz. lia.
    + exists ha, hb, sa. split; [reflexivity|].
      split; [rewrite (run_mid _ _ _ _ _ _ _ Hr1 Hs); exact Hra|exact Hz].
  - intros [ha [hb [sa [-> [Hra Hz]]]]]. right. exists ha, hb, sa.
    rewrite (run_mid _ _ _ _ _ _ _ Hr1 Hs) in Hra. auto.
Qed.

(* --- restart ------------------------------------------------------------------------------ *)
Theorem restart_recomputes : forall t0 h t s s',
  wf (init t0) (h ++ [Start t]) = true ->
  run (init t0) h = Some s -> run (init t0) (h ++ [Start t]) = Some s' ->
  (forall e, In e (entries s) -> In (mkE (eid e) (esch e) (next (esch e) t) (eprv e)) (entries s')) /\
  (forall e', In e' (entries s') ->
     exists e, In e (entries s) /\ e' = mkE (eid e) (esch e) (next (esch e) t) (eprv e)) /\
  (forall e' n, In e' (entries s') -> enxt e' = Some n -> t < n).
Proof.
  intros t0 h t s s' Hw Hr Hr'.
  destruct (run_snoc _ next _ _ _ _ Hw Hr') as [s1 [o [Hr1 [Hw1 [Henv Hs]]]]].
  rewrite Hr in Hr1. inversion Hr1; subst s1; clear Hr1.
  destruct (reach _ _ _ Hw1 Hr) as [H1 _].
  destruct (shape_start _ _ _ (shape _ next _ _ _ _ H1 Hs)) as [_ [_ [He _]]].
  split; [|split].
  - intros e Hin. rewrite He. apply sort_in. apply (in_map (restart next t)) in Hin. exact Hin.
  - intros e' Hin. rewrite He in Hin. apply -> sort_in in Hin.
    apply in_map_iff in Hin as [e [<- Hin]]. exists e. auto.
  - intros e' n Hin Hn. rewrite He in Hin. apply -> sort_in in Hin.
    apply in_map_iff in Hin as [e [<- Hin]]. cbn [restart enxt] in Hn. apply next_later in Hn. exact Hn.
Qed.

Definition late (t : Z) (s : state) : Prop :=
  t <= clk s /\ forall e n, In e (entries s) -> enxt e = Some n -> t < n.

Lemma late_step t (s s' : state) ev o : inv1 s -> late t s -> env_ok s ev = true ->
  step s ev = Some (s', o) ->
  late t s' /\ exists new, starts s' = starts s ++ new /\ forall x, In x new -> t < sact x.
Proof.
  intros Hi [Hc0 Hl] Henv Hs. pose proof (shape _ next _ _ _ _ Hi Hs) as Hsh. unfold late.
  assert (Hnil : forall l : list (Z * Z * Z), l = l ++ [] /\ forall x, In x [] -> t < sact x).
  { intro l. rewrite app_nil_r. split; [reflexivity|intros x []]. }
  destruct Hsh as [t' Hr Hr' He Hst Hid Hc Ho Hcx
                  |w Hr Hr' He Hst Hid Hc Ho Hcx
                  |t' sc Hr Hr' He Hst Hid Hc Ho Hcx
                  |t' id' Hr Hr' He Hst Hid Hc Ho Hcx
                  |ev _ ->
                  |Hr Hr' Ht He Hst Hid Hc Ho Hcx
                  |sc Hr Hr' Ht He Hst Hid Hc Ho Hcx
                  |id' Hr Hr' Ht He Hst Hid Hc Ho Hcx
                  |Hr Hr' Ht He Hst Hid Hc Ho Hcx
                  |Hpos Hr' Ht He Hst Hid Hc Ho Hcx
                  |ev0 c Hev Hr' Ht He Hst Hid Hc Ho Hcx]; cbn [env_ok] in Henv; rewrite ?Hst, ?He, ?Hc.
  - apply Z.leb_le in Henv. split; [split; [lia|]|exists []; apply Hnil].
    intros e n Hin Hn. apply -> sort_in in Hin. apply in_map_iff in Hin as [e0 [<- Hin]].
    cbn [restart enxt] in Hn. apply next_later in Hn. lia.
  - assert (Htw : t < w).
    { (* the tick's value is not before the timer's instant, which is not before the earliest
         pending activation, which is after t *)
      destruct (timer s) as [T|] eqn:HT; [|discriminate Henv]. apply Z.leb_le in Henv.
      destruct (i1_run _ _ Hi Hr) as [_ Htm]. rewrite HT in Htm.
      destruct (entries s) as [|e0 l]; cbn [head_nxt] in Htm; [cbn in Htm; discriminate Htm|].
      destruct (enxt e0) as [n0|] eqn:En; cbn [tm_ok] in Htm; [|discriminate Htm].
      destruct Htm as [T' [Heq Hle']]. inversion Heq; subst T'.
      pose proof (Hl e0 n0 (or_introl eq_refl) En). lia. }
    clear Henv. split; [split; [lia|]|].
    + intros e n Hin Hn. apply -> sort_in in Hin. apply in_map_iff in Hin as [e0 [<- Hin]].
      destruct (due_at w e0) eqn:Hd.
      * destruct (due_fire _ next _ _ Hd) as [Hf _]. rewrite Hf in Hn. cbn [enxt] in Hn.
        apply next_later in Hn. lia.
      * rewrite (not_due_fire _ next _ _ Hd) in Hn. eapply Hl; eassumption.
    + eexists. split; [reflexivity|]. intros x Hx. apply in_map_iff in Hx as [e [<- Hin]].
      apply filter_In in Hin as [Hin Hd]. destruct (due_fire _ next _ _ Hd) as [_ [Hn _]].
      cbn. eapply Hl; eassumption.
  - apply Z.leb_le in Henv. split; [split; [lia|]|exists []; apply Hnil].
    intros e n Hin Hn. apply -> sort_in in Hin. apply in_app_or in Hin as [Hin|[<-|[]]].
    + eapply Hl; eassumption.
    + cbn [enxt] in Hn. apply next_later in Hn. lia.
  - apply Z.leb_le in Henv. split; [split; [lia|]|exists []; apply Hnil].
    intros e n Hin Hn. apply -> sort_in in Hin. apply filter_In in Hin as [Hin _]. eapply Hl; eassumption.
  - split; [split; assumption|exists []; apply Hnil].
  - split; [split; assumption|exists []; apply Hnil].
  - split; [split; [assumption|]|exists []; apply Hnil].
    intros e n Hin Hn. apply in_app_or in Hin as [Hin|[<-|[]]]; [eapply Hl; eassumption|discriminate Hn].
  - split; [split; [assumption|]|exists []; apply Hnil].
    intros e n Hin Hn. apply filter_In in Hin as [Hin _]. eapply Hl; eassumption.
  - split; [split; assumption|exists []; apply Hnil].
  - split; [split; assumption|exists []; apply Hnil].
  - assert (Hle : clk s <= c).
    { destruct Hev as [-> | ->]; cbn [env_ok] in Henv; apply andb_true_iff in Henv as [Henv _];
        apply Z.leb_le in Henv; exact Henv. }
    split; [split; [lia|assumption]|exists []; apply Hnil].
Qed.

Theorem restart_skips : forall t0 h1 t h2 s1 s2,
  wf (init t0) (h1 ++ Start t :: h2) = true ->
  run (init t0) h1 = Some s1 -> run (init t0) (h1 ++ Start t :: h2) = Some s2 ->
  exists new, starts s2 = starts s1 ++ new /\ forall i a w, In (i, a, w) new -> t < a.
Proof.
  intros t0 h1 t h2 s1 s2 Hw Hr1 Hr2.
  destruct (split3 _ _ _ _ _ _ Hw Hr1 Hr2) as [Hw1 [sE [o [Henv [Hs [HwE HrE]]]]]].
  destruct (reach _ _ _ Hw1 Hr1) as [H1 _].
  destruct (shape_start _ _ _ (shape _ next _ _ _ _ H1 Hs)) as [_ [_ [He [Hst [_ Hc]]]]].
  pose (P := fun s : state => inv1 s /\ late t s /\
                              exists new, starts s = starts sE ++ new /\ forall x, In x new -> t < sact x).
  assert (HP : P s2).
  { apply (run_ind _ next P) with (h := h2) (s := sE); [| |exact HwE|exact HrE].
    - intros s ev s' o' [Hi1 [Hl1 [new [Hst1 Hn1]]]] Henv1 Hs1.
      destruct (late_step _ _ _ _ _ Hi1 Hl1 Henv1 Hs1) as [Hl2 [new' [Hst' Hn']]].
      split; [eapply inv1_step; eassumption|split; [exact Hl2|]].
      exists (new ++ new'). split; [rewrite Hst', Hst1, app_assoc; reflexivity|].
      intros x Hx. apply in_app_or in Hx as [Hx|Hx]; auto.
    - split; [eapply inv1_step; eassumption|split].
      + split; [lia|]. intros e n Hin Hn. rewrite He in Hin. apply -> sort_in in Hin.
        apply in_map_iff in Hin as [e0 [<- Hin]]. cbn [restart enxt] in Hn.
        apply next_later in Hn. exact Hn.
      + exists []. rewrite app_nil_r. split; [reflexivity|intros x []]. }
  destruct HP as [_ [_ [new [Hst2 Hn2]]]]. exists new. rewrite Hst2, Hst. split; [reflexivity|].
  intros i a w Hin. apply (Hn2 _ Hin).
Qed.

(* --- independence ----------------------------------------------------------------------- *)
Lemma nextID_mono (s s' : state) ev o : inv1 s -> step s ev = Some (s', o) -> nextID s <= nextID s'.
Proof.
  intros Hi Hs. pose proof (shape _ next _ _ _ _ Hi Hs) as Hsh.
  destruct Hsh as [t Hr Hr' He Hst Hid Hc Ho Hcx
                  |w Hr Hr' He Hst Hid Hc Ho Hcx
                  |t sc Hr Hr' He Hst Hid Hc Ho Hcx
                  |t id Hr Hr' He Hst Hid Hc Ho Hcx
                  |ev _ ->
                  |Hr Hr' Ht He Hst Hid Hc Ho Hcx
                  |sc Hr Hr' Ht He Hst Hid Hc Ho Hcx
                  |id Hr Hr' Ht He Hst Hid Hc Ho Hcx
                  |Hr Hr' Ht He Hst Hid Hc Ho Hcx
                  |Hpos Hr' Ht He Hst Hid Hc Ho Hcx
                  |ev0 c Hev Hr' Ht He Hst Hid Hc Ho Hcx]; lia.
Qed.

Definition wake_rec (ev : event) (nx : option Z) : list (Z * Z) :=
  match ev, nx with
  | Wake w, Some a => if a <=? w then [(a, w)] else []
  | _, _ => []
  end.

Lemma indep_step (s s' : state) ev o e0 : inv1 s -> step s ev = Some (s', o) -> In e0 (entries s) ->
  (forall e', In e' (entries s') -> eid e' = eid e0 ->
     esch e' = esch e0 /\ (enxt e', eprv e') = efire next (esch e0) (enxt e0, eprv e0) ev) /\
  of_id (eid e0) (starts s') =
    of_id (eid e0) (starts s) ++ map (fun aw => (eid e0, fst aw, snd aw)) (wake_rec ev (enxt e0)).
Proof.
  intros Hi Hs Hin0. pose proof (shape _ next _ _ _ _ Hi Hs) as Hsh.
  pose proof (i1_nodup _ _ Hi) as Hnd.
  assert (Hsame : forall e', In e' (entries s) -> eid e' = eid e0 -> e' = e0).
  { intros e' Hin Heq. eapply nodup_eid_inj; eassumption. }
  destruct Hsh as [t Hr Hr' He Hst Hid Hc Ho Hcx
                  |w Hr Hr' He Hst Hid Hc Ho Hcx
                  |t sc Hr Hr' He Hst Hid Hc Ho Hcx
                  |t id Hr Hr' He Hst Hid Hc Ho Hcx
                  |ev Hd ->
                  |Hr Hr' Ht He Hst Hid Hc Ho Hcx
                  |sc Hr Hr' Ht He Hst Hid Hc Ho Hcx
                  |id Hr Hr' Ht He Hst Hid Hc Ho Hcx
                  |Hr Hr' Ht He Hst Hid Hc Ho Hcx
                  |Hpos Hr' Ht He Hst Hid Hc Ho Hcx
                  |ev0 c Hev Hr' Ht He Hst Hid Hc Ho Hcx];
    try (destruct Hd as [->|[->|[->|[->|[[? ->]| ->]]]]]); try (destruct Hev as [-> | ->]);
    cbn [wake_rec map efire]; rewrite ?Hst, ?app_nil_r;
    try (split; [|reflexivity]); rewrite ?He.
  - (* Start *)
    intros e' Hin Heq. apply -> sort_in in Hin. apply in_map_iff in Hin as [e1 [<- Hin]].
    cbn [restart eid] in Heq. rewrite (Hsame e1 Hin Heq). cbn [restart esch enxt eprv fst snd]. auto.
  - (* Wake *)
    split.
    + intros e' Hin Heq. apply -> sort_in in Hin. apply in_map_iff in Hin as [e1 [<- Hin]].
      rewrite fire_eid in Heq. rewrite (Hsame e1 Hin Heq). rewrite fire_esch. split; [reflexivity|].
      unfold fire. cbn [fst snd]. destruct (enxt e0) as [a|] eqn:Ea; [|rewrite Ea; reflexivity].
      destruct (a <=? w); [reflexivity|rewrite Ea; reflexivity].
    + rewrite of_id_app. f_equal. rewrite (of_id_new_in _ _ _ _ Hnd Hin0).
      unfold due_at, srec, act. destruct (enxt e0) as [a|]; [|reflexivity].
      destruct (a <=? w); reflexivity.
  - (* Added *)
    intros e' Hin Heq. apply -> sort_in in Hin. apply in_app_or in Hin as [Hin|[<-|[]]].
    + rewrite (Hsame e' Hin Heq). auto.
    + cbn [eid] in Heq. pose proof (i1_ids _ _ Hi e0 Hin0). lia.
  - (* Removed *)
    intros e' Hin Heq. apply -> sort_in in Hin. apply filter_In in Hin as [Hin _].
    rewrite (Hsame e' Hin Heq). auto.
  - intros e' Hin Heq. rewrite (Hsame e' Hin Heq). auto.
  - intros e' Hin Heq. rewrite (Hsame e' Hin Heq). auto.
  - intros e' Hin Heq. rewrite (Hsame e' Hin Heq). auto.
  - intros e' Hin Heq. rewrite (Hsame e' Hin Heq). auto.
  - intros e' Hin Heq. rewrite (Hsame e' Hin Heq). auto.
  - intros e' Hin Heq. rewrite (Hsame e' Hin Heq). auto.
  - intros e' Hin Heq. rewrite (Hsame e' Hin Heq). auto.
  - (* ScheduleIdle *)
    intros e' Hin Heq. apply in_app_or in Hin as [Hin|[<-|[]]].
    + rewrite (Hsame e' Hin Heq). auto.
    + cbn [eid] in Heq. pose proof (i1_ids _ _ Hi e0 Hin0). lia.
  - intros e' Hin Heq. apply filter_In in Hin as [Hin _]. rewrite (Hsame e' Hin Heq). auto.
  - intros e' Hin Heq. rewrite (Hsame e' Hin Heq). auto.
  - intros e' Hin Heq. rewrite (Hsame e' Hin Heq). auto.
  - intros e' Hin Heq. rewrite (Hsame e' Hin Heq). auto.
  - intros e' Hin Heq. rewrite (Hsame e' Hin Heq). auto.
Qed.

Lemma indep_run h2 : forall (s s2 : state) e0, inv1 s -> In e0 (entries s) ->
  wf s h2 = true -> run s h2 = Some s2 ->
  forall e, In e (entries s2) -> eid e = eid e0 ->
    esch e = esch e0 /\ (enxt e, eprv e) = track next (esch e0) (enxt e0, eprv e0) h2 /\
    of_id (eid e0) (starts s2) =
      of_id (eid e0) (starts s) ++
      map (fun aw => (eid e0, fst aw, snd aw)) (tstarts next (esch e0) (enxt e0, eprv e0) h2).
Proof.
  induction h2 as [|ev h IH]; intros s s2 e0 Hi Hin0 Hw Hr e Hin Heq; cbn [Model.wf Model.run] in *.
  - inversion Hr; subst s2. rewrite (nodup_eid_inj _ _ _ (i1_nodup _ _ Hi) Hin Hin0 Heq).
    cbn [track fold_left tstarts map]. rewrite app_nil_r. auto.
  - apply andb_true_iff in Hw as [_ Hw].
    destruct (step s ev) as [[s1 o]|] eqn:Hs; [|discriminate].
    pose proof (inv1_step _ next _ _ _ _ Hi Hs) as Hi1.
    destruct (indep_step _ _ _ _ _ Hi Hs Hin0) as [HA HB].
    destruct (existsb (fun z => eid z =? eid e0) (entries s1)) eqn:Hex.
    + apply existsb_exists in Hex as [e1 [Hin1 Heq1]]. apply Z.eqb_eq in Heq1.
      destruct (HA e1 Hin1 Heq1) as [Hsch1 Hst1].
      assert (Heq' : eid e = eid e1) by congruence.
      destruct (IH s1 s2 e1 Hi1 Hin1 Hw Hr e Hin Heq') as [H1 [H2 H3]].
      rewrite Heq1, Hsch1, Hst1 in *.
      split; [exact H1|]. split; [exact H2|].
      rewrite H3, HB. cbn [tstarts fst]. rewrite map_app, app_assoc. reflexivity.
    + exfalso.
      assert (Hab : absent (eid e0) s1).
      { split.
        - pose proof (i1_ids _ _ Hi e0 Hin0). pose proof (nextID_mono _ _ _ _ Hi Hs). lia.
        - intros z Hz Heqz. assert (Ht : existsb (fun z => eid z =? eid e0) (entries s1) = true).
          { apply existsb_exists. exists z. split; [exact Hz|apply Z.eqb_eq; exact Heqz]. }
          congruence. }
      destruct (absent_run _ _ _ _ Hi1 Hab Hw Hr) as [[_ Hab2] _].
      exact (Hab2 e Hin Heq).
Qed.

Theorem independent : forall t0 h1 ev h2 s1 s2 id sc st0,
  wf (init t0) (h1 ++ ev :: h2) = true ->
  run (init t0) h1 = Some s1 -> run (init t0) (h1 ++ ev :: h2) = Some s2 ->
  birth next s1 ev = Some (id, sc, st0) ->
  forall e, In e (entries s2) -> eid e = id ->
    esch e = sc /\ (enxt e, eprv e) = track next sc st0 h2 /\
    of_id id (starts s2) = map (fun aw => (id, fst aw, snd aw)) (tstarts next sc st0 h2).
Proof.
  intros t0 h1 ev h2 s1 s2 id sc st0 Hw Hr1 Hr2 Hb e Hin Heq.
  destruct (split3 _ _ _ _ _ _ Hw Hr1 Hr2) as [Hw1 [sE [o [Henv [Hs [HwE HrE]]]]]].
  destruct (reach _ _ _ Hw1 Hr1) as [H1 _].
  pose proof (shape _ next _ _ _ _ H1 Hs) as Hsh.
  pose proof (inv1_step _ next _ _ _ _ H1 Hs) as H1E.
  assert (HE : In (mkE id sc (fst st0) (snd st0)) (entries sE) /\ starts sE = starts s1 /\
               id = nextID s1 + 1).
  { destruct ev; cbn [birth] in Hb; try discriminate Hb; inversion Hb; subst; clear Hb;
      inversion Hsh as [| | | |? Hd| | | | | |? ? Hd]; subst;
      try (destruct Hd as [Hd|[Hd|[Hd|[Hd|[[? Hd]|Hd]]]]]; discriminate Hd);
      try (destruct Hd as [Hd|Hd]; discriminate Hd); cbn [fst snd].
    - split; [|auto]. match goal with H : entries sE = _ |- _ => rewrite H end.
      apply sort_in. apply in_or_app. right. left. reflexivity.
    - split; [|auto]. match goal with H : entries sE = _ |- _ => rewrite H end.
      apply in_or_app. right. left. reflexivity. }
  destruct HE as [HinE [HstE Hid]].
  destruct (indep_run h2 sE s2 _ H1E HinE HwE HrE e Hin Heq) as [HA [HB HC]].
  cbn [eid esch enxt eprv] in HA, HB, HC. rewrite <- surjective_pairing in HB, HC.
  split; [exact HA|]. split; [exact HB|]. rewrite HC.
  replace (of_id id (starts sE)) with (@nil (Z * Z * Z)); [reflexivity|].
  symmetry. apply of_id_nil_iff. intros x Hx. rewrite HstE in Hx.
  pose proof (i1_sids _ _ H1 x Hx). lia.
Qed.

(* --- the model meets the specification ----------------------------------------------------- *)
Definition rel0 (s : state) (R : rstate sched) : Prop :=
  Permutation (entries s) (rents R) /\ rrun R = running s /\ rout R = outstanding s /\
  rctx R = ctxs s /\ (forall i, In i (rgone R) -> absent i s) /\
  (rhalt R = true -> running s = false).

Lemma fresh_rents (s : state) (R : rstate sched) : inv1 s -> Permutation (entries s) (rents R) ->
  ~ In (nextID s + 1) (map eid (rents R)).
Proof.
  intros Hi HP Hin. apply (Permutation_in _ (Permutation_map eid (Permutation_sym HP))) in Hin.
  apply in_map_iff in Hin as [e [Heq Hin]]. pose proof (i1_ids _ _ Hi e Hin). lia.
Qed.

Lemma snap_not_gone (s : state) (R : rstate sched) l i n p :
  (forall i, In i (rgone R) -> absent i s) -> OSnap (snapshot_of (entries s)) = OSnap l ->
  In (i, n, p) l -> ~ In i (rgone R).
Proof.
  intros Hgone Heq Hin Hg. inversion Heq; subst l. unfold snapshot_of in Hin.
  apply in_map_iff in Hin as [e [He Hin]]. inversion He; subst.
  exact (proj2 (Hgone _ Hg) e Hin eq_refl).
Qed.

(* what the reference knows about the clock and about lateness *)
Definition aux (s : state) (R : rstate sched) : Prop :=
  (rrun R = true -> rclk R = clk s) /\
  (rlate R = false -> running s = true -> exact _ s).

Lemma sim_step0 (s s' : state) ev o R : inv1 s -> rel0 s R -> aux s R -> env_ok s ev = true ->
  step s ev = Some (s', o) ->
  spec_obs R (ev, o, jobs_of ev o) /\ rel0 s' (rstep next R (ev, o, jobs_of ev o)).
Proof.
  intros Hi [HP [Hrr [Hro [Hrc [Hgone Hhalt]]]]] Haux Henv Hs. unfold rel0.
  assert (Hgone' : forall i, In i (rgone R) -> absent i s').
  { intros i Hi_. exact (proj1 (absent_step _ _ _ _ _ Hi (Hgone i Hi_) Hs)). }
  destruct ev; cbn [Model.step] in Hs; destruct (running s) eqn:Hr; cbn [negb] in Hs;
    try discriminate Hs.
  - (* Start *)
    inversion Hs; subst s' o; clear Hs.
    cbn [spec_obs rstep jobs_of arm entries running outstanding ctxs rents rrun rout rctx rgone rhalt].
    split; [reflexivity|]. split; [|split; [reflexivity|split; [exact Hro|split; [exact Hrc|split; [exact Hgone'|discriminate]]]]].
    eapply perm_trans; [apply sort_perm|]. apply (Permutation_map (restart next t)). exact HP.
  - (* Wake *)
    destruct (timer s) eqn:Htm; [|discriminate Hs].
    rewrite (wake_loop_sorted _ next w (entries s) (proj1 (i1_run _ _ Hi Hr))) in Hs.
    inversion Hs; subst s' o; clear Hs.
    cbn [spec_obs rstep jobs_of arm entries running outstanding ctxs rents rrun rout rctx rgone rhalt].
    unfold due. rewrite Hrr. rewrite !map_map. cbn [fst snd]. split; [split; [|split; [|split]]|].
    + unfold rrec. cbn [fst]. apply (Permutation_map eid). apply Permutation_filter. exact HP.
    + intros i c Hin. apply in_map_iff in Hin as [e [Heq Hin]].
      unfold rrec in Heq. cbn [fst] in Heq. inversion Heq; subst.
      apply filter_In in Hin as [Hin Hd]. destruct (due_fire _ next _ _ Hd) as [_ [Hn Hle]].
      exists e, (act sched e). split; [eapply Permutation_in; eassumption|auto].
    + intros i c Hin Hg. apply in_map_iff in Hin as [e [Heq Hin]].
      unfold rrec in Heq. cbn [fst] in Heq. inversion Heq; subst.
      apply filter_In in Hin as [Hin _]. exact (proj2 (Hgone _ Hg) e Hin eq_refl).
    + intro Hh. specialize (Hhalt Hh). congruence.
    + split; [|split; [reflexivity|split; [|split; [exact Hrc|split; [exact Hgone'|]]]]].
      * eapply perm_trans; [apply sort_perm|]. apply Permutation_map. exact HP.
      * rewrite !map_length. rewrite Hro. reflexivity.
      * intro Hh. specialize (Hhalt Hh). congruence.
  - (* Added *)
    inversion Hs; subst s' o; clear Hs.
    cbn [spec_obs rstep jobs_of arm entries running outstanding ctxs rents rrun rout rctx rgone rhalt].
    split.
    + split; [reflexivity|]. eexists _, _. split; [reflexivity|]. apply fresh_rents; assumption.
    + split; [|split; [exact Hrr|split; [exact Hro|split; [exact Hrc|split; [exact Hgone'|]]]]].
      * eapply perm_trans; [apply sort_perm|]. apply Permutation_app_tail. exact HP.
      * intro Hh. specialize (Hhalt Hh). congruence.
  - (* Removed *)
    inversion Hs; subst s' o; clear Hs.
    cbn [spec_obs rstep jobs_of arm entries running outstanding ctxs rents rrun rout rctx rgone rhalt].
    split; [reflexivity|].
    split; [|split; [exact Hrr|split; [exact Hro|split; [exact Hrc|split; [exact Hgone'|]]]]].
    + eapply perm_trans; [apply sort_perm|]. unfold remove_entry. apply Permutation_filter. exact HP.
    + intro Hh. specialize (Hhalt Hh). congruence.
  - (* Snapshot *)
    inversion Hs; subst s' o; clear Hs. cbn [spec_obs rstep jobs_of].
    split; [|rewrite Hr; auto 10].
    split; [reflexivity|]. split.
    + eexists. split; [reflexivity|]. unfold snapshot_of. apply Permutation_map. exact HP.
    + intros l i n p. apply snap_not_gone. exact Hgone.
  - (* Stop *)
    inversion Hs; subst s' o; clear Hs.
    cbn [spec_obs rstep jobs_of entries running outstanding ctxs rents rrun rout rctx rgone rhalt].
    rewrite Hro, Hrc. auto 10.
  - (* ScheduleIdle *)
    inversion Hs; subst s' o; clear Hs.
    cbn [spec_obs rstep jobs_of entries running outstanding ctxs rents rrun rout rctx rgone rhalt].
    split.
    + split; [reflexivity|]. eexists. split; [reflexivity|]. apply fresh_rents; assumption.
    + split; [|auto 10]. apply Permutation_app_tail. exact HP.
  - (* RemoveIdle *)
    inversion Hs; subst s' o; clear Hs.
    cbn [spec_obs rstep jobs_of entries running outstanding ctxs rents rrun rout rctx rgone rhalt].
    split; [reflexivity|]. split; [|auto 10]. unfold remove_entry. apply Permutation_filter. exact HP.
  - (* EntriesIdle *)
    inversion Hs; subst s' o; clear Hs. cbn [spec_obs rstep jobs_of].
    split; [|rewrite Hr; auto 10].
    split; [reflexivity|]. split.
    + eexists. split; [reflexivity|]. unfold snapshot_of. apply Permutation_map. exact HP.
    + intros l i n p. apply snap_not_gone. exact Hgone.
  - (* StopIdle *)
    inversion Hs; subst s' o; clear Hs.
    cbn [spec_obs rstep jobs_of entries running outstanding ctxs rents rrun rout rctx rgone rhalt].
    rewrite Hro, Hrc. auto 10.
  - (* StartNoop *)
    inversion Hs; subst s' o; clear Hs. cbn [spec_obs rstep jobs_of]. rewrite Hr. auto 10.
  - (* JobRet, running *)
    destruct (outstanding s <=? 0) eqn:Ho; [discriminate Hs|].
    inversion Hs; subst s' o; clear Hs.
    cbn [spec_obs rstep jobs_of entries running outstanding ctxs rents rrun rout rctx rgone rhalt].
    rewrite Hro, Hrc. split; [reflexivity|].
    split; [exact HP|split; [exact Hrr|split; [reflexivity|split; [reflexivity|split; [exact Hgone'|]]]]].
    intro Hh. specialize (Hhalt Hh). congruence.
  - (* JobRet, idle *)
    destruct (outstanding s <=? 0) eqn:Ho; [discriminate Hs|].
    inversion Hs; subst s' o; clear Hs.
    cbn [spec_obs rstep jobs_of entries running outstanding ctxs rents rrun rout rctx rgone rhalt].
    rewrite Hro, Hrc. auto 10.
  - (* CtxPoll *)
    inversion Hs; subst s' o; clear Hs. cbn [spec_obs rstep jobs_of]. rewrite Hrc, Hr. auto 10.
  - inversion Hs; subst s' o; clear Hs. cbn [spec_obs rstep jobs_of]. rewrite Hrc, Hr. auto 10.
  - (* Tick, running *)
    inversion Hs; subst s' o; clear Hs.
    cbn [spec_obs rstep jobs_of entries running outstanding ctxs rents rrun rout rctx rgone rhalt].
    split.
    + split; [reflexivity|]. intros _ Hlate e a Hin Hn.
      cbn [env_ok] in Henv. apply andb_true_iff in Henv as [_ Henv].
      destruct (i1_run _ _ Hi Hr) as [Hso _].
      pose proof (proj2 Haux Hlate Hr) as Htm. unfold exact in Htm.
      apply (Permutation_in _ (Permutation_sym HP)) in Hin.
      destruct (sorted_head _ _ _ _ Hso Hin Hn) as [T [HT Hle]].
      rewrite Htm, HT in Henv. apply Z.ltb_lt in Henv. lia.
    + split; [exact HP|split; [exact Hrr|split; [exact Hro|split; [exact Hrc|split; [exact Hgone'|]]]]].
      intro Hh. specialize (Hhalt Hh). congruence.
  - (* Tick, idle *)
    inversion Hs; subst s' o; clear Hs.
    cbn [spec_obs rstep jobs_of entries running outstanding ctxs rents rrun rout rctx rgone rhalt].
    split; [|auto 10]. split; [reflexivity|]. intro Hc. congruence.
  - (* RemoveRet, running *)
    destruct ((id <=? nextID s) && negb (existsb (fun e => eid e =? id) (entries s))) eqn:Hc;
      [|discriminate Hs].
    inversion Hs; subst s' o; clear Hs. cbn [spec_obs rstep jobs_of rents rrun rout rctx rgone rhalt].
    split; [reflexivity|]. rewrite Hr.
    split; [exact HP|split; [exact Hrr|split; [exact Hro|split; [exact Hrc|split; [|exact Hhalt]]]]].
    intros i [<-|Hi_]; [|auto]. apply (absent_of_cond _ _ Hc).
  - (* RemoveRet, idle *)
    destruct ((id <=? nextID s) && negb (existsb (fun e => eid e =? id) (entries s))) eqn:Hc;
      [|discriminate Hs].
    inversion Hs; subst s' o; clear Hs. cbn [spec_obs rstep jobs_of rents rrun rout rctx rgone rhalt].
    split; [reflexivity|]. rewrite Hr.
    split; [exact HP|split; [exact Hrr|split; [exact Hro|split; [exact Hrc|split; [|exact Hhalt]]]]].
    intros i [<-|Hi_]; [|auto]. apply (absent_of_cond _ _ Hc).
  - (* StopRet *)
    inversion Hs; subst s' o; clear Hs. cbn [spec_obs rstep jobs_of rents rrun rout rctx rgone rhalt].
    rewrite Hr. auto 10.
  - (* Lag *)
    inversion Hs; subst s' o; clear Hs.
    cbn [spec_obs rstep jobs_of entries running outstanding ctxs rents rrun rout rctx rgone rhalt].
    split; [reflexivity|].
    split; [exact HP|split; [exact Hrr|split; [exact Hro|split; [exact Hrc|split; [exact Hgone'|]]]]].
    intro Hh. specialize (Hhalt Hh). congruence.
  - inversion Hs; subst s' o; clear Hs.
    cbn [spec_obs rstep jobs_of entries running outstanding ctxs rents rrun rout rctx rgone rhalt].
    split; [reflexivity|]. auto 10.
Qed.

Lemma aux_step (s s' : state) ev o R : inv1 s -> rel0 s R -> aux s R -> env_ok s ev = true ->
  step s ev = Some (s', o) -> aux s' (rstep next R (ev, o, jobs_of ev o)).
Proof.
  intros Hi [_ [Hrr _]] [Hck Hex] Henv Hs.
  pose proof (exact_step _ next _ _ _ _ Hi Hs) as Hnew.
  pose proof (shape _ next _ _ _ _ Hi Hs) as Hsh. unfold aux.
  destruct Hsh as [t Hr Hr' He Hst Hid Hc Ho Hcx
                  |w Hr Hr' He Hst Hid Hc Ho Hcx
                  |t sc Hr Hr' He Hst Hid Hc Ho Hcx
                  |t id Hr Hr' He Hst Hid Hc Ho Hcx
                  |ev Hd ->
                  |Hr Hr' Ht He Hst Hid Hc Ho Hcx
                  |sc Hr Hr' Ht He Hst Hid Hc Ho Hcx
                  |id Hr Hr' Ht He Hst Hid Hc Ho Hcx
                  |Hr Hr' Ht He Hst Hid Hc Ho Hcx
                  |Hpos Hr' Ht He Hst Hid Hc Ho Hcx
                  |ev0 c Hev Hr' Ht He Hst Hid Hc Ho Hcx].
  - (* Start *) cbn [rstep rrun rclk rlate]. split; [intros _; symmetry; exact Hc|intros _ _; exact Hnew].
  - (* Wake *) cbn [rstep rrun rclk rlate]. rewrite Hr in Hrr. specialize (Hck Hrr). split.
    + intros _. rewrite Hc, Hck. reflexivity.
    + intros Hl _. apply Hnew. apply Z.ltb_ge in Hl. lia.
  - (* Added *) cbn [Model.step] in Hs. rewrite Hr in Hs. cbn [negb] in Hs.
    injection Hs as _ Ho'. rewrite <- Ho'. cbn [rstep rrun rclk rlate]. split; [intros _; symmetry; exact Hc|intros _ _; exact Hnew].
  - (* Removed *) cbn [rstep rrun rclk rlate]. split; [intros _; symmetry; exact Hc|intros _ _; exact Hnew].
  - (* same state *)
    assert (HR : forall R' : rstate sched, rrun R' = rrun R -> rclk R' = rclk R -> rlate R' = rlate R ->
                 (rrun R' = true -> rclk R' = clk s) /\ (rlate R' = false -> running s = true -> exact _ s)).
    { intros R' -> -> ->. auto. }
    destruct Hd as [->|[->|[->|[->|[[id ->]| ->]]]]]; cbn [rstep]; try (split; assumption);
      apply HR; reflexivity.
  - (* Stop *) cbn [rstep rrun rclk rlate]. split; [discriminate|]. intros _ Hx. congruence.
  - (* ScheduleIdle *) cbn [Model.step] in Hs. rewrite Hr in Hs.
    injection Hs as _ Ho'. rewrite <- Ho'. cbn [rstep rrun rclk rlate]. rewrite Hrr, Hr. split; [discriminate|]. intros _ Hx. congruence.
  - (* RemoveIdle *) cbn [rstep rrun rclk rlate]. rewrite Hrr, Hr. split; [discriminate|]. intros _ Hx. congruence.
  - (* StopIdle *) cbn [rstep rrun rclk rlate]. split; [discriminate|]. intros _ Hx. congruence.
  - (* JobRet *) cbn [rstep rrun rclk rlate]. split.
    + intro Hx. rewrite Hc. auto.
    + intros Hl Hx. unfold exact in *. rewrite Ht, He. apply Hex; [exact Hl|congruence].
  - (* Tick / Lag *)
    destruct Hev as [-> | ->]; cbn [rstep rrun rclk rlate].
    + split; [intros _; symmetry; exact Hc|].
      intros Hl Hx. unfold exact in *. rewrite Ht, He. apply Hex; [exact Hl|congruence].
    + split; [intros _; symmetry; exact Hc|discriminate].
Qed.

Definition rel (s : state) (R : rstate sched) : Prop := rel0 s R /\ aux s R.

Lemma sim_step (s s' : state) ev o R : inv1 s -> rel s R -> env_ok s ev = true ->
  step s ev = Some (s', o) ->
  spec_obs R (ev, o, jobs_of ev o) /\ rel s' (rstep next R (ev, o, jobs_of ev o)).
Proof.
  intros Hi [H0 Ha] Henv Hs. destruct (sim_step0 _ _ _ _ _ Hi H0 Ha Henv Hs) as [Hobs H0'].
  split; [exact Hobs|]. split; [exact H0'|]. eapply aux_step; eassumption.
Qed.

Lemma sim_run h : forall (s : state) R, inv1 s -> rel s R -> wf s h = true ->
  spec_from next R (trace next s h).
Proof.
  induction h as [|ev h IH]; intros s R Hi HR Hw; cbn [Model.wf trace] in *; [exact I|].
  apply andb_true_iff in Hw as [Henv Hw].
  destruct (step s ev) as [[s1 o]|] eqn:Hs; [|discriminate].
  destruct (sim_step _ _ _ _ _ Hi HR Henv Hs) as [Hobs HR1].
  cbn [spec_from]. split; [exact Hobs|].
  apply IH; [eapply inv1_step; eassumption|exact HR1|exact Hw].
Qed.

Theorem model_meets_spec : forall t0 h, wf (init t0) h = true ->
  spec_ok next (trace next (init t0) h).
Proof.
  intros t0 h Hw. unfold spec_ok. apply sim_run; [apply inv1_init| |exact Hw].
  unfold rel, rel0, aux.
  cbn [init rinit entries rents running rrun outstanding rout ctxs rctx rgone rhalt rclk rlate].
  split; [|split; discriminate].
  split; [apply Permutation_refl|]. split; [reflexivity|]. split; [reflexivity|].
  split; [reflexivity|]. split; [intros i []|discriminate].
Qed.

End Proofs.
